// Package vstdatomic replaces "sync/atomic" in packages rewritten for the controlled scheduler.
package vstdatomic

import (
	"sync/atomic"

	"github.com/prometheus/prometheus/internal/verif/vsched"
)

func pt(k vsched.Kind, o any) {
	if t := vsched.Self(); t != nil {
		vsched.Point(t, k, o)
	}
}

type Int32 struct{ v atomic.Int32 }

func (a *Int32) Load() int32       { pt(vsched.KAtomicLoad, a); return a.v.Load() }
func (a *Int32) Store(x int32)     { pt(vsched.KAtomicStore, a); a.v.Store(x) }
func (a *Int32) Add(d int32) int32 { pt(vsched.KAtomicRMW, a); return a.v.Add(d) }
func (a *Int32) Swap(x int32) int32 { pt(vsched.KAtomicRMW, a); return a.v.Swap(x) }
func (a *Int32) CompareAndSwap(o, n int32) bool {
	pt(vsched.KAtomicRMW, a)
	return a.v.CompareAndSwap(o, n)
}

type Uint32 struct{ v atomic.Uint32 }

func (a *Uint32) Load() uint32        { pt(vsched.KAtomicLoad, a); return a.v.Load() }
func (a *Uint32) Store(x uint32)      { pt(vsched.KAtomicStore, a); a.v.Store(x) }
func (a *Uint32) Add(d uint32) uint32 { pt(vsched.KAtomicRMW, a); return a.v.Add(d) }
func (a *Uint32) Swap(x uint32) uint32 { pt(vsched.KAtomicRMW, a); return a.v.Swap(x) }
func (a *Uint32) CompareAndSwap(o, n uint32) bool {
	pt(vsched.KAtomicRMW, a)
	return a.v.CompareAndSwap(o, n)
}

type Int64 struct{ v atomic.Int64 }

func (a *Int64) Load() int64       { pt(vsched.KAtomicLoad, a); return a.v.Load() }
func (a *Int64) Store(x int64)     { pt(vsched.KAtomicStore, a); a.v.Store(x) }
func (a *Int64) Add(d int64) int64 { pt(vsched.KAtomicRMW, a); return a.v.Add(d) }
func (a *Int64) Swap(x int64) int64 { pt(vsched.KAtomicRMW, a); return a.v.Swap(x) }
func (a *Int64) CompareAndSwap(o, n int64) bool {
	pt(vsched.KAtomicRMW, a)
	return a.v.CompareAndSwap(o, n)
}

type Uint64 struct{ v atomic.Uint64 }

func (a *Uint64) Load() uint64        { pt(vsched.KAtomicLoad, a); return a.v.Load() }
func (a *Uint64) Store(x uint64)      { pt(vsched.KAtomicStore, a); a.v.Store(x) }
func (a *Uint64) Add(d uint64) uint64 { pt(vsched.KAtomicRMW, a); return a.v.Add(d) }
func (a *Uint64) Swap(x uint64) uint64 { pt(vsched.KAtomicRMW, a); return a.v.Swap(x) }
func (a *Uint64) CompareAndSwap(o, n uint64) bool {
	pt(vsched.KAtomicRMW, a)
	return a.v.CompareAndSwap(o, n)
}

type Bool struct{ v atomic.Bool }

func (a *Bool) Load() bool       { pt(vsched.KAtomicLoad, a); return a.v.Load() }
func (a *Bool) Store(x bool)     { pt(vsched.KAtomicStore, a); a.v.Store(x) }
func (a *Bool) Swap(x bool) bool { pt(vsched.KAtomicRMW, a); return a.v.Swap(x) }
func (a *Bool) CompareAndSwap(o, n bool) bool {
	pt(vsched.KAtomicRMW, a)
	return a.v.CompareAndSwap(o, n)
}

type Value = atomic.Value

type Pointer[T any] struct{ v atomic.Pointer[T] }

func (a *Pointer[T]) Load() *T   { pt(vsched.KAtomicLoad, a); return a.v.Load() }
func (a *Pointer[T]) Store(x *T) { pt(vsched.KAtomicStore, a); a.v.Store(x) }
func (a *Pointer[T]) Swap(x *T) *T { pt(vsched.KAtomicRMW, a); return a.v.Swap(x) }
func (a *Pointer[T]) CompareAndSwap(o, n *T) bool {
	pt(vsched.KAtomicRMW, a)
	return a.v.CompareAndSwap(o, n)
}

func AddInt64(p *int64, d int64) int64     { pt(vsched.KAtomicRMW, p); return atomic.AddInt64(p, d) }
func LoadInt64(p *int64) int64             { pt(vsched.KAtomicLoad, p); return atomic.LoadInt64(p) }
func StoreInt64(p *int64, v int64)         { pt(vsched.KAtomicStore, p); atomic.StoreInt64(p, v) }
func AddUint64(p *uint64, d uint64) uint64 { pt(vsched.KAtomicRMW, p); return atomic.AddUint64(p, d) }
func LoadUint64(p *uint64) uint64          { pt(vsched.KAtomicLoad, p); return atomic.LoadUint64(p) }
func StoreUint64(p *uint64, v uint64)      { pt(vsched.KAtomicStore, p); atomic.StoreUint64(p, v) }
func AddInt32(p *int32, d int32) int32     { pt(vsched.KAtomicRMW, p); return atomic.AddInt32(p, d) }
func LoadInt32(p *int32) int32             { pt(vsched.KAtomicLoad, p); return atomic.LoadInt32(p) }
func StoreInt32(p *int32, v int32)         { pt(vsched.KAtomicStore, p); atomic.StoreInt32(p, v) }
func CompareAndSwapInt64(p *int64, o, n int64) bool {
	pt(vsched.KAtomicRMW, p)
	return atomic.CompareAndSwapInt64(p, o, n)
}
func CompareAndSwapInt32(p *int32, o, n int32) bool {
	pt(vsched.KAtomicRMW, p)
	return atomic.CompareAndSwapInt32(p, o, n)
}
