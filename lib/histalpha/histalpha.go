// Package histalpha holds the histogram-sequence alphabets shared by the C11 (faithful storage)
// and C12 (counter-reset hints) harnesses, which live in several repo packages (tsdb/chunkenc,
// tsdb, storage). An Atom is one histmodel shape in one concrete Go representation (integer or
// float histogram); sequences of atoms are what the harnesses enumerate.
package histalpha

import (
	"fmt"
	"math"
	"strings"

	"github.com/prometheus/prometheus/internal/verif/histmodel"
	"github.com/prometheus/prometheus/model/histogram"
)

// Atom is one letter of the alphabet. I/F are prototypes: never pass them to the code under
// test, use Fresh.
type Atom struct {
	Name  string
	Float bool
	I     *histogram.Histogram
	F     *histogram.FloatHistogram
	M     *histmodel.H // the specification (read-only)
}

// CopyInt is a deep copy that shares nothing (histogram.Copy shares CustomValues).
func CopyInt(h *histogram.Histogram) *histogram.Histogram {
	c := *h
	c.PositiveSpans = append([]histogram.Span(nil), h.PositiveSpans...)
	c.NegativeSpans = append([]histogram.Span(nil), h.NegativeSpans...)
	c.PositiveBuckets = append([]int64(nil), h.PositiveBuckets...)
	c.NegativeBuckets = append([]int64(nil), h.NegativeBuckets...)
	c.CustomValues = append([]float64(nil), h.CustomValues...)
	return &c
}

// CopyFloat is a deep copy that shares nothing.
func CopyFloat(h *histogram.FloatHistogram) *histogram.FloatHistogram {
	c := *h
	c.PositiveSpans = append([]histogram.Span(nil), h.PositiveSpans...)
	c.NegativeSpans = append([]histogram.Span(nil), h.NegativeSpans...)
	c.PositiveBuckets = append([]float64(nil), h.PositiveBuckets...)
	c.NegativeBuckets = append([]float64(nil), h.NegativeBuckets...)
	c.CustomValues = append([]float64(nil), h.CustomValues...)
	return &c
}

// Fresh returns a new object for the atom (exactly one of the results is non-nil).
func (a Atom) Fresh() (*histogram.Histogram, *histogram.FloatHistogram) {
	if a.Float {
		return nil, CopyFloat(a.F)
	}
	return CopyInt(a.I), nil
}

// Buckets is the number of stored bucket slots of the prototype (to notice empty buckets being
// inserted into a caller's object).
func (a Atom) Buckets() int {
	if a.Float {
		return len(a.F.PositiveBuckets) + len(a.F.NegativeBuckets)
	}
	return len(a.I.PositiveBuckets) + len(a.I.NegativeBuckets)
}

func find(shapes []histmodel.Shape, spec string) histmodel.Shape {
	for _, s := range shapes {
		if strings.HasPrefix(s.Name, spec+"/") {
			return s
		}
	}
	panic("histalpha: no shape " + spec)
}

// Derive builds the shape of specification spec (name without the /L suffix) in the given span
// layout; gauge=true turns it into a gauge histogram with the same buckets.
func Derive(shapes []histmodel.Shape, spec string, layout int, gauge bool) histmodel.Shape {
	m := find(shapes, spec).Model.Copy()
	name := fmt.Sprintf("%s/L%d", spec, layout)
	if gauge {
		m.Hint, m.Gauge = histogram.GaugeType, true
		name = "g-" + name
	}
	sh := histmodel.Shape{Name: name, Layout: layout, Exact: true, Model: m, Float: m.ToFloat(layout)}
	if m.Integral() {
		sh.Int = m.ToInt(layout)
	}
	return sh
}

// Atoms expands shapes to atoms: the integer representation (when the counts are integral)
// followed by the float representation.
func Atoms(shapes []histmodel.Shape) []Atom {
	var out []Atom
	for _, s := range shapes {
		if s.Int != nil {
			out = append(out, Atom{Name: s.Name + "/int", I: s.Int, M: s.Model})
		}
		out = append(out, Atom{Name: s.Name + "/float", Float: true, F: s.Float, M: s.Model})
	}
	return out
}

// OnePerShape keeps one atom per shape: the integer one when it exists, else the float one.
func OnePerShape(shapes []histmodel.Shape) []Atom {
	var out []Atom
	for _, s := range shapes {
		if s.Int != nil {
			out = append(out, Atom{Name: s.Name + "/int", I: s.Int, M: s.Model})
		} else {
			out = append(out, Atom{Name: s.Name + "/float", Float: true, F: s.Float, M: s.Model})
		}
	}
	return out
}

// grown returns the specification spec with extra observations: the given bucket increments on
// either side (count grows accordingly), as a new specification called name.
func grown(shapes []histmodel.Shape, spec, name string, pos, neg map[int32]float64, sum float64) histmodel.Shape {
	m := find(shapes, spec).Model.Copy()
	for k, v := range pos {
		m.Pos[k] += v
		m.Count += v
	}
	for k, v := range neg {
		m.Neg[k] += v
		m.Count += v
	}
	m.Sum = sum
	return histmodel.Shape{Name: name + "/L0", Model: m, Float: m.ToFloat(0), Int: m.ToInt(0), Exact: true}
}

// withGrown adds "e06p-s0-both-sides-grown": e06 with one more populated bucket at the far end of
// the positive side and one at the front of the negative side. After e06 in a padded layout it
// needs forward AND backward inserts on both sides.
func withGrown(shapes []histmodel.Shape) []histmodel.Shape {
	return append(shapes, grown(shapes, "e06-s0-both-sides", "e06p-s0-both-sides-grown",
		map[int32]float64{6: 1}, map[int32]float64{0: 1}, 55))
}

// Shifted is "e03s-s0-shifted": the same schema, zero threshold and COUNT as e03-s0-grown
// ({1:2 2:3 3:1}) with one observation moved from bucket 1 to bucket 3 ({1:1 2:3 3:2}): after e03
// it is a counter reset that only a per-bucket comparison can see (no shape pair of the core set
// has a decreasing bucket without a decreasing total count).
func Shifted(shapes []histmodel.Shape) histmodel.Shape {
	m := find(shapes, "e03-s0-grown").Model.Copy()
	m.Pos[1]--
	m.Pos[3]++
	m.Sum = 21
	return histmodel.Shape{Name: "e03s-s0-shifted/L0", Model: m, Float: m.ToFloat(0), Int: m.ToInt(0), Exact: true}
}

// FullShapes is the core histmodel set plus (a) gauge variants that share schema and zero
// threshold (so that gauge chunks are recoded both ways instead of being cut) and (b) padded and
// grown variants of shapes with negative buckets (the core set's round-robin layouts never put a
// stored empty NEGATIVE bucket in front of a compatible successor). Simplest first.
func FullShapes() []histmodel.Shape {
	shapes := withGrown(histmodel.Shapes())
	return append(shapes,
		Derive(shapes, "e04-s0-grown-front", 0, true),
		Derive(shapes, "e05-s0-gap", 1, true),
		Derive(shapes, "e02-s0-two", 2, true),
		Derive(shapes, "e06-s0-both-sides", 1, false),
		Derive(shapes, "e07-s0-neg-only", 1, false),
		Derive(shapes, "e06-s0-both-sides", 3, true),
		Derive(shapes, "e06p-s0-both-sides-grown", 1, true),
		Shifted(shapes))
}

// SmallShapes is the 14-shape alphabet for the deeper bound: shapes that collide with each other
// in every way the chunk appenders distinguish (forward inserts, backward inserts caused by
// stored empty buckets - on the positive and on the negative side -, growth at the front, gaps,
// zero-threshold / schema / bucket-type change, explicit reset hint, staleness marker, gauges
// recoded both ways, custom bounds).
func SmallShapes() []histmodel.Shape {
	s := withGrown(histmodel.Shapes())
	return []histmodel.Shape{
		Derive(s, "e02-s0-two", 1, false),
		Derive(s, "e03-s0-grown", 0, false),
		Derive(s, "e04-s0-grown-front", 2, false),
		Derive(s, "e05-s0-gap", 3, false),
		Derive(s, "e01-zero-only", 0, false),
		Derive(s, "e06-s0-both-sides", 1, false),
		Derive(s, "e06p-s0-both-sides-grown", 0, false),
		Derive(s, "e08-s1", 0, false),
		Derive(s, "e29-stale", 0, false),
		Derive(s, "e04-s0-grown-front", 0, true),
		Derive(s, "e05-s0-gap", 1, true),
		Derive(s, "e32-hint-reset", 0, false),
		Derive(s, "c01", 1, false),
		Derive(s, "c02-grown", 0, false),
	}
}

// Index returns the position of the atom called name, or -1.
func Index(atoms []Atom, name string) int {
	for i, a := range atoms {
		if a.Name == name {
			return i
		}
	}
	return -1
}

// Names maps a sequence of atom indices to atom names (for replay files and messages).
func Names(atoms []Atom, seq []int) []string {
	out := make([]string, len(seq))
	for i, a := range seq {
		out[i] = atoms[a].Name
	}
	return out
}

// Same is a shortcut that is strictly stronger than histmodel.Diff(a, b, 0) == "": identical
// scalars (NaN-aware) and identical bucket maps. When it returns false, Diff decides.
func Same(a, b *histmodel.H) bool {
	feq := func(x, y float64) bool { return x == y || (math.IsNaN(x) && math.IsNaN(y)) }
	if a.Custom != b.Custom || a.Stale != b.Stale || !feq(a.Count, b.Count) || !feq(a.Sum, b.Sum) {
		return false
	}
	if a.Custom {
		if len(a.Bounds) != len(b.Bounds) {
			return false
		}
		for i := range a.Bounds {
			if a.Bounds[i] != b.Bounds[i] {
				return false
			}
		}
	} else if a.Schema != b.Schema || a.ZeroThreshold != b.ZeroThreshold || !feq(a.ZeroCount, b.ZeroCount) {
		return false
	}
	if len(a.Pos) != len(b.Pos) || len(a.Neg) != len(b.Neg) {
		return false
	}
	for k, v := range a.Pos {
		if w, ok := b.Pos[k]; !ok || w != v {
			return false
		}
	}
	for k, v := range a.Neg {
		if w, ok := b.Neg[k]; !ok || w != v {
			return false
		}
	}
	return true
}

// Exp is one expected sample, Got one sample read back (decoded with histmodel.FromInt/FromFloat).
type Exp struct {
	T int64
	M *histmodel.H
}

type Got struct {
	T int64
	M *histmodel.H
}

// Compare is the C11 read-back property: the same timestamps; a staleness marker wherever one was
// appended; otherwise a non-stale histogram semantically equal to the appended one. It returns a
// short class name of what differs ("" when faithful) and a message.
func Compare(exp []Exp, got []Got) (what, msg string) {
	if len(exp) != len(got) {
		return "sample-count", fmt.Sprintf("appended %d samples, read %d", len(exp), len(got))
	}
	for i := range exp {
		if exp[i].T != got[i].T {
			return "timestamp", fmt.Sprintf("sample %d: appended t=%d read t=%d", i, exp[i].T, got[i].T)
		}
		if exp[i].M.Stale {
			if !got[i].M.Stale {
				return "stale-marker-lost", fmt.Sprintf("sample %d (t=%d): appended a staleness marker, read %s", i, exp[i].T, got[i].M)
			}
			continue
		}
		if got[i].M.Stale {
			return "spurious-stale-marker", fmt.Sprintf("sample %d (t=%d): appended %s, read a staleness marker", i, exp[i].T, exp[i].M)
		}
		if Same(exp[i].M, got[i].M) {
			continue
		}
		if d := histmodel.Diff(exp[i].M, got[i].M, 0); d != "" {
			return "histogram-mismatch", fmt.Sprintf("sample %d (t=%d): %s; appended %s read %s", i, exp[i].T, d, exp[i].M, got[i].M)
		}
	}
	return "", ""
}
