package histmodel

import (
	"fmt"
	"math"

	"github.com/prometheus/prometheus/model/histogram"
)

// Shape is one generated valid histogram in all three representations.
type Shape struct {
	Name   string
	Layout int
	// Exact: every count and the sum are integers (or small dyadic fractions) far below 2^53, so
	// sums/differences of a few such shapes are exact in float64 in any order of evaluation.
	Exact bool
	Int   *histogram.Histogram      // nil when the shape has fractional counts
	Float *histogram.FloatHistogram // always set
	Model *H                        // built from the specification, not by decoding Int/Float
}

// NumLayouts is the number of span layout styles understood by ToFloat/ToInt:
//
//	0 compact     one span per maximal run of populated buckets, no empty bucket stored
//	1 padded      runs at most 3 apart joined by explicitly stored empty buckets, plus a leading and
//	              a trailing empty bucket
//	2 fragmented  one span per bucket (adjacent buckets => spans with offset 0)
//	3 zero-length compact, with zero-length spans splitting every offset and one trailing
const NumLayouts = 4

type run struct {
	start int32
	n     int32
}

// layoutRuns returns the spans (as absolute start/length) for the populated indices of m.
// lo/hi bound the usable index range (custom buckets: 0..len(bounds)); zero-length runs have n==0.
func layoutRuns(m map[int32]float64, layout int, lo, hi int32) []run {
	idx := sortedIdx(m)
	if len(idx) == 0 {
		return nil
	}
	var runs []run
	for _, i := range idx {
		if k := len(runs) - 1; k >= 0 && runs[k].start+runs[k].n == i && layout != 2 {
			runs[k].n++
			continue
		}
		runs = append(runs, run{i, 1})
	}
	switch layout {
	case 1:
		var j []run
		for _, r := range runs {
			if k := len(j) - 1; k >= 0 && r.start-(j[k].start+j[k].n) <= 3 {
				j[k].n = r.start + r.n - j[k].start
				continue
			}
			j = append(j, r)
		}
		if j[0].start > lo {
			j[0].start--
			j[0].n++
		}
		if k := len(j) - 1; j[k].start+j[k].n <= hi {
			j[k].n++
		}
		runs = j
	case 3:
		var j []run
		prevEnd := lo
		for k, r := range runs {
			var at int32
			if k == 0 {
				at = r.start - 1 // first span: absolute position of the zero-length span
				if at < lo {
					at = lo
				}
			} else {
				at = prevEnd + (r.start-prevEnd)/2
			}
			j = append(j, run{at, 0}, r)
			prevEnd = r.start + r.n
		}
		if prevEnd+1 <= hi+1 {
			j = append(j, run{prevEnd + 1, 0})
		}
		runs = j
	}
	return runs
}

func runsToSpans(runs []run) []histogram.Span {
	var spans []histogram.Span
	var end int32
	for k, r := range runs {
		off := r.start - end
		if k == 0 {
			off = r.start
		}
		spans = append(spans, histogram.Span{Offset: off, Length: uint32(r.n)})
		end = r.start + r.n
	}
	return spans
}

func (h *H) idxRange() (int32, int32) {
	if h.Custom {
		return 0, int32(len(h.Bounds))
	}
	return math.MinInt32 / 2, math.MaxInt32 / 2
}

func floatSide(m map[int32]float64, layout int, lo, hi int32) ([]histogram.Span, []float64) {
	runs := layoutRuns(m, layout, lo, hi)
	var b []float64
	for _, r := range runs {
		for i := r.start; i < r.start+r.n; i++ {
			b = append(b, m[i])
		}
	}
	return runsToSpans(runs), b
}

func intSide(m map[int32]float64, layout int, lo, hi int32) ([]histogram.Span, []int64) {
	runs := layoutRuns(m, layout, lo, hi)
	var b []int64
	var prev int64
	for _, r := range runs {
		for i := r.start; i < r.start+r.n; i++ {
			v := int64(m[i])
			b = append(b, v-prev)
			prev = v
		}
	}
	return runsToSpans(runs), b
}

// ToFloat materialises the model as a FloatHistogram with the given span layout style.
func (h *H) ToFloat(layout int) *histogram.FloatHistogram {
	lo, hi := h.idxRange()
	fh := &histogram.FloatHistogram{CounterResetHint: h.Hint, Schema: h.Schema, Count: h.Count, Sum: h.Sum}
	if h.Custom {
		fh.Schema = histogram.CustomBucketsSchema
		fh.CustomValues = append([]float64{}, h.Bounds...)
	} else {
		fh.ZeroThreshold, fh.ZeroCount = h.ZeroThreshold, h.ZeroCount
		fh.NegativeSpans, fh.NegativeBuckets = floatSide(h.Neg, layout, lo, hi)
	}
	fh.PositiveSpans, fh.PositiveBuckets = floatSide(h.Pos, layout, lo, hi)
	return fh
}

// Integral reports whether every count is a non-negative integer (so that ToInt is possible).
func (h *H) Integral() bool {
	ok := func(v float64) bool { return v >= 0 && v == math.Trunc(v) && v < 1<<53 }
	if !ok(h.Count) || !ok(h.ZeroCount) {
		return false
	}
	for _, m := range []map[int32]float64{h.Pos, h.Neg} {
		for _, v := range m {
			if !ok(v) {
				return false
			}
		}
	}
	return true
}

// ToInt materialises the model as an integer Histogram (panics unless Integral).
func (h *H) ToInt(layout int) *histogram.Histogram {
	if !h.Integral() {
		panic("histmodel: ToInt on a histogram with fractional or negative counts")
	}
	lo, hi := h.idxRange()
	ih := &histogram.Histogram{CounterResetHint: h.Hint, Schema: h.Schema, Count: uint64(h.Count), Sum: h.Sum}
	if h.Custom {
		ih.Schema = histogram.CustomBucketsSchema
		ih.CustomValues = append([]float64{}, h.Bounds...)
	} else {
		ih.ZeroThreshold, ih.ZeroCount = h.ZeroThreshold, uint64(h.ZeroCount)
		ih.NegativeSpans, ih.NegativeBuckets = intSide(h.Neg, layout, lo, hi)
	}
	ih.PositiveSpans, ih.PositiveBuckets = intSide(h.Pos, layout, lo, hi)
	return ih
}

type bk = map[int32]float64

type spec struct {
	name     string
	schema   int32
	custom   bool
	bounds   []float64
	zt, zc   float64
	pos, neg bk
	extra    float64 // NaN observations: counted in Count but in no bucket (Sum is NaN then)
	sum      float64
	hint     histogram.CounterResetHint
	inexact  bool
}

func specs() []spec {
	tiny := math.Ldexp(1, -128)
	third := 1.0 / 3.0
	const (
		G  = histogram.GaugeType
		CR = histogram.CounterReset
		NR = histogram.NotCounterReset
	)
	return []spec{
		// exponential, simplest first
		{name: "e00-empty", schema: 0},
		{name: "e01-zero-only", schema: 0, zt: 0.001, zc: 3, sum: 0},
		{name: "e01b-s0-one", schema: 0, pos: bk{1: 1}, sum: 1.5},
		{name: "e01c-s0-one-low", schema: 0, pos: bk{0: 4}, sum: 3},
		{name: "e01d-s-1-zt2-empty", schema: -1, zt: 2},
		{name: "e01e-s-1-zt2-zero-only", schema: -1, zt: 2, zc: 1, sum: 1.5},
		{name: "e02-s0-two", schema: 0, pos: bk{1: 1, 2: 2}, sum: 7.5},
		{name: "e03-s0-grown", schema: 0, pos: bk{1: 2, 2: 3, 3: 1}, sum: 17},
		{name: "e03b-s0-grown-more", schema: 0, pos: bk{1: 3, 2: 4, 3: 1}, sum: 22},
		{name: "e04-s0-grown-front", schema: 0, pos: bk{0: 1, 1: 2, 2: 3}, sum: 13},
		{name: "e05-s0-gap", schema: 0, pos: bk{1: 1, 2: 2, 5: 1}, sum: 30},
		{name: "e06-s0-both-sides", schema: 0, zt: 0.001, zc: 1, pos: bk{-2: 1, 4: 2}, neg: bk{1: 1, 2: 1}, sum: 15.5},
		{name: "e07-s0-neg-only", schema: 0, neg: bk{0: 2, 1: 1}, sum: -3},
		{name: "e08-s1", schema: 1, pos: bk{1: 1, 2: 2, 3: 1, 4: 3}, sum: 18},
		{name: "e09-s2", schema: 2, pos: bk{-3: 1, -2: 1, 0: 2, 1: 1, 4: 5}, neg: bk{-3: 2, 5: 1}, sum: 9.25},
		{name: "e10-s3-tiny-zt", schema: 3, zt: tiny, zc: 2, pos: bk{-9: 1, -8: 2, -1: 1, 0: 3, 1: 2, 8: 1, 9: 4}, neg: bk{-8: 1, 0: 1, 17: 2}, sum: 4},
		{name: "e11-s8", schema: 8, pos: bk{1: 1, 256: 2, 257: 1, 512: 3}, neg: bk{-255: 1, -256: 2}, sum: 16},
		{name: "e12-s-1", schema: -1, pos: bk{0: 1, 1: 2}, neg: bk{1: 1}, sum: 3},
		{name: "e13-s-4", schema: -4, pos: bk{0: 1, 1: 1}, neg: bk{1: 2}, sum: -100},
		{name: "e14-s0-zt1", schema: 0, zt: 1, zc: 2, pos: bk{1: 3, 2: 1}, sum: 8},
		{name: "e15-s0-zt2", schema: 0, zt: 2, zc: 5, pos: bk{2: 1, 3: 2}, neg: bk{2: 1}, sum: 12},
		{name: "e15b-s0-zt2-grown", schema: 0, zt: 2, zc: 5, pos: bk{2: 3, 3: 2}, neg: bk{2: 1}, sum: 20},
		{name: "e16-s0-zt1.5", schema: 0, zt: 1.5, zc: 1, pos: bk{2: 2}, sum: 6},
		{name: "e17-s0-zt1.5-overlap", schema: 0, zt: 1.5, zc: 1, pos: bk{1: 1, 2: 2}, neg: bk{1: 2}, sum: 4},
		{name: "e18-s1-zt2", schema: 1, zt: 2, zc: 4, pos: bk{3: 1, 4: 1}, neg: bk{3: 2}, sum: 1},
		{name: "e19-s-1-zt.5-overlap", schema: -1, zt: 0.5, zc: 1, pos: bk{0: 2, 1: 1}, sum: 3.5},
		{name: "e20-s0-zt.5", schema: 0, zt: 0.5, zc: 1, pos: bk{0: 2, 1: 1}, neg: bk{0: 1}, sum: 2},
		{name: "e21-s1-zt1", schema: 1, zt: 1, zc: 1, pos: bk{1: 2, 2: 1, 3: 4}, sum: 14},
		{name: "e22-s2-tiny-zt-edge", schema: 2, zt: tiny, zc: 1, pos: bk{-511: 1, 1: 1}, sum: 1.125},
		{name: "e23-s0-extreme", schema: 0, pos: bk{1024: 1, 1025: 2}, neg: bk{1024: 1}, sum: math.Inf(1)},
		{name: "e23b-s0-extreme-neg", schema: 0, pos: bk{1: 1}, neg: bk{1024: 1, 1025: 4}, sum: math.Inf(-1)},
		{name: "e24-s1-zt1-both", schema: 1, zt: 1, zc: 2, pos: bk{1: 1, 2: 1}, neg: bk{1: 1, 4: 2}, sum: -5},
		{name: "e25-dyadic", schema: 0, zt: 0.001, zc: 0.5, pos: bk{1: 0.5, 2: 1.25}, neg: bk{1: 0.125}, sum: 5.5},
		{name: "e26-fractional", schema: 1, zt: 0.001, zc: 0.1, pos: bk{1: 0.1, 2: third, 3: 0.7}, neg: bk{2: 2.5e-3}, sum: 1.9, inexact: true},
		{name: "e27-huge", schema: 0, pos: bk{1: 1e16, 2: 3}, sum: 1.5e16, inexact: true},
		{name: "e28-nan-sum", schema: 0, pos: bk{1: 1}, extra: 2, sum: math.NaN()},
		{name: "e28b-nan-sum-two", schema: 0, zt: 0.001, zc: 1, pos: bk{1: 1, 2: 2}, neg: bk{1: 1}, extra: 1, sum: math.NaN()},
		{name: "e29-stale", schema: 0, sum: math.Float64frombits(staleNaNBits)},
		{name: "e30-gauge", schema: 0, zt: 0.001, zc: 2, pos: bk{1: 3, 2: 1}, sum: 9, hint: G},
		{name: "e31-gauge-s1", schema: 1, pos: bk{2: 1}, neg: bk{2: 1}, sum: 0, hint: G},
		{name: "e32-hint-reset", schema: 0, pos: bk{1: 1}, sum: 1.5, hint: CR},
		{name: "e34-s-1-zt2", schema: -1, zt: 2, zc: 1, pos: bk{2: 1}, neg: bk{2: 2}, sum: -20},
		{name: "e33-hint-noreset", schema: 0, pos: bk{1: 1, 2: 1}, sum: 4.5, hint: NR},
		// custom buckets
		{name: "c00-empty", custom: true, bounds: []float64{1, 2, 5}},
		{name: "c01", custom: true, bounds: []float64{1, 2, 5}, pos: bk{0: 1, 1: 2, 3: 1}, sum: 14},
		{name: "c02-grown", custom: true, bounds: []float64{1, 2, 5}, pos: bk{0: 2, 1: 2, 2: 1, 3: 1}, sum: 18},
		{name: "c03-superset", custom: true, bounds: []float64{1, 2, 5, 10}, pos: bk{0: 1, 1: 2, 2: 1, 4: 1}, sum: 25},
		{name: "c04-overlapping", custom: true, bounds: []float64{0.5, 2, 10}, pos: bk{0: 1, 1: 3, 2: 2, 3: 1}, sum: 40},
		{name: "c05-disjoint", custom: true, bounds: []float64{3, 7}, pos: bk{0: 4, 2: 1}, sum: 19},
		{name: "c06-no-bounds", custom: true, bounds: []float64{}, pos: bk{0: 3}, sum: 9},
		{name: "c07-negative-bounds", custom: true, bounds: []float64{-5, 0, 5}, pos: bk{0: 1, 1: 2, 2: 2}, sum: -3},
		{name: "c08-gauge", custom: true, bounds: []float64{1, 2, 5}, pos: bk{1: 1}, sum: 1.5, hint: G},
		{name: "c09-dyadic", custom: true, bounds: []float64{1, 2, 5}, pos: bk{0: 0.5, 3: 0.25}, sum: 3},
		{name: "c10-superset-grown", custom: true, bounds: []float64{1, 2, 5, 10}, pos: bk{0: 2, 1: 2, 2: 1, 3: 1, 4: 1}, sum: 30},
	}
}

func (s spec) model() *H {
	h := newH()
	h.Custom, h.Schema = s.custom, s.schema
	if s.custom {
		h.Schema = histogram.CustomBucketsSchema
		h.Bounds = append([]float64{}, s.bounds...)
	}
	h.ZeroThreshold, h.ZeroCount = s.zt, s.zc
	h.Count = s.zc + s.extra
	for k, v := range s.pos {
		h.Pos[k] = v
	}
	for k, v := range s.neg {
		h.Neg[k] = v
	}
	for _, k := range sortedIdx(h.Pos) {
		h.Count += h.Pos[k]
	}
	for _, k := range sortedIdx(h.Neg) {
		h.Count += h.Neg[k]
	}
	h.Sum = s.sum
	h.Stale = math.Float64bits(s.sum) == staleNaNBits
	h.Hint = s.hint
	h.Gauge = s.hint == histogram.GaugeType
	return h
}

func shape(s spec, layout int) Shape {
	m := s.model()
	sh := Shape{Name: fmt.Sprintf("%s/L%d", s.name, layout), Layout: layout, Exact: !s.inexact, Model: m, Float: m.ToFloat(layout)}
	if m.Integral() {
		sh.Int = m.ToInt(layout)
	}
	return sh
}

// Shapes returns the core set (every specification once, layouts assigned round-robin, plus a
// few specifications in a second layout): about 50 shapes, simplest first.
func Shapes() []Shape {
	var out []Shape
	ss := specs()
	for i, s := range ss {
		out = append(out, shape(s, i%NumLayouts))
	}
	for i, s := range ss {
		if i%8 == 2 {
			out = append(out, shape(s, (i+2)%NumLayouts))
		}
	}
	return out
}

// ShapesAll returns every specification in every layout style.
func ShapesAll() []Shape {
	var out []Shape
	for l := 0; l < NumLayouts; l++ {
		for _, s := range specs() {
			out = append(out, shape(s, l))
		}
	}
	return out
}
