// Package histmodel is the deliberately boring reference model of a native histogram used by
// the /verif harnesses (C31 arithmetic, C11 chunk round trips, C12 counter-reset hints, ...).
// It imports model/histogram only (never tsdb / promql) and is written from the property
// statements and the documentation of the histogram types, not from the implementation.
//
// API (keep it this small):
//
//	type H                      a histogram as plain data: Custom?, Schema | Bounds, ZeroThreshold,
//	                            ZeroCount, Pos/Neg map[bucket index]count (absolute counts, empty
//	                            buckets never stored), Count, Sum, Stale, Gauge, Hint
//	FromInt(*histogram.Histogram) *H          decode (delta buckets -> absolute counts per index)
//	FromFloat(*histogram.FloatHistogram) *H   decode
//	Diff(a, b *H, tol float64) string         "" when semantically equal: same bucket type/schema/
//	                                          bounds/zero threshold and the same zero count, count, sum
//	                                          and per-bucket counts (span layout and empty buckets are
//	                                          invisible by construction). tol==0: exact (NaN==NaN),
//	                                          else |x-y| <= tol*max(|x|,|y|,1). Hints are NOT compared
//	                                          (compare a.Hint / a.Gauge yourself when you need them).
//	(*H).Copy, (*H).String, (*H).Populated    helpers
//	(*H).Reduce(target int32) *H              resolution reduction of an exponential histogram
//	Add(a, b) / Sub(a, b) (*H, error)         C31 arithmetic (lower resolution, wider zero bucket,
//	                                          custom bounds intersected)
//	DetectReset(cur, prev *H) bool            C31 counter-reset rule (with the documented hint shortcuts)
//	Bound(schema, idx) float64                upper bound of bucket idx: 2^(idx*2^-schema)
//	Shapes() / ShapesAll() []Shape            ~45 / a few hundred valid histograms, each as
//	                                          *histogram.Histogram (nil when counts are fractional),
//	                                          *histogram.FloatHistogram and the model *H built directly
//	                                          from the shape's specification. Fresh objects on every call.
//
// Validity rules the shapes obey (what "valid histogram" means here): Validate() passes; no
// populated bucket lies entirely inside the histogram's own zero bucket (the zero bucket MAY cut
// through its first populated bucket: the zero threshold is an arbitrary float); integer shapes
// have Count == sum of all buckets unless Sum is NaN.
//
// Numerical note: Bound is exact for boundaries that are powers of two (idx*2^-schema integral)
// and within an ulp or two of the implementation's table otherwise, therefore no shape uses a
// zero threshold that is near a non-power-of-two boundary.
package histmodel

import (
	"errors"
	"fmt"
	"math"
	"sort"
	"strings"

	"github.com/prometheus/prometheus/model/histogram"
)

const staleNaNBits uint64 = 0x7ff0000000000002

// H is the model histogram. Pos/Neg never contain entries with count 0.
type H struct {
	Custom        bool
	Schema        int32     // exponential schema; meaningless when Custom
	Bounds        []float64 // custom upper bounds (bucket i has upper bound Bounds[i]; bucket len(Bounds) is +Inf)
	ZeroThreshold float64
	ZeroCount     float64
	Pos, Neg      map[int32]float64
	Count, Sum    float64
	Stale         bool // Sum carries the stale marker bit pattern
	Gauge         bool // Hint == GaugeType
	Hint          histogram.CounterResetHint
}

func newH() *H { return &H{Pos: map[int32]float64{}, Neg: map[int32]float64{}} }

// FromFloat decodes a FloatHistogram (absolute bucket counts laid out by spans).
func FromFloat(fh *histogram.FloatHistogram) *H {
	h := newH()
	h.Custom = fh.Schema == histogram.CustomBucketsSchema
	h.Schema = fh.Schema
	h.Count, h.Sum = fh.Count, fh.Sum
	h.Stale = math.Float64bits(fh.Sum) == staleNaNBits
	h.Hint = fh.CounterResetHint
	h.Gauge = fh.CounterResetHint == histogram.GaugeType
	if h.Custom {
		h.Bounds = append([]float64{}, fh.CustomValues...)
	} else {
		h.ZeroThreshold, h.ZeroCount = fh.ZeroThreshold, fh.ZeroCount
		decodeFloat(h.Neg, fh.NegativeSpans, fh.NegativeBuckets)
	}
	decodeFloat(h.Pos, fh.PositiveSpans, fh.PositiveBuckets)
	return h
}

func decodeFloat(m map[int32]float64, spans []histogram.Span, buckets []float64) {
	idx, k := int32(0), 0
	for _, s := range spans {
		idx += s.Offset
		for j := uint32(0); j < s.Length; j++ {
			if k < len(buckets) && buckets[k] != 0 {
				m[idx] += buckets[k]
			}
			idx++
			k++
		}
	}
}

// FromInt decodes an integer Histogram (delta-encoded buckets).
func FromInt(ih *histogram.Histogram) *H {
	h := newH()
	h.Custom = ih.Schema == histogram.CustomBucketsSchema
	h.Schema = ih.Schema
	h.Count, h.Sum = float64(ih.Count), ih.Sum
	h.Stale = math.Float64bits(ih.Sum) == staleNaNBits
	h.Hint = ih.CounterResetHint
	h.Gauge = ih.CounterResetHint == histogram.GaugeType
	if h.Custom {
		h.Bounds = append([]float64{}, ih.CustomValues...)
	} else {
		h.ZeroThreshold, h.ZeroCount = ih.ZeroThreshold, float64(ih.ZeroCount)
		decodeInt(h.Neg, ih.NegativeSpans, ih.NegativeBuckets)
	}
	decodeInt(h.Pos, ih.PositiveSpans, ih.PositiveBuckets)
	return h
}

func decodeInt(m map[int32]float64, spans []histogram.Span, deltas []int64) {
	idx, k := int32(0), 0
	var abs int64
	for _, s := range spans {
		idx += s.Offset
		for j := uint32(0); j < s.Length; j++ {
			if k < len(deltas) {
				abs += deltas[k]
				if abs != 0 {
					m[idx] += float64(abs)
				}
			}
			idx++
			k++
		}
	}
}

func (h *H) Copy() *H {
	c := *h
	c.Bounds = append([]float64{}, h.Bounds...)
	c.Pos, c.Neg = map[int32]float64{}, map[int32]float64{}
	for k, v := range h.Pos {
		c.Pos[k] = v
	}
	for k, v := range h.Neg {
		c.Neg[k] = v
	}
	return &c
}

// Populated is the number of stored (non-zero) buckets, the zero bucket included.
func (h *H) Populated() int {
	n := len(h.Pos) + len(h.Neg)
	if h.ZeroCount != 0 {
		n++
	}
	return n
}

func sortedIdx(m map[int32]float64) []int32 {
	ks := make([]int32, 0, len(m))
	for k := range m {
		ks = append(ks, k)
	}
	sort.Slice(ks, func(i, j int) bool { return ks[i] < ks[j] })
	return ks
}

// String is canonical (usable as a de-duplication key).
func (h *H) String() string {
	var sb strings.Builder
	if h.Custom {
		fmt.Fprintf(&sb, "custom%v", h.Bounds)
	} else {
		fmt.Fprintf(&sb, "s%d zt=%g zc=%g", h.Schema, h.ZeroThreshold, h.ZeroCount)
	}
	fmt.Fprintf(&sb, " n=%g sum=%g hint=%d +{", h.Count, h.Sum, h.Hint)
	for _, k := range sortedIdx(h.Pos) {
		fmt.Fprintf(&sb, "%d:%g ", k, h.Pos[k])
	}
	sb.WriteString("} -{")
	for _, k := range sortedIdx(h.Neg) {
		fmt.Fprintf(&sb, "%d:%g ", k, h.Neg[k])
	}
	sb.WriteString("}")
	return sb.String()
}

func closeEnough(x, y, tol float64) bool {
	if math.IsNaN(x) || math.IsNaN(y) {
		return math.IsNaN(x) && math.IsNaN(y)
	}
	if x == y {
		return true
	}
	if tol == 0 || math.IsInf(x, 0) || math.IsInf(y, 0) {
		return false
	}
	return math.Abs(x-y) <= tol*math.Max(1, math.Max(math.Abs(x), math.Abs(y)))
}

// Diff returns "" when a and b are semantically equal, else a description of the first difference.
func Diff(a, b *H, tol float64) string {
	if a.Custom != b.Custom {
		return fmt.Sprintf("bucket type: custom=%v vs custom=%v", a.Custom, b.Custom)
	}
	if a.Custom {
		if len(a.Bounds) != len(b.Bounds) {
			return fmt.Sprintf("custom bounds %v vs %v", a.Bounds, b.Bounds)
		}
		for i := range a.Bounds {
			if a.Bounds[i] != b.Bounds[i] {
				return fmt.Sprintf("custom bounds %v vs %v", a.Bounds, b.Bounds)
			}
		}
	} else {
		if a.Schema != b.Schema {
			return fmt.Sprintf("schema %d vs %d", a.Schema, b.Schema)
		}
		if a.ZeroThreshold != b.ZeroThreshold {
			return fmt.Sprintf("zero threshold %g vs %g", a.ZeroThreshold, b.ZeroThreshold)
		}
		if !closeEnough(a.ZeroCount, b.ZeroCount, tol) {
			return fmt.Sprintf("zero count %g vs %g", a.ZeroCount, b.ZeroCount)
		}
	}
	if !closeEnough(a.Count, b.Count, tol) {
		return fmt.Sprintf("count %g vs %g", a.Count, b.Count)
	}
	if !closeEnough(a.Sum, b.Sum, tol) {
		return fmt.Sprintf("sum %g vs %g", a.Sum, b.Sum)
	}
	if a.Stale != b.Stale {
		return fmt.Sprintf("stale %v vs %v", a.Stale, b.Stale)
	}
	for side, pair := range [2][2]map[int32]float64{{a.Pos, b.Pos}, {a.Neg, b.Neg}} {
		name := [2]string{"positive", "negative"}[side]
		seen := map[int32]bool{}
		for _, m := range pair {
			for _, k := range sortedIdx(m) {
				if seen[k] {
					continue
				}
				seen[k] = true
				if !closeEnough(pair[0][k], pair[1][k], tol) {
					return fmt.Sprintf("%s bucket %d: %g vs %g", name, k, pair[0][k], pair[1][k])
				}
			}
		}
	}
	return ""
}

// Bound is the upper bound of exponential bucket idx in the given schema, 2^(idx * 2^-schema),
// with the documented special cases: 2^1024 is represented by MaxFloat64 (last regular bucket),
// anything above is +Inf (overflow bucket).
func Bound(schema, idx int32) float64 {
	x := float64(idx) * math.Ldexp(1, int(-schema))
	switch {
	case x == 1024:
		return math.MaxFloat64
	case x > 1024:
		return math.Inf(1)
	case x == math.Trunc(x):
		return math.Ldexp(1, int(x))
	}
	return math.Exp2(x)
}

func ceilDiv(i int32, d int32) int32 {
	q := i / d
	if i%d != 0 && i > 0 {
		q++
	}
	return q
}

// Reduce returns the histogram at the lower resolution target (<= h.Schema): bucket j of the
// target schema covers exactly the source buckets i with ceil(i / 2^(h.Schema-target)) == j.
func (h *H) Reduce(target int32) *H {
	if h.Custom {
		panic("histmodel: Reduce on custom buckets")
	}
	if target > h.Schema {
		panic("histmodel: Reduce to a higher resolution")
	}
	r := h.Copy()
	r.Schema = target
	f := int32(1) << uint(h.Schema-target)
	r.Pos, r.Neg = map[int32]float64{}, map[int32]float64{}
	for _, k := range sortedIdx(h.Pos) {
		r.Pos[ceilDiv(k, f)] += h.Pos[k]
	}
	for _, k := range sortedIdx(h.Neg) {
		r.Neg[ceilDiv(k, f)] += h.Neg[k]
	}
	dropZeros(r)
	return r
}

func dropZeros(h *H) {
	for k, v := range h.Pos {
		if v == 0 {
			delete(h.Pos, k)
		}
	}
	for k, v := range h.Neg {
		if v == 0 {
			delete(h.Neg, k)
		}
	}
}

// cuts reports the upper bound (absolute value) of a populated bucket of h that the threshold t
// cuts through (lower < t < upper), or 0.
func cuts(h *H, t float64) float64 {
	for _, m := range []map[int32]float64{h.Pos, h.Neg} {
		for _, k := range sortedIdx(m) {
			lo, up := Bound(h.Schema, k-1), Bound(h.Schema, k)
			if lo < t && t < up {
				return up
			}
		}
	}
	return 0
}

// widen returns h with its zero bucket widened to t >= h.ZeroThreshold: every bucket that lies
// within [-t, t] is merged into the zero bucket. t must not cut through a populated bucket.
func widen(h *H, t float64) *H {
	r := h.Copy()
	if t == h.ZeroThreshold {
		return r
	}
	r.ZeroThreshold = t
	for _, m := range []map[int32]float64{r.Pos, r.Neg} {
		for _, k := range sortedIdx(m) {
			if Bound(h.Schema, k) <= t {
				r.ZeroCount += m[k]
				delete(m, k)
			}
		}
	}
	return r
}

// CommonThreshold is the smallest zero threshold >= both thresholds such that widening either
// zero bucket to it does not cut through a populated bucket of the widened histogram.
func CommonThreshold(a, b *H) float64 {
	t := math.Max(a.ZeroThreshold, b.ZeroThreshold)
	for changed := true; changed; {
		changed = false
		for _, x := range []*H{a, b} {
			if x.ZeroThreshold < t {
				if up := cuts(x, t); up != 0 {
					t = up
					changed = true
				}
			}
		}
	}
	return t
}

var ErrIncompatible = errors.New("histmodel: exponential and custom bucket histograms cannot be combined")

// intersect returns the bounds present in both (sorted) slices.
func intersect(a, b []float64) []float64 {
	var out []float64
	for _, x := range a {
		for _, y := range b {
			if x == y {
				out = append(out, x)
			}
		}
	}
	return out
}

// remap moves the buckets of a custom-bucket histogram onto the coarser bounds to (a subset of
// h.Bounds): a source bucket goes to the target bucket with the smallest upper bound >= its own.
func remap(h *H, to []float64) *H {
	r := h.Copy()
	r.Bounds = append([]float64{}, to...)
	r.Pos = map[int32]float64{}
	for _, k := range sortedIdx(h.Pos) {
		up := math.Inf(1)
		if int(k) < len(h.Bounds) {
			up = h.Bounds[k]
		}
		j := int32(len(to))
		for i, tb := range to {
			if tb >= up {
				j = int32(i)
				break
			}
		}
		r.Pos[j] += h.Pos[k]
	}
	dropZeros(r)
	return r
}

// Align brings two compatible histograms to the common layout of C31: lower resolution and wider
// zero bucket for exponential buckets, intersection of the bounds for custom buckets.
func Align(a, b *H) (*H, *H, error) {
	if a.Custom != b.Custom {
		return nil, nil, ErrIncompatible
	}
	if a.Custom {
		in := intersect(a.Bounds, b.Bounds)
		return remap(a, in), remap(b, in), nil
	}
	t := CommonThreshold(a, b)
	s := a.Schema
	if b.Schema < s {
		s = b.Schema
	}
	return widen(a, t).Reduce(s), widen(b, t).Reduce(s), nil
}

func combine(a, b *H, sign float64) (*H, error) {
	x, y, err := Align(a, b)
	if err != nil {
		return nil, err
	}
	x.ZeroCount += sign * y.ZeroCount
	x.Count += sign * y.Count
	x.Sum += sign * y.Sum
	x.Stale = false
	for _, k := range sortedIdx(y.Pos) {
		x.Pos[k] += sign * y.Pos[k]
	}
	for _, k := range sortedIdx(y.Neg) {
		x.Neg[k] += sign * y.Neg[k]
	}
	dropZeros(x)
	return x, nil
}

// Add is bucket-wise addition after alignment. The hint of the result is not modelled.
func Add(a, b *H) (*H, error) { return combine(a, b, 1) }

// Sub is bucket-wise subtraction after alignment.
func Sub(a, b *H) (*H, error) { return combine(a, b, -1) }

// DetectReset is the C31 rule: reset iff the bucket type changed, the resolution increased, the
// zero threshold decreased or (having grown) now cuts through a populated bucket of prev, or after
// alignment the count, the zero count or some bucket count decreased. cur's hint CounterReset /
// NotCounterReset short-cuts the answer as documented on FloatHistogram.DetectReset.
func DetectReset(cur, prev *H) bool {
	switch cur.Hint {
	case histogram.CounterReset:
		return true
	case histogram.NotCounterReset:
		return false
	}
	if cur.Custom != prev.Custom {
		return true
	}
	if cur.Count < prev.Count {
		return true
	}
	var c, p *H
	if cur.Custom {
		in := intersect(cur.Bounds, prev.Bounds)
		c, p = remap(cur, in), remap(prev, in)
	} else {
		if cur.Schema > prev.Schema || cur.ZeroThreshold < prev.ZeroThreshold {
			return true
		}
		if cur.ZeroThreshold > prev.ZeroThreshold && cuts(prev, cur.ZeroThreshold) != 0 {
			return true
		}
		c = cur
		p = widen(prev, cur.ZeroThreshold).Reduce(cur.Schema)
		if c.ZeroCount < p.ZeroCount {
			return true
		}
	}
	for k, v := range p.Pos {
		if c.Pos[k] < v {
			return true
		}
	}
	for k, v := range p.Neg {
		if c.Neg[k] < v {
			return true
		}
	}
	return false
}
