package vsched

import "runtime/debug"

// UncontrolledPanic, when set (engine E5: rewritten package running WITHOUT the scheduler inside
// a synctest bubble), receives a panic raised on a goroutine that the rewritten code started
// with a plain go statement, instead of the process dying: the harness reports it as a
// violation of the code under test. Default nil: a plain go statement, as before.
var UncontrolledPanic func(v any, stack []byte)

func goUncontrolled(f func()) {
	h := UncontrolledPanic
	if h == nil {
		go f()
		return
	}
	go func() {
		defer func() {
			if x := recover(); x != nil {
				h(x, debug.Stack())
			}
		}()
		f()
	}()
}
