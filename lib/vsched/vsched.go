// Package vsched is the controlled cooperative scheduler of engine E2 (DESIGN §3).
//
// Controlled threads are real goroutines, but exactly one of them runs at a time; every
// synchronisation operation of the rewritten packages (lock, unlock, atomic op, cond, waitgroup,
// once, sleep, spawn, exit) is a scheduling point at which the scheduler may hand the baton to
// another enabled thread. An execution is therefore a deterministic function of the list of
// choices taken at the points where more than one option exists; Explore enumerates those lists
// depth-first with a bound on the number of preemptions (iterative context bounding).
//
// Goroutines that are not controlled (set-up code, goroutines started outside an execution)
// see the shims behave like the plain primitives.
package vsched

import (
	"fmt"
	"os"
	"runtime"
	"strings"
	"sync"
	"sync/atomic"
	"time"
)

// ---- threads ---------------------------------------------------------------------------------

type Thread struct {
	ID      int
	Name    string
	goid    uint64
	wake    chan struct{}
	done    bool
	blocked any   // object the thread waits for (nil = not blocked)
	spin    int64 // step counter value when the thread started spinning (-1 = not spinning)
	// loop detection for busy-wait loops on atomics
	lastObj  any
	lastKind Kind
	repeat   int
	// free-running mode (race pass): closed when the goroutine has finished
	plainDone chan struct{}
}

type Kind uint8

const (
	KLock Kind = iota
	KUnlock
	KRLock
	KRUnlock
	KAtomicLoad
	KAtomicStore
	KAtomicRMW
	KCondWait
	KCondSignal
	KWGAdd
	KWGWait
	KOnce
	KSleep
	KSpawn
	KExit
	KBlocked
	KYield
	KEvent
)

var kindNames = [...]string{"Lock", "Unlock", "RLock", "RUnlock", "Load", "Store", "RMW", "CondWait", "CondSignal", "WGAdd", "WGWait", "Once", "Sleep", "Spawn", "Exit", "Blocked", "Yield", "Event"}

func (k Kind) String() string { return kindNames[k] }

// PointRec is one scheduling point of an execution.
type PointRec struct {
	Thread     int
	Kind       Kind
	Obj        int   // per-execution object id (order of first touch); -1 = none
	Enabled    []int // enabled thread ids in canonical order (running thread first if enabled)
	CurEnabled bool  // the running thread was itself enabled (switching away = preemption)
	Chosen     int   // index into Enabled
}

type execution struct {
	threads  []*Thread
	byGoid   map[uint64]*Thread
	cur      *Thread
	points   []PointRec
	prefix   []int // choices to replay (indices into Enabled)
	objIDs   map[any]int
	steps    int64
	horizon  int64
	finished chan struct{}
	fail     string // tool-level failure (divergence, horizon, deadlock)
	deadlock bool
	livelock bool
	events   []string
	expect   []PointRec // recorded points of the parent execution for divergence checking
	nthreads int
	retries  int
}

func (e *execution) anyBlocked(cur *Thread) bool {
	for _, x := range e.threads {
		if !x.done && x.blocked != nil {
			return true
		}
	}
	return false
}

var (
	mu     sync.Mutex // protects ex pointer swap only
	ex     *execution
	active atomic.Bool
)

// Self returns the controlled thread the caller runs on, or nil.
func Self() *Thread {
	if !active.Load() {
		return nil
	}
	e := ex
	if e == nil {
		return nil
	}
	t := e.cur
	if t != nil && t.goid == runtime.VerifGoid() {
		return t
	}
	return nil
}

func (e *execution) objID(o any) int {
	if o == nil {
		return -1
	}
	id, ok := e.objIDs[o]
	if !ok {
		id = len(e.objIDs)
		e.objIDs[o] = id
	}
	return id
}

func (e *execution) enabledList(cur *Thread, curEnabled bool) []int {
	var l []int
	if curEnabled {
		l = append(l, cur.ID)
	}
	for _, t := range e.threads {
		if t == cur && curEnabled {
			continue
		}
		if t == cur || t.done || t.blocked != nil {
			continue
		}
		if t.spin >= 0 && t.spin == e.steps {
			continue // spinning and nobody made a step since
		}
		l = append(l, t.ID)
	}
	return l
}

// point is called by the running thread before a visible operation (curEnabled=true) or when it
// cannot continue (blocked / exiting / spinning: curEnabled=false).
func (e *execution) point(t *Thread, k Kind, obj any, curEnabled bool) {
	if e.fail != "" {
		// the execution is being torn down: let everything run free
		return
	}
	e.steps++
	if e.steps > e.horizon {
		e.abort(fmt.Sprintf("horizon of %d steps exceeded (thread %d %s at %s)", e.horizon, t.ID, t.Name, k))
		return
	}
	// busy-wait detection: the same thread repeating the same load on the same object
	if curEnabled && (k == KAtomicLoad || k == KYield) {
		if t.lastObj == obj && t.lastKind == k {
			t.repeat++
		} else {
			t.lastObj, t.lastKind, t.repeat = obj, k, 0
		}
		if t.repeat >= 8 {
			t.repeat = 0
			t.spin = e.steps
			curEnabled = false
		}
	} else if curEnabled {
		t.lastObj, t.repeat = nil, 0
	}
	en := e.enabledList(t, curEnabled)
	for len(en) == 0 && e.retries < 40 && e.anyBlocked(t) {
		// Possibly a lock held by a goroutine the scheduler does not control: give real time a
		// chance, then let every blocked thread re-test its condition.
		e.retries++
		time.Sleep(2 * time.Millisecond)
		for _, x := range e.threads {
			if x != t && x.blocked != nil {
				x.blocked = nil
			}
		}
		if t.blocked != nil && !curEnabled && k == KBlocked {
			en = append(e.enabledList(t, false), t.ID)
		} else {
			en = e.enabledList(t, curEnabled)
		}
	}
	if len(en) == 0 {
		// nobody can run: spinners only => livelock; else deadlock
		spinners := false
		for _, x := range e.threads {
			if !x.done && x.spin >= 0 {
				spinners = true
			}
		}
		if k == KExit {
			allDone := true
			for _, x := range e.threads {
				if !x.done {
					allDone = false
				}
			}
			if allDone {
				e.points = append(e.points, PointRec{Thread: t.ID, Kind: k, Obj: -1})
				close(e.finished)
				return
			}
		}
		if spinners {
			e.livelock = true
			e.abort("livelock: only sleeping/polling threads remain and none can make progress: " + e.describe())
		} else {
			e.deadlock = true
			e.abort("deadlock: no enabled thread: " + e.describe())
		}
		return
	}
	idx := len(e.points)
	choice := 0
	if idx < len(e.prefix) {
		choice = e.prefix[idx]
		if choice >= len(en) {
			e.abort(fmt.Sprintf("replay divergence at point %d: choice %d but only %d enabled", idx, choice, len(en)))
			return
		}
	}
	rec := PointRec{Thread: t.ID, Kind: k, Obj: e.objID(obj), Enabled: en, CurEnabled: curEnabled, Chosen: choice}
	if idx < len(e.expect) && idx < len(e.prefix) {
		x := e.expect[idx]
		if x.Thread != rec.Thread || x.Kind != rec.Kind || x.Obj != rec.Obj || len(x.Enabled) != len(rec.Enabled) {
			e.abort(fmt.Sprintf("replay divergence at point %d: recorded (T%d %s obj%d, %d enabled) now (T%d %s obj%d, %d enabled)", idx, x.Thread, x.Kind, x.Obj, len(x.Enabled), rec.Thread, rec.Kind, rec.Obj, len(rec.Enabled)))
			return
		}
	}
	e.points = append(e.points, rec)
	next := e.threads[en[choice]]
	if next == t {
		return
	}
	if next.spin >= 0 {
		next.spin = -1
	}
	e.cur = next
	next.wake <- struct{}{}
	if k == KExit {
		return
	}
	<-t.wake
	if t.spin >= 0 {
		t.spin = -1
	}
}

func (e *execution) describe() string {
	var sb strings.Builder
	for _, t := range e.threads {
		st := "runnable"
		switch {
		case t.done:
			st = "done"
		case t.blocked != nil:
			st = fmt.Sprintf("blocked on obj%d(%T)", e.objID(t.blocked), t.blocked)
		case t.spin >= 0:
			st = "polling"
		}
		fmt.Fprintf(&sb, "T%d(%s):%s ", t.ID, t.Name, st)
	}
	return sb.String()
}

// abort ends the controlled execution: all threads are released to run freely (the shims fall
// back to plain behaviour because active is cleared), so goroutines can unwind.
func (e *execution) abort(msg string) {
	if e.fail == "" {
		e.fail = msg
	}
	active.Store(false)
	for _, t := range e.threads {
		select {
		case t.wake <- struct{}{}:
		default:
		}
	}
	select {
	case <-e.finished:
	default:
		close(e.finished)
	}
}

// ---- API used by the shims ---------------------------------------------------------------------

// Point is a scheduling point before a visible operation on obj.
func Point(t *Thread, k Kind, obj any) { ex.point(t, k, obj, true) }

// Block marks the running thread as waiting for obj and hands over; it returns when the thread
// is scheduled again (the caller re-tests its condition).
func Block(t *Thread, obj any) {
	e := ex
	t.blocked = obj
	e.point(t, KBlocked, obj, false)
	t.blocked = nil
}

// Wake makes every thread blocked on obj enabled again.
func Wake(obj any) {
	e := ex
	if e == nil {
		return
	}
	for _, t := range e.threads {
		if t.blocked == obj {
			t.blocked = nil
		}
	}
}

// WakeOne wakes the lowest-id thread blocked on obj; returns false if none.
func WakeOne(obj any) bool {
	e := ex
	if e == nil {
		return false
	}
	for _, t := range e.threads {
		if t.blocked == obj {
			t.blocked = nil
			return true
		}
	}
	return false
}

// Sleep replaces time.Sleep in rewritten packages: inside polling loops the sleeping thread is
// not schedulable again until some other thread has made a step.
func Sleep(d time.Duration) {
	t := Self()
	if t == nil {
		time.Sleep(d)
		return
	}
	e := ex
	t.spin = e.steps + 1 // point() increments steps first
	e.point(t, KSleep, nil, false)
}

// Yield is an explicit scheduling point (used by harness code).
func Yield() {
	if t := Self(); t != nil {
		ex.point(t, KYield, nil, true)
	}
}

// Event records a harness-level observation in the execution trace (and is a scheduling point).
func Event(s string) {
	if t := Self(); t != nil {
		e := ex
		e.events = append(e.events, fmt.Sprintf("T%d:%s", t.ID, s))
	}
}

// Go starts f on a new controlled thread when called from a controlled thread; otherwise it
// is a plain go statement.
func Go(f func()) {
	if Self() == nil {
		goUncontrolled(f) // rewritten `go` statements outside a controlled run stay plain goroutines (see uncontrolled.go)
		return
	}
	GoNamed("", f)
}

var plainWG sync.WaitGroup

// GoNamed is Go with a thread name; it returns the new controlled thread (nil when the caller
// is not controlled) so that the harness can WaitFor it.
func GoNamed(name string, f func()) *Thread {
	t := Self()
	if t == nil {
		// free-running mode (race pass): a real goroutine that Join/WaitFor wait for
		nt := &Thread{ID: -1, Name: name, plainDone: make(chan struct{})}
		plainWG.Add(1)
		go func() {
			defer plainWG.Done()
			defer close(nt.plainDone)
			f()
		}()
		return nt
	}
	e := ex
	nt := &Thread{ID: len(e.threads), Name: name, wake: make(chan struct{}, 1), spin: -1}
	e.threads = append(e.threads, nt)
	started := make(chan struct{})
	go func() {
		nt.goid = runtime.VerifGoid()
		close(started)
		<-nt.wake
		defer e.exit(nt)
		f()
	}()
	<-started
	e.point(t, KSpawn, nil, true)
	return nt
}

// WaitFor blocks the calling controlled thread until the given threads have finished.
func WaitFor(ts ...*Thread) {
	t := Self()
	if t == nil {
		// free-running mode: wait for exactly the given goroutines (the caller may itself be one
		// that GoNamed started, so waiting for all of them would wait for itself)
		if len(ts) == 0 {
			plainWG.Wait()
			return
		}
		for _, x := range ts {
			if x != nil && x.plainDone != nil {
				<-x.plainDone
			}
		}
		return
	}
	e := ex
	for _, x := range ts {
		for x != nil && !x.done && e.fail == "" {
			Block(t, x)
		}
	}
}

func (e *execution) exit(t *Thread) {
	if r := recover(); r != nil {
		buf := make([]byte, 1<<14)
		n := runtime.Stack(buf, false)
		e.abort(fmt.Sprintf("panic in T%d(%s): %v\n%s", t.ID, t.Name, r, buf[:n]))
		t.done = true
		return
	}
	t.done = true
	if e.fail != "" || !active.Load() {
		return
	}
	Wake(t) // joiners
	e.point(t, KExit, nil, false)
}

// Join blocks the calling controlled thread until all threads started so far with an id greater
// than the caller's have finished.
func Join() {
	t := Self()
	if t == nil {
		plainWG.Wait()
		return
	}
	e := ex
	for {
		pending := (*Thread)(nil)
		for _, x := range e.threads {
			if x.ID > t.ID && !x.done {
				pending = x
				break
			}
		}
		if pending == nil || e.fail != "" {
			return
		}
		Block(t, pending)
	}
}

// ---- running one execution ------------------------------------------------------------------

type Trace struct {
	Points   []PointRec
	Events   []string
	Fail     string // tool-level failure or deadlock/livelock/panic description
	Deadlock bool
	Livelock bool
	Threads  int
	Steps    int64
}

// Run executes body on controlled thread 0 following the given choice prefix (then always choice
// 0). expect (optional) are the recorded points of the execution the prefix was taken from.
func Run(body func(), prefix []int, expect []PointRec, horizon int64) Trace {
	e := &execution{byGoid: map[uint64]*Thread{}, objIDs: map[any]int{}, prefix: prefix, expect: expect, horizon: horizon, finished: make(chan struct{})}
	t0 := &Thread{ID: 0, Name: "main", wake: make(chan struct{}, 1), spin: -1}
	e.threads = []*Thread{t0}
	e.cur = t0
	mu.Lock()
	ex = e
	active.Store(true)
	mu.Unlock()
	started := make(chan struct{})
	go func() {
		t0.goid = runtime.VerifGoid()
		close(started)
		<-t0.wake
		defer e.exit(t0)
		body()
	}()
	<-started
	t0.wake <- struct{}{}
	select {
	case <-e.finished:
	case <-time.After(120 * time.Second):
		// a controlled thread blocked outside the scheduler's knowledge (real channel, real lock)
		buf := make([]byte, 1<<20)
		n := runtime.Stack(buf, true)
		fmt.Fprintf(os.Stderr, "vsched: execution hung; goroutines:\n%s\n", buf[:n])
		e.abort("execution hung for 120s of real time: a controlled thread blocked on something the scheduler does not control")
	}
	active.Store(false)
	tr := Trace{Points: e.points, Events: e.events, Fail: e.fail, Deadlock: e.deadlock, Livelock: e.livelock, Threads: len(e.threads), Steps: e.steps}
	if e.fail != "" {
		// give released goroutines a moment to unwind before the next execution starts
		time.Sleep(20 * time.Millisecond)
	}
	return tr
}

// ---- exploration -----------------------------------------------------------------------------

type Opts struct {
	MaxPreemptions int
	Horizon        int64
	OnlyShared     bool // branch only at objects touched by >= 2 threads in that execution
	Shard, NShards int
	MaxExecutions  int64
	Deadline       time.Time
	// DeepFirst restores plain depth-first order. By default every execution that deviates from the
	// default schedule at exactly ONE point (one preemption, or one other choice) is run first, in
	// order of the deviation point, and only then does the search descend below them: when a deadline
	// cuts the search short, the simplest schedules — including a single preemption late in the
	// trace — have all been covered. The set of schedules explored to completion is the same.
	DeepFirst bool
}

type Result struct {
	Executions   int64
	Points       int64
	MaxPoints    int
	Complete     bool // the bounded space was enumerated completely
	ToolFailures []string
}

// Explore enumerates every schedule of body with at most opts.MaxPreemptions preemptions and
// calls check for each finished execution. check returns false to stop the exploration.
//
// mk is called before every execution, OUTSIDE the controlled run (plain primitives), to build
// a fresh instance of the system and return the body that thread 0 executes under control.
func Explore(mk func() func(), opts Opts, check func(tr Trace, choices []int) bool) Result {
	var res Result
	res.Complete = true
	if opts.Horizon == 0 {
		opts.Horizon = 20000
	}
	type item struct {
		prefix []int
		expect []PointRec
		top    bool
		seen   bool // already run and checked in the shallow pass: re-run only to expand it
	}
	stack := []item{{nil, nil, true, false}}
	var shallow []item
	topAlt := 0
	for len(stack) > 0 || len(shallow) > 0 {
		if (opts.MaxExecutions > 0 && res.Executions >= opts.MaxExecutions) || (!opts.Deadline.IsZero() && time.Now().After(opts.Deadline)) {
			res.Complete = false
			break
		}
		var it item
		noExpand := false
		if len(shallow) > 0 {
			it, shallow = shallow[0], shallow[1:]
			noExpand = true
		} else {
			it = stack[len(stack)-1]
			stack = stack[:len(stack)-1]
		}
		tr := Run(mk(), it.prefix, it.expect, opts.Horizon)
		if !it.seen {
			res.Executions++
			res.Points += int64(len(tr.Points))
		}
		if len(tr.Points) > res.MaxPoints {
			res.MaxPoints = len(tr.Points)
		}
		choices := make([]int, len(tr.Points))
		for i, p := range tr.Points {
			choices[i] = p.Chosen
		}
		if strings.HasPrefix(tr.Fail, "replay divergence") || strings.HasPrefix(tr.Fail, "execution hung") {
			res.ToolFailures = append(res.ToolFailures, tr.Fail)
			res.Complete = false
			if len(res.ToolFailures) > 5 {
				break
			}
			continue
		}
		if !it.seen && !check(tr, choices) {
			res.Complete = false
			break
		}
		if tr.Fail != "" || noExpand {
			continue // do not branch below a failed (aborted) execution; shallow pass: no descent yet
		}
		// which objects are shared in this execution
		var shared map[int]bool
		if opts.OnlyShared {
			first := map[int]int{}
			shared = map[int]bool{}
			for _, p := range tr.Points {
				if p.Obj < 0 {
					continue
				}
				if th, ok := first[p.Obj]; !ok {
					first[p.Obj] = p.Thread
				} else if th != p.Thread {
					shared[p.Obj] = true
				}
			}
		}
		// preemptions before each point
		pre := 0
		preAt := make([]int, len(tr.Points))
		for i, p := range tr.Points {
			preAt[i] = pre
			if p.CurEnabled && p.Chosen != 0 {
				pre++
			}
		}
		// push alternatives in reverse so that the earliest point is explored first
		var alts []item
		for i := len(it.prefix); i < len(tr.Points); i++ {
			p := tr.Points[i]
			if len(p.Enabled) < 2 {
				continue
			}
			cost := preAt[i]
			if p.CurEnabled {
				cost++
				if opts.OnlyShared && p.Obj >= 0 && !shared[p.Obj] {
					continue
				}
				if opts.OnlyShared && p.Obj < 0 && p.Kind != KSpawn && p.Kind != KYield {
					continue
				}
			}
			if cost > opts.MaxPreemptions {
				continue
			}
			for alt := 1; alt < len(p.Enabled); alt++ {
				if it.top && opts.NShards > 1 {
					mine := topAlt%opts.NShards == opts.Shard
					topAlt++
					if !mine {
						continue
					}
				}
				np := append(append(make([]int, 0, i+1), choices[:i]...), alt)
				alts = append(alts, item{np, tr.Points, false, false})
			}
		}
		if it.top && !opts.DeepFirst {
			shallow = append(shallow, alts...)
			for i := range alts {
				alts[i].seen = true
			}
		}
		for i := len(alts) - 1; i >= 0; i-- {
			stack = append(stack, alts[i])
		}
	}
	return res
}
