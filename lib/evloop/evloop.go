// Package evloop is engine E5: event-order model checking of goroutine+channel+timer event
// loops on the real code.
//
// The component under test lives inside a testing/synctest bubble (fake clock; synctest.Wait
// returns when every goroutine of the bubble is durably blocked). A harness describes one fresh
// instance of the component together with its reference model as a World; the engine adapts a
// World constructor to vx.Sys so that vx.BFS enumerates ALL orderings of <= n external events
// (the World's Ops menu), replaying every event history on a fresh instance in a fresh bubble,
// waiting for quiescence after every event, and de-duplicating on World.Key.
//
// Limit (stated plainly): between two quiescent points the order in which RUNNABLE goroutines
// run, the choice among several ready select cases and map iteration order are the Go
// runtime's, not enumerated choices. What is enumerated: external events, timer firings and
// consumer reads, each applied at a quiescent point. The determinism guard (every one of the
// first GuardFirst checked histories is executed twice in independent bubbles and the complete
// observation traces are compared) turns any dependence of the observations on those runtime
// choices into a tool failure rather than a verdict.
package evloop

import (
	"fmt"
	"sync"
	"sync/atomic"
	"testing"
	"testing/synctest"
	"time"

	"github.com/prometheus/prometheus/internal/verif/vx"
)

// World is one fresh instance of the real component plus its reference model. Every method is
// called on the root goroutine of the instance's bubble, so it may start goroutines, create
// channels and timers, time.Sleep (advances the fake clock) and call synctest.Wait itself.
type World interface {
	// Ops lists the events enabled in the current (quiescent) state.
	Ops() []string
	// Apply injects one external event. The engine calls synctest.Wait() afterwards.
	Apply(op string)
	// Obs is the complete observation of the quiescent state (everything the harness can see:
	// model, implementation summary, what consumers / fake peers received so far). It is what
	// the determinism guard compares.
	Obs() string
	// Key is the canonical abstract state used for de-duplication (a function of what
	// determines future behaviour; Obs refines it).
	Key() string
	// Check evaluates the oracle in the quiescent state reached after the last event. It may
	// run a closing phase that changes the instance (deliver ticks until quiescent, drain the
	// consumer, stop ...): after Check the instance is only Closed.
	Check() *vx.Fail
	// Close stops every goroutine of the instance (the bubble must be empty when it returns
	// or shortly after: blocked leftovers are a tool failure reported by synctest).
	Close()
}

// Engine adapts Worlds to vx.Sys and implements the determinism guard.
type Engine struct {
	T *testing.T
	// GuardFirst: the first GuardFirst checked histories are executed a second time in an
	// independent bubble; all observations must be identical.
	GuardFirst int64

	checked  atomic.Int64
	guarded  atomic.Int64
	mu       sync.Mutex
	diverged []string
}

// Guarded is the number of histories that were executed twice.
func (e *Engine) Guarded() int64 { return e.guarded.Load() }

// Checked is the number of histories whose oracle was evaluated.
func (e *Engine) Checked() int64 { return e.checked.Load() }

// Diverged returns the descriptions of histories whose two executions differed.
func (e *Engine) Diverged() []string {
	e.mu.Lock()
	defer e.mu.Unlock()
	return append([]string{}, e.diverged...)
}

type reqKind int

const (
	reqOps reqKind = iota
	reqApply
	reqClose
)

type req struct {
	kind  reqKind
	op    string
	check bool
}

type resp struct {
	ops   []string
	obs   string
	key   string
	fail  *vx.Fail
	panic string
}

// bubble runs one World in its own synctest bubble and serves requests sent from outside.
// The request/response channels are created OUTSIDE the bubble: a root goroutine blocked on
// them is not durably blocked, so the fake clock never advances between events.
type bubble struct {
	in   chan req
	out  chan resp
	done chan struct{}
}

func (e *Engine) startBubble(mk func() World) (*bubble, resp) {
	b := &bubble{in: make(chan req), out: make(chan resp), done: make(chan struct{})}
	go func() {
		defer close(b.done)
		synctest.Test(e.T, func(*testing.T) {
			var w World
			first := resp{}
			if p, st := vx.Guard(func() {
				w = mk()
				synctest.Wait()
				first.obs, first.key = w.Obs(), w.Key()
			}); p != nil {
				first.panic = fmt.Sprintf("%v\n%s", p, st)
			}
			b.out <- first
			for rq := range b.in {
				var rs resp
				p, st := vx.Guard(func() {
					switch rq.kind {
					case reqOps:
						rs.ops = w.Ops()
					case reqApply:
						w.Apply(rq.op)
						synctest.Wait()
						rs.obs, rs.key = w.Obs(), w.Key()
						if rq.check {
							rs.fail = w.Check()
						}
					case reqClose:
						w.Close()
						synctest.Wait()
					}
				})
				if p != nil {
					rs.panic = fmt.Sprintf("%v\n%s", p, st)
				}
				b.out <- rs
				if rq.kind == reqClose {
					return
				}
			}
		})
	}()
	return b, <-b.out
}

// HangAfter is a REAL-time guard (the only use of the wall clock, and never part of an oracle):
// an event that does not reach quiescence within it (typically a goroutine of the bubble blocked
// on a sync.Mutex, which synctest does not regard as durably blocked) crashes the run as a tool
// failure instead of hanging the check.
var HangAfter = 120 * time.Second

func (b *bubble) call(rq req) resp {
	b.in <- rq
	tm := time.NewTimer(HangAfter)
	defer tm.Stop()
	select {
	case rs := <-b.out:
		return rs
	case <-tm.C:
		panic(fmt.Sprintf("evloop: event %q did not reach quiescence within %v (a goroutine blocked on a mutex?)", rq.op, HangAfter))
	}
}

func (b *bubble) close() {
	b.call(req{kind: reqClose})
	<-b.done
}

type sys struct {
	e     *Engine
	mk    func() World
	b     *bubble
	hist  []string
	trace []string // observation after construction and after every event
	key   string
}

// Sys returns a fresh instance (own bubble) as a vx.Sys. Apply(op, check=true) evaluates the
// World's oracle after the event; Key is the key of the state reached by the last event
// (taken BEFORE Check's closing phase).
func (e *Engine) Sys(mk func() World) vx.Sys {
	b, first := e.startBubble(mk)
	if first.panic != "" {
		panic("evloop: constructing the world panicked: " + first.panic)
	}
	return &sys{e: e, mk: mk, b: b, trace: []string{first.obs}, key: first.key}
}

func (s *sys) Ops() []string { return s.b.call(req{kind: reqOps}).ops }

func (s *sys) Key() string { return s.key }

func (s *sys) Close() { s.b.close() }

func (s *sys) Apply(op string, check bool) *vx.Fail {
	rs := s.b.call(req{kind: reqApply, op: op, check: check})
	s.hist = append(s.hist, op)
	if rs.panic != "" {
		// A panic on the root goroutine while injecting an event (e.g. inside ApplyConfig or
		// Send called by the harness) is behaviour of the code under test.
		if !check {
			panic("evloop: replay of a checked prefix panicked: " + rs.panic)
		}
		return vx.Failf("panic-in-event", "history %v: %s", s.hist, rs.panic)
	}
	s.trace = append(s.trace, rs.obs)
	s.key = rs.key
	if check {
		n := s.e.checked.Add(1)
		if n <= s.e.GuardFirst {
			s.e.guard(s, rs.fail)
		}
	}
	return rs.fail
}

// guard re-executes s.hist on a second fresh instance and compares every observation.
func (e *Engine) guard(s *sys, fail *vx.Fail) {
	e.guarded.Add(1)
	b, first := e.startBubble(s.mk)
	trace := []string{first.obs}
	var fail2 *vx.Fail
	for i, op := range s.hist {
		rs := b.call(req{kind: reqApply, op: op, check: i == len(s.hist)-1})
		trace = append(trace, rs.obs)
		fail2 = rs.fail
	}
	b.close()
	diff := ""
	if len(trace) != len(s.trace) {
		diff = "trace lengths differ"
	}
	for i := 0; diff == "" && i < len(trace); i++ {
		if trace[i] != s.trace[i] {
			diff = fmt.Sprintf("observation after %d events differs:\n  1st: %s\n  2nd: %s", i, s.trace[i], trace[i])
		}
	}
	if diff == "" && ((fail == nil) != (fail2 == nil) || (fail != nil && fail.Signature != fail2.Signature)) {
		diff = fmt.Sprintf("oracle verdicts differ: %v vs %v", fail, fail2)
	}
	if diff != "" {
		e.mu.Lock()
		e.diverged = append(e.diverged, fmt.Sprintf("history %v: %s", s.hist, diff))
		e.mu.Unlock()
	}
}

// Replay executes ops on a fresh instance exactly as the explorer does (oracle only after the
// last event), twice, and reports a divergence between the two executions as a panic.
func (e *Engine) Replay(mk func() World, ops []string) *vx.Fail {
	var fails [2]*vx.Fail
	var traces [2]string
	for round := 0; round < 2; round++ {
		b, first := e.startBubble(mk)
		if first.panic != "" {
			panic("evloop: constructing the world panicked: " + first.panic)
		}
		tr := first.obs
		for i, op := range ops {
			rs := b.call(req{kind: reqApply, op: op, check: i == len(ops)-1})
			if rs.panic != "" {
				rs.fail = vx.Failf("panic-in-event", "history %v: %s", ops[:i+1], rs.panic)
			}
			tr += "\n" + rs.obs
			fails[round] = rs.fail
			if rs.panic != "" {
				break
			}
		}
		b.close()
		traces[round] = tr
	}
	if traces[0] != traces[1] || (fails[0] == nil) != (fails[1] == nil) {
		panic("evloop.Replay: nondeterministic replay")
	}
	return fails[0]
}
