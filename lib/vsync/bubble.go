package vsync

import (
	"sync"
	"sync/atomic"
)

// BubbleMode is an opt-in for engine E5 (evloop): harnesses that run a rewritten package inside
// a testing/synctest bubble WITHOUT the vsched scheduler set it to true before creating any
// instance. Blocking in a real sync.Mutex / sync.RWMutex is never "durably blocked" for
// synctest, so a goroutine waiting for a lock that is held across a durable block (e.g.
// storage/remote shards.stop holding shards.mtx while it waits for the flush deadline) would
// freeze synctest.Wait and the fake clock for ever. In bubble mode an UNCONTROLLED goroutine
// (vsched.Self() == nil) that cannot take a lock waits on a channel created in its own bubble
// instead, which is durably blocking; Unlock/RUnlock wake all waiters, which retry.
// Default false: behaviour of every other flavour/engine is unchanged.
var BubbleMode atomic.Bool

// waitq is the list of parked lockers of one mutex in bubble mode.
type waitq struct {
	mu sync.Mutex // tiny critical sections only, never held across a blocking operation
	ws []chan struct{}
}

// lock loops until try succeeds, parking on a fresh channel between attempts. try is evaluated
// under q.mu and wake() takes q.mu after the real unlock, so a wake-up cannot be lost.
func (q *waitq) lock(try func() bool) {
	for {
		q.mu.Lock()
		if try() {
			q.mu.Unlock()
			return
		}
		ch := make(chan struct{})
		q.ws = append(q.ws, ch)
		q.mu.Unlock()
		<-ch
	}
}

func (q *waitq) wake() {
	q.mu.Lock()
	ws := q.ws
	q.ws = nil
	q.mu.Unlock()
	for _, c := range ws {
		close(c)
	}
}
