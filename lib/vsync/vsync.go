// Package vsync replaces "sync" in packages rewritten for the controlled scheduler (engine E2).
// Every type keeps the real primitive as its state, so goroutines that are not controlled
// interoperate with controlled threads; controlled threads never block in the real primitive:
// they use Try* and, on failure, hand the baton to the scheduler.
package vsync

import (
	"sync"
	"sync/atomic"

	"github.com/prometheus/prometheus/internal/verif/vsched"
)

type Locker = sync.Locker

// ---- Mutex ---------------------------------------------------------------------------------

type Mutex struct {
	m sync.Mutex
	q waitq // bubble mode only, see bubble.go
}

func (m *Mutex) Lock() {
	t := vsched.Self()
	if t == nil {
		if BubbleMode.Load() {
			m.q.lock(m.m.TryLock)
			return
		}
		m.m.Lock()
		return
	}
	vsched.Point(t, vsched.KLock, m)
	for !m.m.TryLock() {
		vsched.Block(t, m)
	}
}

func (m *Mutex) TryLock() bool {
	if t := vsched.Self(); t != nil {
		vsched.Point(t, vsched.KLock, m)
	}
	return m.m.TryLock()
}

func (m *Mutex) Unlock() {
	m.m.Unlock()
	if vsched.Self() != nil {
		vsched.Wake(m)
	}
	if BubbleMode.Load() {
		m.q.wake()
	}
}

// ---- RWMutex -------------------------------------------------------------------------------

type RWMutex struct {
	m sync.RWMutex
	q waitq // bubble mode only, see bubble.go
}

func (m *RWMutex) Lock() {
	t := vsched.Self()
	if t == nil {
		if BubbleMode.Load() {
			m.q.lock(m.m.TryLock)
			return
		}
		m.m.Lock()
		return
	}
	vsched.Point(t, vsched.KLock, m)
	for !m.m.TryLock() {
		vsched.Block(t, m)
	}
}

func (m *RWMutex) TryLock() bool {
	if t := vsched.Self(); t != nil {
		vsched.Point(t, vsched.KLock, m)
	}
	return m.m.TryLock()
}

func (m *RWMutex) Unlock() {
	m.m.Unlock()
	if vsched.Self() != nil {
		vsched.Wake(m)
	}
	if BubbleMode.Load() {
		m.q.wake()
	}
}

func (m *RWMutex) RLock() {
	t := vsched.Self()
	if t == nil {
		if BubbleMode.Load() {
			m.q.lock(m.m.TryRLock)
			return
		}
		m.m.RLock()
		return
	}
	vsched.Point(t, vsched.KRLock, m)
	for !m.m.TryRLock() {
		vsched.Block(t, m)
	}
}

func (m *RWMutex) TryRLock() bool {
	if t := vsched.Self(); t != nil {
		vsched.Point(t, vsched.KRLock, m)
	}
	return m.m.TryRLock()
}

func (m *RWMutex) RUnlock() {
	m.m.RUnlock()
	if vsched.Self() != nil {
		vsched.Wake(m)
	}
	if BubbleMode.Load() {
		m.q.wake()
	}
}

type rlocker RWMutex

func (r *rlocker) Lock()   { (*RWMutex)(r).RLock() }
func (r *rlocker) Unlock() { (*RWMutex)(r).RUnlock() }

func (m *RWMutex) RLocker() Locker { return (*rlocker)(m) }

// ---- WaitGroup -----------------------------------------------------------------------------

type WaitGroup struct {
	wg sync.WaitGroup
	n  atomic.Int64
}

func (w *WaitGroup) Add(d int) {
	if t := vsched.Self(); t != nil {
		vsched.Point(t, vsched.KWGAdd, w)
	}
	w.wg.Add(d)
	if w.n.Add(int64(d)) == 0 && vsched.Self() != nil {
		vsched.Wake(w)
	}
}

func (w *WaitGroup) Done() { w.Add(-1) }

func (w *WaitGroup) Wait() {
	t := vsched.Self()
	if t == nil {
		w.wg.Wait()
		return
	}
	vsched.Point(t, vsched.KWGWait, w)
	for w.n.Load() != 0 {
		vsched.Block(t, w)
	}
}

func (w *WaitGroup) Go(f func()) {
	w.Add(1)
	vsched.Go(func() {
		defer w.Done()
		f()
	})
}

// ---- Once ----------------------------------------------------------------------------------

type Once struct {
	m    Mutex
	done atomic.Bool
}

func (o *Once) Do(f func()) {
	if t := vsched.Self(); t != nil {
		vsched.Point(t, vsched.KOnce, o)
	}
	if o.done.Load() {
		return
	}
	o.m.Lock()
	defer o.m.Unlock()
	if !o.done.Load() {
		defer o.done.Store(true)
		f()
	}
}

func OnceFunc(f func()) func() {
	var o Once
	return func() { o.Do(f) }
}

func OnceValue[T any](f func() T) func() T {
	var o Once
	var v T
	return func() T {
		o.Do(func() { v = f() })
		return v
	}
}

// ---- Cond ----------------------------------------------------------------------------------

// Cond: controlled waiters park in the scheduler; uncontrolled ones use the real condition
// variable (built lazily on the same Locker).
type Cond struct {
	L       Locker
	real    *sync.Cond
	once    sync.Once
	waiters []*condWaiter
}

type condWaiter struct{ signalled bool }

func NewCond(l Locker) *Cond { return &Cond{L: l} }

func (c *Cond) realCond() *sync.Cond {
	c.once.Do(func() { c.real = sync.NewCond(c.L) })
	return c.real
}

func (c *Cond) Wait() {
	t := vsched.Self()
	if t == nil {
		c.realCond().Wait()
		return
	}
	w := &condWaiter{}
	c.waiters = append(c.waiters, w)
	c.L.Unlock()
	vsched.Point(t, vsched.KCondWait, c)
	for !w.signalled {
		vsched.Block(t, w)
	}
	c.L.Lock()
}

func (c *Cond) Signal() {
	if vsched.Self() != nil && len(c.waiters) > 0 {
		w := c.waiters[0]
		c.waiters = c.waiters[1:]
		w.signalled = true
		vsched.Wake(w)
	}
	if c.real != nil {
		c.real.Signal()
	}
}

func (c *Cond) Broadcast() {
	if vsched.Self() != nil {
		for _, w := range c.waiters {
			w.signalled = true
			vsched.Wake(w)
		}
		c.waiters = nil
	}
	if c.real != nil {
		c.real.Broadcast()
	}
}

// ---- Pool ----------------------------------------------------------------------------------

// Pool is a deterministic LIFO stack (no GC clearing, no per-P caches).
type Pool struct {
	New   func() any
	mu    sync.Mutex
	items []any
}

func (p *Pool) Get() any {
	p.mu.Lock()
	if n := len(p.items); n > 0 {
		x := p.items[n-1]
		p.items = p.items[:n-1]
		p.mu.Unlock()
		return x
	}
	p.mu.Unlock()
	if p.New != nil {
		return p.New()
	}
	return nil
}

func (p *Pool) Put(x any) {
	if x == nil {
		return
	}
	p.mu.Lock()
	if len(p.items) < 64 {
		p.items = append(p.items, x)
	}
	p.mu.Unlock()
}

// Map is passed through (no scheduling points; not used on hot shared paths of tsdb).
type Map = sync.Map
