// Package vx is the small runtime shared by every /verif harness: run context
// (tier, seed, shard, deadline), evidence accounting, violation reporting with
// replay artefacts, deterministic enumerators and the explicit-state BFS driver.
//
// It is injected into the repository as a virtual package by `go build -overlay`.
package vx

import (
	"crypto/sha256"
	"encoding/hex"
	"encoding/json"
	"fmt"
	"hash/fnv"
	"os"
	"path/filepath"
	"runtime"
	"runtime/debug"
	"sort"
	"strconv"
	"strings"
	"sync"
	"sync/atomic"
	"testing"
	"time"
)

// Run is the context of one check invocation (one shard process of it).
type Run struct {
	T        *testing.T
	Property string
	Level    string
	Tier     string
	Seed     int64
	Shard    int
	NShards  int
	Replay   string // non-empty: path of a replay file to re-execute

	start    time.Time
	deadline time.Time
	expired  atomic.Bool

	mu          sync.Mutex
	counts      map[string]int64
	maxes       map[string]int64
	distinct    map[string]map[uint64]struct{}
	extra       map[string]any
	samples     []any
	assumptions []string
	violSigs    map[string]int
	exhaustive  bool
	evPath      string
	replayDir   string
}

// Start reads the environment set by /verif/check.
func Start(t *testing.T, property, level string) *Run {
	r := &Run{T: t, Property: property, Level: level, start: time.Now(), exhaustive: true}
	r.Tier = os.Getenv("VERIF_TIER")
	if r.Tier == "" {
		r.Tier = "quick"
	}
	r.Seed, _ = strconv.ParseInt(os.Getenv("VERIF_SEED"), 10, 64)
	r.Shard, _ = strconv.Atoi(os.Getenv("VERIF_SHARD"))
	r.NShards, _ = strconv.Atoi(os.Getenv("VERIF_NSHARDS"))
	if r.NShards <= 0 {
		r.NShards = 1
	}
	d, _ := strconv.Atoi(os.Getenv("VERIF_DEADLINE_S"))
	if d <= 0 {
		d = 100
	}
	r.deadline = r.start.Add(time.Duration(d) * time.Second)
	r.evPath = os.Getenv("VERIF_EVIDENCE")
	r.replayDir = os.Getenv("VERIF_REPLAY_DIR")
	if r.replayDir == "" {
		r.replayDir = os.TempDir()
	}
	r.Replay = os.Getenv("VERIF_REPLAY")
	r.counts = map[string]int64{}
	r.maxes = map[string]int64{}
	r.distinct = map[string]map[uint64]struct{}{}
	r.extra = map[string]any{}
	r.violSigs = map[string]int{}
	return r
}

func (r *Run) Quick() bool    { return r.Tier != "thorough" }
func (r *Run) Thorough() bool { return r.Tier == "thorough" }

// Pick returns q in the quick tier and th in the thorough tier.
func Pick[T any](r *Run, q, th T) T {
	if r.Thorough() {
		return th
	}
	return q
}

// Expired reports whether the internal deadline passed. The first time it returns true the
// run is marked non-exhaustive: an explorer that consults Expired and stops early can never
// be reported as exhaustive.
func (r *Run) Expired() bool {
	if r.expired.Load() {
		return true
	}
	if time.Now().After(r.deadline) {
		r.expired.Store(true)
		r.mu.Lock()
		r.exhaustive = false
		r.mu.Unlock()
		return true
	}
	return false
}

// NotExhaustive marks the run as capped for a stated reason.
func (r *Run) NotExhaustive(reason string) {
	r.mu.Lock()
	r.exhaustive = false
	r.extra["cap_reason"] = reason
	r.mu.Unlock()
}

func (r *Run) Count(key string, n int) {
	r.mu.Lock()
	r.counts[key] += int64(n)
	r.mu.Unlock()
}

func (r *Run) Max(key string, n int) {
	r.mu.Lock()
	if v, ok := r.maxes[key]; !ok || int64(n) > v {
		r.maxes[key] = int64(n)
	}
	r.mu.Unlock()
}

func (r *Run) Get(key string) int64 {
	r.mu.Lock()
	defer r.mu.Unlock()
	return r.counts[key]
}

func h64(s string) uint64 {
	h := fnv.New64a()
	h.Write([]byte(s))
	return h.Sum64()
}

// Distinct records item under key; coverage[key] becomes the number of distinct items.
// Returns true when the item was new.
func (r *Run) Distinct(key, item string) bool {
	h := h64(item)
	r.mu.Lock()
	m := r.distinct[key]
	if m == nil {
		m = map[uint64]struct{}{}
		r.distinct[key] = m
	}
	_, had := m[h]
	if !had {
		m[h] = struct{}{}
	}
	r.mu.Unlock()
	return !had
}

func (r *Run) Set(key string, v any) {
	r.mu.Lock()
	r.extra[key] = v
	r.mu.Unlock()
}

// Sample keeps the first few explored cases verbatim for the evidence file.
func (r *Run) Sample(v any) {
	r.mu.Lock()
	if len(r.samples) < 6 {
		r.samples = append(r.samples, v)
	}
	r.mu.Unlock()
}

// SampleEvery keeps a case when the running count n hits a sparse set of indices, so the
// samples are spread over the explored space rather than being the first few.
func (r *Run) SampleAt(n int64, v func() any) {
	switch n {
	case 0, 7, 101, 1009, 10007, 100003, 1000003:
		r.Sample(v())
	}
}

func (r *Run) Assume(s string) {
	r.mu.Lock()
	for _, a := range r.assumptions {
		if a == s {
			r.mu.Unlock()
			return
		}
	}
	r.assumptions = append(r.assumptions, s)
	r.mu.Unlock()
}

// Violation reports one violation. signature must be a stable, narrow classification of
// WHAT fails (it is what known_findings.json matches on); replay is any JSON-serialisable
// description sufficient to re-execute the failing case. Only the first violation per
// signature writes a replay file / output line; returns the number of distinct signatures.
func (r *Run) Violation(signature, message string, replay any) int {
	r.mu.Lock()
	r.violSigs[signature]++
	n := r.violSigs[signature]
	total := len(r.violSigs)
	r.mu.Unlock()
	if n > 1 {
		return total
	}
	body, _ := json.MarshalIndent(map[string]any{"property": r.Property, "signature": signature, "message": message, "replay": replay}, "", " ")
	sum := sha256.Sum256(body)
	p := filepath.Join(r.replayDir, fmt.Sprintf("%s-%s.json", r.Property, hex.EncodeToString(sum[:6])))
	_ = os.MkdirAll(r.replayDir, 0o755)
	_ = os.WriteFile(p, body, 0o644)
	line, _ := json.Marshal(map[string]any{"property": r.Property, "signature": signature, "message": message, "replay": p})
	fmt.Printf("\nVERIF-VIOLATION %s\n", line)
	return total
}

// TooManyViolations lets explorers stop once enough distinct signatures were collected.
func (r *Run) TooManyViolations() bool {
	r.mu.Lock()
	defer r.mu.Unlock()
	return len(r.violSigs) >= 40
}

func (r *Run) Violations() int {
	r.mu.Lock()
	defer r.mu.Unlock()
	return len(r.violSigs)
}

// Guard runs f and converts a panic inside it into a returned description (nil = no panic).
func Guard(f func()) (p any, stack string) {
	defer func() {
		if x := recover(); x != nil {
			p = x
			stack = string(debug.Stack())
		}
	}()
	f()
	return nil, ""
}

// LoadReplay decodes the "replay" member of a replay file into v.
func (r *Run) LoadReplay(v any) {
	b, err := os.ReadFile(r.Replay)
	if err != nil {
		r.T.Fatalf("replay: %v", err)
	}
	var w struct {
		Replay json.RawMessage `json:"replay"`
	}
	if err := json.Unmarshal(b, &w); err != nil {
		r.T.Fatalf("replay: %v", err)
	}
	if err := json.Unmarshal(w.Replay, v); err != nil {
		r.T.Fatalf("replay: %v", err)
	}
}

// Finish writes the evidence part and the completion marker.
func (r *Run) Finish() {
	r.mu.Lock()
	cov := map[string]any{}
	for k, v := range r.counts {
		cov[k] = v
	}
	for k, v := range r.maxes {
		cov["max_"+k] = v
	}
	for k, m := range r.distinct {
		cov[k] = len(m)
	}
	for k, v := range r.extra {
		cov[k] = v
	}
	cov["exhaustive"] = r.exhaustive
	if len(r.samples) == 0 {
		cov["samples"] = []any{}
	} else {
		cov["samples"] = r.samples
	}
	ev := map[string]any{
		"property_id": r.Property, "tier": r.Tier, "seed": r.Seed, "level": r.Level,
		"coverage": cov, "assumptions": r.assumptions, "wall_s": time.Since(r.start).Seconds(),
		"violations": len(r.violSigs),
	}
	r.mu.Unlock()
	if r.evPath != "" && r.Replay == "" {
		b, _ := json.MarshalIndent(ev, "", " ")
		if err := os.WriteFile(r.evPath, b, 0o644); err != nil {
			r.T.Fatalf("evidence: %v", err)
		}
	}
	fmt.Printf("\nVERIF-DONE %s shard=%d/%d wall=%.1fs\n", r.Property, r.Shard, r.NShards, time.Since(r.start).Seconds())
}

// Workers is the number of in-process workers (the runner may also shard by process).
func (r *Run) Workers() int {
	n := runtime.NumCPU() / r.NShards
	if v, err := strconv.Atoi(os.Getenv("VERIF_WORKERS")); err == nil && v > 0 {
		n = v
	}
	if n < 1 {
		n = 1
	}
	return n
}

// Mine reports whether item i belongs to this shard process.
func (r *Run) Mine(i int64) bool { return r.NShards <= 1 || int(i%int64(r.NShards)) == r.Shard }

// ParallelN runs f(i) for every i in [0,n) that belongs to this shard on the worker pool, in
// index order per worker, stopping early (non-exhaustive) at the deadline.
func (r *Run) ParallelN(n int64, f func(i int64)) {
	var next atomic.Int64
	var wg sync.WaitGroup
	w := r.Workers()
	for k := 0; k < w; k++ {
		wg.Add(1)
		go func() {
			defer wg.Done()
			for {
				i := next.Add(1) - 1
				if i >= n {
					return
				}
				if !r.Mine(i) {
					continue
				}
				if i%64 == 0 && (r.Expired() || r.TooManyViolations()) {
					return
				}
				if r.expired.Load() {
					return
				}
				f(i)
			}
		}()
	}
	wg.Wait()
}

// ---------------------------------------------------------------------------
// Enumerators (deterministic odometers, simplest-first)
// ---------------------------------------------------------------------------

// ProductSize is the number of tuples of Product(dims).
func ProductSize(dims []int) int64 {
	n := int64(1)
	for _, d := range dims {
		n *= int64(d)
	}
	return n
}

// ProductAt decodes index i into a tuple (last dimension varies fastest).
func ProductAt(dims []int, i int64, out []int) []int {
	out = out[:0]
	for range dims {
		out = append(out, 0)
	}
	for k := len(dims) - 1; k >= 0; k-- {
		out[k] = int(i % int64(dims[k]))
		i /= int64(dims[k])
	}
	return out
}

// SeqCount is the number of sequences over an alphabet of size a with length in [minLen,maxLen].
func SeqCount(a, minLen, maxLen int) int64 {
	var n int64
	for l := minLen; l <= maxLen; l++ {
		p := int64(1)
		for i := 0; i < l; i++ {
			p *= int64(a)
		}
		n += p
	}
	return n
}

// SeqAt decodes index i (0-based, shortest sequences first) into a sequence.
func SeqAt(a, minLen, maxLen int, i int64, out []int) []int {
	for l := minLen; l <= maxLen; l++ {
		p := int64(1)
		for k := 0; k < l; k++ {
			p *= int64(a)
		}
		if i < p {
			out = out[:0]
			for k := 0; k < l; k++ {
				out = append(out, 0)
			}
			for k := l - 1; k >= 0; k-- {
				out[k] = int(i % int64(a))
				i /= int64(a)
			}
			return out
		}
		i -= p
	}
	return nil
}

// Subsets calls f with every subset (as index list) of n items with size <= maxSize, smallest first.
func Subsets(n, maxSize int, f func(idx []int) bool) {
	var rec func(start int, cur []int, size int) bool
	rec = func(start int, cur []int, size int) bool {
		if len(cur) == size {
			return f(cur)
		}
		for i := start; i < n; i++ {
			if !rec(i+1, append(cur, i), size) {
				return false
			}
		}
		return true
	}
	for s := 0; s <= maxSize && s <= n; s++ {
		if !rec(0, make([]int, 0, s), s) {
			return
		}
	}
}

// Perms calls f with every permutation of 0..n-1.
func Perms(n int, f func(p []int) bool) {
	p := make([]int, n)
	for i := range p {
		p[i] = i
	}
	var rec func(k int) bool
	rec = func(k int) bool {
		if k == n {
			return f(p)
		}
		for i := k; i < n; i++ {
			p[k], p[i] = p[i], p[k]
			if !rec(k + 1) {
				return false
			}
			p[k], p[i] = p[i], p[k]
		}
		return true
	}
	rec(0)
}

// ---------------------------------------------------------------------------
// Explicit-state BFS over a real system driven by operation histories
// ---------------------------------------------------------------------------

// Sys is one fresh instance of the real system together with its reference model.
type Sys interface {
	// Ops lists the operations enabled in the current state (may depend on the state).
	Ops() []string
	// Apply executes op on the real system and the model. check=true also evaluates the
	// oracle; a non-nil error is an oracle failure (violation).
	Apply(op string, check bool) *Fail
	// Key is the canonical abstract state (model state + property-relevant impl summary).
	Key() string
	Close()
}

// Fail is an oracle failure.
type Fail struct {
	Signature string
	Message   string
}

func Failf(sig, format string, a ...any) *Fail {
	return &Fail{Signature: sig, Message: fmt.Sprintf(format, a...)}
}

type BFSResult struct {
	States, Transitions int64
	DepthCompleted      int
}

// BFS explores all histories up to maxDepth with canonical-state de-duplication. A state is
// represented by the shortest (first found, deterministic order) history reaching it; the
// successor of a state is computed on a FRESH real instance by replaying that history and
// applying one more operation (real objects cannot be cloned). When two different histories
// reach the same Key the optional same() callback can compare them (differential oracle).
func (r *Run) BFS(cfgName string, newSys func() Sys, maxDepth int) BFSResult {
	return r.BFSFrom(cfgName, newSys, nil, maxDepth)
}

// BFSFrom is BFS started from several NON-INITIAL states: every history in starts (executed with
// the oracle on; a failing start history is reported as a violation) is a root of the search, in
// addition to the empty history when starts is empty. maxDepth counts operations after a root.
func (r *Run) BFSFrom(cfgName string, newSys func() Sys, starts [][]string, maxDepth int) BFSResult {
	type node struct{ hist []string }
	var res BFSResult
	seen := map[string]struct{}{}
	var frontier []node
	if len(starts) == 0 {
		starts = [][]string{nil}
	}
	for _, st := range starts {
		s := newSys()
		var fail *Fail
		for i, op := range st {
			if f := s.Apply(op, true); f != nil {
				fail = f
				r.Violation(f.Signature, f.Message, map[string]any{"config": cfgName, "ops": st[:i+1]})
				break
			}
			res.Transitions++
		}
		if fail == nil {
			k := s.Key()
			if _, ok := seen[k]; !ok {
				seen[k] = struct{}{}
				res.States++
				frontier = append(frontier, node{append([]string{}, st...)})
			}
		}
		s.Close()
	}
	for depth := 1; depth <= maxDepth && len(frontier) > 0; depth++ {
		type out struct {
			op   string
			key  string
			fail *Fail
		}
		results := make([][]out, len(frontier))
		var next atomic.Int64
		var wg sync.WaitGroup
		var aborted atomic.Bool
		for w := 0; w < r.Workers(); w++ {
			wg.Add(1)
			go func() {
				defer wg.Done()
				for {
					i := int(next.Add(1) - 1)
					if i >= len(frontier) {
						return
					}
					if r.Expired() || r.TooManyViolations() {
						aborted.Store(true)
						return
					}
					h := frontier[i].hist
					build := func() Sys {
						s := newSys()
						for _, op := range h {
							if f := s.Apply(op, false); f != nil {
								// replay of an already-checked prefix must not fail
								panic(fmt.Sprintf("vx.BFS: replay of checked prefix failed: %v: %s", h, f.Message))
							}
						}
						return s
					}
					s := build()
					ops := s.Ops()
					var o []out
					for k, op := range ops {
						if k > 0 {
							s = build()
						}
						f := s.Apply(op, true)
						key := ""
						if f == nil {
							key = s.Key()
						}
						s.Close()
						o = append(o, out{op, key, f})
					}
					if len(ops) == 0 {
						s.Close()
					}
					results[i] = o
				}
			}()
		}
		wg.Wait()
		var nf []node
		for i, o := range results {
			for _, x := range o {
				res.Transitions++
				h := append(append([]string{}, frontier[i].hist...), x.op)
				if res.Transitions == 1 || res.Transitions == 50 || res.Transitions == 5000 || res.Transitions == 50000 {
					r.Sample(map[string]any{"config": cfgName, "history": h})
				}
				if x.fail != nil {
					r.Violation(x.fail.Signature, x.fail.Message, map[string]any{"config": cfgName, "ops": h})
					continue
				}
				if _, ok := seen[x.key]; ok {
					continue
				}
				seen[x.key] = struct{}{}
				res.States++
				nf = append(nf, node{h})
			}
		}
		if aborted.Load() {
			r.NotExhaustive(fmt.Sprintf("config %s: deadline/violation cap reached inside depth %d (depth %d completed)", cfgName, depth, depth-1))
			break
		}
		res.DepthCompleted = depth
		frontier = nf
	}
	r.Count("states", int(res.States))
	r.Count("transitions", int(res.Transitions))
	r.Count("traces_validated_against_impl", int(res.Transitions))
	r.mu.Lock()
	dm, _ := r.extra["depth_completed"].(map[string]int)
	if dm == nil {
		dm = map[string]int{}
	}
	dm[cfgName] = res.DepthCompleted
	r.extra["depth_completed"] = dm
	r.mu.Unlock()
	return res
}

// ReplayOps re-executes an operation list on a fresh instance with the oracle on, twice,
// asserting identical observations; used by --replay.
func (r *Run) ReplayOps(newSys func() Sys, ops []string) *Fail {
	var first *Fail
	for round := 0; round < 2; round++ {
		s := newSys()
		var got *Fail
		for _, op := range ops {
			if f := s.Apply(op, true); f != nil {
				got = f
				break
			}
		}
		s.Close()
		if round == 0 {
			first = got
		} else if (first == nil) != (got == nil) || (first != nil && first.Signature != got.Signature) {
			panic("vx.ReplayOps: nondeterministic replay")
		}
	}
	return first
}

// SortedKeys is a tiny helper used by many canonical-key functions.
func SortedKeys[V any](m map[string]V) []string {
	ks := make([]string, 0, len(m))
	for k := range m {
		ks = append(ks, k)
	}
	sort.Strings(ks)
	return ks
}

// J renders v as compact JSON (for keys and messages).
func J(v any) string {
	b, err := json.Marshal(v)
	if err != nil {
		return fmt.Sprintf("%+v", v)
	}
	return string(b)
}

func Join(ss []string) string { return strings.Join(ss, " ; ") }
