// Package vatomic replaces go.uber.org/atomic in packages rewritten for the controlled
// scheduler: same API subset, every operation is a scheduling point for controlled threads.
package vatomic

import (
	"math"
	"sync/atomic"
	"time"

	"github.com/prometheus/prometheus/internal/verif/vsched"
)

func pt(k vsched.Kind, o any) {
	if t := vsched.Self(); t != nil {
		vsched.Point(t, k, o)
	}
}

type Int64 struct{ v atomic.Int64 }

func NewInt64(x int64) *Int64 { a := &Int64{}; a.v.Store(x); return a }
func (a *Int64) Load() int64  { pt(vsched.KAtomicLoad, a); return a.v.Load() }
func (a *Int64) Store(x int64) { pt(vsched.KAtomicStore, a); a.v.Store(x) }
func (a *Int64) Add(d int64) int64 { pt(vsched.KAtomicRMW, a); return a.v.Add(d) }
func (a *Int64) Sub(d int64) int64 { pt(vsched.KAtomicRMW, a); return a.v.Add(-d) }
func (a *Int64) Inc() int64        { return a.Add(1) }
func (a *Int64) Dec() int64        { return a.Add(-1) }
func (a *Int64) Swap(x int64) int64 { pt(vsched.KAtomicRMW, a); return a.v.Swap(x) }
func (a *Int64) CompareAndSwap(o, n int64) bool {
	pt(vsched.KAtomicRMW, a)
	return a.v.CompareAndSwap(o, n)
}
func (a *Int64) CAS(o, n int64) bool { return a.CompareAndSwap(o, n) }

type Int32 struct{ v atomic.Int32 }

func NewInt32(x int32) *Int32 { a := &Int32{}; a.v.Store(x); return a }
func (a *Int32) Load() int32  { pt(vsched.KAtomicLoad, a); return a.v.Load() }
func (a *Int32) Store(x int32) { pt(vsched.KAtomicStore, a); a.v.Store(x) }
func (a *Int32) Add(d int32) int32 { pt(vsched.KAtomicRMW, a); return a.v.Add(d) }
func (a *Int32) Sub(d int32) int32 { pt(vsched.KAtomicRMW, a); return a.v.Add(-d) }
func (a *Int32) Inc() int32        { return a.Add(1) }
func (a *Int32) Dec() int32        { return a.Add(-1) }
func (a *Int32) Swap(x int32) int32 { pt(vsched.KAtomicRMW, a); return a.v.Swap(x) }
func (a *Int32) CompareAndSwap(o, n int32) bool {
	pt(vsched.KAtomicRMW, a)
	return a.v.CompareAndSwap(o, n)
}
func (a *Int32) CAS(o, n int32) bool { return a.CompareAndSwap(o, n) }

type Uint64 struct{ v atomic.Uint64 }

func NewUint64(x uint64) *Uint64 { a := &Uint64{}; a.v.Store(x); return a }
func (a *Uint64) Load() uint64   { pt(vsched.KAtomicLoad, a); return a.v.Load() }
func (a *Uint64) Store(x uint64) { pt(vsched.KAtomicStore, a); a.v.Store(x) }
func (a *Uint64) Add(d uint64) uint64 { pt(vsched.KAtomicRMW, a); return a.v.Add(d) }
func (a *Uint64) Sub(d uint64) uint64 { pt(vsched.KAtomicRMW, a); return a.v.Add(^(d - 1)) }
func (a *Uint64) Inc() uint64         { return a.Add(1) }
func (a *Uint64) Dec() uint64         { return a.Sub(1) }
func (a *Uint64) Swap(x uint64) uint64 { pt(vsched.KAtomicRMW, a); return a.v.Swap(x) }
func (a *Uint64) CompareAndSwap(o, n uint64) bool {
	pt(vsched.KAtomicRMW, a)
	return a.v.CompareAndSwap(o, n)
}
func (a *Uint64) CAS(o, n uint64) bool { return a.CompareAndSwap(o, n) }

type Uint32 struct{ v atomic.Uint32 }

func NewUint32(x uint32) *Uint32 { a := &Uint32{}; a.v.Store(x); return a }
func (a *Uint32) Load() uint32   { pt(vsched.KAtomicLoad, a); return a.v.Load() }
func (a *Uint32) Store(x uint32) { pt(vsched.KAtomicStore, a); a.v.Store(x) }
func (a *Uint32) Add(d uint32) uint32 { pt(vsched.KAtomicRMW, a); return a.v.Add(d) }
func (a *Uint32) Sub(d uint32) uint32 { pt(vsched.KAtomicRMW, a); return a.v.Add(^(d - 1)) }
func (a *Uint32) Inc() uint32         { return a.Add(1) }
func (a *Uint32) Dec() uint32         { return a.Sub(1) }
func (a *Uint32) Swap(x uint32) uint32 { pt(vsched.KAtomicRMW, a); return a.v.Swap(x) }
func (a *Uint32) CompareAndSwap(o, n uint32) bool {
	pt(vsched.KAtomicRMW, a)
	return a.v.CompareAndSwap(o, n)
}
func (a *Uint32) CAS(o, n uint32) bool { return a.CompareAndSwap(o, n) }

type Bool struct{ v atomic.Bool }

func NewBool(x bool) *Bool   { a := &Bool{}; a.v.Store(x); return a }
func (a *Bool) Load() bool   { pt(vsched.KAtomicLoad, a); return a.v.Load() }
func (a *Bool) Store(x bool) { pt(vsched.KAtomicStore, a); a.v.Store(x) }
func (a *Bool) Swap(x bool) bool { pt(vsched.KAtomicRMW, a); return a.v.Swap(x) }
func (a *Bool) CompareAndSwap(o, n bool) bool {
	pt(vsched.KAtomicRMW, a)
	return a.v.CompareAndSwap(o, n)
}
func (a *Bool) CAS(o, n bool) bool { return a.CompareAndSwap(o, n) }
func (a *Bool) Toggle() bool {
	for {
		old := a.Load()
		if a.CompareAndSwap(old, !old) {
			return old
		}
	}
}

type Float64 struct{ v atomic.Uint64 }

func NewFloat64(x float64) *Float64 { a := &Float64{}; a.v.Store(math.Float64bits(x)); return a }
func (a *Float64) Load() float64    { pt(vsched.KAtomicLoad, a); return math.Float64frombits(a.v.Load()) }
func (a *Float64) Store(x float64)  { pt(vsched.KAtomicStore, a); a.v.Store(math.Float64bits(x)) }
func (a *Float64) Add(d float64) float64 {
	pt(vsched.KAtomicRMW, a)
	for {
		o := a.v.Load()
		n := math.Float64frombits(o) + d
		if a.v.CompareAndSwap(o, math.Float64bits(n)) {
			return n
		}
	}
}
func (a *Float64) Sub(d float64) float64 { return a.Add(-d) }
func (a *Float64) CompareAndSwap(o, n float64) bool {
	pt(vsched.KAtomicRMW, a)
	return a.v.CompareAndSwap(math.Float64bits(o), math.Float64bits(n))
}

type Duration struct{ v atomic.Int64 }

func NewDuration(x time.Duration) *Duration { a := &Duration{}; a.v.Store(int64(x)); return a }
func (a *Duration) Load() time.Duration     { pt(vsched.KAtomicLoad, a); return time.Duration(a.v.Load()) }
func (a *Duration) Store(x time.Duration)   { pt(vsched.KAtomicStore, a); a.v.Store(int64(x)) }

type String struct{ v atomic.Value }

func NewString(x string) *String { a := &String{}; a.v.Store(x); return a }
func (a *String) Load() string {
	pt(vsched.KAtomicLoad, a)
	s, _ := a.v.Load().(string)
	return s
}
func (a *String) Store(x string) { pt(vsched.KAtomicStore, a); a.v.Store(x) }

type Error struct{ v atomic.Value }

type errBox struct{ err error }

func NewError(e error) *Error { a := &Error{}; a.v.Store(errBox{e}); return a }
func (a *Error) Load() error {
	pt(vsched.KAtomicLoad, a)
	b, _ := a.v.Load().(errBox)
	return b.err
}
func (a *Error) Store(e error) { pt(vsched.KAtomicStore, a); a.v.Store(errBox{e}) }
