#!/bin/bash
# Builds everything the checks need, offline, from files on disk only.
# Usage: ./setup.sh [check ids...]   (no ids = all checks in checks.json)
set -u
cd "$(dirname "$0")"
export GOPROXY=off
unset GOFLAGS GOSUMDB GOWORK
TC=/root/go/pkg/mod/golang.org/toolchain@v0.0.1-go1.25.10.linux-amd64
mkdir -p .cache/bin evidence replays
[ -L .cache/goroot ] || ln -s "$TC" .cache/goroot
if [ -d tools/mkoverlay ]; then
  (cd tools/mkoverlay && GOTOOLCHAIN=local GOFLAGS=-mod=mod GOWORK=off "$TC/bin/go" build -o ../../.cache/bin/mkoverlay .) || { echo "mkoverlay build failed"; exit 1; }
fi
# pre-build every harness binary (warms the Go build cache, including flavour builds)
python3 - "$@" <<'PY'
import json, subprocess, sys, os, glob
checks = json.load(open("checks.json"))
for f in sorted(glob.glob("checks.d/*.json")):
    checks.update(json.load(open(f)))
ids = sys.argv[1:] or sorted(checks)
seen = set()
ok = True
for cid in ids:
    spec = checks[cid]
    key = (spec["pkg"], spec.get("flavour", "plain"), spec.get("tags", ""), json.dumps(spec.get("rewrite_pkgs", [])), json.dumps(spec.get("files", [])))
    if key in seen:
        continue
    seen.add(key)
    r = subprocess.run(["./check", cid, "build"], capture_output=True, text=True)
    print("prebuild", cid, "rc=%d" % r.returncode, r.stdout.strip()[-300:])
    if r.returncode != 0:
        ok = False
sys.exit(0 if ok else 1)
PY
