package discovery

// C47: service discovery converges to the latest target groups; no update is lost while the
// consumer is slow.
//
// Engine E5 (evloop): the REAL discovery.Manager (NewManager, ApplyConfig, Run: sender and
// updater goroutines, triggerSend, syncCh, back-off timer) runs inside a synctest bubble. The
// explorer (vx.BFS, canonical-state de-duplication) enumerates every ordering of <= depth
// external events:
//   reload/<cfg>   Manager.ApplyConfig with one of the configurations of c47Configs
//   up/<P>/<u>     fake discoverer P (P1,P2; sources a,b) sends update u on its channel
//   read           the consumer starts ONE receive on SyncCh() (it stays pending until a sender
//                  tick hands a map over; while no read is pending the consumer is "slow")
//   tick           the fake clock advances to the next firing of the sender's back-off timer
// After every event the oracle closes the history ("updates stop, ticks delivered until
// quiescent, consumer drained") and compares the LAST map read with the reference fold of the
// statement.

import (
	"context"
	"fmt"
	"os"
	"sort"
	"strings"
	"sync"
	"testing"
	"testing/synctest"
	"time"

	"github.com/prometheus/client_golang/prometheus"
	dto "github.com/prometheus/client_model/go"
	"github.com/prometheus/common/model"

	"github.com/prometheus/prometheus/discovery/targetgroup"
	"github.com/prometheus/prometheus/internal/verif/evloop"
	"github.com/prometheus/prometheus/internal/verif/vx"
)

// ---------------------------------------------------------------------------
// alphabets
// ---------------------------------------------------------------------------

// A configuration: job -> providers serving it. P1,P2 are fake dynamic discoverers, S1,S2
// static configs (their groups arrive by themselves when the provider starts); a job with no
// provider gets the manager's own empty static group.
type c47Job struct {
	job   string
	provs []string
}

var c47Configs = map[string][]c47Job{
	"A": {{"j1", []string{"P1"}}},
	"B": {{"j1", []string{"P1", "P2"}}},              // two providers, same source names, one job
	"C": {{"j1", []string{"P1"}}, {"j2", []string{"P1"}}}, // one provider shared by two jobs
	"D": {{"j1", []string{"P2"}}, {"j2", []string{"P1"}}}, // P1 moves from j1 to j2
	"E": {{"j1", nil}},                                // job without any SD config
	"S": {{"j1", []string{"S1"}}},
	"T": {{"j1", []string{"S2", "P2"}}, {"j2", nil}},
	"0": {},
}

var c47ConfigOrder = []string{"A", "B", "C", "D", "E", "S", "T", "0"}

// static provider contents: source -> targets ("" = empty group)
var c47Static = map[string][][2]string{
	"S1": {{"s", "S1-s"}},
	"S2": {{"s", "S2-s"}, {"t", "S2-t"}, {"e", ""}},
}

// updates of a dynamic provider: list of (source, '+' new non-empty content | '0' empty group | 'n' nil group)
var c47Updates = map[string][][2]string{
	"a+":   {{"a", "+"}},
	"a0":   {{"a", "0"}},
	"b+":   {{"b", "+"}},
	"a0b+": {{"a", "0"}, {"b", "+"}},
	"a+b0": {{"a", "+"}, {"b", "0"}},
	"nil":  {{"", "n"}},
}

var (
	c47UpdatesQuick    = []string{"a+", "a0", "b+"}
	c47UpdatesThorough = []string{"a+", "a0", "b+", "a0b+", "a+b0", "nil"}
)

const (
	c47Updatert  = 200 * time.Millisecond
	c47Step      = 10 * time.Millisecond
	c47TickSteps = 32 // 32*10ms > 1.5*updatert+1ns, the longest back-off interval
)

// ---------------------------------------------------------------------------
// reference model (from the statement)
// ---------------------------------------------------------------------------

type c47Model struct {
	applied bool
	jobs    map[string][]string          // job -> providers serving it (current configuration)
	inst    map[string]map[string]string // live provider -> source -> latest NON-EMPTY group content
}

func c47NewModel() *c47Model {
	return &c47Model{jobs: map[string][]string{}, inst: map[string]map[string]string{}}
}

func (m *c47Model) reload(cfg []c47Job) {
	m.applied = true
	live := map[string]bool{}
	m.jobs = map[string][]string{}
	for _, j := range cfg {
		m.jobs[j.job] = append([]string{}, j.provs...)
		for _, p := range j.provs {
			live[p] = true
		}
	}
	for p := range m.inst {
		if !live[p] {
			delete(m.inst, p) // removed provider: all its sources are removed
		}
	}
	for p := range live {
		if _, ok := m.inst[p]; ok {
			continue // unchanged provider keeps running and keeps its groups
		}
		m.inst[p] = map[string]string{}
		for _, g := range c47Static[p] { // a static provider announces its groups when it starts
			m.update(p, g[0], g[1])
		}
	}
}

func (m *c47Model) update(p, source, content string) {
	if m.inst[p] == nil {
		return
	}
	if content == "" {
		delete(m.inst[p], source)
	} else {
		m.inst[p][source] = content
	}
}

// expected is the map the consumer must have read last: for every job the latest non-empty
// group of every source of every provider serving it; jobs without targets map to an empty list.
func (m *c47Model) expected() map[string][]string {
	out := map[string][]string{}
	for job, provs := range m.jobs {
		l := []string{}
		for _, p := range provs {
			for src, c := range m.inst[p] {
				l = append(l, src+"="+c)
			}
		}
		sort.Strings(l)
		out[job] = l
	}
	return out
}

func (m *c47Model) String() string {
	var sb strings.Builder
	for _, p := range vx.SortedKeys(m.inst) {
		fmt.Fprintf(&sb, "%s{", p)
		for _, s := range vx.SortedKeys(m.inst[p]) {
			fmt.Fprintf(&sb, "%s=%s,", s, m.inst[p][s])
		}
		sb.WriteString("}")
	}
	return fmt.Sprintf("jobs=%s inst=%s", vx.J(m.jobs), sb.String())
}

// ---------------------------------------------------------------------------
// fake discoverers
// ---------------------------------------------------------------------------

type c47Cfg struct {
	W  *c47World
	ID string
}

func (c47Cfg) Name() string { return "c47" }
func (c c47Cfg) NewDiscoverer(DiscovererOptions) (Discoverer, error) {
	return &c47Disc{w: c.W, id: c.ID, cmd: make(chan []*targetgroup.Group)}, nil
}

func (c47Cfg) NewDiscovererMetrics(prometheus.Registerer, RefreshMetricsInstantiator) DiscovererMetrics {
	return &NoopDiscovererMetrics{}
}

type c47Disc struct {
	w   *c47World
	id  string
	cmd chan []*targetgroup.Group
}

func (d *c47Disc) Run(ctx context.Context, up chan<- []*targetgroup.Group) {
	d.w.mu.Lock()
	d.w.running[d.id] = append(d.w.running[d.id], d)
	d.w.mu.Unlock()
	defer func() {
		d.w.mu.Lock()
		l := d.w.running[d.id]
		for i := range l {
			if l[i] == d {
				l = append(l[:i:i], l[i+1:]...)
				break
			}
		}
		d.w.running[d.id] = l
		d.w.mu.Unlock()
	}()
	for {
		select {
		case <-ctx.Done():
			return
		case tgs := <-d.cmd:
			select {
			case up <- tgs:
			case <-ctx.Done():
				return
			}
		}
	}
}

// ---------------------------------------------------------------------------
// the world
// ---------------------------------------------------------------------------

type c47World struct {
	r       *vx.Run
	updates []string
	ctx     context.Context
	cancel  context.CancelFunc
	m       *Manager
	runErr  chan error

	mu      sync.Mutex
	running map[string][]*c47Disc
	armed   bool
	got     []string // canonical form of every map read from SyncCh, in order
	closed  bool     // SyncCh was closed

	seq map[string]int // per dynamic provider: number of non-empty groups sent so far
	mdl *c47Model
	// history features, for coverage accounting only
	delayedSeen bool
}

func c47NewWorld(r *vx.Run, updates []string) *c47World {
	w := &c47World{r: r, updates: updates, running: map[string][]*c47Disc{}, seq: map[string]int{}, mdl: c47NewModel(), runErr: make(chan error, 1)}
	w.ctx, w.cancel = context.WithCancel(context.Background())
	reg := prometheus.NewRegistry()
	sdm := &SDMetrics{RefreshManager: NewRefreshMetrics(reg), MechanismMetrics: map[string]DiscovererMetrics{}}
	w.m = NewManager(w.ctx, nil, reg, sdm, Updatert(c47Updatert))
	if w.m == nil {
		panic("c47: NewManager returned nil")
	}
	go func() { w.runErr <- w.m.Run() }()
	return w
}

func (w *c47World) realConfig(name string) map[string]Configs {
	out := map[string]Configs{}
	for _, j := range c47Configs[name] {
		cs := Configs{}
		for _, p := range j.provs {
			if gs, ok := c47Static[p]; ok {
				sc := StaticConfig{}
				for _, g := range gs {
					tg := &targetgroup.Group{Source: g[0]}
					if g[1] != "" {
						tg.Targets = []model.LabelSet{{model.AddressLabel: model.LabelValue(g[1])}}
					}
					sc = append(sc, tg)
				}
				cs = append(cs, sc)
			} else {
				cs = append(cs, c47Cfg{W: w, ID: p})
			}
		}
		out[j.job] = cs
	}
	return out
}

func (w *c47World) Ops() []string {
	var ops []string
	for _, c := range c47ConfigOrder {
		ops = append(ops, "reload/"+c)
	}
	w.mu.Lock()
	armed := w.armed
	run := map[string]int{}
	for k, v := range w.running {
		run[k] = len(v)
	}
	w.mu.Unlock()
	ops = append(ops, "tick")
	if !armed {
		ops = append(ops, "read")
	}
	for _, p := range []string{"P1", "P2"} {
		if run[p] > 0 {
			for _, u := range w.updates {
				ops = append(ops, "up/"+p+"/"+u)
			}
		}
	}
	return ops
}

func (w *c47World) counter(c prometheus.Counter) float64 {
	var d dto.Metric
	if err := c.Write(&d); err != nil {
		panic(err)
	}
	return d.GetCounter().GetValue()
}

// tick advances the fake clock until the sender's back-off timer has fired once with a pending
// trigger (SentUpdates moves), or, when nothing is pending, past the longest possible back-off
// interval (ticks without a pending trigger do nothing: `default:` branch of the sender).
func (w *c47World) tick() {
	before := w.counter(w.m.metrics.SentUpdates)
	for i := 0; i < c47TickSteps; i++ {
		time.Sleep(c47Step)
		synctest.Wait()
		if w.counter(w.m.metrics.SentUpdates) != before {
			return
		}
	}
}

func (w *c47World) arm() {
	w.mu.Lock()
	w.armed = true
	w.mu.Unlock()
	ch := w.m.SyncCh()
	go func() {
		v, ok := <-ch
		w.mu.Lock()
		defer w.mu.Unlock()
		w.armed = false
		if !ok {
			w.closed = true
			return
		}
		w.got = append(w.got, c47CanonDelivered(v))
	}()
}

func (w *c47World) Apply(op string) {
	f := strings.Split(op, "/")
	switch f[0] {
	case "reload":
		if err := w.m.ApplyConfig(w.realConfig(f[1])); err != nil {
			panic(fmt.Sprintf("c47: ApplyConfig: %v", err))
		}
		w.mdl.reload(c47Configs[f[1]])
	case "tick":
		w.tick()
	case "read":
		w.arm()
	case "up":
		p := f[1]
		w.mu.Lock()
		l := w.running[p]
		w.mu.Unlock()
		if len(l) == 0 {
			panic("c47: update for a provider that is not running: " + op)
		}
		var tgs []*targetgroup.Group
		for _, g := range c47Updates[f[2]] {
			switch g[1] {
			case "n":
				tgs = append(tgs, nil)
			case "0":
				tgs = append(tgs, &targetgroup.Group{Source: g[0]})
				w.mdl.update(p, g[0], "")
			case "+":
				w.seq[p]++
				addr := fmt.Sprintf("%s-%s-%d", p, g[0], w.seq[p])
				tgs = append(tgs, &targetgroup.Group{Source: g[0], Targets: []model.LabelSet{{model.AddressLabel: model.LabelValue(addr)}}})
				w.mdl.update(p, g[0], addr)
			}
		}
		l[len(l)-1].cmd <- tgs
	default:
		panic("c47: unknown op " + op)
	}
}

func c47CanonGroup(tg *targetgroup.Group) string {
	if tg == nil {
		return "<nil>"
	}
	var ts []string
	for _, t := range tg.Targets {
		var kv []string
		for k, v := range t {
			if k == model.AddressLabel {
				kv = append(kv, string(v))
			} else {
				kv = append(kv, string(k)+":"+string(v))
			}
		}
		sort.Strings(kv)
		ts = append(ts, strings.Join(kv, "&"))
	}
	sort.Strings(ts)
	s := tg.Source + "=" + strings.Join(ts, "+")
	if len(tg.Labels) > 0 {
		s += "{" + tg.Labels.String() + "}"
	}
	return s
}

func c47CanonMap(m map[string][]string) string {
	var sb strings.Builder
	for _, job := range vx.SortedKeys(m) {
		fmt.Fprintf(&sb, "%s:[%s] ", job, strings.Join(m[job], " "))
	}
	return "{" + strings.TrimSpace(sb.String()) + "}"
}

func c47CanonDelivered(v map[string][]*targetgroup.Group) string {
	m := map[string][]string{}
	for job, tgs := range v {
		l := []string{}
		for _, tg := range tgs {
			l = append(l, c47CanonGroup(tg))
		}
		sort.Strings(l)
		m[job] = l
	}
	return c47CanonMap(m)
}

func c47ProvID(p *Provider) string {
	switch c := p.config.(type) {
	case c47Cfg:
		return c.ID
	case StaticConfig:
		var l []string
		for _, g := range c {
			l = append(l, c47CanonGroup(g))
		}
		return "static(" + strings.Join(l, ",") + ")"
	}
	return fmt.Sprintf("?%T", p.config)
}

// implSummary is the part of the manager's state that determines its future behaviour:
// providers (by configuration identity, NOT by generated name), their subscriptions, every
// stored group, whether a send is pending. Not included, with reason: the back-off state and the
// clock (they only decide WHEN the next tick fires; "tick" is an explicit event and ticks without
// a pending trigger are no-ops), metrics, provider names ("c47/<n>" is a running counter that
// only serves as map key; identity is carried by the configuration).
func (w *c47World) implSummary() string {
	m := w.m
	m.mtx.RLock()
	names := map[string]string{}
	var ps []string
	for _, p := range m.providers {
		p.mu.RLock()
		id := c47ProvID(p)
		names[p.name] = id
		subs := vx.SortedKeys(p.subs)
		ps = append(ps, fmt.Sprintf("%s%v started=%v", id, subs, p.cancel != nil))
		p.mu.RUnlock()
	}
	m.mtx.RUnlock()
	sort.Strings(ps)
	m.targetsMtx.Lock()
	var ts []string
	for k, srcs := range m.targets {
		id, ok := names[k.provider]
		if !ok {
			id = "orphan" // targets of a provider that is no longer registered
		}
		var l []string
		for s, tg := range srcs {
			l = append(l, s+"->"+c47CanonGroup(tg))
		}
		sort.Strings(l)
		ts = append(ts, fmt.Sprintf("%s|%s{%s}", k.setName, id, strings.Join(l, ",")))
	}
	m.targetsMtx.Unlock()
	sort.Strings(ts)
	return fmt.Sprintf("prov=%v targets=%v trig=%d", ps, ts, len(m.triggerSend))
}

func (w *c47World) Key() string {
	w.mu.Lock()
	last := "<none>"
	if n := len(w.got); n > 0 {
		last = w.got[n-1]
	}
	var run []string
	for _, k := range vx.SortedKeys(w.running) {
		run = append(run, fmt.Sprintf("%s:%d", k, len(w.running[k])))
	}
	armed := w.armed
	w.mu.Unlock()
	var seq []string
	for _, k := range vx.SortedKeys(w.seq) {
		seq = append(seq, fmt.Sprintf("%s:%d", k, w.seq[k]))
	}
	return fmt.Sprintf("%s | armed=%v last=%s running=%v seq=%v applied=%v | model %s", w.implSummary(), armed, last, run, seq, w.mdl.applied, w.mdl)
}

func (w *c47World) Obs() string {
	w.mu.Lock()
	got := strings.Join(w.got, " ; ")
	closed := w.closed
	w.mu.Unlock()
	return fmt.Sprintf("%s | got=[%s] closed=%v sent=%v delayed=%v received=%v", w.Key(), got, closed,
		w.counter(w.m.metrics.SentUpdates), w.counter(w.m.metrics.DelayedUpdates), w.counter(w.m.metrics.ReceivedUpdates))
}

// Check closes the history: no further updates; ticks are delivered with the consumer reading
// until a tick hands nothing over; then the last map read must equal the reference fold.
func (w *c47World) Check() *vx.Fail {
	if w.counter(w.m.metrics.DelayedUpdates) > 0 {
		w.delayedSeen = true
	}
	quiescent := false
	for i := 0; i < 4 && !quiescent; i++ {
		w.mu.Lock()
		armed, n := w.armed, len(w.got)
		w.mu.Unlock()
		if !armed {
			w.arm()
			synctest.Wait()
		}
		w.tick()
		w.mu.Lock()
		quiescent = len(w.got) == n
		w.mu.Unlock()
	}
	if !quiescent {
		return vx.Failf("never-quiescent", "the manager still delivers maps after 4 reads without any new update or reload")
	}
	if n := len(w.m.triggerSend); n != 0 {
		return vx.Failf("trigger-pending-after-drain", "a consumer was waiting during a whole tick, nothing was delivered, yet triggerSend holds %d", n)
	}
	w.mu.Lock()
	defer w.mu.Unlock()
	if w.closed {
		return vx.Failf("syncch-closed", "SyncCh was closed while the manager context is alive")
	}
	want := w.mdl.expected()
	if len(w.got) == 0 {
		if len(want) != 0 {
			return vx.Failf("nothing-delivered", "configuration with jobs %v applied but the consumer never received anything; want %s", vx.SortedKeys(want), c47CanonMap(want))
		}
		if w.r != nil {
			if w.r.Distinct("distinct_outcomes", "<nothing delivered>") {
				w.r.Count("outcome_kinds", 1)
			}
		}
		return nil
	}
	last := w.got[len(w.got)-1]
	if w.r != nil {
		if w.r.Distinct("distinct_outcomes", last) {
			w.r.Count("outcome_kinds", 1)
		}
		if w.delayedSeen {
			w.r.Distinct("distinct_nontrivial", "delayed|"+last)
			w.r.Count("histories_with_delayed_send", 1)
		}
	}
	if ws := c47CanonMap(want); last != ws {
		sig := "last-delivered-differs-from-fold"
		if !w.mdl.applied {
			sig = "delivered-before-any-config"
		}
		return vx.Failf(sig, "after updates stopped and the consumer drained, the last map read is %s, the reference fold of the updates is %s (all maps read: %v)", last, ws, w.got)
	}
	return nil
}

func (w *c47World) Close() {
	w.cancel()
	synctest.Wait()
	<-w.runErr
}

// ---------------------------------------------------------------------------
// the check
// ---------------------------------------------------------------------------

func c47SelfTest(t *testing.T, r *vx.Run, eng *evloop.Engine) {
	// 1. the closing oracle accepts a correct run that exercises the slow-consumer path ...
	ops := []string{"reload/B", "up/P1/a+", "tick", "up/P2/a+", "up/P1/a0", "read"}
	if f := eng.Replay(func() evloop.World { return c47NewWorld(nil, c47UpdatesThorough) }, ops); f != nil {
		// the real code fails this fixed history: that is a verdict, not a tool failure
		r.Violation(f.Signature, f.Message, map[string]any{"config": "c47-thorough", "ops": ops})
		return
	}
	// 2. ... and rejects a wrong answer: same run, but the reference is told that P1's source a
	// still holds its first group (i.e. as if the implementation had lost the emptying update).
	bad := func() evloop.World { return &c47Sabotaged{c47NewWorld(nil, c47UpdatesThorough)} }
	if f := eng.Replay(bad, ops); f == nil || f.Signature != "last-delivered-differs-from-fold" {
		t.Fatalf("self-test: oracle accepted a wrong final map (%v)", f)
	}
	// 3. the model folds as the statement says.
	m := c47NewModel()
	m.reload(c47Configs["C"])
	m.update("P1", "a", "x1")
	m.update("P1", "b", "y1")
	m.update("P1", "a", "")
	m.reload(c47Configs["T"])
	if got := c47CanonMap(m.expected()); got != "{j1:[s=S2-s t=S2-t] j2:[]}" {
		t.Fatalf("self-test: model fold wrong: %s", got)
	}
}

// c47Sabotaged corrupts the reference just before the oracle runs (self-test only).
type c47Sabotaged struct{ *c47World }

func (s *c47Sabotaged) Check() *vx.Fail {
	s.mdl.update("P1", "a", "P1-a-1")
	return s.c47World.Check()
}

func TestVerifC47(t *testing.T) {
	r := vx.Start(t, "C47", "model_checking")
	defer r.Finish()
	eng := &evloop.Engine{T: t, GuardFirst: 50}
	updates := vx.Pick(r, c47UpdatesQuick, c47UpdatesThorough)
	mk := func() evloop.World { return c47NewWorld(r, updates) }
	if r.Replay != "" {
		var rp struct {
			Config string   `json:"config"`
			Ops    []string `json:"ops"`
		}
		r.LoadReplay(&rp)
		if rp.Config == "c47-thorough" {
			updates = c47UpdatesThorough
		}
		if f := eng.Replay(mk, rp.Ops); f != nil {
			r.Violation(f.Signature, f.Message, rp)
		}
		return
	}
	c47SelfTest(t, r, &evloop.Engine{T: t})
	depth := vx.Pick(r, 6, 9)
	if v := os.Getenv("VERIF_C47_DEPTH"); v != "" { // experiments only
		fmt.Sscan(v, &depth)
	}
	name := vx.Pick(r, "c47-quick", "c47-thorough")
	res := r.BFS(name, func() vx.Sys { return eng.Sys(mk) }, depth)
	t.Logf("C47 %s depth %d: states=%d transitions=%d depthCompleted=%d guarded=%d", name, depth, res.States, res.Transitions, res.DepthCompleted, eng.Guarded())
	if d := eng.Diverged(); len(d) > 0 {
		t.Fatalf("determinism guard: %d of %d twice-executed histories diverged, e.g. %s", len(d), eng.Guarded(), d[0])
	}
	if eng.Guarded() < 50 && eng.Checked() >= 50 {
		t.Fatalf("determinism guard ran on %d histories only", eng.Guarded())
	}
	r.Count("histories_executed_twice", int(eng.Guarded()))
	r.Count("evaluations", int(eng.Checked()))
	r.Set("depth", depth)
	r.Set("alphabet", map[string]any{"configs": c47ConfigOrder, "updates_per_provider": updates, "providers": []string{"P1", "P2", "S1", "S2", "static-empty"}, "other": []string{"read", "tick"}})
	r.Set("rule", fmt.Sprintf("every ordering of <= %d events (reload to one of %d configurations, update u of provider P1/P2 when running, consumer read, sender tick) on a fresh real Manager in a synctest bubble, de-duplicated on (providers, subscriptions, stored groups, pending trigger, pending read, last delivered map, model); after every transition the history is closed (ticks + reads until nothing more is delivered) and the last delivered map compared with the reference fold; distinct_outcomes = distinct final maps, distinct_nontrivial = distinct final maps of histories in which the sender found the consumer not reading (delayed-update path)", depth, len(c47ConfigOrder)))
	r.Assume("between two quiescent points the order of runnable goroutines, select tie-breaks and map iteration are the Go runtime's; each event is injected only when every goroutine of the manager is durably blocked (so e.g. a discoverer blocked in its send while ApplyConfig runs is not explored)")
	r.Assume("sender ticks that find no pending trigger are no-ops; the tick event advances the fake clock in 10ms steps until SentUpdates moves or the longest back-off interval has elapsed")
	if r.Violations() == 0 && (r.Get("histories_with_delayed_send") == 0 || r.Get("outcome_kinds") < 2) {
		t.Fatalf("vacuous run: delayed-update (slow consumer) path taken %d times, %d distinct final maps", r.Get("histories_with_delayed_send"), r.Get("outcome_kinds"))
	}
}
