package discovery

// C47: service discovery converges to the latest target groups; no update is lost while the
// consumer is slow.
//
// Engine E5 (evloop): the REAL discovery.Manager (NewManager, ApplyConfig, Run: sender and
// updater goroutines, triggerSend, syncCh, back-off timer) runs inside a synctest bubble. The
// explorer (vx.BFS, canonical-state de-duplication) enumerates every ordering of <= depth
// external events:
//   reload/<cfg>   Manager.ApplyConfig with one of the configurations of c47Configs
//   up/<P>/<u>     fake discoverer P (P1,P2; sources a,b) sends update u on its channel
//   read           the consumer starts ONE receive on SyncCh() (it stays pending until a sender
//                  tick hands a map over; while no read is pending the consumer is "slow")
//   tick           the fake clock advances to the next firing of the sender's back-off timer
//   race/<cfg>/<P>/<u>/<order>   (second search only) a reload to <cfg>, which keeps provider P,
//                  CONCURRENT with update u of P: the harness holds Manager.targetsMtx (the lock
//                  every step of ApplyConfig, updater and allGroups that touches the target pools
//                  must take), starts the first contender (order R: ApplyConfig in its own
//                  goroutine, order U: the update), waits until every goroutine of the bubble is
//                  parked (durably or on a lock), starts the second contender, waits again, and
//                  only then releases the lock. The update therefore arrives while ApplyConfig
//                  is in the middle of its locked steps (R) or ApplyConfig arrives while the
//                  updater is in the middle of applying the update (U); what happens next is
//                  decided by the manager's own locking.
// After every event the oracle closes the history ("updates stop, ticks delivered until
// quiescent, consumer drained") and compares the LAST map read with the reference fold of the
// statement.

import (
	"context"
	"fmt"
	"os"
	"runtime"
	"sort"
	"strings"
	"sync"
	"testing"
	"testing/synctest"
	"time"

	"github.com/prometheus/client_golang/prometheus"
	dto "github.com/prometheus/client_model/go"
	"github.com/prometheus/common/model"

	"github.com/prometheus/prometheus/discovery/targetgroup"
	"github.com/prometheus/prometheus/internal/verif/evloop"
	"github.com/prometheus/prometheus/internal/verif/vx"
)

// ---------------------------------------------------------------------------
// alphabets
// ---------------------------------------------------------------------------

// A configuration: job -> providers serving it. P1,P2 are fake dynamic discoverers, S1,S2
// static configs (their groups arrive by themselves when the provider starts); a job with no
// provider gets the manager's own empty static group.
type c47Job struct {
	job   string
	provs []string
}

var c47Configs = map[string][]c47Job{
	"A": {{"j1", []string{"P1"}}},
	"B": {{"j1", []string{"P1", "P2"}}},                   // two providers, same source names, one job
	"C": {{"j1", []string{"P1"}}, {"j2", []string{"P1"}}}, // one provider shared by two jobs
	"D": {{"j1", []string{"P2"}}, {"j2", []string{"P1"}}}, // P1 moves from j1 to j2
	"E": {{"j1", nil}},                                    // job without any SD config
	"S": {{"j1", []string{"S1"}}},
	"T": {{"j1", []string{"S2", "P2"}}, {"j2", nil}},
	"0": {},
}

var c47ConfigOrder = []string{"A", "B", "C", "D", "E", "S", "T", "0"}

// static provider contents: source -> targets ("" = empty group)
var c47Static = map[string][][2]string{
	"S1": {{"s", "S1-s"}},
	"S2": {{"s", "S2-s"}, {"t", "S2-t"}, {"e", ""}},
}

// updates of a dynamic provider: list of (source, '+' new non-empty content | '0' empty group | 'n' nil group)
var c47Updates = map[string][][2]string{
	"a+":   {{"a", "+"}},
	"a0":   {{"a", "0"}},
	"b+":   {{"b", "+"}},
	"a0b+": {{"a", "0"}, {"b", "+"}},
	"a+b0": {{"a", "+"}, {"b", "0"}},
	"nil":  {{"", "n"}},
}

var (
	c47UpdatesQuick    = []string{"a+", "a0", "b+"}
	c47UpdatesThorough = []string{"a+", "a0", "b+", "a0b+", "a+b0", "nil"}
)

const (
	c47Updatert  = 200 * time.Millisecond
	c47Step      = 10 * time.Millisecond
	c47TickSteps = 32 // 32*10ms > 1.5*updatert+1ns, the longest back-off interval
)

// ---------------------------------------------------------------------------
// reference model (from the statement)
// ---------------------------------------------------------------------------

type c47Model struct {
	applied bool
	jobs    map[string][]string          // job -> providers serving it (current configuration)
	inst    map[string]map[string]string // live provider -> source -> latest NON-EMPTY group content
}

func c47NewModel() *c47Model {
	return &c47Model{jobs: map[string][]string{}, inst: map[string]map[string]string{}}
}

func (m *c47Model) reload(cfg []c47Job) {
	m.applied = true
	live := map[string]bool{}
	m.jobs = map[string][]string{}
	for _, j := range cfg {
		m.jobs[j.job] = append([]string{}, j.provs...)
		for _, p := range j.provs {
			live[p] = true
		}
	}
	for p := range m.inst {
		if !live[p] {
			delete(m.inst, p) // removed provider: all its sources are removed
		}
	}
	for p := range live {
		if _, ok := m.inst[p]; ok {
			continue // unchanged provider keeps running and keeps its groups
		}
		m.inst[p] = map[string]string{}
		for _, g := range c47Static[p] { // a static provider announces its groups when it starts
			m.update(p, g[0], g[1])
		}
	}
}

func (m *c47Model) update(p, source, content string) {
	if m.inst[p] == nil {
		return
	}
	if content == "" {
		delete(m.inst[p], source)
	} else {
		m.inst[p][source] = content
	}
}

// expected is the map the consumer must have read last: for every job the latest non-empty
// group of every source of every provider serving it; jobs without targets map to an empty list.
func (m *c47Model) expected() map[string][]string {
	out := map[string][]string{}
	for job, provs := range m.jobs {
		l := []string{}
		for _, p := range provs {
			for src, c := range m.inst[p] {
				l = append(l, src+"="+c)
			}
		}
		sort.Strings(l)
		out[job] = l
	}
	return out
}

func (m *c47Model) String() string {
	var sb strings.Builder
	for _, p := range vx.SortedKeys(m.inst) {
		fmt.Fprintf(&sb, "%s{", p)
		for _, s := range vx.SortedKeys(m.inst[p]) {
			fmt.Fprintf(&sb, "%s=%s,", s, m.inst[p][s])
		}
		sb.WriteString("}")
	}
	return fmt.Sprintf("jobs=%s inst=%s", vx.J(m.jobs), sb.String())
}

// ---------------------------------------------------------------------------
// fake discoverers
// ---------------------------------------------------------------------------

type c47Cfg struct {
	W  *c47World
	ID string
}

func (c47Cfg) Name() string { return "c47" }
func (c c47Cfg) NewDiscoverer(DiscovererOptions) (Discoverer, error) {
	return &c47Disc{w: c.W, id: c.ID, cmd: make(chan []*targetgroup.Group), done: make(chan struct{})}, nil
}

func (c47Cfg) NewDiscovererMetrics(prometheus.Registerer, RefreshMetricsInstantiator) DiscovererMetrics {
	return &NoopDiscovererMetrics{}
}

type c47Disc struct {
	w    *c47World
	id   string
	cmd  chan []*targetgroup.Group
	done chan struct{} // closed when Run returns
}

func (d *c47Disc) Run(ctx context.Context, up chan<- []*targetgroup.Group) {
	d.w.mu.Lock()
	d.w.running[d.id] = append(d.w.running[d.id], d)
	d.w.mu.Unlock()
	defer func() {
		close(d.done)
		d.w.mu.Lock()
		l := d.w.running[d.id]
		for i := range l {
			if l[i] == d {
				l = append(l[:i:i], l[i+1:]...)
				break
			}
		}
		d.w.running[d.id] = l
		d.w.mu.Unlock()
	}()
	for {
		select {
		case <-ctx.Done():
			return
		case tgs := <-d.cmd:
			select {
			case up <- tgs:
			case <-ctx.Done():
				return
			}
		}
	}
}

// ---------------------------------------------------------------------------
// the world
// ---------------------------------------------------------------------------

type c47World struct {
	r       *vx.Run
	updates []string
	races   bool // offer the race/... events
	ctx     context.Context
	cancel  context.CancelFunc
	m       *Manager
	runErr  chan error

	mu      sync.Mutex
	running map[string][]*c47Disc
	armed   bool
	got     []string // canonical form of every map read from SyncCh, in order
	closed  bool     // SyncCh was closed

	seq map[string]int // per dynamic provider: number of non-empty groups sent so far
	mdl *c47Model
	// history features, for coverage accounting only
	delayedSeen bool
	raceParked  int // race events of this history in which BOTH contenders were parked on a lock when the gate opened
}

func c47NewWorld(r *vx.Run, updates []string) *c47World {
	w := &c47World{r: r, updates: updates, running: map[string][]*c47Disc{}, seq: map[string]int{}, mdl: c47NewModel(), runErr: make(chan error, 1)}
	w.ctx, w.cancel = context.WithCancel(context.Background())
	reg := prometheus.NewRegistry()
	sdm := &SDMetrics{RefreshManager: NewRefreshMetrics(reg), MechanismMetrics: map[string]DiscovererMetrics{}}
	w.m = NewManager(w.ctx, nil, reg, sdm, Updatert(c47Updatert))
	if w.m == nil {
		panic("c47: NewManager returned nil")
	}
	go func() { w.runErr <- w.m.Run() }()
	return w
}

func (w *c47World) realConfig(name string) map[string]Configs {
	out := map[string]Configs{}
	for _, j := range c47Configs[name] {
		cs := Configs{}
		for _, p := range j.provs {
			if gs, ok := c47Static[p]; ok {
				sc := StaticConfig{}
				for _, g := range gs {
					tg := &targetgroup.Group{Source: g[0]}
					if g[1] != "" {
						tg.Targets = []model.LabelSet{{model.AddressLabel: model.LabelValue(g[1])}}
					}
					sc = append(sc, tg)
				}
				cs = append(cs, sc)
			} else {
				cs = append(cs, c47Cfg{W: w, ID: p})
			}
		}
		out[j.job] = cs
	}
	return out
}

func (w *c47World) Ops() []string {
	var ops []string
	for _, c := range c47ConfigOrder {
		ops = append(ops, "reload/"+c)
	}
	w.mu.Lock()
	armed := w.armed
	run := map[string]int{}
	for k, v := range w.running {
		run[k] = len(v)
	}
	w.mu.Unlock()
	ops = append(ops, "tick")
	if !armed {
		ops = append(ops, "read")
	}
	for _, p := range []string{"P1", "P2"} {
		if run[p] > 0 {
			for _, u := range w.updates {
				ops = append(ops, "up/"+p+"/"+u)
			}
		}
	}
	if w.races {
		// reload CONCURRENT with an update of a provider that the reload keeps (an update of a
		// provider that the reload removes has no specified effect).
		for _, order := range []string{"R", "U"} {
			for _, c := range c47ConfigOrder {
				for _, p := range []string{"P1", "P2"} {
					if run[p] != 1 || !c47Serves(c, p) {
						continue
					}
					for _, u := range w.updates {
						ops = append(ops, "race/"+c+"/"+p+"/"+u+"/"+order)
					}
				}
			}
		}
	}
	return ops
}

func c47Serves(cfg, p string) bool {
	for _, j := range c47Configs[cfg] {
		for _, q := range j.provs {
			if q == p {
				return true
			}
		}
	}
	return false
}

func (w *c47World) counter(c prometheus.Counter) float64 {
	var d dto.Metric
	if err := c.Write(&d); err != nil {
		panic(err)
	}
	return d.GetCounter().GetValue()
}

// tick advances the fake clock until the sender's back-off timer has fired once with a pending
// trigger (SentUpdates moves), or, when nothing is pending, past the longest possible back-off
// interval (ticks without a pending trigger do nothing: `default:` branch of the sender).
func (w *c47World) tick() {
	before := w.counter(w.m.metrics.SentUpdates)
	for i := 0; i < c47TickSteps; i++ {
		time.Sleep(c47Step)
		synctest.Wait()
		if w.counter(w.m.metrics.SentUpdates) != before {
			return
		}
	}
}

func (w *c47World) arm() {
	w.mu.Lock()
	w.armed = true
	w.mu.Unlock()
	ch := w.m.SyncCh()
	go func() {
		v, ok := <-ch
		w.mu.Lock()
		defer w.mu.Unlock()
		w.armed = false
		if !ok {
			w.closed = true
			return
		}
		w.got = append(w.got, c47CanonDelivered(v))
	}()
}

func (w *c47World) Apply(op string) {
	f := strings.Split(op, "/")
	switch f[0] {
	case "reload":
		if err := w.m.ApplyConfig(w.realConfig(f[1])); err != nil {
			panic(fmt.Sprintf("c47: ApplyConfig: %v", err))
		}
		w.mdl.reload(c47Configs[f[1]])
	case "tick":
		w.tick()
	case "read":
		w.arm()
	case "up":
		w.sendUpdate(f[1], f[2])
	case "race":
		w.race(f[1], f[2], f[3], f[4])
	default:
		panic("c47: unknown op " + op)
	}
}

// sendUpdate makes the running discoverer of provider p send update u (and folds it into the
// reference). It returns when the discoverer has taken the update; the discoverer then hands it
// to the manager's updater goroutine.
func (w *c47World) sendUpdate(p, u string) {
	w.mu.Lock()
	l := w.running[p]
	w.mu.Unlock()
	if len(l) == 0 {
		panic("c47: update for a provider that is not running: " + p + "/" + u)
	}
	var tgs []*targetgroup.Group
	for _, g := range c47Updates[u] {
		switch g[1] {
		case "n":
			tgs = append(tgs, nil)
		case "0":
			tgs = append(tgs, &targetgroup.Group{Source: g[0]})
			w.mdl.update(p, g[0], "")
		case "+":
			w.seq[p]++
			addr := fmt.Sprintf("%s-%s-%d", p, g[0], w.seq[p])
			tgs = append(tgs, &targetgroup.Group{Source: g[0], Targets: []model.LabelSet{{model.AddressLabel: model.LabelValue(addr)}}})
			w.mdl.update(p, g[0], addr)
		}
	}
	d := l[len(l)-1]
	select {
	case d.cmd <- tgs:
	case <-d.done:
		panic("c47: discoverer of " + p + " stopped although its provider is kept")
	}
}

// race runs a reload to cfg concurrently with update u of provider p (kept by cfg). The harness
// holds targetsMtx as a gate: neither ApplyConfig nor the updater can touch the target pools
// until both are parked, in the chosen order of arrival. Since the reload keeps p, the reference
// fold does not depend on the order (reload and update commute in the statement).
func (w *c47World) race(cfg, p, u, order string) {
	real := w.realConfig(cfg)
	errc := make(chan error, 1)
	reload := func() {
		go func() {
			var err error
			if pv, st := vx.Guard(func() { err = w.m.ApplyConfig(real) }); pv != nil {
				err = fmt.Errorf("panic in ApplyConfig: %v\n%s", pv, st)
			}
			errc <- err
		}()
	}
	w.m.targetsMtx.Lock()
	var parked c47Parked
	if order == "R" {
		reload()
		c47Settle()
		w.sendUpdate(p, u)
		parked = c47Settle()
	} else {
		w.sendUpdate(p, u)
		c47Settle()
		reload()
		parked = c47Settle()
	}
	w.m.targetsMtx.Unlock()
	synctest.Wait()
	select {
	case err := <-errc:
		if err != nil {
			panic(fmt.Sprintf("c47: ApplyConfig (concurrent with an update): %v", err))
		}
	default:
		panic("c47: ApplyConfig did not return after the gate was opened and the bubble became quiescent")
	}
	w.mdl.reload(c47Configs[cfg])
	if parked.reloadOnLock && parked.updaterOnLock {
		w.raceParked++
	}
}

// c47Parked says where the two contenders of a race were when every goroutine was blocked.
type c47Parked struct {
	reloadOnLock  bool // a goroutine inside Manager.ApplyConfig waits for a sync.Mutex/RWMutex
	updaterOnLock bool // a goroutine inside Manager.updater waits for a sync.Mutex/RWMutex
}

// c47Settle returns when every OTHER goroutine of the caller's synctest bubble is blocked:
// durably (channel, select, timer, WaitGroup ...: what synctest.Wait waits for) or on a
// sync.Mutex / sync.RWMutex (which synctest.Wait never regards as blocked, so it cannot be used
// while the harness holds a lock of the manager). The goroutine states are read from the
// runtime's own all-goroutine dump, which is taken with the world stopped, so one dump in which
// nobody else is runnable is a fixpoint: the fake clock does not advance while the caller runs
// and nothing outside the bubble can wake a goroutine inside it.
var c47StackBufs = sync.Pool{New: func() any { b := make([]byte, 256<<10); return &b }}

func c47Settle() c47Parked {
	self := make([]byte, 256)
	self = self[:runtime.Stack(self, false)]
	selfHdr, _, _ := strings.Cut(string(self), "\n")
	selfID, _, bubble, ok := c47ParseGoHeader(selfHdr)
	if !ok || bubble == "" {
		panic("c47: cannot find the caller's synctest bubble in " + selfHdr)
	}
	bp := c47StackBufs.Get().(*[]byte)
	defer c47StackBufs.Put(bp)
	buf := *bp
	for try := 0; try < 100000; try++ {
		runtime.Gosched()
		n := runtime.Stack(buf, true)
		for n == len(buf) {
			buf = make([]byte, 2*len(buf))
			*bp = buf
			n = runtime.Stack(buf, true)
		}
		settled := true
		var pk c47Parked
		for _, blk := range strings.Split(string(buf[:n]), "\n\n") {
			hdr, body, _ := strings.Cut(blk, "\n")
			id, state, b, ok := c47ParseGoHeader(hdr)
			if !ok || b != bubble || id == selfID {
				continue
			}
			switch {
			case strings.HasSuffix(state, "(durable)"):
			case state == "sync.WaitGroup.Wait" || state == "sync.Cond.Wait":
			case state == "sync.Mutex.Lock" || state == "sync.RWMutex.RLock" || state == "sync.RWMutex.Lock":
				if strings.Contains(body, "discovery.(*Manager).ApplyConfig(") {
					pk.reloadOnLock = true
				}
				if strings.Contains(body, "discovery.(*Manager).updater(") {
					pk.updaterOnLock = true
				}
			default: // running, runnable, ...
				settled = false
			}
			if !settled {
				break
			}
		}
		if settled {
			return pk
		}
	}
	panic("c47: the bubble does not settle while the harness holds targetsMtx:\n" + string(buf))
}

// c47ParseGoHeader parses "goroutine 12 [sync.Mutex.Lock, 2 minutes, synctest bubble 3]:".
func c47ParseGoHeader(h string) (id, state, bubble string, ok bool) {
	rest, found := strings.CutPrefix(h, "goroutine ")
	if !found || !strings.HasSuffix(rest, "]:") {
		return "", "", "", false
	}
	id, rest, found = strings.Cut(rest, " [")
	if !found {
		return "", "", "", false
	}
	parts := strings.Split(strings.TrimSuffix(rest, "]:"), ", ")
	state = parts[0]
	for _, p := range parts[1:] {
		if b, isB := strings.CutPrefix(p, "synctest bubble "); isB {
			bubble = b
		}
	}
	return id, state, bubble, true
}

func c47CanonGroup(tg *targetgroup.Group) string {
	if tg == nil {
		return "<nil>"
	}
	var ts []string
	for _, t := range tg.Targets {
		var kv []string
		for k, v := range t {
			if k == model.AddressLabel {
				kv = append(kv, string(v))
			} else {
				kv = append(kv, string(k)+":"+string(v))
			}
		}
		sort.Strings(kv)
		ts = append(ts, strings.Join(kv, "&"))
	}
	sort.Strings(ts)
	s := tg.Source + "=" + strings.Join(ts, "+")
	if len(tg.Labels) > 0 {
		s += "{" + tg.Labels.String() + "}"
	}
	return s
}

func c47CanonMap(m map[string][]string) string {
	var sb strings.Builder
	for _, job := range vx.SortedKeys(m) {
		fmt.Fprintf(&sb, "%s:[%s] ", job, strings.Join(m[job], " "))
	}
	return "{" + strings.TrimSpace(sb.String()) + "}"
}

func c47CanonDelivered(v map[string][]*targetgroup.Group) string {
	m := map[string][]string{}
	for job, tgs := range v {
		l := []string{}
		for _, tg := range tgs {
			l = append(l, c47CanonGroup(tg))
		}
		sort.Strings(l)
		m[job] = l
	}
	return c47CanonMap(m)
}

func c47ProvID(p *Provider) string {
	switch c := p.config.(type) {
	case c47Cfg:
		return c.ID
	case StaticConfig:
		var l []string
		for _, g := range c {
			l = append(l, c47CanonGroup(g))
		}
		return "static(" + strings.Join(l, ",") + ")"
	}
	return fmt.Sprintf("?%T", p.config)
}

// implSummary is the part of the manager's state that determines its future behaviour:
// providers (by configuration identity, NOT by generated name), their subscriptions, every
// stored group, whether a send is pending. Not included, with reason: the back-off state and the
// clock (they only decide WHEN the next tick fires; "tick" is an explicit event and ticks without
// a pending trigger are no-ops), metrics, provider names ("c47/<n>" is a running counter that
// only serves as map key; identity is carried by the configuration).
func (w *c47World) implSummary() string {
	m := w.m
	m.mtx.RLock()
	names := map[string]string{}
	var ps []string
	for _, p := range m.providers {
		p.mu.RLock()
		id := c47ProvID(p)
		names[p.name] = id
		subs := vx.SortedKeys(p.subs)
		ps = append(ps, fmt.Sprintf("%s%v started=%v", id, subs, p.cancel != nil))
		p.mu.RUnlock()
	}
	m.mtx.RUnlock()
	sort.Strings(ps)
	m.targetsMtx.Lock()
	var ts []string
	for k, srcs := range m.targets {
		if len(srcs) == 0 {
			// A pool without sources behaves exactly like an absent pool (ApplyConfig copies
			// only non-empty pools, updateGroup creates a missing pool, allGroups lists the
			// sources); whether it exists depends on whether an emptying update met the pool
			// before or after a reload dropped it.
			continue
		}
		id, ok := names[k.provider]
		if !ok {
			id = "orphan" // targets of a provider that is no longer registered
		}
		var l []string
		for s, tg := range srcs {
			l = append(l, s+"->"+c47CanonGroup(tg))
		}
		sort.Strings(l)
		ts = append(ts, fmt.Sprintf("%s|%s{%s}", k.setName, id, strings.Join(l, ",")))
	}
	m.targetsMtx.Unlock()
	sort.Strings(ts)
	return fmt.Sprintf("prov=%v targets=%v trig=%d", ps, ts, len(m.triggerSend))
}

func (w *c47World) Key() string {
	w.mu.Lock()
	last := "<none>"
	if n := len(w.got); n > 0 {
		last = w.got[n-1]
	}
	var run []string
	for _, k := range vx.SortedKeys(w.running) {
		run = append(run, fmt.Sprintf("%s:%d", k, len(w.running[k])))
	}
	armed := w.armed
	w.mu.Unlock()
	var seq []string
	for _, k := range vx.SortedKeys(w.seq) {
		seq = append(seq, fmt.Sprintf("%s:%d", k, w.seq[k]))
	}
	return fmt.Sprintf("%s | armed=%v last=%s running=%v seq=%v applied=%v | model %s", w.implSummary(), armed, last, run, seq, w.mdl.applied, w.mdl)
}

func (w *c47World) Obs() string {
	w.mu.Lock()
	got := strings.Join(w.got, " ; ")
	closed := w.closed
	w.mu.Unlock()
	return fmt.Sprintf("%s | got=[%s] closed=%v sent=%v delayed=%v received=%v", w.Key(), got, closed,
		w.counter(w.m.metrics.SentUpdates), w.counter(w.m.metrics.DelayedUpdates), w.counter(w.m.metrics.ReceivedUpdates))
}

// Check closes the history: no further updates; ticks are delivered with the consumer reading
// until a tick hands nothing over; then the last map read must equal the reference fold.
func (w *c47World) Check() *vx.Fail {
	if w.counter(w.m.metrics.DelayedUpdates) > 0 {
		w.delayedSeen = true
	}
	quiescent := false
	for i := 0; i < 4 && !quiescent; i++ {
		w.mu.Lock()
		armed, n := w.armed, len(w.got)
		w.mu.Unlock()
		if !armed {
			w.arm()
			synctest.Wait()
		}
		w.tick()
		w.mu.Lock()
		quiescent = len(w.got) == n
		w.mu.Unlock()
	}
	if !quiescent {
		return vx.Failf("never-quiescent", "the manager still delivers maps after 4 reads without any new update or reload")
	}
	if n := len(w.m.triggerSend); n != 0 {
		return vx.Failf("trigger-pending-after-drain", "a consumer was waiting during a whole tick, nothing was delivered, yet triggerSend holds %d", n)
	}
	w.mu.Lock()
	defer w.mu.Unlock()
	if w.closed {
		return vx.Failf("syncch-closed", "SyncCh was closed while the manager context is alive")
	}
	want := w.mdl.expected()
	if len(w.got) == 0 {
		if len(want) != 0 {
			return vx.Failf("nothing-delivered", "configuration with jobs %v applied but the consumer never received anything; want %s", vx.SortedKeys(want), c47CanonMap(want))
		}
		if w.r != nil {
			if w.r.Distinct("distinct_outcomes", "<nothing delivered>") {
				w.r.Count("outcome_kinds", 1)
			}
		}
		return nil
	}
	last := w.got[len(w.got)-1]
	if w.r != nil {
		if w.r.Distinct("distinct_outcomes", last) {
			w.r.Count("outcome_kinds", 1)
		}
		if w.delayedSeen {
			w.r.Distinct("distinct_nontrivial", "delayed|"+last)
			w.r.Count("histories_with_delayed_send", 1)
		}
		if w.raceParked > 0 {
			if w.r.Distinct("distinct_nontrivial", "race|"+last) {
				w.r.Count("distinct_final_maps_after_parked_race", 1)
			}
			w.r.Count("histories_with_parked_race", 1)
		}
	}
	if ws := c47CanonMap(want); last != ws {
		sig := "last-delivered-differs-from-fold"
		if !w.mdl.applied {
			sig = "delivered-before-any-config"
		}
		return vx.Failf(sig, "after updates stopped and the consumer drained, the last map read is %s, the reference fold of the updates is %s (all maps read: %v)", last, ws, w.got)
	}
	return nil
}

func (w *c47World) Close() {
	w.cancel()
	synctest.Wait()
	<-w.runErr
}

// ---------------------------------------------------------------------------
// the check
// ---------------------------------------------------------------------------

func c47SelfTest(t *testing.T, r *vx.Run, eng *evloop.Engine) {
	// 1. the closing oracle accepts a correct run that exercises the slow-consumer path ...
	ops := []string{"reload/B", "up/P1/a+", "tick", "up/P2/a+", "up/P1/a0", "read"}
	if f := eng.Replay(func() evloop.World { return c47NewWorld(nil, c47UpdatesThorough) }, ops); f != nil {
		// the real code fails this fixed history: that is a verdict, not a tool failure
		r.Violation(f.Signature, f.Message, map[string]any{"config": "c47-thorough", "ops": ops})
		return
	}
	// 2. ... and rejects a wrong answer: same run, but the reference is told that P1's source a
	// still holds its first group (i.e. as if the implementation had lost the emptying update).
	bad := func() evloop.World { return &c47Sabotaged{c47NewWorld(nil, c47UpdatesThorough)} }
	if f := eng.Replay(bad, ops); f == nil || f.Signature != "last-delivered-differs-from-fold" {
		t.Fatalf("self-test: oracle accepted a wrong final map (%v)", f)
	}
	// 2b. the same for a reload (to the configuration already in force) concurrent with the
	// emptying update, both orders of arrival.
	for _, order := range []string{"R", "U"} {
		rops := []string{"reload/C", "up/P1/a+", "race/C/P1/a0/" + order}
		if f := eng.Replay(func() evloop.World { return c47NewWorld(nil, c47UpdatesThorough) }, rops); f != nil {
			r.Violation(f.Signature, f.Message, map[string]any{"config": "c47-thorough-race", "ops": rops})
			return
		}
		if f := eng.Replay(bad, rops); f == nil || f.Signature != "last-delivered-differs-from-fold" {
			t.Fatalf("self-test: oracle accepted a wrong final map after a concurrent reload (%v)", f)
		}
	}
	// 3. the model folds as the statement says.
	m := c47NewModel()
	m.reload(c47Configs["C"])
	m.update("P1", "a", "x1")
	m.update("P1", "b", "y1")
	m.update("P1", "a", "")
	m.reload(c47Configs["T"])
	if got := c47CanonMap(m.expected()); got != "{j1:[s=S2-s t=S2-t] j2:[]}" {
		t.Fatalf("self-test: model fold wrong: %s", got)
	}
}

// c47Sabotaged corrupts the reference just before the oracle runs (self-test only).
type c47Sabotaged struct{ *c47World }

func (s *c47Sabotaged) Check() *vx.Fail {
	s.mdl.update("P1", "a", "P1-a-1")
	return s.c47World.Check()
}

func TestVerifC47(t *testing.T) {
	r := vx.Start(t, "C47", "model_checking")
	defer r.Finish()
	eng := &evloop.Engine{T: t, GuardFirst: 50}
	updates := vx.Pick(r, c47UpdatesQuick, c47UpdatesThorough)
	mk := func() evloop.World { return c47NewWorld(r, updates) }
	if r.Replay != "" {
		var rp struct {
			Config string   `json:"config"`
			Ops    []string `json:"ops"`
		}
		r.LoadReplay(&rp)
		if strings.HasPrefix(rp.Config, "c47-thorough") {
			updates = c47UpdatesThorough
		}
		if f := eng.Replay(mk, rp.Ops); f != nil {
			r.Violation(f.Signature, f.Message, rp)
		}
		return
	}
	c47SelfTest(t, r, &evloop.Engine{T: t})
	depth := vx.Pick(r, 6, 9)
	raceDepth := vx.Pick(r, 4, 6)
	if v := os.Getenv("VERIF_C47_DEPTH"); v != "" { // experiments only
		fmt.Sscan(v, &depth)
	}
	if v := os.Getenv("VERIF_C47_RACE_DEPTH"); v != "" { // experiments only
		fmt.Sscan(v, &raceDepth)
	}
	// Search 1: all orderings of sequential events (every event injected at a quiescent point).
	name := vx.Pick(r, "c47-quick", "c47-thorough")
	res := r.BFS(name, func() vx.Sys { return eng.Sys(mk) }, depth)
	t.Logf("C47 %s depth %d: states=%d transitions=%d depthCompleted=%d guarded=%d", name, depth, res.States, res.Transitions, res.DepthCompleted, eng.Guarded())
	// Search 2: the same events plus reloads CONCURRENT with an update of a kept provider, in
	// both orders of arrival at the manager's target-pool lock.
	// c47Settle reads goroutine states from an all-goroutine dump, which stops the world; with
	// many Ps on a loaded machine that costs milliseconds, with one P microseconds.
	defer runtime.GOMAXPROCS(runtime.GOMAXPROCS(1))
	engRace := &evloop.Engine{T: t, GuardFirst: 50}
	mkRace := func() evloop.World {
		w := c47NewWorld(r, updates)
		w.races = true
		return w
	}
	res2 := r.BFS(name+"-race", func() vx.Sys { return engRace.Sys(mkRace) }, raceDepth)
	t.Logf("C47 %s-race depth %d: states=%d transitions=%d depthCompleted=%d guarded=%d", name, raceDepth, res2.States, res2.Transitions, res2.DepthCompleted, engRace.Guarded())
	for _, e := range []*evloop.Engine{eng, engRace} {
		if d := e.Diverged(); len(d) > 0 {
			t.Fatalf("determinism guard: %d of %d twice-executed histories diverged, e.g. %s", len(d), e.Guarded(), d[0])
		}
		if e.Guarded() < 50 && e.Checked() >= 50 {
			t.Fatalf("determinism guard ran on %d histories only", e.Guarded())
		}
	}
	r.Count("histories_executed_twice", int(eng.Guarded()+engRace.Guarded()))
	r.Count("evaluations", int(eng.Checked()+engRace.Checked()))
	r.Set("depth", depth)
	r.Set("depth_with_concurrent_reload_events", raceDepth)
	r.Set("alphabet", map[string]any{"configs": c47ConfigOrder, "updates_per_provider": updates, "providers": []string{"P1", "P2", "S1", "S2", "static-empty"}, "other": []string{"read", "tick"},
		"concurrent": "race/<cfg>/<P>/<u>/<R|U>: reload to cfg (which keeps the running provider P) concurrent with update u of P; R = ApplyConfig parked on targetsMtx first, then the update arrives; U = the updater parked on targetsMtx first (holding the provider's read lock), then ApplyConfig arrives"})
	r.Set("rule", fmt.Sprintf("search 1: every ordering of <= %d events (reload to one of %d configurations, update u of provider P1/P2 when running, consumer read, sender tick) on a fresh real Manager in a synctest bubble, de-duplicated on (providers, subscriptions, stored groups, pending trigger, pending read, last delivered map, model); search 2: the same with <= %d events where an event may also be a reload concurrent with an update of a provider it keeps (both orders of arrival at targetsMtx, which the harness holds until every goroutine is parked); after every transition the history is closed (ticks + reads until nothing more is delivered) and the last delivered map compared with the reference fold; distinct_outcomes = distinct final maps, distinct_nontrivial = distinct final maps of histories in which the sender found the consumer not reading (delayed-update path) or in which a concurrent reload+update had BOTH ApplyConfig and the updater parked on a lock when the gate opened", depth, len(c47ConfigOrder), raceDepth))
	r.Assume("between two quiescent points the order of runnable goroutines, select tie-breaks and map iteration are the Go runtime's; sequential events are injected only when every goroutine of the manager is durably blocked. Concurrency of a reload with an update is explored only through the race events: one gate (targetsMtx), two orders of arrival; after the gate opens the lock hand-over is sync.Mutex's (first parked, first served) and Go's RWMutex writer preference")
	r.Assume("sender ticks that find no pending trigger are no-ops; the tick event advances the fake clock in 10ms steps until SentUpdates moves or the longest back-off interval has elapsed")
	if r.Violations() == 0 && (r.Get("histories_with_delayed_send") == 0 || r.Get("outcome_kinds") < 2) {
		t.Fatalf("vacuous run: delayed-update (slow consumer) path taken %d times, %d distinct final maps", r.Get("histories_with_delayed_send"), r.Get("outcome_kinds"))
	}
	if r.Violations() == 0 && res2.DepthCompleted >= 2 && r.Get("histories_with_parked_race") == 0 {
		t.Fatalf("vacuous run: no concurrent reload+update had both ApplyConfig and the updater parked on a lock")
	}
}
