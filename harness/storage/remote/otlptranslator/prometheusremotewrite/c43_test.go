package prometheusremotewrite

// C43: OTLP metrics convert to Prometheus series without distorting values.
//
// Engine E1 (input enumeration) through the public path PrometheusConverter.FromMetrics with a
// recording AppenderV2:
//   - exponential histograms: scale x positive offset x EVERY bucket-count array of length <= L
//     over {0,1,2} (plus long arrays with zero runs) x negative side x zero count, under all
//     flag / temporality / has-sum / timestamp variants;
//   - explicit-bucket histograms: bounds sets x every count array over {0,1,2}, both as native
//     histograms with custom buckets and as classic _bucket/_count/_sum series;
//   - gauge and sum number data points: value alphabet (int64 extremes, 2^53+1, NaN, +-Inf, -0) x
//     flags x timestamps x temporality x monotonicity;
//   - ordered pairs of representative data points in one metric (state leaking between points).
//
// Oracle: reference re-bucketing written from the statement (each target bucket = sum of the source
// buckets it covers), values/counts/sums equal, times = nanoseconds / 10^6, staleness and gauge
// (delta) mapping as documented.

import (
	"context"
	"fmt"
	"math"
	"sort"
	"strconv"
	"sync/atomic"
	"testing"

	"github.com/prometheus/common/model"
	"go.opentelemetry.io/collector/pdata/pcommon"
	"go.opentelemetry.io/collector/pdata/pmetric"

	"github.com/prometheus/prometheus/internal/verif/histmodel"
	"github.com/prometheus/prometheus/internal/verif/vx"
	"github.com/prometheus/prometheus/model/histogram"
	"github.com/prometheus/prometheus/model/labels"
	"github.com/prometheus/prometheus/model/value"
	"github.com/prometheus/prometheus/storage"
)

type c43Sample struct {
	ls    labels.Labels
	st, t int64
	v     float64
	h     *histogram.Histogram
	fh    *histogram.FloatHistogram
	typ   model.MetricType
}

type c43App struct{ samples []c43Sample }

func (a *c43App) Append(_ storage.SeriesRef, ls labels.Labels, st, t int64, v float64, h *histogram.Histogram, fh *histogram.FloatHistogram, opts storage.AOptions) (storage.SeriesRef, error) {
	s := c43Sample{ls: ls.Copy(), st: st, t: t, v: v, typ: opts.Metadata.Type}
	if h != nil {
		s.h = h.Copy()
	}
	if fh != nil {
		s.fh = fh.Copy()
	}
	a.samples = append(a.samples, s)
	return storage.SeriesRef(len(a.samples)), nil
}
func (*c43App) Commit() error   { return nil }
func (*c43App) Rollback() error { return nil }

// ---------------------------------------------------------------------------------------------
// case descriptions (JSON-able: they are the replay artefacts)

type c43ExpPoint struct {
	Scale     int32    `json:"scale"`
	PosOffset int32    `json:"pos_offset"`
	Pos       []uint64 `json:"pos"`
	NegOffset int32    `json:"neg_offset"`
	Neg       []uint64 `json:"neg"`
	Zero      uint64   `json:"zero"`
	Sum       float64  `json:"sum"`
	HasSum    bool     `json:"has_sum"`
	Stale     bool     `json:"no_recorded_value"`
	TS, ST    uint64
}

type c43ExplPoint struct {
	Bounds []float64 `json:"bounds"`
	Counts []uint64  `json:"counts"`
	Sum    float64   `json:"sum"`
	HasSum bool      `json:"has_sum"`
	Stale  bool      `json:"no_recorded_value"`
	TS, ST uint64
}

type c43NumPoint struct {
	IsInt  bool   `json:"is_int"`
	Int    int64  `json:"int"`
	Bits   uint64 `json:"double_bits"`
	Stale  bool   `json:"no_recorded_value"`
	TS, ST uint64
}

type c43Case struct {
	Kind       string         `json:"kind"` // exp, explicit-nhcb, explicit-classic, gauge, sum
	Delta      bool           `json:"delta"`
	AllowDelta bool           `json:"allow_delta"`
	Monotonic  bool           `json:"monotonic"`
	Exp        []c43ExpPoint  `json:"exp,omitempty"`
	Expl       []c43ExplPoint `json:"explicit,omitempty"`
	Num        []c43NumPoint  `json:"num,omitempty"`
}

func c43Flags(stale bool) pmetric.DataPointFlags {
	return pmetric.DefaultDataPointFlags.WithNoRecordedValue(stale)
}

func c43Temporality(delta bool) pmetric.AggregationTemporality {
	if delta {
		return pmetric.AggregationTemporalityDelta
	}
	return pmetric.AggregationTemporalityCumulative
}

func c43Total(xs ...[]uint64) uint64 {
	var n uint64
	for _, x := range xs {
		for _, c := range x {
			n += c
		}
	}
	return n
}

func (c c43Case) build() pmetric.Metrics {
	md := pmetric.NewMetrics()
	m := md.ResourceMetrics().AppendEmpty().ScopeMetrics().AppendEmpty().Metrics().AppendEmpty()
	m.SetName("m")
	switch c.Kind {
	case "exp":
		eh := m.SetEmptyExponentialHistogram()
		eh.SetAggregationTemporality(c43Temporality(c.Delta))
		for i, p := range c.Exp {
			dp := eh.DataPoints().AppendEmpty()
			dp.Attributes().PutStr("pt", strconv.Itoa(i))
			dp.SetScale(p.Scale)
			dp.Positive().SetOffset(p.PosOffset)
			dp.Positive().BucketCounts().FromRaw(append([]uint64{}, p.Pos...))
			dp.Negative().SetOffset(p.NegOffset)
			dp.Negative().BucketCounts().FromRaw(append([]uint64{}, p.Neg...))
			dp.SetZeroCount(p.Zero)
			dp.SetCount(c43Total(p.Pos, p.Neg) + p.Zero)
			if p.HasSum {
				dp.SetSum(p.Sum)
			}
			dp.SetFlags(c43Flags(p.Stale))
			dp.SetTimestamp(pcommon.Timestamp(p.TS))
			dp.SetStartTimestamp(pcommon.Timestamp(p.ST))
		}
	case "explicit-nhcb", "explicit-classic":
		eh := m.SetEmptyHistogram()
		eh.SetAggregationTemporality(c43Temporality(c.Delta))
		for i, p := range c.Expl {
			dp := eh.DataPoints().AppendEmpty()
			dp.Attributes().PutStr("pt", strconv.Itoa(i))
			dp.ExplicitBounds().FromRaw(append([]float64{}, p.Bounds...))
			dp.BucketCounts().FromRaw(append([]uint64{}, p.Counts...))
			dp.SetCount(c43Total(p.Counts))
			if p.HasSum {
				dp.SetSum(p.Sum)
			}
			dp.SetFlags(c43Flags(p.Stale))
			dp.SetTimestamp(pcommon.Timestamp(p.TS))
			dp.SetStartTimestamp(pcommon.Timestamp(p.ST))
		}
	case "gauge", "sum":
		var dps pmetric.NumberDataPointSlice
		if c.Kind == "gauge" {
			dps = m.SetEmptyGauge().DataPoints()
		} else {
			s := m.SetEmptySum()
			s.SetAggregationTemporality(c43Temporality(c.Delta))
			s.SetIsMonotonic(c.Monotonic)
			dps = s.DataPoints()
		}
		for i, p := range c.Num {
			dp := dps.AppendEmpty()
			dp.Attributes().PutStr("pt", strconv.Itoa(i))
			if p.IsInt {
				dp.SetIntValue(p.Int)
			} else {
				dp.SetDoubleValue(math.Float64frombits(p.Bits))
			}
			dp.SetFlags(c43Flags(p.Stale))
			dp.SetTimestamp(pcommon.Timestamp(p.TS))
			dp.SetStartTimestamp(pcommon.Timestamp(p.ST))
		}
	}
	return md
}

// ---------------------------------------------------------------------------------------------
// reference

func c43FloorDiv(a, b int64) int64 {
	q := a / b
	if a%b != 0 && (a < 0) != (b < 0) {
		q--
	}
	return q
}

// c43Rebucket: OTel bucket i at scale s covers (base^i, base^(i+1)]; Prometheus bucket j at the same
// schema covers (base^(j-1), base^j], so i maps to j=i+1. Lowering the resolution by d merges 2^d
// neighbouring OTel buckets: OTel index i -> floor(i / 2^d).
func c43Rebucket(offset int32, counts []uint64, d int32) map[int32]float64 {
	out := map[int32]float64{}
	for k, c := range counts {
		if c == 0 {
			continue
		}
		j := c43FloorDiv(int64(offset)+int64(k), int64(1)<<uint(d)) + 1
		out[int32(j)] += float64(c)
	}
	return out
}

// c43AfterEmptyTarget is the precondition of one known defect class: buckets are merged (d > 0) and,
// within the range of target buckets covered by the array, an EMPTY target bucket is followed by a
// populated one (convertBucketsLayout does not advance its current bucket index when it leaves a
// target bucket whose accumulated count is zero).
func c43AfterEmptyTarget(offset int32, counts []uint64, d int32) bool {
	if d <= 0 || len(counts) == 0 {
		return false
	}
	tgt := func(k int) int64 { return c43FloorDiv(int64(offset)+int64(k), int64(1)<<uint(d)) }
	total := map[int64]uint64{}
	for k, c := range counts {
		total[tgt(k)] += c
	}
	seenEmpty := false
	for t := tgt(0); t <= tgt(len(counts)-1); t++ {
		if total[t] == 0 {
			seenEmpty = true
		} else if seenEmpty {
			return true
		}
	}
	return false
}

func c43ms(ns uint64) int64 { return int64(ns / 1_000_000) }

func c43SameFloat(a, b float64) bool {
	return math.Float64bits(a) == math.Float64bits(b) || (math.IsNaN(a) && math.IsNaN(b) && !value.IsStaleNaN(a) && !value.IsStaleNaN(b))
}

type c43Checker struct {
	r  *vx.Run
	c  c43Case
	ok bool
}

func (k *c43Checker) fail(sig, format string, a ...any) {
	k.ok = false
	k.r.Violation(sig, fmt.Sprintf(format, a...)+"\ncase "+vx.J(k.c), k.c)
}

func (k *c43Checker) times(what string, s c43Sample, ts, st uint64) {
	if s.t != c43ms(ts) {
		k.fail("timestamp-not-milliseconds", "%s: timestamp %d ns converted to %d, want %d ms", what, ts, s.t, c43ms(ts))
	}
	if s.st != c43ms(st) {
		k.fail("start-timestamp-not-milliseconds", "%s: start timestamp %d ns converted to %d, want %d ms", what, st, s.st, c43ms(st))
	}
}

func c43Find(samples []c43Sample, name string, pt int, extra ...string) (c43Sample, bool) {
	for _, s := range samples {
		if s.ls.Get(model.MetricNameLabel) != name || s.ls.Get("pt") != strconv.Itoa(pt) {
			continue
		}
		ok := true
		for i := 0; i+1 < len(extra); i += 2 {
			if s.ls.Get(extra[i]) != extra[i+1] {
				ok = false
			}
		}
		if ok {
			return s, true
		}
	}
	return c43Sample{}, false
}

// c43Run converts the case and checks every data point. Returns a digest of the outcome.
func c43Run(r *vx.Run, c c43Case) string {
	app := &c43App{}
	conv := NewPrometheusConverter(app)
	settings := Settings{DisableTargetInfo: true, AllowDeltaTemporality: c.AllowDelta, ConvertHistogramsToNHCB: c.Kind == "explicit-nhcb"}
	var err error
	p, st := vx.Guard(func() { _, err = conv.FromMetrics(context.Background(), c.build(), settings) })
	r.Count("evaluations", 1)
	k := &c43Checker{r: r, c: c, ok: true}
	if p != nil {
		k.fail("conversion-panic", "FromMetrics panicked: %v\n%s", p, st)
		return "panic"
	}
	hasTemporality := c.Kind != "gauge"
	if hasTemporality && c.Delta && !c.AllowDelta {
		// documented: delta metrics are dropped unless native delta ingestion is enabled
		if err == nil || len(app.samples) != 0 {
			k.fail("delta-not-rejected", "delta temporality without AllowDeltaTemporality: err=%v, %d samples appended", err, len(app.samples))
		}
		return "delta-rejected"
	}
	switch c.Kind {
	case "exp":
		tooCoarse := false
		for _, p := range c.Exp {
			if p.Scale < histogram.ExponentialSchemaMin {
				tooCoarse = true
			}
		}
		if tooCoarse {
			if err == nil {
				k.fail("unsupported-scale-accepted", "scale below %d converted without error", histogram.ExponentialSchemaMin)
			}
			return "scale-rejected"
		}
		if err != nil {
			k.fail("conversion-error", "FromMetrics: %v", err)
			return "error"
		}
		if len(app.samples) != len(c.Exp) {
			k.fail("sample-count", "%d samples appended for %d data points", len(app.samples), len(c.Exp))
		}
		for i, p := range c.Exp {
			s, found := c43Find(app.samples, "m", i)
			if !found || s.h == nil {
				k.fail("histogram-sample-missing", "data point %d: no integer histogram sample appended", i)
				continue
			}
			k.times(fmt.Sprintf("point %d", i), s, p.TS, p.ST)
			wantHint := histogram.UnknownCounterReset
			if c.Delta {
				wantHint = histogram.GaugeType
			}
			if s.h.CounterResetHint != wantHint {
				k.fail("temporality-hint", "point %d: counter reset hint %d, want %d (delta=%v)", i, s.h.CounterResetHint, wantHint, c.Delta)
			}
			if p.Stale {
				if !value.IsStaleNaN(s.h.Sum) {
					k.fail("no-recorded-value-not-stale", "point %d: flagged NoRecordedValue but sum is %v, not the stale marker", i, s.h.Sum)
				}
				continue
			}
			d := int32(0)
			schema := p.Scale
			if p.Scale > histogram.ExponentialSchemaMax {
				d = p.Scale - histogram.ExponentialSchemaMax
				schema = histogram.ExponentialSchemaMax
			}
			want := &histmodel.H{Schema: schema, ZeroThreshold: s.h.ZeroThreshold, ZeroCount: float64(p.Zero),
				Pos: c43Rebucket(p.PosOffset, p.Pos, d), Neg: c43Rebucket(p.NegOffset, p.Neg, d),
				Count: float64(c43Total(p.Pos, p.Neg) + p.Zero)}
			if p.HasSum {
				want.Sum = p.Sum
			}
			got := histmodel.FromInt(s.h)
			if diff := histmodel.Diff(want, got, 0); diff != "" {
				sig := "exponential-buckets-differ-from-rebucketing"
				if d == 0 {
					sig = "exponential-buckets-differ"
				} else if c43AfterEmptyTarget(p.PosOffset, p.Pos, d) || c43AfterEmptyTarget(p.NegOffset, p.Neg, d) {
					sig = "exponential-downscale-wrong-after-empty-target-bucket"
				}
				k.fail(sig, "point %d: %s (reference vs converted)\nreference %v\nconverted %v\nspans %v %v deltas %v %v", i, diff, want, got, s.h.PositiveSpans, s.h.NegativeSpans, s.h.PositiveBuckets, s.h.NegativeBuckets)
			} else if verr := s.h.Validate(); verr != nil {
				k.fail("converted-histogram-invalid", "point %d: %v\nspans %v %v deltas %v %v", i, verr, s.h.PositiveSpans, s.h.NegativeSpans, s.h.PositiveBuckets, s.h.NegativeBuckets)
			}
			if !(s.h.ZeroThreshold > 0 && s.h.ZeroThreshold < 1e-100) {
				k.fail("zero-threshold", "point %d: zero threshold %g", i, s.h.ZeroThreshold)
			}
			if d > 0 && len(want.Pos)+len(want.Neg) > 0 {
				r.Distinct("distinct_nontrivial", "rebucket "+want.String())
			}
			r.Distinct("distinct_outcomes", got.String())
		}
	case "explicit-nhcb":
		if err != nil {
			k.fail("conversion-error", "FromMetrics: %v", err)
			return "error"
		}
		for i, p := range c.Expl {
			s, found := c43Find(app.samples, "m", i)
			if !found || s.h == nil {
				k.fail("histogram-sample-missing", "data point %d: no integer histogram sample appended", i)
				continue
			}
			k.times(fmt.Sprintf("point %d", i), s, p.TS, p.ST)
			wantHint := histogram.UnknownCounterReset
			if c.Delta {
				wantHint = histogram.GaugeType
			}
			if s.h.CounterResetHint != wantHint {
				k.fail("temporality-hint", "point %d: counter reset hint %d, want %d (delta=%v)", i, s.h.CounterResetHint, wantHint, c.Delta)
			}
			if p.Stale {
				if !value.IsStaleNaN(s.h.Sum) {
					k.fail("no-recorded-value-not-stale", "point %d: flagged NoRecordedValue but sum is %v", i, s.h.Sum)
				}
				continue
			}
			want := &histmodel.H{Custom: true, Schema: histogram.CustomBucketsSchema, Bounds: p.Bounds, Pos: map[int32]float64{}, Neg: map[int32]float64{}, Count: float64(c43Total(p.Counts))}
			for b, cnt := range p.Counts {
				if cnt != 0 {
					want.Pos[int32(b)] = float64(cnt)
				}
			}
			if p.HasSum {
				want.Sum = p.Sum
			}
			got := histmodel.FromInt(s.h)
			if diff := histmodel.Diff(want, got, 0); diff != "" {
				k.fail("custom-buckets-differ", "point %d: %s (reference vs converted)\nreference %v\nconverted %v", i, diff, want, got)
			} else if verr := s.h.Validate(); verr != nil {
				k.fail("converted-histogram-invalid", "point %d: %v", i, verr)
			}
			if len(want.Pos) > 1 {
				r.Distinct("distinct_nontrivial", "nhcb "+want.String())
			}
			r.Distinct("distinct_outcomes", got.String())
		}
	case "explicit-classic":
		if err != nil {
			k.fail("conversion-error", "FromMetrics: %v", err)
			return "error"
		}
		for i, p := range c.Expl {
			val := func(x float64) float64 {
				if p.Stale {
					return math.Float64frombits(value.StaleNaN)
				}
				return x
			}
			check := func(name string, want float64, extra ...string) {
				s, found := c43Find(app.samples, name, i, extra...)
				if !found || s.h != nil || s.fh != nil {
					k.fail("classic-series-missing", "point %d: no float sample for %s %v", i, name, extra)
					return
				}
				k.times(fmt.Sprintf("point %d %s %v", i, name, extra), s, p.TS, p.ST)
				if !c43SameFloat(s.v, want) {
					sig := "classic-value-differs"
					if p.Stale {
						sig = "no-recorded-value-not-stale"
					}
					k.fail(sig, "point %d: %s %v = %v, want %v", i, name, extra, s.v, want)
				}
			}
			total := float64(c43Total(p.Counts))
			check("m_count", val(total))
			if p.HasSum {
				check("m_sum", val(p.Sum))
			} else if _, found := c43Find(app.samples, "m_sum", i); found {
				k.fail("classic-sum-for-unset-sum", "point %d: m_sum appended although the data point has no sum", i)
			}
			var cum uint64
			for b, bound := range p.Bounds {
				if b < len(p.Counts) {
					cum += p.Counts[b]
				}
				check("m_bucket", val(float64(cum)), "le", strconv.FormatFloat(bound, 'f', -1, 64))
			}
			check("m_bucket", val(total), "le", "+Inf")
			if len(p.Bounds) > 1 && total > 0 {
				r.Distinct("distinct_nontrivial", fmt.Sprintf("classic %v %v", p.Bounds, p.Counts))
			}
			r.Distinct("distinct_outcomes", fmt.Sprintf("classic %v %v %v", p.Bounds, p.Counts, p.Stale))
		}
	case "gauge", "sum":
		if err != nil {
			k.fail("conversion-error", "FromMetrics: %v", err)
			return "error"
		}
		wantType := model.MetricTypeGauge
		if c.Kind == "sum" {
			switch {
			case c.Delta:
				wantType = model.MetricTypeUnknown
			case c.Monotonic:
				wantType = model.MetricTypeCounter
			}
		}
		if len(app.samples) != len(c.Num) {
			k.fail("sample-count", "%d samples appended for %d data points", len(app.samples), len(c.Num))
		}
		for i, p := range c.Num {
			s, found := c43Find(app.samples, "m", i)
			if !found || s.h != nil || s.fh != nil {
				k.fail("number-sample-missing", "data point %d: no float sample appended", i)
				continue
			}
			k.times(fmt.Sprintf("point %d", i), s, p.TS, p.ST)
			want := math.Float64frombits(p.Bits)
			if p.IsInt {
				want = float64(p.Int)
			}
			if p.Stale {
				want = math.Float64frombits(value.StaleNaN)
			}
			if !c43SameFloat(s.v, want) {
				sig := "number-value-differs"
				if p.Stale {
					sig = "no-recorded-value-not-stale"
				}
				k.fail(sig, "point %d: value %v (bits %x), want %v (bits %x)", i, s.v, math.Float64bits(s.v), want, math.Float64bits(want))
			}
			if s.typ != wantType {
				k.fail("metric-type", "point %d: metadata type %q, want %q", i, s.typ, wantType)
			}
			r.Distinct("distinct_outcomes", fmt.Sprintf("%s %x", c.Kind, math.Float64bits(s.v)))
			if !p.Stale {
				r.Distinct("distinct_nontrivial", fmt.Sprintf("num %x", math.Float64bits(s.v)))
			}
		}
	}
	if k.ok {
		return "ok"
	}
	return "violation"
}

// ---------------------------------------------------------------------------------------------
// alphabets

var c43Times = []uint64{0, 1, 999_999, 1_000_000, 1_500_000, 1_700_000_000_123_456_789, math.MaxInt64}

func c43CountArrays(maxLen int) [][]uint64 {
	var out [][]uint64
	n := vx.SeqCount(3, 0, maxLen)
	for i := int64(0); i < n; i++ {
		seq := vx.SeqAt(3, 0, maxLen, i, nil)
		a := make([]uint64, len(seq))
		for k, v := range seq {
			a[k] = uint64(v)
		}
		out = append(out, a)
	}
	// long arrays with zero runs (gap handling: runs of <=2 and >2 empty target buckets)
	out = append(out,
		[]uint64{1, 0, 0, 0, 1}, []uint64{1, 0, 0, 0, 0, 2}, []uint64{0, 0, 0, 0, 1}, []uint64{2, 0, 0, 0, 0, 0, 0, 0, 1},
		[]uint64{1, 0, 0, 1, 0, 0, 0, 1, 0, 0, 0, 0, 1}, []uint64{0, 1, 0, 0, 0, 0, 0, 0, 0, 0, 0, 0, 0, 0, 0, 0, 0, 2, 0},
		[]uint64{1, 1, 1, 1, 1, 1, 1, 1, 1}, []uint64{0, 0, 0, 0, 0, 0, 0, 0})
	return out
}

type c43NegSide struct {
	off int32
	c   []uint64
}

func TestVerifC43(t *testing.T) {
	r := vx.Start(t, "C43", "exploration")
	defer r.Finish()
	if r.Replay != "" {
		var c c43Case
		r.LoadReplay(&c)
		c43Run(r, c)
		return
	}
	// self-test: the reference re-bucketing on hand-computed cases, and the oracle is not vacuous
	{
		// scale 10 -> schema 8: 4 OTel buckets per target bucket. OTel indices -5..2:
		// floor(i/4)+1: -5->-1, -4..-1->0, 0..2->1
		got := c43Rebucket(-5, []uint64{1, 2, 0, 1, 1, 2, 2, 1}, 2)
		if got[-1] != 1 || got[0] != 2+0+1+1 || got[1] != 2+2+1 || len(got) != 3 {
			t.Fatalf("self-test: reference re-bucketing wrong: %v", got)
		}
		if g := c43Rebucket(3, []uint64{5}, 0); g[4] != 5 {
			t.Fatalf("self-test: index shift: %v", g)
		}
		if c43ms(1_999_999) != 1 || c43ms(2_000_000) != 2 {
			t.Fatal("self-test: ms")
		}
		want := &histmodel.H{Schema: 8, Pos: map[int32]float64{1: 5}, Neg: map[int32]float64{}, Count: 5}
		wrong := &histmodel.H{Schema: 8, Pos: map[int32]float64{2: 5}, Neg: map[int32]float64{}, Count: 5}
		if histmodel.Diff(want, wrong, 0) == "" {
			t.Fatal("self-test: Diff accepts a shifted bucket")
		}
	}
	arrays := c43CountArrays(vx.Pick(r, 3, 4))
	scales := vx.Pick(r, []int32{-5, -4, 0, 8, 9, 10, 12}, []int32{-5, -4, -1, 0, 3, 8, 9, 10, 11, 12, 20})
	offsets := vx.Pick(r, []int32{-9, -4, -3, -1, 0, 1, 3, 7}, []int32{-17, -9, -5, -4, -3, -2, -1, 0, 1, 2, 3, 4, 7, 15, 16})
	negs := []c43NegSide{{0, nil}, {-1, []uint64{1}}, {2, []uint64{0, 2, 1, 0, 0, 0, 0, 3}}}
	zeros := []uint64{0, 3}

	var done atomic.Int64
	// ---- exponential histograms: full product, default variant ----
	dims := []int{len(scales), len(offsets), len(arrays), len(negs), len(zeros)}
	r.ParallelN(vx.ProductSize(dims), func(i int64) {
		x := vx.ProductAt(dims, i, nil)
		p := c43ExpPoint{Scale: scales[x[0]], PosOffset: offsets[x[1]], Pos: arrays[x[2]], NegOffset: negs[x[3]].off, Neg: negs[x[3]].c, Zero: zeros[x[4]],
			Sum: 12.5, HasSum: true, TS: 1_700_000_000_123_456_789, ST: 1_600_000_000_000_000_000}
		c := c43Case{Kind: "exp", Exp: []c43ExpPoint{p}}
		out := c43Run(r, c)
		n := done.Add(1)
		r.SampleAt(n, func() any { return map[string]any{"case": c, "outcome": out} })
	})
	// ---- exponential histograms: variants (flags, temporality, sum, times) on a sub-product ----
	sub := [][]uint64{{}, {1}, {0, 1}, {1, 0, 2}, {1, 0, 0, 0, 1}, {2, 0, 0, 0, 0, 0, 0, 0, 1}}
	vdims := []int{len(scales), 3, len(sub), 2, 2, 2, 2, len(c43Times), len(c43Times)}
	r.ParallelN(vx.ProductSize(vdims), func(i int64) {
		x := vx.ProductAt(vdims, i, nil)
		p := c43ExpPoint{Scale: scales[x[0]], PosOffset: []int32{-3, 0, 5}[x[1]], Pos: sub[x[2]], NegOffset: 1, Neg: []uint64{1}, Zero: 1,
			Sum: -3.25, HasSum: x[3] == 1, Stale: x[4] == 1, TS: c43Times[x[7]], ST: c43Times[x[8]]}
		c43Run(r, c43Case{Kind: "exp", Delta: x[5] == 1, AllowDelta: x[6] == 1, Exp: []c43ExpPoint{p}})
	})
	// ---- explicit-bucket histograms ----
	boundSets := [][]float64{{}, {1}, {1, 2, 5}, {-1, 0, 1}, {1e-7, 0.5, 1e21}}
	for _, kind := range []string{"explicit-nhcb", "explicit-classic"} {
		for _, bounds := range boundSets {
			nb := len(bounds) + 1
			total := vx.SeqCount(3, nb, nb)
			edims := []int{int(total), 2, 2, 2, 2, 3}
			r.ParallelN(vx.ProductSize(edims), func(i int64) {
				x := vx.ProductAt(edims, i, nil)
				seq := vx.SeqAt(3, nb, nb, int64(x[0]), nil)
				counts := make([]uint64, nb)
				for k, v := range seq {
					counts[k] = uint64(v)
				}
				p := c43ExplPoint{Bounds: bounds, Counts: counts, Sum: 7.75, HasSum: x[1] == 1, Stale: x[2] == 1,
					TS: c43Times[[]int{5, 2, 6}[x[5]]], ST: c43Times[[]int{0, 3, 5}[x[5]]]}
				c43Run(r, c43Case{Kind: kind, Delta: x[3] == 1, AllowDelta: x[4] == 1, Expl: []c43ExplPoint{p}})
			})
		}
	}
	// ---- gauge and sum number data points ----
	ints := []int64{0, 1, -1, math.MaxInt64, math.MinInt64, 1<<53 + 1}
	doubles := []float64{0, math.Copysign(0, -1), 1.5, -2.25, math.NaN(), math.Inf(1), math.Inf(-1), math.MaxFloat64, 5e-324, math.Float64frombits(value.StaleNaN)}
	var nums []c43NumPoint
	for _, v := range ints {
		nums = append(nums, c43NumPoint{IsInt: true, Int: v})
	}
	for _, v := range doubles {
		nums = append(nums, c43NumPoint{Bits: math.Float64bits(v)})
	}
	ndims := []int{len(nums), 2, len(c43Times), len(c43Times), 2, 2, 2, 2}
	r.ParallelN(vx.ProductSize(ndims), func(i int64) {
		x := vx.ProductAt(ndims, i, nil)
		p := nums[x[0]]
		p.Stale, p.TS, p.ST = x[1] == 1, c43Times[x[2]], c43Times[x[3]]
		kind := "gauge"
		if x[4] == 1 {
			kind = "sum"
		} else if x[5] == 1 || x[6] == 1 || x[7] == 1 {
			return // gauges have no temporality / monotonicity
		}
		c43Run(r, c43Case{Kind: kind, Delta: x[5] == 1, AllowDelta: x[6] == 1, Monotonic: x[7] == 1, Num: []c43NumPoint{p}})
	})
	// ---- ordered pairs of data points in one metric: no state may leak from one point to the next ----
	reps := []c43ExpPoint{
		{Scale: 0, PosOffset: 0, Pos: []uint64{1, 2}, Sum: 1, HasSum: true, TS: 2_000_000, ST: 1_000_000},
		{Scale: 10, PosOffset: -5, Pos: []uint64{1, 2, 0, 1, 1, 2, 2, 1}, NegOffset: 3, Neg: []uint64{0, 0, 0, 0, 0, 1}, Zero: 2, TS: 3_000_000},
		{Scale: 9, PosOffset: 7, Pos: []uint64{2, 0, 0, 0, 0, 0, 0, 0, 1}, Sum: 9, HasSum: true, Stale: true, TS: 4_000_000, ST: 4_000_000},
		{Scale: -4, PosOffset: -1, Pos: []uint64{0, 0, 3}, TS: 5_000_000},
		{Scale: 8, Pos: nil, Zero: 4, Sum: 0.5, HasSum: true, TS: 6_000_000},
		{Scale: 20, PosOffset: 4095, Pos: []uint64{1, 1, 1}, TS: 7_000_000},
	}
	r.ParallelN(int64(len(reps)*len(reps)*2), func(i int64) {
		a, b, delta := reps[int(i/2)/len(reps)], reps[int(i/2)%len(reps)], i%2 == 1
		c43Run(r, c43Case{Kind: "exp", Delta: delta, AllowDelta: true, Exp: []c43ExpPoint{a, b}})
	})
	expl := []c43ExplPoint{
		{Bounds: []float64{1, 2, 5}, Counts: []uint64{0, 1, 0, 2}, Sum: 3, HasSum: true, TS: 2_000_000},
		{Bounds: []float64{1, 2, 5}, Counts: []uint64{2, 0, 0, 0}, TS: 3_000_000, Stale: true},
		{Bounds: []float64{}, Counts: []uint64{3}, TS: 4_000_000},
		{Bounds: []float64{-1, 0, 1}, Counts: []uint64{0, 0, 0, 0}, Sum: 1, HasSum: true, TS: 5_000_000},
	}
	for _, kind := range []string{"explicit-nhcb", "explicit-classic"} {
		r.ParallelN(int64(len(expl)*len(expl)), func(i int64) {
			c43Run(r, c43Case{Kind: kind, AllowDelta: true, Expl: []c43ExplPoint{expl[int(i)/len(expl)], expl[int(i)%len(expl)]}})
		})
	}
	r.ParallelN(int64(len(nums)*len(nums)), func(i int64) {
		a, b := nums[int(i)/len(nums)], nums[int(i)%len(nums)]
		a.TS, b.TS, b.Stale = 1_000_000, 2_000_000, i%3 == 0
		c43Run(r, c43Case{Kind: "sum", Monotonic: true, Num: []c43NumPoint{a, b}})
	})

	sc := append([]int32{}, scales...)
	sort.Slice(sc, func(i, j int) bool { return sc[i] < sc[j] })
	r.Set("scales", sc)
	r.Set("positive_offsets", offsets)
	r.Set("bucket_count_arrays", len(arrays))
	r.Set("rule", fmt.Sprintf("exponential: scales %v x positive offsets %v x %d bucket-count arrays (every array of length <= %d over {0,1,2} plus 8 long arrays with zero runs) x 3 negative sides x zero count {0,3}; variants sub-product: has-sum x NoRecordedValue x delta x AllowDeltaTemporality x %d timestamps x %d start timestamps. explicit: 5 bound sets x every count array over {0,1,2} as NHCB and as classic series x sum/flag/temporality/time variants. numbers: %d values (int64 extremes, 2^53+1, NaN, +-Inf, -0, stale-marker bits) x flag x times x gauge|sum x delta x allow x monotonic. pairs: every ordered pair of 6 exponential / 4 explicit / %d number points inside one metric. distinct_nontrivial = distinct re-bucketed (scale>8) non-empty histograms, distinct NHCBs with >1 bucket, distinct classic sets, distinct converted number values", sc, offsets, len(arrays), vx.Pick(r, 3, 4), len(c43Times), len(c43Times), len(nums), len(nums)))
	r.Assume("reference: OTel bucket i at scale s is Prometheus bucket i+1; reducing by d merges OTel indices with equal floor(i/2^d); the zero threshold of the result is not part of the statement (only required to be tiny and positive)")
	r.Assume("timestamps up to MaxInt64 nanoseconds (pcommon.Timestamp.AsTime has the same limit); summaries, exemplars, label/attribute translation and target_info are outside this property")
	r.Assume("documented mappings taken as oracle: NoRecordedValue => stale marker in the value / histogram sum; delta temporality => dropped with an error unless AllowDeltaTemporality, else histograms get the gauge hint and sums the 'unknown' metadata type")
}
