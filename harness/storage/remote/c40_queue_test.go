package remote

// C40, queue protocol part: the per-shard queue (queue.Append / Batch / Chan / ReturnForReuse /
// FlushAndShutdown) is what keeps a shard's samples in WAL order between the watcher and the
// shard's send loop. runShard takes batches from it in two ways (a receive from Chan() and, when
// the BatchSendDeadline timer fired, Batch()), the watcher adds with Append, a stop/reshard ends
// with FlushAndShutdown. Whatever the interleaving of those calls, the data handed out must be
// the data accepted by Append, each exactly once, in acceptance order (FIFO): that is the
// "for each series in WAL order" and "every sample" part of the statement at the level of one
// shard. Here EVERY sequence of <= depth calls over {Append, Batch, non-blocking receive} is run
// on a real queue for several (max_samples_per_send, capacity) geometries and compared with a
// plain FIFO; every sequence ends like a shard does (drain, FlushAndShutdown, drain until closed).

import (
	"fmt"
	"testing"

	"github.com/prometheus/prometheus/internal/verif/vx"
)

// c40QGeo is one queue geometry: batch size (max_samples_per_send) and capacity.
type c40QGeo struct{ Batch, Cap int }

func c40QGeos(r *vx.Run) []c40QGeo {
	g := []c40QGeo{{1, 1}, {2, 2}, {2, 4}, {3, 3}, {3, 2}} // {3,2}: capacity < batch size => one slot
	if r.Thorough() {
		g = append(g, c40QGeo{2, 6}, c40QGeo{3, 6}, c40QGeo{4, 8})
	}
	return g
}

// c40QFifo is the reference: what was accepted, and how much of it has been handed out.
type c40QFifo struct {
	accepted []int64
	out      []int64
	sig      string
	msg      string
}

func (f *c40QFifo) failf(sig, format string, a ...any) {
	if f.sig == "" {
		f.sig, f.msg = sig, fmt.Sprintf(format, a...)
	}
}

// handOut checks one batch handed out by the queue (by Batch or by a receive).
func (f *c40QFifo) handOut(how string, got []int64) {
	for _, v := range got {
		n := len(f.out)
		switch {
		case n < len(f.accepted) && f.accepted[n] == v:
		case c40QContains(f.out, v):
			f.failf("queue-datum-handed-out-twice", "%s handed out %d again; accepted %v, handed out so far %v", how, v, f.accepted, f.out)
		case c40QContains(f.accepted, v):
			f.failf("queue-fifo-order", "%s handed out %d before the older %d; accepted (in this order) %v, handed out so far %v", how, v, f.accepted[n], f.accepted, f.out)
		default:
			f.failf("queue-unknown-datum", "%s handed out %d which was never accepted; accepted %v", how, v, f.accepted)
		}
		f.out = append(f.out, v)
	}
}

func (f *c40QFifo) end() {
	if len(f.out) < len(f.accepted) && f.sig == "" {
		f.failf("queue-datum-lost", "accepted %v but after FlushAndShutdown and draining only %v came out", f.accepted, f.out)
	}
}

func c40QContains(s []int64, v int64) bool {
	for _, x := range s {
		if x == v {
			return true
		}
	}
	return false
}

func c40QStamps(b []timeSeries) []int64 {
	out := make([]int64, 0, len(b))
	for _, d := range b {
		out = append(out, d.timestamp)
	}
	return out
}

// c40QRun executes one call sequence (0 = Append, 1 = Batch as the deadline arm of runShard does,
// 2 = receive as the batch arm of runShard does, skipped when nothing is queued) on a fresh real
// queue. Returns the reference with its verdict and an outcome string.
func c40QRun(g c40QGeo, ops []int) (*c40QFifo, string) {
	q := newQueue(g.Batch, g.Cap)
	f := &c40QFifo{}
	next := int64(0)
	rejected, viaBatch, viaChan := 0, 0, 0
	take := func(how string, b []timeSeries) {
		f.handOut(how, c40QStamps(b)) // the shard encodes the batch before it gives the buffer back
		q.ReturnForReuse(b)
	}
	recv := func(how string) bool {
		select {
		case b, ok := <-q.Chan():
			if !ok {
				return false
			}
			viaChan++
			take(how, b)
			return true
		default:
			return false
		}
	}
	for _, op := range ops {
		switch op {
		case 0:
			next++
			if q.Append(timeSeries{timestamp: next, value: float64(next), sType: tSample}) {
				f.accepted = append(f.accepted, next)
			} else {
				rejected++ // to be retried by the caller: not accepted, must never come out
				next--
			}
		case 1:
			b := q.Batch()
			if len(b) > 0 {
				viaBatch++
			}
			take("Batch()", b)
		case 2:
			recv("receive")
		}
	}
	// the end of a shard: the send loop keeps receiving while FlushAndShutdown publishes the rest
	for recv("closing receive") {
	}
	done := make(chan struct{}) // never closed: no hard shutdown
	q.FlushAndShutdown(done)    // the channel has room now: returns without waiting
	for {
		b, ok := <-q.Chan()
		if !ok {
			break
		}
		viaChan++
		take("receive after FlushAndShutdown", b)
	}
	f.end()
	return f, fmt.Sprintf("geo=%v accepted=%d rejected=%d batch=%d chan=%d", g, len(f.accepted), rejected, viaBatch, viaChan)
}

func c40QueueSelfTest(t *testing.T) {
	f := &c40QFifo{accepted: []int64{1, 2, 3}}
	f.handOut("self-test", []int64{3})
	if f.sig != "queue-fifo-order" {
		t.Fatalf("queue self-test: the FIFO reference accepted a newer datum before older ones (%q)", f.sig)
	}
	f = &c40QFifo{accepted: []int64{1, 2, 3}}
	f.handOut("self-test", []int64{1, 2})
	f.end()
	if f.sig != "queue-datum-lost" {
		t.Fatalf("queue self-test: the FIFO reference did not notice a lost datum (%q)", f.sig)
	}
	f = &c40QFifo{accepted: []int64{1, 2}}
	f.handOut("self-test", []int64{1, 1})
	if f.sig != "queue-datum-handed-out-twice" {
		t.Fatalf("queue self-test: the FIFO reference did not notice a duplicate (%q)", f.sig)
	}
}

// c40QueueProtocol enumerates all call sequences; unit is the work-split counter of the driver.
func c40QueueProtocol(t *testing.T, r *vx.Run, unit *int64) {
	c40QueueSelfTest(t)
	depth := vx.Pick(r, 9, 12)
	geos := c40QGeos(r)
	names := []string{"Append", "Batch", "receive"}
	for _, g := range geos {
		mine := r.Mine(*unit)
		*unit++
		if !mine {
			continue
		}
		total := vx.SeqCount(3, 1, depth)
		var seq []int
		for i := int64(0); i < total; i++ {
			if i%4096 == 0 && r.Expired() {
				break
			}
			seq = vx.SeqAt(3, 1, depth, i, seq)
			f, outcome := c40QRun(g, seq)
			r.Count("queue_call_sequences", 1)
			r.Distinct("queue_distinct_outcomes", outcome)
			if i == 1009 && g.Batch == 2 && g.Cap == 4 {
				r.Sample(map[string]any{"queue_geometry": g, "calls": c40QNames(names, seq), "outcome": outcome})
			}
			if f.sig != "" {
				r.Violation(f.sig, fmt.Sprintf("queue(max_samples_per_send=%d, capacity=%d), calls %v: %s", g.Batch, g.Cap, c40QNames(names, seq), f.msg),
					map[string]any{"config": "queue", "geo": g, "calls": seq})
				if r.TooManyViolations() {
					return
				}
			}
		}
	}
	r.Set("queue_protocol", fmt.Sprintf("every sequence of <=%d calls over {Append(next datum), Batch()+ReturnForReuse, non-blocking receive from Chan()+ReturnForReuse} on a real queue for (max_samples_per_send,capacity) in %v, closed by drain + FlushAndShutdown + drain-until-closed, against a FIFO of the accepted data (order, exactly once)", depth, geos))
}

func c40QNames(names []string, seq []int) []string {
	out := make([]string, len(seq))
	for i, s := range seq {
		out[i] = names[s]
	}
	return out
}
