package remote

// C42: remote read (sampled and streamed-chunks responses) returns the same data as a local query.
//
// One small real TSDB (two persisted blocks + head, 4 samples per chunk, floats, stale markers,
// int and float histograms with a counter reset, a series switching from floats to histograms) is
// built once. Every combination of matcher set x time range (end points on and next to chunk /
// block boundaries) x response mode {sampled, streamed chunks with max frame size 1 B, 64 B,
// 256 B, 1 MiB} x external labels {none, one} is read through the real remote.Client (request
// encoding) -> DecodeReadRequest / NewReadHandler (HTTP handler, in process) -> client-side
// decoders (FromQueryResult / ChunkedReader + chunkedSeriesSet), and, with external labels, also
// through remote.NewSampleAndChunkQueryableClient. The oracle is a direct Querier on the same TSDB.
// Every returned iterator is consumed twice: with Next only, and with Seek to every interesting
// timestamp followed by Next.

import (
	"context"
	"fmt"
	"math"
	"net/http"
	"net/http/httptest"
	"net/url"
	"os"
	"sort"
	"strings"
	"sync/atomic"
	"testing"
	"time"

	config_util "github.com/prometheus/common/config"
	"github.com/prometheus/common/model"
	"github.com/prometheus/common/promslog"

	"github.com/prometheus/prometheus/config"
	"github.com/prometheus/prometheus/internal/verif/vx"
	"github.com/prometheus/prometheus/model/histogram"
	"github.com/prometheus/prometheus/model/labels"
	"github.com/prometheus/prometheus/model/value"
	"github.com/prometheus/prometheus/prompb"
	"github.com/prometheus/prometheus/storage"
	"github.com/prometheus/prometheus/tsdb"
	"github.com/prometheus/prometheus/tsdb/chunkenc"
	"github.com/prometheus/prometheus/tsdb/tsdbutil"
)

type c42Case struct {
	Matchers string `json:"matchers"` // index into c42MatcherSets by name
	Lo       int64  `json:"lo"`
	Hi       int64  `json:"hi"`
	Mode     string `json:"mode"` // sampled | chunked/<maxBytesInFrame>
	Ext      bool   `json:"ext"`  // server configured with external label region="eu"
	Via      string `json:"via"`  // client | querier (NewSampleAndChunkQueryableClient)
}

var c42MatcherSets = map[string][]*labels.Matcher{
	"name=m":      {labels.MustNewMatcher(labels.MatchEqual, "__name__", "m")},
	"a=1":         {labels.MustNewMatcher(labels.MatchEqual, "a", "1")},
	"name=~m|h":   {labels.MustNewMatcher(labels.MatchRegexp, "__name__", "m|h")},
	"a!=1,name+":  {labels.MustNewMatcher(labels.MatchNotEqual, "a", "1"), labels.MustNewMatcher(labels.MatchRegexp, "__name__", ".+")},
	"none":        {labels.MustNewMatcher(labels.MatchEqual, "__name__", "nonexistent")},
	"name=x":      {labels.MustNewMatcher(labels.MatchEqual, "__name__", "x")},
	"name=h,a!~2": {labels.MustNewMatcher(labels.MatchEqual, "__name__", "h"), labels.MustNewMatcher(labels.MatchNotRegexp, "a", "2")},
	"all":         {labels.MustNewMatcher(labels.MatchRegexp, "__name__", ".+")},
	"b=":          {labels.MustNewMatcher(labels.MatchEqual, "b", ""), labels.MustNewMatcher(labels.MatchEqual, "__name__", "m")},
}

// ---- data -----------------------------------------------------------------------------------------

func c42BuildDB(dir string) *tsdb.DB {
	o := tsdb.DefaultOptions()
	o.MinBlockDuration = 100
	o.MaxBlockDuration = 100
	o.SamplesPerChunk = 4
	o.StripeSize = 8
	o.NoLockfile = true
	o.RetentionDuration = 0
	o.WALSegmentSize = 2 * 32 * 1024
	db, err := tsdb.Open(dir, promslog.NewNopLogger(), nil, o, nil)
	if err != nil {
		panic(err)
	}
	db.DisableCompactions()
	ctx := context.Background()
	lbl := func(name, a string) labels.Labels { return labels.FromStrings("__name__", name, "a", a) }
	appendRange := func(from, to int64) {
		app := db.Appender(ctx)
		must := func(_ storage.SeriesRef, err error) {
			if err != nil {
				panic(err)
			}
		}
		for t := from; t < to; t += 10 {
			must(app.Append(0, lbl("m", "1"), t, float64(t)+0.25))
			// m/2: shifted by 5, stale marker at 105, gap in [150,250)
			if t2 := t + 5; t2 < 150 || t2 >= 250 {
				v := float64(t2) * 2
				if t2 == 105 {
					v = math.Float64frombits(value.StaleNaN)
				}
				must(app.Append(0, lbl("m", "2"), t2, v))
			}
			// h/1: int histograms with a counter reset at t=120
			i := t / 10
			if t >= 120 {
				i = (t - 120) / 10
			}
			must(app.AppendHistogram(0, lbl("h", "1"), t, tsdbutil.GenerateTestHistogram(i), nil))
			// h/2: float histograms
			must(app.AppendHistogram(0, lbl("h", "2"), t+1, nil, tsdbutil.GenerateTestFloatHistogram(t/10)))
			// x/1: floats until 60, then histograms
			if t < 60 {
				must(app.Append(0, lbl("x", "1"), t, float64(-t)))
			} else if t < 240 {
				must(app.AppendHistogram(0, lbl("x", "1"), t, tsdbutil.GenerateTestHistogram(t/10), nil))
			}
		}
		if err := app.Commit(); err != nil {
			panic(err)
		}
	}
	appendRange(0, 250)
	// persist [0,100) and [100,200) as blocks, keep the rest in the head
	for i := 0; i < 2; i++ {
		h := db.Head()
		mint := h.MinTime()
		maxt := (mint/100 + 1) * 100
		if err := db.CompactHead(tsdb.NewRangeHead(h, mint, maxt-1)); err != nil {
			panic(err)
		}
	}
	appendRange(250, 300)
	app := db.Appender(ctx)
	if _, err := app.Append(0, lbl("m", "3"), 300, 3); err != nil {
		panic(err)
	}
	if err := app.Commit(); err != nil {
		panic(err)
	}
	if len(db.Blocks()) != 2 {
		panic(fmt.Sprintf("c42: expected 2 blocks, have %d", len(db.Blocks())))
	}
	return db
}

// ---- observation ------------------------------------------------------------------------------------

type c42Series struct {
	Labels  string
	Samples []string // "t=value"
}

func c42SampleStr(it chunkenc.Iterator, vt chunkenc.ValueType) (int64, string) {
	switch vt {
	case chunkenc.ValFloat:
		t, v := it.At()
		return t, fmt.Sprintf("%d=f:%x", t, math.Float64bits(v))
	case chunkenc.ValHistogram:
		t, h := it.AtHistogram(nil)
		return t, fmt.Sprintf("%d=h:%d|%s", t, h.CounterResetHint, h.String())
	case chunkenc.ValFloatHistogram:
		t, h := it.AtFloatHistogram(nil)
		return t, fmt.Sprintf("%d=fh:%d|%s", t, h.CounterResetHint, h.String())
	}
	return 0, "?"
}

func c42Drain(it chunkenc.Iterator) ([]string, error) {
	var out []string
	for vt := it.Next(); vt != chunkenc.ValNone; vt = it.Next() {
		_, s := c42SampleStr(it, vt)
		out = append(out, s)
	}
	return out, it.Err()
}

// c42Collect reads a series set completely; seekTargets != nil additionally checks Seek on a
// fresh iterator of every series against the drained samples and returns the first discrepancy.
func c42Collect(ss storage.SeriesSet, seekTargets []int64) ([]c42Series, string, error) {
	var out []c42Series
	var it chunkenc.Iterator
	seekProblem := ""
	for ss.Next() {
		s := ss.At()
		it = s.Iterator(it)
		smp, err := c42Drain(it)
		if err != nil {
			return nil, "", err
		}
		out = append(out, c42Series{Labels: s.Labels().String(), Samples: smp})
		for _, target := range seekTargets {
			if seekProblem != "" {
				break
			}
			var want []string
			for _, x := range smp {
				var t int64
				fmt.Sscanf(x, "%d=", &t)
				if t >= target {
					want = append(want, x)
				}
			}
			// phase "seek-then-next": one Seek on a fresh iterator, then Next to the end.
			// phase "repeated-seek": Seek, then Seeks that must not move (same and earlier target), then Next.
			for _, phase := range []string{"seek-then-next", "repeated-seek"} {
				it = s.Iterator(it)
				var got []string
				vt := it.Seek(target)
				if vt != chunkenc.ValNone {
					if phase == "repeated-seek" {
						if vt2 := it.Seek(target); vt2 != vt {
							seekProblem = fmt.Sprintf("%s: series %s: a second Seek(%d) changed the value type %v -> %v", phase, s.Labels(), target, vt, vt2)
							break
						}
						if target != math.MinInt64 {
							if vt2 := it.Seek(target - 1); vt2 != vt {
								seekProblem = fmt.Sprintf("%s: series %s: Seek(%d) after Seek(%d) changed the value type %v -> %v", phase, s.Labels(), target-1, target, vt, vt2)
								break
							}
						}
					}
					_, x := c42SampleStr(it, vt)
					got = append(got, x)
					rest, err := c42Drain(it)
					if err != nil {
						return nil, "", err
					}
					got = append(got, rest...)
				}
				if fmt.Sprint(c42StripHints(got)) != fmt.Sprint(c42StripHints(want)) {
					np := ""
					if target <= 0 {
						np = "/non-positive-target"
					}
					seekProblem = fmt.Sprintf("%s%s: series %s: Seek(%d) [+ no-op Seeks] + Next yields %d samples %v, Next alone yields %d samples from there: %v", phase, np, s.Labels(), target, len(got), c42Times(got), len(want), c42Times(want))
					break
				}
			}
		}
	}
	return out, seekProblem, ss.Err()
}

type c42Env struct {
	db *tsdb.DB
}

func (e *c42Env) local(ms []*labels.Matcher, lo, hi int64) []c42Series {
	q, err := e.db.Querier(lo, hi)
	if err != nil {
		panic(err)
	}
	defer q.Close()
	out, _, err := c42Collect(q.Select(context.Background(), true, nil, ms...), nil)
	if err != nil {
		panic(err)
	}
	return out
}

// c42WideQueryable hands out whole chunks: its ChunkQuerier ignores the requested range.
type c42WideQueryable struct{ *tsdb.DB }

func (w c42WideQueryable) ChunkQuerier(_, _ int64) (storage.ChunkQuerier, error) {
	return w.DB.ChunkQuerier(math.MinInt64, math.MaxInt64)
}

type c42RoundTripper struct{ h http.Handler }

func (rt c42RoundTripper) RoundTrip(r *http.Request) (*http.Response, error) {
	rec := httptest.NewRecorder()
	rt.h.ServeHTTP(rec, r)
	return rec.Result(), nil
}

func (e *c42Env) remote(c c42Case) (out []c42Series, seekProblem string, err error) {
	frame := 1 << 20
	accepted := []prompb.ReadRequest_ResponseType{prompb.ReadRequest_SAMPLES}
	var queryable storage.SampleAndChunkQueryable = e.db
	if strings.HasPrefix(c.Mode, "chunked/") {
		fmt.Sscanf(c.Mode, "chunked/%d", &frame)
		accepted = []prompb.ReadRequest_ResponseType{prompb.ReadRequest_STREAMED_XOR_CHUNKS, prompb.ReadRequest_SAMPLES}
	}
	if strings.HasPrefix(c.Mode, "chunkedwide/") {
		// A server whose chunk querier does not cut chunks at the requested range (storage.ChunkQuerier
		// allows chunks to reach beyond it; the Prometheus TSDB happens to re-encode them): the
		// client-side iterator has to apply the range itself.
		fmt.Sscanf(c.Mode, "chunkedwide/%d", &frame)
		accepted = []prompb.ReadRequest_ResponseType{prompb.ReadRequest_STREAMED_XOR_CHUNKS, prompb.ReadRequest_SAMPLES}
		queryable = c42WideQueryable{e.db}
	}
	ext := labels.EmptyLabels()
	if c.Ext {
		ext = labels.FromStrings("region", "eu")
	}
	handler := NewReadHandler(promslog.NewNopLogger(), nil, queryable, func() config.Config {
		return config.Config{GlobalConfig: config.GlobalConfig{ExternalLabels: ext}}
	}, 0, 4, frame)
	u, _ := url.Parse("http://c42.invalid/api/v1/read")
	rc, err := NewReadClient("c42", &ClientConfig{URL: &config_util.URL{URL: u}, Timeout: model.Duration(time.Minute), ChunkedReadLimit: 1 << 26, AcceptedResponseTypes: accepted})
	if err != nil {
		panic(err)
	}
	cl := rc.(*Client)
	cl.Client = &http.Client{Transport: c42RoundTripper{handler}}
	ms := c42MatcherSets[c.Matchers]
	targets := []int64{c.Lo + 1, 39, 40, 41, 99, 100, 105, 120, 200, c.Hi, c.Lo, c.Lo - 1, math.MinInt64}
	if c.Hi < math.MaxInt64 {
		targets = append(targets, c.Hi+1)
	}
	// positive targets first, so that a problem that also shows with ordinary timestamps is reported as such
	sort.Slice(targets, func(i, j int) bool { return targets[i] > targets[j] })
	ctx := context.Background()
	if c.Via == "querier" {
		q, err := NewSampleAndChunkQueryableClient(cl, ext, nil, true, func() (int64, error) { return 0, nil }).Querier(c.Lo, c.Hi)
		if err != nil {
			return nil, "", err
		}
		defer q.Close()
		return c42Collect(q.Select(ctx, true, nil, ms...), targets)
	}
	pq, err := ToQuery(c.Lo, c.Hi, ms, nil)
	if err != nil {
		return nil, "", err
	}
	ss, err := cl.Read(ctx, pq, true)
	if err != nil {
		return nil, "", err
	}
	return c42Collect(ss, targets)
}

func c42Eval(r *vx.Run, e *c42Env, c c42Case) string {
	want := e.local(c42MatcherSets[c.Matchers], c.Lo, c.Hi)
	// Series without samples in the range: a local querier may or may not list them (head series are
	// selected by chunk overlap); what must agree is the data.
	nonEmpty := func(in []c42Series) []c42Series {
		var out []c42Series
		for _, s := range in {
			if len(s.Samples) > 0 {
				out = append(out, s)
			}
		}
		return out
	}
	want = nonEmpty(want)
	if c.Ext && c.Via == "client" {
		for i := range want {
			want[i].Labels = strings.TrimSuffix(want[i].Labels, "}") + `, region="eu"}`
		}
	}
	var (
		got  []c42Series
		seek string
		err  error
	)
	if p, stack := vx.Guard(func() { got, seek, err = e.remote(c) }); p != nil {
		r.Violation("remote-read-panic/"+strings.TrimSuffix(strings.SplitN(c.Mode, "/", 2)[0], "wide"), fmt.Sprintf("case %+v: %v\n%s", c, p, stack), c)
		return "panic"
	}
	mode := strings.SplitN(c.Mode, "/", 2)[0]
	if mode == "chunkedwide" {
		mode = "chunked"
	}
	if err != nil {
		r.Violation("remote-read-error/"+mode, fmt.Sprintf("case %+v: %v", c, err), c)
		return "error"
	}
	got = nonEmpty(got)
	// the same label set must not come back twice
	seen := map[string]int{}
	for _, s := range got {
		seen[s.Labels]++
	}
	dup := false
	for _, l := range vx.SortedKeys(seen) {
		if seen[l] > 1 {
			// Known finding when the series was split over several frames (streamed response, the series'
			// chunks exceed the maximum frame size): reported softly, then the pieces are joined so that
			// the data comparison still happens.
			sig := "series-returned-more-than-once/" + mode
			if mode == "chunked" {
				sig += "/series-split-over-frames"
			}
			r.Violation(sig, fmt.Sprintf("case %+v: series %s is returned %d times by the client-side series set (local query: once). got %v", c, l, seen[l], c42Brief(got)), c)
			dup = true
			if mode != "chunked" {
				return "dup-series"
			}
		}
	}
	if dup {
		var joined []c42Series
		for _, s := range got {
			if n := len(joined); n > 0 && joined[n-1].Labels == s.Labels {
				joined[n-1].Samples = append(joined[n-1].Samples, s.Samples...)
				continue
			}
			joined = append(joined, s)
		}
		got = joined
	}
	if len(got) != len(want) {
		r.Violation("series-set-differs/"+mode, fmt.Sprintf("case %+v: remote read returns %d series %v, local query %d series %v", c, len(got), c42Brief(got), len(want), c42Brief(want)), c)
		return "series-differ"
	}
	for i := range want {
		if got[i].Labels != want[i].Labels {
			r.Violation("series-labels-or-order-differ/"+mode, fmt.Sprintf("case %+v: position %d: remote %s, local %s", c, i, got[i].Labels, want[i].Labels), c)
			return "labels-differ"
		}
		if msg := c42HintProblem(got[i].Samples, want[i].Samples); msg != "" {
			r.Violation("histogram-counter-reset-hint-differs/"+mode, fmt.Sprintf("case %+v: series %s: %s", c, want[i].Labels, msg), c)
			return "hint-differs"
		}
		if fmt.Sprint(c42StripHints(got[i].Samples)) != fmt.Sprint(c42StripHints(want[i].Samples)) {
			r.Violation("samples-differ/"+mode, fmt.Sprintf("case %+v: series %s: remote read returns %v, local query %v", c, want[i].Labels, got[i].Samples, want[i].Samples), c)
			return "samples-differ"
		}
	}
	if seek != "" {
		phase, rest, _ := strings.Cut(seek, ": ")
		r.Violation("client-iterator-seek-inconsistent/"+mode+"/"+phase, fmt.Sprintf("case %+v: %s", c, rest), c)
		return "seek"
	}
	n := 0
	kinds := map[byte]bool{}
	for _, s := range want {
		n += len(s.Samples)
		for _, x := range s.Samples {
			kinds[x[strings.Index(x, "=")+1]] = true
		}
	}
	if dup {
		return fmt.Sprintf("ok-but-split/series%d/samples%d/kinds%d", min(len(want), 3), min(n, 9)/3, len(kinds))
	}
	return fmt.Sprintf("ok/series%d/samples%d/kinds%d", min(len(want), 3), min(n, 9)/3, len(kinds))
}

// c42StripHints removes the counter-reset hint from "t=h:<hint>|..." strings.
func c42StripHints(in []string) []string {
	out := make([]string, len(in))
	for i, x := range in {
		if k := strings.Index(x, "|"); k > 0 && !strings.Contains(x[:k], "=f:") {
			x = x[:strings.LastIndex(x[:k], ":")+1] + x[k:]
		}
		out[i] = x
	}
	return out
}

// c42HintProblem: the remote hint must equal the local one, except that "unknown" (0) on either
// side is compatible with any counter hint: a chunk querier re-encodes a chunk that is cut by the
// range, and the first histogram of a re-encoded chunk carries the weaker, always safe, unknown
// hint (which side re-encodes depends on the response type). A gauge hint (3) must survive, and
// "reset"/"no reset" must never be swapped.
func c42HintProblem(got, want []string) string {
	if len(got) != len(want) {
		return ""
	}
	hint := func(x string) string {
		k := strings.Index(x, "|")
		if k < 0 || strings.Contains(x[:k], "=f:") {
			return ""
		}
		return x[strings.LastIndex(x[:k], ":")+1 : k]
	}
	for i := range want {
		g, w := hint(got[i]), hint(want[i])
		counter := func(h string) bool { return h == "0" || h == "1" || h == "2" }
		if g == w || (counter(g) && counter(w) && (g == "0" || w == "0")) {
			continue
		}
		if g == "" || w == "" {
			return "" // different sample types: left to the sample comparison
		}
		return fmt.Sprintf("sample %d: remote hint %s, local hint %s (%v)", i, g, w, c42Times(want[i:i+1]))
	}
	return ""
}

func c42Times(in []string) []string {
	out := make([]string, len(in))
	for i, x := range in {
		k := strings.Index(x, ":")
		out[i] = x[:k]
	}
	return out
}

func c42Brief(in []c42Series) string {
	var sb strings.Builder
	for _, s := range in {
		first, last := "", ""
		if len(s.Samples) > 0 {
			first, last = s.Samples[0], s.Samples[len(s.Samples)-1]
			first, last = first[:strings.Index(first, "=")], last[:strings.Index(last, "=")]
		}
		fmt.Fprintf(&sb, "%s:%d[%s..%s] ", s.Labels, len(s.Samples), first, last)
	}
	return sb.String()
}

func TestVerifC42(t *testing.T) {
	r := vx.Start(t, "C42", "exploration")
	defer r.Finish()
	dir, err := os.MkdirTemp("", "c42")
	if err != nil {
		t.Fatal(err)
	}
	defer os.RemoveAll(dir)
	db := c42BuildDB(dir)
	defer db.Close()
	e := &c42Env{db: db}
	if r.Replay != "" {
		var c c42Case
		r.LoadReplay(&c)
		t.Logf("replay %+v -> %s", c, c42Eval(r, e, c))
		return
	}
	// self-test: the data has the intended shape and the comparison is not vacuous
	{
		all := e.local(c42MatcherSets["all"], math.MinInt64, math.MaxInt64)
		if len(all) != 6 {
			t.Fatalf("self-test: expected 6 series, have %v", c42Brief(all))
		}
		total := 0
		for _, s := range all {
			total += len(s.Samples)
		}
		if total != 30+20+30+30+24+1 {
			t.Fatalf("self-test: unexpected sample count %d: %v", total, c42Brief(all))
		}
		// a cut range must give fewer samples, else ranges are not applied by the oracle
		if cut := e.local(c42MatcherSets["name=m"], 41, 99); len(cut) != 2 || len(cut[0].Samples) != 5 {
			t.Fatalf("self-test: cut range gives %v", c42Brief(cut))
		}
		// the chunk querier must really hand out several chunks per series, otherwise frames cannot split
		cq, err := db.ChunkQuerier(math.MinInt64, math.MaxInt64)
		if err != nil {
			t.Fatal(err)
		}
		css := cq.Select(context.Background(), true, nil, c42MatcherSets["a=1"]...)
		maxChunks := 0
		for css.Next() {
			n := 0
			it := css.At().Iterator(nil)
			for it.Next() {
				n++
			}
			maxChunks = max(maxChunks, n)
		}
		cq.Close()
		if maxChunks < 6 {
			t.Fatalf("self-test: only %d chunks per series", maxChunks)
		}
	}
	points := []int64{math.MinInt64, -1, 0, 30, 39, 40, 41, 99, 100, 101, 105, 119, 120, 199, 200, 245, 290, 300, 301, math.MaxInt64}
	if r.Quick() {
		points = []int64{math.MinInt64, 0, 39, 40, 99, 100, 120, 200, 290, 301, math.MaxInt64}
	}
	modes := []string{"sampled", "chunked/1", "chunked/64", "chunked/256", "chunked/1048576", "chunkedwide/1", "chunkedwide/1048576"}
	var cases []c42Case
	for _, m := range vx.SortedKeys(c42MatcherSets) {
		for i, lo := range points {
			for _, hi := range points[i:] {
				for _, mode := range modes {
					cases = append(cases, c42Case{m, lo, hi, mode, false, "client"})
					if r.Thorough() || (mode != "chunked/64" && mode != "chunked/1048576") {
						cases = append(cases, c42Case{m, lo, hi, mode, true, "client"}, c42Case{m, lo, hi, mode, true, "querier"})
					}
				}
			}
		}
	}
	var n atomic.Int64
	outcomes := map[string]int{}
	mu := make(chan struct{}, 1)
	mu <- struct{}{}
	r.ParallelN(int64(len(cases)), func(i int64) {
		c := cases[i]
		out := c42Eval(r, e, c)
		k := n.Add(1)
		<-mu
		outcomes[out]++
		mu <- struct{}{}
		r.Distinct("distinct_outcomes", out)
		if strings.HasPrefix(out, "ok") && !strings.Contains(out, "/series0/") {
			r.Distinct("distinct_nontrivial", fmt.Sprintf("%s|%d|%d|%s", c.Matchers, c.Lo, c.Hi, c.Mode))
		}
		r.SampleAt(k, func() any { return map[string]any{"case": c, "outcome": out} })
	})
	r.Count("evaluations", int(n.Load()))
	keys := make([]string, 0, len(outcomes))
	for k := range outcomes {
		keys = append(keys, k)
	}
	sort.Strings(keys)
	for _, k := range keys {
		t.Logf("outcome %-40s %d", k, outcomes[k])
	}
	r.Set("time_points", len(points))
	r.Set("rule", "every matcher set (9) x time range with end points from the list of chunk/block boundary times (all lo<=hi pairs) x response mode (sampled; streamed chunks with max frame 1 B, 64 B, 256 B, 1 MiB) x external labels (none; region=eu read raw through remote.Client and through NewSampleAndChunkQueryableClient) on one fixed TSDB (2 blocks + head, 6 series, 135 samples: floats with stale marker and gap, int/float histograms with counter reset, float->histogram switch, 4 samples per chunk); compared with a direct Querier, iterators also via Seek to 14 targets; distinct_nontrivial = distinct (matchers, range, mode) whose expected result is non-empty")
	r.Assume("series without any sample in the requested range may be listed or not by either side; only series with data are compared")
	if len(outcomes) < 4 {
		t.Fatalf("vacuous run: outcomes %v", outcomes)
	}
}

var _ = histogram.Histogram{}
