package remote

import (
	"fmt"
	"os"
	"strings"
	"testing"
	"testing/synctest"
)

func TestVerifC40Dbg(t *testing.T) {
	hist := strings.Split(os.Getenv("C40_HIST"), ",")
	cnt := map[string]int{}
	for i := 0; i < 40; i++ {
		synctest.Test(t, func(t *testing.T) {
			w := c40NewWorld(c40Configs()["v1"], c40NewEmu)
			synctest.Wait()
			for _, op := range hist {
				w.Apply(op)
				synctest.Wait()
			}
			w.mu.Lock()
			var arr []string
			for _, l := range w.eventLog {
				if strings.Contains(l, "arrive") {
					arr = append(arr, l[:strings.Index(l, "try")]+l[strings.Index(l, "__name__"):strings.Index(l, "__name__")+14])
				}
			}
			w.mu.Unlock()
			cnt[strings.Join(arr, ";")]++
			w.Close()
			synctest.Wait()
		})
	}
	for k, v := range cnt {
		fmt.Printf("%d x %s\n", v, k)
	}
	fmt.Println("VERIF-DONE dbg")
}
