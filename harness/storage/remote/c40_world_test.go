package remote

// C40: remote write delivers every sample in order despite resharding and retries.
//
// Engine E5 (lib/evloop): the REAL QueueManager (shards, queues, reshard loop, send/backoff
// loops, its WAL watcher object) runs inside a testing/synctest bubble against a fake WriteClient
// whose answers are external events. This file is the World: event menu, fake endpoint,
// reference model and oracle (written from the property statement).
//
// The package is built in the "sched" flavour only to get (a) sync.Mutex/RWMutex replaced by the
// vsync shims in bubble mode (shards.stop holds shards.mtx while it waits for the flush deadline;
// a goroutine waiting for a real mutex is never "durably blocked", which would freeze
// synctest.Wait and the fake clock) and (b) the deterministic runtime (fixed select polling
// order, fixed map iteration order). The vsched scheduler itself is NOT active.

import (
	"context"
	"errors"
	"fmt"
	"sort"
	"strings"
	"sync"
	"sync/atomic"
	"testing/synctest"
	"time"

	"github.com/gogo/protobuf/proto"
	remoteapi "github.com/prometheus/client_golang/exp/api/remote"
	"github.com/prometheus/client_golang/prometheus"
	"github.com/prometheus/common/model"
	"go.yaml.in/yaml/v2"

	"github.com/prometheus/prometheus/config"
	"github.com/prometheus/prometheus/internal/verif/vsched"
	"github.com/prometheus/prometheus/internal/verif/vsync"
	"github.com/prometheus/prometheus/internal/verif/vx"
	"github.com/prometheus/prometheus/model/histogram"
	"github.com/prometheus/prometheus/model/labels"
	"github.com/prometheus/prometheus/model/relabel"
	"github.com/prometheus/prometheus/prompb"
	writev2 "github.com/prometheus/prometheus/prompb/io/prometheus/write/v2"
	"github.com/prometheus/prometheus/tsdb/chunks"
	"github.com/prometheus/prometheus/tsdb/record"
	"github.com/prometheus/prometheus/tsdb/tsdbutil"
	"github.com/prometheus/prometheus/util/compression"
)

// c40Current is the world whose bubble is running (one worker per process, histories are
// executed one after the other).
var c40Current atomic.Pointer[c40World]

func init() {
	vsync.BubbleMode.Store(true)
	// a panic on a goroutine of the queue manager (shard, reshard loop, ...) is behaviour of the
	// code under test: report it instead of dying
	vsched.UncontrolledPanic = func(v any, stack []byte) {
		w := c40Current.Load()
		if w == nil {
			panic(v)
		}
		st := string(stack)
		if len(st) > 1500 {
			st = st[:1500]
		}
		w.mu.Lock()
		w.failf("panic-in-queue-manager-goroutine", "%v\n%s", v, st)
		w.mu.Unlock()
	}
}

// ---- configuration ---------------------------------------------------------------------------

const (
	c40BatchSendDeadline = 100 * time.Millisecond
	c40MinBackoff        = 30 * time.Millisecond
	c40MaxBackoff        = 50 * time.Millisecond
	c40FlushDeadline     = 1500 * time.Millisecond // > the 1s retry period of queue.FlushAndShutdown
	c40AgeLimit          = 2 * time.Second
	c40T1                = 110 * time.Millisecond  // past BatchSendDeadline and every backoff
	c40T2                = 1600 * time.Millisecond // past the flush deadline
	c40T3                = 5100 * time.Millisecond // past the watcher's checkpoint period (WAL feeder only)
	c40MaxBatches        = 3
)

type c40Cfg struct {
	Name string
	V2   bool  // remote write 2.0 message (populateV2TimeSeries / sendV2SamplesWithBackoff)
	Age  bool  // sample_age_limit = 2s, plus one always-too-old and one borderline sample per batch
	Tie  int32 // order of fake timers expiring at the same instant: 0 armed-first-first, 1 armed-last-first
	Wal  bool  // fed by a real Head + WAL + wlog.Watcher (set by the driver)
	Cap  int   // queue capacity (0 = 2: one full batch may wait in a shard's channel; 4: two)
	// Gate adds the events H/U (set by the driver): H = every goroutine that is about to take a
	// shard queue's batchMtx is held up at that point (the harness holds the mutex from the root
	// goroutine), U = they go on (in an order fixed by the order in which they got there; both
	// arrival orders are explored: [H T1 A U] and [H A T1 U]). This makes "the BatchSendDeadline timer fired and runShard committed to its timer arm" and "the
	// watcher appends (fills a batch, publishes it, starts the next)" two events that are ordered
	// by the explorer instead of by the runtime.
	Gate bool
	// Menu restricts the event menu (nil = everything).
	Menu []string
}

func c40Configs() map[string]c40Cfg {
	return map[string]c40Cfg{
		"v1":     {Name: "v1"},
		"v2":     {Name: "v2", V2: true},
		"v1+age": {Name: "v1+age", Age: true},
		"v2+age": {Name: "v2+age", V2: true, Age: true},
		// same-instant timers fire in the opposite order
		"v1~lifo":     {Name: "v1~lifo", Tie: 1},
		"v2+age~lifo": {Name: "v2+age~lifo", V2: true, Age: true, Tie: 1},
		// two full batches may wait in a shard's channel besides the partial batch
		"v1+cap4": {Name: "v1+cap4", Cap: 4},
		"v2+cap4": {Name: "v2+cap4", V2: true, Cap: 4},
	}
}

// The series the (emulated or real) WAL contains, with the labels the endpoint must see. The
// expected label sets are written by hand from the documentation: external labels are added
// unless the series already has the label, then write_relabel_configs are applied.
const c40RelabelYAML = `
- source_labels: [__name__]
  regex: drop_.*
  action: drop
- source_labels: [env]
  regex: (.+)
  target_label: stage
  action: replace
- regex: env
  action: labeldrop
`

var c40External = labels.FromStrings("cluster", "c1", "region", "eu")

type c40SeriesDef struct {
	Name string
	Ref  chunks.HeadSeriesRef
	Lset labels.Labels
	Want string // labels.Labels.String() of what the endpoint must see; "" = dropped by relabeling
}

func c40Series() []c40SeriesDef {
	return []c40SeriesDef{
		{"m1", 1, labels.FromStrings("__name__", "m1", "job", "a", "env", "x"), labels.FromStrings("__name__", "m1", "cluster", "c1", "job", "a", "region", "eu", "stage", "x").String()},
		{"m2", 2, labels.FromStrings("__name__", "m2", "cluster", "own"), labels.FromStrings("__name__", "m2", "cluster", "own", "region", "eu").String()},
		{"drop_me", 3, labels.FromStrings("__name__", "drop_me", "job", "a"), ""},
		{"h1", 4, labels.FromStrings("__name__", "h1", "job", "a"), labels.FromStrings("__name__", "h1", "cluster", "c1", "job", "a", "region", "eu").String()},
		{"m5", 5, labels.FromStrings("__name__", "m5", "job", "a"), labels.FromStrings("__name__", "m5", "cluster", "c1", "job", "a", "region", "eu").String()},
		{"m6", 6, labels.FromStrings("__name__", "m6", "job", "b"), labels.FromStrings("__name__", "m6", "cluster", "c1", "job", "b", "region", "eu").String()},
	}
}

func c40RelabelConfigs() []*relabel.Config {
	var rc []*relabel.Config
	if err := yaml.UnmarshalStrict([]byte(c40RelabelYAML), &rc); err != nil {
		panic(err)
	}
	for _, c := range rc {
		if err := c.Validate(model.UTF8Validation); err != nil {
			panic(err)
		}
	}
	return rc
}

// ---- model -----------------------------------------------------------------------------------

// c40Exp is one datum of the WAL history (float sample, histogram sample or exemplar).
type c40Exp struct {
	Key      string // series/kind/timestamp
	Series   string
	Kind     byte // 'f' float, 'h' histogram, 'e' exemplar
	T        int64
	V        float64
	H        *histogram.Histogram
	Seq      int // position in the WAL history
	Batch    int
	Dropped  bool   // belongs to the series dropped by relabeling
	Exempt   string // reason why delivery is not guaranteed by the statement ("" = guaranteed)
	Arrived  int
	Ingested bool
}

func c40Key(series string, kind byte, t int64) string {
	return fmt.Sprintf("%s/%c/%d", series, kind, t)
}

type c40Datum struct {
	Labels string
	Kind   byte
	T      int64
	V      float64
	H      *histogram.Histogram
	ExLbls string
}

type c40Pending struct {
	ID    int
	Try   int
	At    int64
	Data  []c40Datum
	ans   chan int
	alive bool
}

const (
	c40AnsOK = iota
	c40AnsRecoverable
	c40AnsUnrecoverable
)

// c40Feeder is the source of watcher calls: the emulated watcher (quick + thorough) or a real
// Head + wlog.Watcher (thorough, c40_wal_test.go).
type c40Feeder interface {
	// Submit makes batch i (and what belongs to it) available to the queue manager.
	Submit(w *c40World, i int)
	// GC performs a checkpoint / series garbage collection.
	GC(w *c40World)
	// Idle reports that everything submitted so far went through QueueManager.Append*.
	Idle(w *c40World) bool
	// BatchDone reports that all Append* calls of batch i returned true.
	BatchDone(w *c40World, i int) bool
	Progress(w *c40World) string
	Close(w *c40World)
}

type c40World struct {
	cfg    c40Cfg
	m      *QueueManager
	feed   c40Feeder
	start  time.Time
	base   int64
	defs   []c40SeriesDef
	byWant map[string]string // expected label string -> series name

	mu        sync.Mutex
	exp       map[string]*c40Exp
	order     []*c40Exp
	seq       int
	submitted int // batches
	gcDone    bool
	lastSeq   map[string]int // per series: highest WAL position ingested
	ingestLog []string
	eventLog  []string // timed log of everything the environment saw or did
	pending   []*c40Pending
	nextID    int
	auto      bool // closing phase: the endpoint answers OK at once
	failures  int  // answers != OK and cancelled requests so far
	retryWait bool // a recoverable answer was given and the retry has not arrived yet
	stopReqs  []int64
	stopAsked bool
	stopped   bool
	checked   bool
	closed    bool
	fail      *vx.Fail
	sigs      map[string]bool // every oracle complaint so far (fail keeps the first)
	hist      []string
	gate      []*queue // shard queues whose batchMtx the harness holds (event H .. event U)
	gateSlept bool     // the clock was advanced during this hold
}

func (w *c40World) clk() int64 { return int64(time.Since(w.start) / time.Millisecond) }

func (w *c40World) failf(sig, format string, a ...any) {
	if w.sigs == nil {
		w.sigs = map[string]bool{}
	}
	w.sigs[sig] = true
	if w.fail == nil {
		w.fail = vx.Failf(sig, "history %v: %s", w.hist, fmt.Sprintf(format, a...))
	}
}

func (w *c40World) logf(format string, a ...any) {
	w.eventLog = append(w.eventLog, fmt.Sprintf("@%d ", w.clk())+fmt.Sprintf(format, a...))
}

func c40NewWorld(cfg c40Cfg, mkFeed func(w *c40World) c40Feeder) *c40World {
	w := &c40World{cfg: cfg, start: time.Now(), exp: map[string]*c40Exp{}, lastSeq: map[string]int{}, byWant: map[string]string{}}
	w.base = w.start.UnixMilli()
	c40Current.Store(w)
	w.defs = c40Series()
	for _, d := range w.defs {
		if d.Want != "" {
			w.byWant[d.Want] = d.Name
		}
	}
	qc := config.DefaultQueueConfig
	qc.Capacity = 2
	if cfg.Cap > 0 {
		qc.Capacity = cfg.Cap
	}
	qc.MaxSamplesPerSend = 2
	qc.MinShards = 1
	qc.MaxShards = 3
	qc.BatchSendDeadline = model.Duration(c40BatchSendDeadline)
	qc.MinBackoff = model.Duration(c40MinBackoff)
	qc.MaxBackoff = model.Duration(c40MaxBackoff)
	if cfg.Age {
		qc.SampleAgeLimit = model.Duration(c40AgeLimit)
	}
	msg := remoteapi.WriteV1MessageType
	if cfg.V2 {
		msg = remoteapi.WriteV2MessageType
	}
	w.feed = mkFeed(w)
	dir := ""
	if d, ok := w.feed.(interface{ Dir() string }); ok {
		dir = d.Dir()
	} else {
		dir = "/nonexistent-c40-wal" // the watcher finds no WAL and retries every 5s of fake time
	}
	w.m = NewQueueManager(newQueueManagerMetrics(nil, "", ""), nil, nil, nil, dir,
		newEWMARate(ewmaWeight, shardUpdateDuration), qc, config.DefaultMetadataConfig,
		c40External, c40RelabelConfigs(), &c40Client{w: w}, c40FlushDeadline, newPool(),
		&maxTimestamp{Gauge: prometheus.NewGauge(prometheus.GaugeOpts{Name: "c40_highest_timestamp"})}, nil, true, true, false, msg, record.NewBuffersPool(), false)
	if p, ok := w.feed.(interface{ Prepare(w *c40World) }); ok {
		p.Prepare(w)
	}
	w.m.Start()
	if s, ok := w.feed.(interface{ Started(w *c40World) }); ok {
		s.Started(w)
	}
	return w
}

// ---- batches ---------------------------------------------------------------------------------

// c40BatchRecords builds the WAL content of batch i in WAL order and registers it in the model.
// Per batch: two scrapes of the float series (m1, m2, drop_me, m5 while it exists), one histogram
// sample, one exemplar; with the age configuration also one sample that is far beyond the age
// limit and one (series m6) that is within the limit only during the first 50ms.
func (w *c40World) c40BatchRecords(i int) (samples []record.RefSample, hists []record.RefHistogramSample, exs []record.RefExemplar) {
	t0 := w.base + 1000 + int64(i)*10 // after the start of the queue (the watcher only forwards newer samples)
	if w.cfg.Age {
		t0 += int64(time.Hour / time.Millisecond) // never too old
	}
	ref := map[string]chunks.HeadSeriesRef{}
	for _, d := range w.defs {
		ref[d.Name] = d.Ref
	}
	add := func(series string, kind byte, t int64, exempt string) *c40Exp {
		w.seq++
		e := &c40Exp{Key: c40Key(series, kind, t), Series: series, Kind: kind, T: t, V: float64(w.seq) + 0.5, Seq: w.seq, Batch: i, Dropped: series == "drop_me", Exempt: exempt}
		if _, dup := w.exp[e.Key]; dup {
			panic("c40: duplicate datum " + e.Key)
		}
		w.exp[e.Key] = e
		w.order = append(w.order, e)
		return e
	}
	fl := func(series string, t int64, exempt string) {
		e := add(series, 'f', t, exempt)
		samples = append(samples, record.RefSample{Ref: ref[series], T: t, V: e.V})
	}
	if w.cfg.Age && i == 0 {
		fl("m2", w.base-int64(time.Hour/time.Millisecond), "older than the age limit when appended")
	}
	for scrape := int64(0); scrape < 2; scrape++ {
		t := t0 + scrape
		fl("m1", t, "")
		fl("m2", t, "")
		fl("drop_me", t, "")
		if scrape == 0 && !w.gcDone {
			fl("m5", t, "")
		}
		if w.cfg.Age && scrape == 0 {
			fl("m6", w.base-int64(c40AgeLimit/time.Millisecond)+50+int64(i), "within the age limit only until 50ms after the start")
		}
	}
	eh := add("h1", 'h', t0, "")
	eh.H = tsdbutil.GenerateTestHistogram(int64(i + 1))
	hists = append(hists, record.RefHistogramSample{Ref: ref["h1"], T: t0, H: eh.H})
	ee := add("m1", 'e', t0, "")
	exs = append(exs, record.RefExemplar{Ref: ref["m1"], T: t0, V: ee.V, Labels: labels.FromStrings("trace_id", fmt.Sprintf("t%d", ee.Seq))})
	return samples, hists, exs
}

// ---- emulated watcher ------------------------------------------------------------------------

// c40Emu calls the watcher-facing API of the queue manager from ONE goroutine, in WAL order,
// exactly as wlog.Watcher does (StoreSeries / Append / AppendHistograms / AppendExemplars,
// UpdateSeriesSegment + SeriesReset for a checkpoint).
type c40Emu struct {
	fifo      chan func(m *QueueManager) bool
	processed int
	queued    int
	dead      bool // an Append* returned false (shutdown): the watcher stops reading
	exited    bool
	batchOK   map[int]bool
}

func c40NewEmu(w *c40World) c40Feeder {
	return &c40Emu{fifo: make(chan func(m *QueueManager) bool, 64), batchOK: map[int]bool{}}
}

func (f *c40Emu) Started(w *c40World) {
	go func() {
		for call := range f.fifo {
			w.mu.Lock()
			dead := f.dead
			w.mu.Unlock()
			ok := false
			if !dead {
				ok = call(w.m)
			}
			w.mu.Lock()
			f.processed++
			if !ok {
				f.dead = true
			}
			w.mu.Unlock()
		}
		w.mu.Lock()
		f.exited = true
		w.mu.Unlock()
	}()
	var ss []record.RefSeries
	for _, d := range w.defs {
		if d.Name == "m6" && !w.cfg.Age {
			continue
		}
		ss = append(ss, record.RefSeries{Ref: d.Ref, Labels: d.Lset})
	}
	f.push(w, func(m *QueueManager) bool { m.StoreSeries(ss, 0); return true })
}

func (f *c40Emu) push(w *c40World, call func(m *QueueManager) bool) {
	f.queued++
	f.fifo <- call
}

func (f *c40Emu) Submit(w *c40World, i int) {
	w.mu.Lock()
	samples, hists, exs := w.c40BatchRecords(i)
	w.mu.Unlock()
	f.push(w, func(m *QueueManager) bool { return m.Append(samples) })
	f.push(w, func(m *QueueManager) bool { return m.AppendHistograms(hists) })
	f.push(w, func(m *QueueManager) bool {
		ok := m.AppendExemplars(exs)
		if ok {
			w.mu.Lock()
			f.batchOK[i] = !f.dead
			w.mu.Unlock()
		}
		return ok
	})
}

func (f *c40Emu) GC(w *c40World) {
	// What the watcher does when it sees a new checkpoint (index 1): series still present in
	// the checkpoint get their segment bumped, then everything older is forgotten. m5 is the
	// churned series that is no longer in the head.
	var alive []record.RefSeries
	for _, d := range w.defs {
		if d.Name != "m5" {
			alive = append(alive, record.RefSeries{Ref: d.Ref, Labels: d.Lset})
		}
	}
	f.push(w, func(m *QueueManager) bool { m.UpdateSeriesSegment(alive, 1); m.SeriesReset(1); return true })
}

func (f *c40Emu) Idle(w *c40World) bool             { return f.processed == f.queued }
func (f *c40Emu) BatchDone(w *c40World, i int) bool { return f.batchOK[i] }
func (f *c40Emu) Progress(w *c40World) string {
	return fmt.Sprintf("emu %d/%d dead=%v", f.processed, f.queued, f.dead)
}
func (f *c40Emu) Close(w *c40World) {
	close(f.fifo)
	// the fake clock stops when the root goroutine returns: let a sleeping Append* wake up first
	for i := 0; i < 200; i++ {
		synctest.Wait()
		w.mu.Lock()
		ex := f.exited
		w.mu.Unlock()
		if ex {
			return
		}
		w.sleep(100 * time.Millisecond)
	}
}

// ---- fake endpoint ---------------------------------------------------------------------------

type c40Client struct{ w *c40World }

func (c *c40Client) Name() string     { return "c40" }
func (c *c40Client) Endpoint() string { return "http://c40.invalid/write" }

func (c *c40Client) Store(ctx context.Context, req []byte, try int) (WriteResponseStats, error) {
	w := c.w
	data, err := w.decode(req)
	w.mu.Lock()
	if err != nil {
		w.failf("undecodable-request", "%v", err)
		w.mu.Unlock()
		return WriteResponseStats{}, err
	}
	w.nextID++
	p := &c40Pending{ID: w.nextID, Try: try, At: w.clk(), Data: data, ans: make(chan int, 1), alive: true}
	w.retryWait = false
	w.logf("arrive #%d try=%d %s", p.ID, try, c40DataString(data))
	w.onArrival(p)
	if w.auto {
		w.onIngest(p)
		w.mu.Unlock()
		return WriteResponseStats{}, nil
	}
	w.pending = append(w.pending, p)
	w.mu.Unlock()
	select {
	case a := <-p.ans:
		switch a {
		case c40AnsOK:
			return WriteResponseStats{}, nil
		case c40AnsRecoverable:
			return WriteResponseStats{}, RecoverableError{errors.New("server returned HTTP status 503"), defaultBackoff}
		default:
			return WriteResponseStats{}, errors.New("server returned HTTP status 400")
		}
	case <-ctx.Done():
		// what the real HTTP client returns for a cancelled request
		w.mu.Lock()
		w.removePending(p)
		w.onCancel(p)
		w.mu.Unlock()
		return WriteResponseStats{}, RecoverableError{ctx.Err(), defaultBackoff}
	}
}

func (w *c40World) removePending(p *c40Pending) {
	for i, q := range w.pending {
		if q == p {
			w.pending = append(w.pending[:i:i], w.pending[i+1:]...)
			return
		}
	}
}

func c40DataString(data []c40Datum) string {
	var sb strings.Builder
	for i, d := range data {
		if i > 0 {
			sb.WriteByte(' ')
		}
		fmt.Fprintf(&sb, "%s/%c/%d", d.Labels, d.Kind, d.T)
	}
	return sb.String()
}

func (w *c40World) decode(req []byte) ([]c40Datum, error) {
	raw, err := compression.Decode(compression.Snappy, req, nil)
	if err != nil {
		return nil, err
	}
	var out []c40Datum
	b := labels.NewScratchBuilder(0)
	if !w.cfg.V2 {
		var wr prompb.WriteRequest
		if err := proto.Unmarshal(raw, &wr); err != nil {
			return nil, err
		}
		for _, ts := range wr.Timeseries {
			ls := ts.ToLabels(&b, nil).String()
			n := 0
			for _, s := range ts.Samples {
				out = append(out, c40Datum{Labels: ls, Kind: 'f', T: s.Timestamp, V: s.Value})
				n++
			}
			for _, h := range ts.Histograms {
				if h.IsFloatHistogram() {
					return nil, fmt.Errorf("unexpected float histogram for %s", ls)
				}
				out = append(out, c40Datum{Labels: ls, Kind: 'h', T: h.Timestamp, H: h.ToIntHistogram()})
				n++
			}
			for _, e := range ts.Exemplars {
				ex := e.ToExemplar(&b, nil)
				out = append(out, c40Datum{Labels: ls, Kind: 'e', T: ex.Ts, V: ex.Value, ExLbls: ex.Labels.String()})
				n++
			}
			if n == 0 {
				out = append(out, c40Datum{Labels: ls, Kind: '0'})
			}
		}
		return out, nil
	}
	var wr writev2.Request
	if err := proto.Unmarshal(raw, &wr); err != nil {
		return nil, err
	}
	for _, ts := range wr.Timeseries {
		l, err := ts.ToLabels(&b, wr.Symbols)
		if err != nil {
			return nil, err
		}
		ls := l.String()
		n := 0
		for _, s := range ts.Samples {
			out = append(out, c40Datum{Labels: ls, Kind: 'f', T: s.Timestamp, V: s.Value})
			n++
		}
		for _, h := range ts.Histograms {
			if h.IsFloatHistogram() {
				return nil, fmt.Errorf("unexpected float histogram for %s", ls)
			}
			out = append(out, c40Datum{Labels: ls, Kind: 'h', T: h.Timestamp, H: h.ToIntHistogram()})
			n++
		}
		for _, e := range ts.Exemplars {
			ex, err := e.ToExemplar(&b, wr.Symbols)
			if err != nil {
				return nil, err
			}
			out = append(out, c40Datum{Labels: ls, Kind: 'e', T: ex.Ts, V: ex.Value, ExLbls: ex.Labels.String()})
			n++
		}
		if n == 0 {
			out = append(out, c40Datum{Labels: ls, Kind: '0'})
		}
	}
	return out, nil
}

// ---- oracle (called with w.mu held) ----------------------------------------------------------

// lookup maps a received datum to the WAL datum it must be a faithful copy of.
func (w *c40World) lookup(d c40Datum) *c40Exp {
	series, ok := w.byWant[d.Labels]
	if !ok {
		if strings.Contains(d.Labels, "drop_me") {
			w.failf("dropped-series-sent", "the endpoint received data of the series dropped by write relabeling: %s/%c/%d", d.Labels, d.Kind, d.T)
		} else {
			w.failf("wrong-labels", "the endpoint received a series with labels %s; expected one of %v (relabeled + external labels)", d.Labels, vx.SortedKeys(w.byWant))
		}
		return nil
	}
	e := w.exp[c40Key(series, d.Kind, d.T)]
	if e == nil {
		w.failf("unknown-sample-sent", "the endpoint received %s/%c/%d which was never written", d.Labels, d.Kind, d.T)
		return nil
	}
	switch d.Kind {
	case 'f':
		if d.V != e.V {
			w.failf("wrong-value", "%s: value %v, written %v", e.Key, d.V, e.V)
		}
	case 'h':
		if d.H == nil || !d.H.Equals(e.H) {
			w.failf("wrong-value", "%s: histogram %v, written %v", e.Key, d.H, e.H)
		}
	case 'e':
		if want := labels.FromStrings("trace_id", fmt.Sprintf("t%d", e.Seq)).String(); d.V != e.V || d.ExLbls != want {
			w.failf("wrong-value", "%s: exemplar %v %s, written %v %s", e.Key, d.V, d.ExLbls, e.V, want)
		}
	}
	return e
}

func (w *c40World) onArrival(p *c40Pending) {
	for _, d := range p.Data {
		e := w.lookup(d)
		if e == nil {
			continue
		}
		e.Arrived++
		if e.Arrived > 1 && w.failures == 0 {
			w.failf("sent-twice-without-failure", "%s was sent %d times although no send failed", e.Key, e.Arrived)
		}
	}
}

// onIngest: the endpoint accepted request p (answered OK).
func (w *c40World) onIngest(p *c40Pending) {
	for _, d := range p.Data {
		series, ok := w.byWant[d.Labels]
		if !ok {
			continue
		}
		e := w.exp[c40Key(series, d.Kind, d.T)]
		if e == nil {
			continue
		}
		if e.Ingested {
			if w.failures == 0 {
				w.failf("sent-twice-without-failure", "%s was accepted twice although no send failed", e.Key)
			}
			continue // at-least-once after a failure
		}
		if last := w.lastSeq[e.Series]; e.Seq < last {
			w.failf("out-of-order", "series %s: %s (WAL position %d) accepted by the endpoint after WAL position %d; accepted so far: %v", e.Series, e.Key, e.Seq, last, w.ingestLog)
		}
		w.lastSeq[e.Series] = max(w.lastSeq[e.Series], e.Seq)
		e.Ingested = true
		w.ingestLog = append(w.ingestLog, e.Key)
	}
}

// exemptOutstanding: delivery of what was written so far and not yet accepted is no longer
// guaranteed by the statement.
func (w *c40World) exemptOutstanding(reason string, only func(e *c40Exp) bool) {
	for _, e := range w.order {
		if !e.Ingested && e.Exempt == "" && (only == nil || only(e)) {
			e.Exempt = reason
		}
	}
}

// onCancel: the queue manager cancelled an in-flight request (hard shutdown of the shards). The
// statement allows that only when a stop/reshard could not flush within the flush deadline.
func (w *c40World) onCancel(p *c40Pending) {
	now := w.clk()
	w.failures++
	w.logf("cancel #%d", p.ID)
	legit := false
	for _, c0 := range w.stopReqs {
		if now-c0 >= int64(c40FlushDeadline/time.Millisecond) {
			legit = true
		}
	}
	if !legit {
		w.failf("hard-shutdown-before-flush-deadline", "request #%d was cancelled at %dms; stop/reshard requests were made at %v, flush deadline %v", p.ID, now, w.stopReqs, c40FlushDeadline)
	}
	w.exemptOutstanding("a stop/reshard hit the flush deadline with unanswered requests", nil)
}

// ---- evloop.World ----------------------------------------------------------------------------

// implSummary peeks at the shards without ever blocking on their locks.
func (w *c40World) implSummary() string {
	s := w.m.shards
	if !s.mtx.TryRLock() {
		return "shards:stopping"
	}
	defer s.mtx.RUnlock()
	var sb strings.Builder
	soft := false
	select {
	case <-s.softShutdown:
		soft = true
	default:
	}
	fmt.Fprintf(&sb, "shards:%d soft=%v", len(s.queues), soft)
	for _, q := range s.queues {
		if w.gated(q) {
			fmt.Fprintf(&sb, " [held %d+%d]", len(q.batchQueue), len(q.batch))
		} else if q.batchMtx.TryLock() {
			fmt.Fprintf(&sb, " [%d+%d]", len(q.batchQueue), len(q.batch))
			q.batchMtx.Unlock()
		} else {
			sb.WriteString(" [locked]")
		}
	}
	return sb.String()
}

func (w *c40World) gated(q *queue) bool {
	for _, g := range w.gate {
		if g == q {
			return true
		}
	}
	return false
}

// hold (w.mu held) takes the batchMtx of every shard queue. At a quiescent point nobody holds one
// (they are never held across a blocking operation).
func (w *c40World) hold() {
	s := w.m.shards
	if !s.mtx.TryRLock() {
		w.logf("hold skipped")
		return
	}
	defer s.mtx.RUnlock()
	for _, q := range s.queues {
		if q.batchMtx.TryLock() {
			w.gate = append(w.gate, q)
		}
	}
	w.gateSlept = false
}

// release (w.mu held) lets everybody who waits for a held batchMtx go on.
func (w *c40World) release() {
	for _, q := range w.gate {
		q.batchMtx.Unlock()
	}
	w.gate = nil
}

// liveShards returns the number of running shards, or -1 while a stop/reshard is in progress.
func (w *c40World) liveShards() int {
	s := w.m.shards
	if !s.mtx.TryRLock() {
		return -1
	}
	defer s.mtx.RUnlock()
	select {
	case <-s.softShutdown:
		return -1
	default:
	}
	return len(s.queues)
}

func (w *c40World) outstanding() int {
	n := 0
	for _, e := range w.order {
		if !e.Ingested && !e.Dropped && e.Exempt == "" {
			n++
		}
	}
	return n
}

func (w *c40World) allowed(op string) bool {
	if w.cfg.Menu == nil {
		return true
	}
	for _, m := range w.cfg.Menu {
		if m == op {
			return true
		}
	}
	return false
}

func (w *c40World) Ops() []string {
	w.mu.Lock()
	defer w.mu.Unlock()
	var ops []string
	add := func(op string) {
		if w.allowed(op) {
			ops = append(ops, op)
		}
	}
	live := w.liveShards()
	if len(w.gate) > 0 {
		// While the queues are held only the two things whose order is in question (the next WAL
		// batch, the clock reaching the batch send deadline) and endpoint answers may happen:
		// a stop/reshard would run into its flush deadline because of the harness.
		if !w.stopAsked && w.submitted < c40MaxBatches {
			add("A")
		}
		if len(w.pending) > 0 {
			add("ok")
			add("rec")
		}
		if !w.gateSlept {
			add("T1")
		}
		ops = append(ops, "U")
		return ops
	}
	if w.cfg.Gate && !w.stopAsked && live > 0 {
		add("H")
	}
	if !w.stopAsked && w.submitted < c40MaxBatches {
		add("A")
	}
	if len(w.pending) > 0 {
		add("ok")
		add("rec")
		add("unrec")
	}
	if len(w.pending) > 1 {
		add("okNewest")
	}
	busy := len(w.pending) > 0 || w.retryWait || live < 0 || !w.feed.Idle(w) || w.outstanding() > 0 || (w.stopAsked && !w.stopped)
	if busy {
		add("T1")
		if w.cfg.Wal {
			add("T3")
		} else {
			add("T2")
		}
	}
	if !w.stopAsked && live > 0 {
		for n := 2; n <= 3; n++ {
			if n != live {
				add(fmt.Sprintf("R%d", n))
			}
		}
		if live != 1 {
			add("R1")
		}
	}
	// With the real WAL the checkpoint is only taken when the watcher has caught up: truncating
	// segments it has not read makes it restart and (by design) skip what was written before.
	if !w.stopAsked && !w.gcDone && w.submitted > 0 && (!w.cfg.Wal || (w.feed.Idle(w) && live > 0)) {
		add("G")
	}
	if !w.stopAsked {
		add("S")
	}
	return ops
}

func (w *c40World) answer(p *c40Pending, a int) {
	w.removePending(p)
	switch a {
	case c40AnsOK:
		w.logf("answer #%d ok", p.ID)
		w.onIngest(p)
	case c40AnsRecoverable:
		w.logf("answer #%d recoverable", p.ID)
		w.failures++
		w.retryWait = true
	case c40AnsUnrecoverable:
		w.logf("answer #%d unrecoverable", p.ID)
		w.failures++
		for _, d := range p.Data {
			if series, ok := w.byWant[d.Labels]; ok {
				if e := w.exp[c40Key(series, d.Kind, d.T)]; e != nil && !e.Ingested && e.Exempt == "" {
					e.Exempt = "its request got an unrecoverable answer"
				}
			}
		}
	}
	p.ans <- a
}

// sleep advances the fake clock. If a stop/reshard is in progress while a failed request waits
// for its retry and the flush deadline passes, the shards may be shut down hard without the
// endpoint seeing a cancelled request: that loss is allowed by the statement as well.
func (w *c40World) sleep(d time.Duration) {
	w.mu.Lock()
	rw := w.retryWait
	before := w.clk()
	w.mu.Unlock()
	time.Sleep(d)
	synctest.Wait()
	w.mu.Lock()
	if rw {
		for _, c0 := range w.stopReqs {
			dl := c0 + int64(c40FlushDeadline/time.Millisecond)
			if before < dl && w.clk() >= dl {
				w.exemptOutstanding("a stop/reshard hit the flush deadline while a failed request waited for its retry", nil)
			}
		}
	}
	w.mu.Unlock()
}

func (w *c40World) Apply(op string) {
	w.hist = append(w.hist, op)
	w.mu.Lock()
	w.logf("event %s", op)
	switch {
	case op == "A":
		i := w.submitted
		w.submitted++
		w.mu.Unlock()
		w.feed.Submit(w, i)
		return
	case op == "G":
		w.gcDone = true
		w.mu.Unlock()
		w.feed.GC(w)
		return
	case op == "ok" || op == "rec" || op == "unrec":
		if len(w.pending) > 0 {
			w.answer(w.pending[0], map[string]int{"ok": c40AnsOK, "rec": c40AnsRecoverable, "unrec": c40AnsUnrecoverable}[op])
		}
	case op == "okNewest":
		if len(w.pending) > 0 {
			w.answer(w.pending[len(w.pending)-1], c40AnsOK)
		}
	case op == "T1" || op == "T2" || op == "T3":
		w.gateSlept = true
		w.mu.Unlock()
		w.sleep(map[string]time.Duration{"T1": c40T1, "T2": c40T2, "T3": c40T3}[op])
		return
	case op == "H":
		w.hold()
	case op == "U":
		w.release()
	case strings.HasPrefix(op, "R"):
		n := int(op[1] - '0')
		// exactly what updateShardsLoop does once shouldReshard agreed
		select {
		case w.m.reshardChan <- n:
			w.stopReqs = append(w.stopReqs, w.clk())
		default:
			w.logf("reshard skipped")
		}
	case op == "S":
		w.requestStop()
	default:
		panic("c40: unknown event " + op)
	}
	w.mu.Unlock()
}

// requestStop (w.mu held): QueueManager.Stop runs on its own goroutine, as in WriteStorage.
func (w *c40World) requestStop() {
	if w.stopAsked {
		return
	}
	w.stopAsked = true
	w.stopReqs = append(w.stopReqs, w.clk())
	// What the watcher had not pushed through Append* when Stop was requested is read again
	// after a restart, which is outside this model.
	for i := 0; i < w.submitted; i++ {
		if !w.feed.BatchDone(w, i) {
			i := i
			w.exemptOutstanding("its batch had not been fully appended when Stop was requested", func(e *c40Exp) bool { return e.Batch == i })
		}
	}
	go func() {
		w.m.Stop()
		w.mu.Lock()
		w.stopped = true
		w.logf("stopped")
		w.mu.Unlock()
	}()
}

func (w *c40World) pendingString() string {
	var ps []string
	for _, p := range w.pending {
		ps = append(ps, fmt.Sprintf("#%d try=%d at=%d %s", p.ID, p.Try, p.At, c40DataString(p.Data)))
	}
	return strings.Join(ps, " | ")
}

// Key: everything the environment did and saw, with fake-clock times (this fixes the phase of
// every timer of the implementation up to what happened inside one event), plus the visible
// state of the shards and of the feeder.
func (w *c40World) Key() string {
	w.mu.Lock()
	defer w.mu.Unlock()
	return fmt.Sprintf("clk=%d %s %s sub=%d gc=%v stop=%v/%v log=%s pend=%s", w.clk(), w.implSummary(), w.feed.Progress(w), w.submitted, w.gcDone, w.stopAsked, w.stopped, strings.Join(w.eventLog, ";"), w.pendingString())
}

func (w *c40World) Obs() string {
	k := w.Key()
	w.mu.Lock()
	defer w.mu.Unlock()
	var ex []string
	for _, e := range w.order {
		if e.Exempt != "" {
			ex = append(ex, e.Key)
		}
	}
	f := ""
	if w.fail != nil {
		f = w.fail.Signature
	}
	return fmt.Sprintf("%s ingested=%v exempt=%v failures=%d fail=%s", k, w.ingestLog, ex, w.failures, f)
}

// drain is the closing phase: the endpoint answers everything OK at once, the clock advances
// until the feeder is idle, then the queue manager is stopped (which flushes).
func (w *c40World) drain() {
	w.mu.Lock()
	if len(w.gate) > 0 {
		w.logf("release")
		w.release()
		w.mu.Unlock()
		synctest.Wait()
		w.mu.Lock()
	}
	w.auto = true
	w.logf("drain")
	for len(w.pending) > 0 {
		w.answer(w.pending[0], c40AnsOK)
	}
	w.mu.Unlock()
	synctest.Wait()
	for i := 0; i < 40; i++ {
		w.mu.Lock()
		idle := w.feed.Idle(w) || w.stopAsked
		w.mu.Unlock()
		if idle {
			break
		}
		w.sleep(250 * time.Millisecond)
	}
	w.mu.Lock()
	w.requestStop()
	w.mu.Unlock()
	synctest.Wait()
	for i := 0; i < 40; i++ {
		w.mu.Lock()
		st := w.stopped
		w.mu.Unlock()
		if st {
			break
		}
		w.sleep(250 * time.Millisecond)
	}
}

func (w *c40World) Check() *vx.Fail {
	w.checked = true
	w.drain()
	w.mu.Lock()
	defer w.mu.Unlock()
	if !w.stopped {
		w.failf("stop-does-not-return", "QueueManager.Stop did not return within 10s of fake time although the endpoint answers OK at once; %s", w.implSummary())
	}
	if !w.feed.Idle(w) && !w.stopAsked {
		w.failf("append-never-finishes", "the watcher is still blocked in Append* after 10s with a healthy endpoint")
	}
	now := w.clk()
	var missing []string
	for _, e := range w.order {
		if e.Dropped || e.Ingested || e.Exempt != "" {
			continue
		}
		if w.cfg.Age && e.T < w.base+now-int64(c40AgeLimit/time.Millisecond) {
			continue // became older than the age limit during the run
		}
		missing = append(missing, e.Key)
	}
	if len(missing) > 0 {
		w.failf("sample-not-delivered", "written, kept, within the age limit, no unrecoverable answer, no flush deadline hit, yet never accepted by the endpoint: %v; accepted: %v; log: %v", missing, w.ingestLog, w.eventLog)
	}
	return w.fail
}

func (w *c40World) Close() {
	if w.closed {
		return
	}
	w.closed = true
	if !w.checked {
		w.drain()
	}
	w.mu.Lock()
	st := w.stopped
	w.mu.Unlock()
	if !st {
		// never leave goroutines behind: cancel whatever still hangs
		w.m.shards.hardShutdown()
		w.sleep(5 * time.Second)
	}
	w.feed.Close(w)
}

// stats for coverage accounting (after Check).
type c40Stats struct {
	Ingested, Exempt, Failures, Arrivals, MaxShards int
	Outcome                                         string
}

func (w *c40World) stats() c40Stats {
	w.mu.Lock()
	defer w.mu.Unlock()
	st := c40Stats{Failures: w.failures, Arrivals: w.nextID}
	var ex []string
	for _, e := range w.order {
		if e.Ingested {
			st.Ingested++
		}
		if e.Exempt != "" {
			if !strings.HasPrefix(e.Exempt, "older than") && !strings.HasPrefix(e.Exempt, "within the age limit only") {
				st.Exempt++
			}
			ex = append(ex, e.Exempt)
		}
	}
	sort.Strings(ex)
	st.Outcome = fmt.Sprintf("ingested=%v exempt=%v", w.ingestLog, ex)
	return st
}
