package remote

// C41: remote-write receivers store exactly what they report as written (protocol 1.0 and 2.0),
// and the write codecs round-trip every field, including the 2.0 symbol table.
//
// Bounded-exhaustive enumeration (engine E1): every request of <= 2 series taken from a list of
// series shapes (label set x samples/histograms with timestamps from {1,2} in every order incl.
// duplicates x exemplars x metadata x start timestamps, plus malformed 2.0 symbol references),
// for both protocols, two initial storage states and three handler configurations, is sent through
// remote.NewWriteHandler (HTTP, snappy) into a fresh real tsdb.Head. Afterwards everything stored
// is read back through a Querier / ExemplarQuerier and compared, together with the status code and
// the X-Prometheus-Remote-Write-*-Written headers, with the rules of the remote-write
// specifications (see c41Judge).

import (
	"bytes"
	"context"
	"fmt"
	"math"
	"net/http"
	"net/http/httptest"
	"os"
	"sort"
	"strconv"
	"strings"
	"sync/atomic"
	"testing"

	"github.com/gogo/protobuf/proto"
	"github.com/golang/snappy"
	"github.com/prometheus/common/model"
	"github.com/prometheus/common/promslog"

	remoteapi "github.com/prometheus/client_golang/exp/api/remote"

	"github.com/prometheus/prometheus/internal/verif/vx"
	"github.com/prometheus/prometheus/model/histogram"
	"github.com/prometheus/prometheus/model/labels"
	"github.com/prometheus/prometheus/model/metadata"
	"github.com/prometheus/prometheus/prompb"
	writev2 "github.com/prometheus/prometheus/prompb/io/prometheus/write/v2"
	"github.com/prometheus/prometheus/tsdb"
	"github.com/prometheus/prometheus/tsdb/chunkenc"
	"github.com/prometheus/prometheus/tsdb/tsdbutil"
)

// ---- neutral request description --------------------------------------------------------------

type c41Sample struct {
	T, ST int64
	V     float64
}

type c41Hist struct {
	T, ST int64
	H     *histogram.Histogram
	FH    *histogram.FloatHistogram
	Bad   bool // fails histogram validation
}

type c41Ex struct {
	T int64
	V float64
	L labels.Labels
}

type c41Series struct {
	Shape   string
	Pairs   [][2]string // label name/value pairs exactly as sent (may be unsorted, duplicated, invalid)
	Samples []c41Sample
	Hists   []c41Hist
	Ex      []c41Ex
	Meta    metadata.Metadata
	// 2.0 only malformations
	OddRefs, BadLabelRef, BadExRef, BadMetaRef bool
}

type c41Case struct {
	Proto  string   `json:"proto"`  // v1 | v2
	State  string   `json:"state"`  // empty | a1 (series A holds t=1 v=100)
	Cfg    string   `json:"cfg"`    // plain | stmeta | typeunit
	Shapes []string `json:"shapes"` // series shapes in request order
}

var c41LabelSets = map[string][][2]string{
	"A":        {{"__name__", "m"}, {"a", "1"}},
	"B":        {{"__name__", "m"}, {"a", "2"}},
	"noname":   {{"a", "1"}},
	"empty":    {},
	"duplabel": {{"__name__", "m"}, {"a", "1"}, {"a", "2"}},
	"badutf8":  {{"__name__", "m"}, {"a", "\xff"}},
	"emptyval": {{"__name__", "m"}, {"a", ""}},
	"unsorted": {{"a", "1"}, {"__name__", "m"}},
}

// c41IntHist / c41FloatHist: asymmetric histograms (every field differs between the positive and the
// negative side, so that a codec mixing them up is noticed); counts are consistent.
func c41IntHist(i int64) *histogram.Histogram {
	h := tsdbutil.GenerateTestHistogram(i)
	h.NegativeSpans = []histogram.Span{{Offset: 2, Length: 1}, {Offset: 3, Length: 2}}
	h.NegativeBuckets = []int64{i + 2, 1, 1} // absolute: i+2, i+3, i+4
	h.PositiveBuckets = []int64{i + 1, 1, -1, 0}
	h.ZeroCount = uint64(i) + 3
	h.Count = h.ZeroCount + uint64(4*i+5) + uint64(3*i+9)
	h.CounterResetHint = histogram.GaugeType
	return h
}

func c41FloatHist(i int64) *histogram.FloatHistogram {
	return c41IntHist(i).ToFloat(nil)
}

// c41BuildSeries decodes a shape name "labelset:content:exemplars:meta[:st]".
func c41BuildSeries(shape string, pos int) c41Series {
	p := strings.Split(shape, ":")
	s := c41Series{Shape: shape}
	switch p[0] {
	case "oddrefs":
		s.Pairs, s.OddRefs = c41LabelSets["A"], true
	case "badref":
		s.Pairs, s.BadLabelRef = c41LabelSets["A"], true
	default:
		ls, ok := c41LabelSets[p[0]]
		if !ok {
			panic("bad label set in shape " + shape)
		}
		s.Pairs = ls
	}
	st := int64(0)
	if len(p) > 4 && p[4] == "st" {
		st = -5
	}
	val := func(k int) float64 { return float64(10*(pos+1) + k) } // distinct per position in the request
	// content: f<ts...> floats, h/fh/hc/hbad<ts...> histograms, "+" joins, "=" after a float list repeats the value
	if p[1] != "none" {
		for _, part := range strings.Split(p[1], "+") {
			kind := strings.TrimRight(part, "0123456789=")
			tss := strings.TrimSuffix(part[len(kind):], "=")
			same := strings.HasSuffix(part, "=")
			for k, c := range tss {
				t := int64(c - '0')
				switch kind {
				case "f":
					v := val(k)
					if same {
						v = val(0)
					}
					s.Samples = append(s.Samples, c41Sample{T: t, ST: st, V: v})
				case "h":
					s.Hists = append(s.Hists, c41Hist{T: t, ST: st, H: c41IntHist(int64(10*(pos+1) + k))})
				case "fh":
					s.Hists = append(s.Hists, c41Hist{T: t, ST: st, FH: c41FloatHist(int64(10*(pos+1) + k))})
				case "fhz": // float histogram with an empty zero bucket
					fh := c41FloatHist(int64(10*(pos+1) + k))
					fh.Count -= fh.ZeroCount
					fh.ZeroCount = 0
					s.Hists = append(s.Hists, c41Hist{T: t, ST: st, FH: fh})
				case "hc":
					s.Hists = append(s.Hists, c41Hist{T: t, ST: st, H: tsdbutil.GenerateTestCustomBucketsHistogram(int64(10*(pos+1) + k))})
				case "hbad":
					h := c41IntHist(int64(10*(pos+1) + k))
					h.Count = 1 // fewer observations than the buckets hold
					s.Hists = append(s.Hists, c41Hist{T: t, ST: st, H: h, Bad: true})
				default:
					panic("bad content in shape " + shape)
				}
			}
		}
	}
	ex := func(t int64, k int) c41Ex {
		return c41Ex{T: t, V: val(k) + 0.5, L: labels.FromStrings("trace", fmt.Sprintf("%d-%d", pos, k))}
	}
	switch p[2] {
	case "e0":
	case "e1":
		s.Ex = []c41Ex{ex(1, 0)}
	case "e21":
		s.Ex = []c41Ex{ex(2, 0), ex(1, 1)}
	case "e12":
		s.Ex = []c41Ex{ex(1, 0), ex(2, 1)}
	case "edup":
		s.Ex = []c41Ex{ex(1, 0), ex(1, 0)}
	case "ebadref":
		s.Ex, s.BadExRef = []c41Ex{ex(1, 0)}, true
	default:
		panic("bad exemplars in shape " + shape)
	}
	s.Meta = metadata.Metadata{Type: model.MetricTypeUnknown}
	switch p[3] {
	case "m0":
	case "m1":
		s.Meta = metadata.Metadata{Type: model.MetricTypeCounter, Unit: "seconds", Help: "some help"}
	case "mbadref":
		s.Meta, s.BadMetaRef = metadata.Metadata{Type: model.MetricTypeGauge, Unit: "u", Help: "h"}, true
	default:
		panic("bad metadata in shape " + shape)
	}
	return s
}

func c41Shapes() []string {
	var out []string
	for _, c := range []string{"f1", "f2", "f12", "f21", "f11", "f11=", "f22", "none", "h1", "fh1", "fhz1", "hc1", "h12", "h21", "h11", "h1+fh2", "hbad1", "f1+h2", "h1+f2", "f2+h1"} {
		out = append(out, "A:"+c+":e0:m0")
	}
	out = append(out,
		"A:f12:e1:m0", "A:f12:e21:m0", "A:f12:e12:m1", "A:f12:edup:m0", "A:h1:e1:m1", "A:none:e1:m0", "A:f1:e0:m1",
		"A:f12:e0:m0:st", "A:h12:e0:m0:st", "A:f1:e1:m1:st",
		"B:f1:e0:m0", "B:f12:e0:m0", "B:h1:e0:m0",
		"emptyval:f1:e0:m0", "unsorted:f1:e0:m0",
	)
	for _, ls := range []string{"noname", "empty", "duplabel", "badutf8"} {
		for _, c := range []string{"f1", "f12", "h1", "none"} {
			out = append(out, ls+":"+c+":e0:m0")
		}
	}
	// 2.0 symbol table malformations (harmless variants of A in 1.0, which has no symbols)
	out = append(out, "oddrefs:f1:e0:m0", "badref:f1:e0:m0", "A:f1:ebadref:m0", "A:f1:e0:mbadref")
	return out
}

// c41PairSubset: second-series shapes used for pairs in the quick tier.
var c41PairSubset = []string{
	"A:f1:e0:m0", "A:f2:e0:m0", "A:f12:e0:m0", "A:f21:e0:m0", "A:h1:e0:m0", "A:none:e0:m0", "A:hbad1:e0:m0", "A:f12:e21:m0",
	"B:f1:e0:m0", "B:f12:e0:m0", "noname:f1:e0:m0", "duplabel:f12:e0:m0", "badutf8:h1:e0:m0", "badref:f1:e0:m0", "A:f1:e0:mbadref",
}

// ---- encoding ---------------------------------------------------------------------------------

func c41EncodeV1(series []c41Series) []byte {
	req := &prompb.WriteRequest{}
	for _, s := range series {
		ts := prompb.TimeSeries{}
		for _, p := range s.Pairs {
			ts.Labels = append(ts.Labels, prompb.Label{Name: p[0], Value: p[1]})
		}
		for _, x := range s.Samples {
			ts.Samples = append(ts.Samples, prompb.Sample{Timestamp: x.T, Value: x.V})
		}
		for _, h := range s.Hists {
			if h.FH != nil {
				ts.Histograms = append(ts.Histograms, prompb.FromFloatHistogram(h.T, h.FH))
			} else {
				ts.Histograms = append(ts.Histograms, prompb.FromIntHistogram(h.T, h.H))
			}
		}
		for _, e := range s.Ex {
			ts.Exemplars = append(ts.Exemplars, prompb.Exemplar{Labels: prompb.FromLabels(e.L, nil), Value: e.V, Timestamp: e.T})
		}
		req.Timeseries = append(req.Timeseries, ts)
	}
	b, err := proto.Marshal(req)
	if err != nil {
		panic(err)
	}
	return b
}

func c41EncodeV2(series []c41Series) ([]byte, *writev2.Request) {
	st := writev2.NewSymbolTable()
	req := &writev2.Request{}
	const outside = 1 << 20
	for _, s := range series {
		ts := writev2.TimeSeries{}
		for _, p := range s.Pairs {
			ts.LabelsRefs = append(ts.LabelsRefs, st.Symbolize(p[0]), st.Symbolize(p[1]))
		}
		if s.OddRefs {
			ts.LabelsRefs = ts.LabelsRefs[:len(ts.LabelsRefs)-1]
		}
		if s.BadLabelRef {
			ts.LabelsRefs[len(ts.LabelsRefs)-1] = outside
		}
		for _, x := range s.Samples {
			ts.Samples = append(ts.Samples, writev2.Sample{Timestamp: x.T, Value: x.V, StartTimestamp: x.ST})
		}
		for _, h := range s.Hists {
			if h.FH != nil {
				ts.Histograms = append(ts.Histograms, writev2.FromFloatHistogram(h.ST, h.T, h.FH))
			} else {
				ts.Histograms = append(ts.Histograms, writev2.FromIntHistogram(h.ST, h.T, h.H))
			}
		}
		for _, e := range s.Ex {
			x := writev2.Exemplar{LabelsRefs: st.SymbolizeLabels(e.L, nil), Value: e.V, Timestamp: e.T}
			if s.BadExRef {
				x.LabelsRefs[0] = outside
			}
			ts.Exemplars = append(ts.Exemplars, x)
		}
		ts.Metadata = writev2.Metadata{Type: writev2.FromMetadataType(s.Meta.Type), HelpRef: st.Symbolize(s.Meta.Help), UnitRef: st.Symbolize(s.Meta.Unit)}
		if s.BadMetaRef {
			ts.Metadata.HelpRef = outside
		}
		req.Timeseries = append(req.Timeseries, ts)
	}
	req.Symbols = st.Symbols()
	// malformed references point exactly one past the end of the symbol table
	for i := range req.Timeseries {
		ts := &req.Timeseries[i]
		for k, ref := range ts.LabelsRefs {
			if ref == outside {
				ts.LabelsRefs[k] = uint32(len(req.Symbols))
			}
		}
		for e := range ts.Exemplars {
			for k, ref := range ts.Exemplars[e].LabelsRefs {
				if ref == outside {
					ts.Exemplars[e].LabelsRefs[k] = uint32(len(req.Symbols))
				}
			}
		}
		if ts.Metadata.HelpRef == outside {
			ts.Metadata.HelpRef = uint32(len(req.Symbols))
		}
	}
	b, err := proto.Marshal(req)
	if err != nil {
		panic(err)
	}
	return b, req
}

// ---- codec round trip ---------------------------------------------------------------------------

// c41HistStr renders a histogram without its counter-reset hint (the head recomputes the hint
// when reading chunks back; hint handling is C12's subject). c41HistHint adds it for the codecs.
func c41HistStr(h *histogram.Histogram, fh *histogram.FloatHistogram) string {
	if fh != nil {
		return fmt.Sprintf("fh|%s|%v", fh.String(), fh.CustomValues)
	}
	return fmt.Sprintf("h|%s|%v", h.String(), h.CustomValues)
}

func c41HistHint(h *histogram.Histogram, fh *histogram.FloatHistogram) string {
	if fh != nil {
		return fmt.Sprintf("%d|%s", fh.CounterResetHint, c41HistStr(nil, fh))
	}
	return fmt.Sprintf("%d|%s", h.CounterResetHint, c41HistStr(h, nil))
}

// c41RoundTrip encodes the request like a sender, decodes it like a receiver (both through the
// repository's codec functions) and compares every field with the neutral description.
func c41RoundTrip(r *vx.Run, c c41Case, series []c41Series) {
	fail := func(what, msg string) {
		r.Violation("codec-roundtrip/"+c.Proto+"/"+what, fmt.Sprintf("case %v: %s", c, msg), c)
	}
	wantLabels := func(s c41Series) string {
		b := labels.NewScratchBuilder(0)
		for _, p := range s.Pairs {
			b.Add(p[0], p[1])
		}
		b.Sort()
		return b.Labels().String()
	}
	sb := labels.NewScratchBuilder(0)
	if c.Proto == "v1" {
		compressed := snappy.Encode(nil, c41EncodeV1(series))
		req, err := DecodeWriteRequest(bytes.NewReader(compressed))
		if err != nil {
			fail("decode-error", err.Error())
			return
		}
		if len(req.Timeseries) != len(series) {
			fail("series-count", fmt.Sprintf("%d != %d", len(req.Timeseries), len(series)))
			return
		}
		for i, ts := range req.Timeseries {
			s := series[i]
			if got := ts.ToLabels(&sb, nil).String(); got != wantLabels(s) {
				fail("labels", fmt.Sprintf("series %d: %s != %s", i, got, wantLabels(s)))
			}
			if len(ts.Samples) != len(s.Samples) || len(ts.Histograms) != len(s.Hists) || len(ts.Exemplars) != len(s.Ex) {
				fail("item-count", fmt.Sprintf("series %d", i))
				continue
			}
			for k, x := range ts.Samples {
				if x.Timestamp != s.Samples[k].T || math.Float64bits(x.Value) != math.Float64bits(s.Samples[k].V) {
					fail("sample", fmt.Sprintf("series %d sample %d: %v", i, k, x))
				}
			}
			for k, h := range ts.Histograms {
				w := s.Hists[k]
				got := ""
				if h.IsFloatHistogram() {
					got = c41HistHint(nil, h.ToFloatHistogram())
				} else {
					got = c41HistHint(h.ToIntHistogram(), nil)
				}
				if h.Timestamp != w.T || got != c41HistHint(w.H, w.FH) || h.IsFloatHistogram() != (w.FH != nil) {
					fail("histogram", fmt.Sprintf("series %d histogram %d: %s != %s", i, k, got, c41HistHint(w.H, w.FH)))
				}
			}
			for k, e := range ts.Exemplars {
				g := e.ToExemplar(&sb, nil)
				if g.Ts != s.Ex[k].T || g.Value != s.Ex[k].V || !labels.Equal(g.Labels, s.Ex[k].L) {
					fail("exemplar", fmt.Sprintf("series %d exemplar %d: %+v", i, k, g))
				}
			}
		}
		return
	}
	raw, sent := c41EncodeV2(series)
	if len(sent.Symbols) == 0 || sent.Symbols[0] != "" {
		fail("symbols-first-not-empty", fmt.Sprint(sent.Symbols))
	}
	seen := map[string]bool{}
	for _, sym := range sent.Symbols {
		if seen[sym] {
			fail("symbols-not-deduplicated", fmt.Sprint(sent.Symbols))
		}
		seen[sym] = true
	}
	req, err := DecodeWriteV2Request(bytes.NewReader(snappy.Encode(nil, raw)))
	if err != nil {
		fail("decode-error", err.Error())
		return
	}
	if len(req.Timeseries) != len(series) {
		fail("series-count", fmt.Sprintf("%d != %d", len(req.Timeseries), len(series)))
		return
	}
	for i, ts := range req.Timeseries {
		s := series[i]
		got, err := ts.ToLabels(&sb, req.Symbols)
		if s.OddRefs || s.BadLabelRef {
			if err == nil {
				fail("malformed-label-refs-accepted", fmt.Sprintf("series %d: %v decoded to %s", i, ts.LabelsRefs, got))
			}
		} else if err != nil || got.String() != wantLabels(s) {
			fail("labels", fmt.Sprintf("series %d: %v / %v != %s", i, got, err, wantLabels(s)))
		}
		m, err := ts.ToMetadata(req.Symbols)
		if s.BadMetaRef {
			if err == nil {
				fail("malformed-metadata-ref-accepted", fmt.Sprintf("series %d", i))
			}
		} else if err != nil || m != s.Meta {
			fail("metadata", fmt.Sprintf("series %d: %+v / %v != %+v", i, m, err, s.Meta))
		}
		if len(ts.Samples) != len(s.Samples) || len(ts.Histograms) != len(s.Hists) || len(ts.Exemplars) != len(s.Ex) {
			fail("item-count", fmt.Sprintf("series %d", i))
			continue
		}
		for k, x := range ts.Samples {
			w := s.Samples[k]
			if x.Timestamp != w.T || x.StartTimestamp != w.ST || math.Float64bits(x.Value) != math.Float64bits(w.V) {
				fail("sample", fmt.Sprintf("series %d sample %d: %v", i, k, x))
			}
		}
		for k, h := range ts.Histograms {
			w := s.Hists[k]
			g := ""
			if h.IsFloatHistogram() {
				g = c41HistHint(nil, h.ToFloatHistogram())
			} else {
				g = c41HistHint(h.ToIntHistogram(), nil)
			}
			if h.Timestamp != w.T || h.StartTimestamp != w.ST || g != c41HistHint(w.H, w.FH) || h.IsFloatHistogram() != (w.FH != nil) {
				fail("histogram", fmt.Sprintf("series %d histogram %d: %s != %s", i, k, g, c41HistHint(w.H, w.FH)))
			}
		}
		for k, e := range ts.Exemplars {
			g, err := e.ToExemplar(&sb, req.Symbols)
			if s.BadExRef {
				if err == nil {
					fail("malformed-exemplar-ref-accepted", fmt.Sprintf("series %d", i))
				}
				continue
			}
			if err != nil || g.Ts != s.Ex[k].T || g.Value != s.Ex[k].V || !labels.Equal(g.Labels, s.Ex[k].L) {
				fail("exemplar", fmt.Sprintf("series %d exemplar %d: %+v / %v", i, k, g, err))
			}
		}
	}
}

// ---- real receiver --------------------------------------------------------------------------------

type c41Stored struct {
	Samples   map[string][]string // label set -> "t=value" (floats "f:", histograms "h|..."), in time order
	Exemplars map[string][]string
}

func c41NewHead(dir string) *tsdb.Head {
	o := tsdb.DefaultHeadOptions()
	o.ChunkRange = 1000
	o.ChunkDirRoot = dir
	o.StripeSize = 4
	o.ChunkWriteQueueSize = 0
	o.EnableExemplarStorage = true
	o.MaxExemplars.Store(32)
	h, err := tsdb.NewHead(nil, promslog.NewNopLogger(), nil, nil, o, nil)
	if err != nil {
		panic(err)
	}
	if err := h.Init(math.MinInt64); err != nil {
		panic(err)
	}
	return h
}

func c41ReadAll(h *tsdb.Head) c41Stored {
	out := c41Stored{Samples: map[string][]string{}, Exemplars: map[string][]string{}}
	q, err := tsdb.NewBlockQuerier(tsdb.NewRangeHead(h, math.MinInt64, math.MaxInt64), math.MinInt64, math.MaxInt64)
	if err != nil {
		panic(err)
	}
	defer q.Close()
	ss := q.Select(context.Background(), true, nil, labels.MustNewMatcher(labels.MatchRegexp, "__name__", ".*"))
	for ss.Next() {
		s := ss.At()
		k := s.Labels().String()
		it := s.Iterator(nil)
		for vt := it.Next(); vt != chunkenc.ValNone; vt = it.Next() {
			switch vt {
			case chunkenc.ValFloat:
				t, v := it.At()
				out.Samples[k] = append(out.Samples[k], fmt.Sprintf("%d=f:%g", t, v))
			case chunkenc.ValHistogram:
				t, hh := it.AtHistogram(nil)
				out.Samples[k] = append(out.Samples[k], fmt.Sprintf("%d=%s", t, c41HistStr(hh, nil)))
			case chunkenc.ValFloatHistogram:
				t, hh := it.AtFloatHistogram(nil)
				out.Samples[k] = append(out.Samples[k], fmt.Sprintf("%d=%s", t, c41HistStr(nil, hh)))
			}
		}
		if it.Err() != nil {
			panic(it.Err())
		}
	}
	if ss.Err() != nil {
		panic(ss.Err())
	}
	eq, err := h.ExemplarQuerier(context.Background())
	if err != nil {
		panic(err)
	}
	res, err := eq.Select(math.MinInt64, math.MaxInt64, []*labels.Matcher{labels.MustNewMatcher(labels.MatchRegexp, "__name__", ".*")})
	if err != nil {
		panic(err)
	}
	for _, r := range res {
		for _, e := range r.Exemplars {
			out.Exemplars[r.SeriesLabels.String()] = append(out.Exemplars[r.SeriesLabels.String()], fmt.Sprintf("%d=%g%s", e.Ts, e.Value, e.Labels.String()))
		}
	}
	return out
}

type c41Obs struct {
	Status  int
	Body    string
	Headers [3]string // samples, histograms, exemplars written ("" = header absent)
	Before  c41Stored
	After   c41Stored
}

func c41Run(c c41Case, series []c41Series) c41Obs {
	dir, err := os.MkdirTemp("", "c41")
	if err != nil {
		panic(err)
	}
	defer os.RemoveAll(dir)
	h := c41NewHead(dir)
	defer h.Close()
	if c.State == "a1" {
		app := h.Appender(context.Background())
		if _, err := app.Append(0, labels.FromStrings("__name__", "m", "a", "1"), 1, 100); err != nil {
			panic(err)
		}
		if err := app.Commit(); err != nil {
			panic(err)
		}
	}
	var o c41Obs
	o.Before = c41ReadAll(h)
	ingestST, typeUnit, appendMeta := false, false, false
	switch c.Cfg {
	case "stmeta":
		ingestST, appendMeta = true, true
	case "typeunit":
		typeUnit = true
	}
	handler := NewWriteHandler(promslog.NewNopLogger(), nil, h, remoteapi.MessageTypes{remoteapi.WriteV1MessageType, remoteapi.WriteV2MessageType}, ingestST, typeUnit, appendMeta)
	var raw []byte
	ct := "application/x-protobuf"
	if c.Proto == "v1" {
		raw = c41EncodeV1(series)
	} else {
		raw, _ = c41EncodeV2(series)
		ct = "application/x-protobuf;proto=io.prometheus.write.v2.Request"
	}
	req := httptest.NewRequest(http.MethodPost, "/api/v1/write", bytes.NewReader(snappy.Encode(nil, raw)))
	req.Header.Set("Content-Type", ct)
	req.Header.Set("Content-Encoding", "snappy")
	if c.Proto == "v2" {
		req.Header.Set("X-Prometheus-Remote-Write-Version", "2.0.0")
	} else {
		req.Header.Set("X-Prometheus-Remote-Write-Version", "0.1.0")
	}
	rec := httptest.NewRecorder()
	handler.ServeHTTP(rec, req)
	o.Status = rec.Code
	o.Body = strings.TrimSpace(rec.Body.String())
	o.Headers = [3]string{rec.Header().Get("X-Prometheus-Remote-Write-Samples-Written"), rec.Header().Get("X-Prometheus-Remote-Write-Histograms-Written"), rec.Header().Get("X-Prometheus-Remote-Write-Exemplars-Written")}
	o.After = c41ReadAll(h)
	return o
}

// ---- reference ----------------------------------------------------------------------------------

// c41Ref is what the specifications say about one request, computed from the neutral description.
type c41RefSeries struct {
	Valid  bool   // label set acceptable and (2.0) at least one sample or histogram
	Why    string // reason when invalid
	Labels string // canonical stored label set
	Alt    string // second acceptable stored label set ("" if none)
}

func c41JudgeLabels(c c41Case, s c41Series) c41RefSeries {
	if c.Proto == "v2" && (s.OddRefs || s.BadLabelRef) {
		return c41RefSeries{Why: "label refs malformed"}
	}
	if c.Proto == "v2" && s.BadMetaRef {
		return c41RefSeries{Why: "metadata ref outside the symbol table"}
	}
	names := map[string]bool{}
	hasName := false
	b := labels.NewScratchBuilder(0)
	for _, p := range s.Pairs {
		if names[p[0]] {
			return c41RefSeries{Why: "duplicate label name"}
		}
		names[p[0]] = true
		if p[0] == "" || !model.LabelName(p[0]).IsValid() || !model.LabelValue(p[1]).IsValid() {
			return c41RefSeries{Why: "invalid label name or value"}
		}
		if p[0] == "__name__" && p[1] != "" {
			hasName = true
		}
		if p[1] != "" { // an empty label value is the same as an absent label
			b.Add(p[0], p[1])
		}
	}
	if !hasName {
		return c41RefSeries{Why: "no metric name"}
	}
	if c.Proto == "v2" && len(s.Samples) == 0 && len(s.Hists) == 0 {
		return c41RefSeries{Why: "neither samples nor histograms"}
	}
	b.Sort()
	out := c41RefSeries{Valid: true, Labels: b.Labels().String()}
	if c.Cfg == "typeunit" && c.Proto == "v2" && (s.Meta.Type != model.MetricTypeUnknown || s.Meta.Unit != "") {
		lb := labels.NewBuilder(b.Labels())
		if s.Meta.Type != model.MetricTypeUnknown {
			lb.Set("__type__", string(s.Meta.Type))
		}
		if s.Meta.Unit != "" {
			lb.Set("__unit__", s.Meta.Unit)
		}
		out.Labels = lb.Labels().String()
	}
	return out
}

func c41Count(list []string, item string) int {
	n := 0
	for _, x := range list {
		if x == item {
			n++
		}
	}
	return n
}

// c41Judge compares the observation with the specification rules. Signatures name the rule.
func c41Judge(report func(sig, msg string), c c41Case, series []c41Series, o c41Obs) (outcome string) {
	viol := func(sig, format string, a ...any) {
		report(c.Proto+"-"+sig, fmt.Sprintf("case %+v: ", c)+fmt.Sprintf(format, a...)+fmt.Sprintf(" [status %d %q, written headers %v, stored before %v after %v]", o.Status, o.Body, o.Headers, o.Before, o.After))
	}
	// Index the request: per stored label set, the items a receiver may have stored from it.
	type item struct {
		key   string // "t=value"
		kind  int    // 0 sample 1 histogram 2 exemplar
		newer bool   // strictly newer than everything sent before for that label set (and than the initial state)
		intra bool   // not newer than an EARLIER ITEM OF THE SAME REQUEST for that label set
	}
	reqItems := map[string][]item{}
	lastT := map[string]int64{}
	lastExT := map[string]int64{}
	lastReqT := map[string]int64{}
	lastReqExT := map[string]int64{}
	for k, v := range o.Before.Samples {
		for _, s := range v {
			t, _ := strconv.ParseInt(s[:strings.Index(s, "=")], 10, 64)
			lastT[k] = t
		}
	}
	anyInvalid := false
	totals := [3]int{}
	var refs []c41RefSeries
	for _, s := range series {
		ref := c41JudgeLabels(c, s)
		refs = append(refs, ref)
		if !ref.Valid {
			anyInvalid = true
			continue
		}
		k := ref.Labels
		add := func(t int64, key string, kind int) {
			lt, seen := lastT[k]
			newer := !seen || t > lt
			if newer {
				lastT[k] = t
			}
			rt, rseen := lastReqT[k]
			intra := rseen && t <= rt
			if !rseen || t > rt {
				lastReqT[k] = t
			}
			reqItems[k] = append(reqItems[k], item{key, kind, newer, intra})
		}
		for _, x := range s.Samples {
			totals[0]++
			add(x.T, fmt.Sprintf("%d=f:%g", x.T, x.V), 0)
		}
		for _, h := range s.Hists {
			totals[1]++
			if h.Bad {
				anyInvalid = true
				reqItems[k] = append(reqItems[k], item{fmt.Sprintf("%d=%s", h.T, c41HistStr(h.H, h.FH)), 1, false, false})
				continue
			}
			add(h.T, fmt.Sprintf("%d=%s", h.T, c41HistStr(h.H, h.FH)), 1)
		}
		for _, e := range s.Ex {
			totals[2]++
			if c.Proto == "v2" && s.BadExRef {
				anyInvalid = true
				continue
			}
			lt, seen := lastExT[k]
			newer := !seen || e.T > lt
			if newer {
				lastExT[k] = e.T
			}
			rt, rseen := lastReqExT[k]
			intra := rseen && e.T <= rt
			if !rseen || e.T > rt {
				lastReqExT[k] = e.T
			}
			reqItems[k] = append(reqItems[k], item{fmt.Sprintf("%d=%g%s", e.T, e.V, e.L.String()), 2, newer, intra})
		}
	}

	// R1/R2: everything stored now was there before or is an item of a valid series of the request.
	storedNew := [3]int{} // request items found in storage that were not there before (distinct)
	idempotent := [3]int{}
	check := func(after, before map[string][]string, isEx bool) bool {
		for k, list := range after {
			seen := map[string]bool{}
			for _, x := range list {
				if c41Count(before[k], x) >= c41Count(list, x) {
					continue
				}
				if seen[x] {
					viol("stored-twice", "label set %s holds %s more than once", k, x)
					return false
				}
				seen[x] = true
				found := false
				for _, it := range reqItems[k] {
					if it.key == x && (it.kind == 2) == isEx {
						found = true
						storedNew[it.kind]++
						break
					}
				}
				if !found {
					// synthetic zero sample at the start timestamp (feature flag) is the one allowed addition
					if c.Cfg == "stmeta" && !isEx && (strings.HasPrefix(x, "-5=f:0") || strings.HasPrefix(x, "-5=h|") || strings.HasPrefix(x, "-5=fh|")) {
						continue
					}
					sig := "stored-data-not-in-request"
					for _, ref := range refs {
						if !ref.Valid {
							sig = "stored-data-not-in-request-or-of-invalid-series"
						}
					}
					viol(sig, "label set %s holds %s which no valid series of the request carries", k, x)
					return false
				}
			}
		}
		return true
	}
	if !check(o.After.Samples, o.Before.Samples, false) || !check(o.After.Exemplars, o.Before.Exemplars, true) {
		return "violation"
	}
	// nothing of the initial state may disappear
	for k, list := range o.Before.Samples {
		for _, x := range list {
			if c41Count(o.After.Samples[k], x) == 0 {
				viol("existing-data-lost", "label set %s lost %s", k, x)
				return "violation"
			}
		}
	}
	// request items equal to something already stored (same time, same value): writing them again changes nothing
	for k, its := range reqItems {
		for _, it := range its {
			before := o.Before.Samples[k]
			if it.kind == 2 {
				before = o.Before.Exemplars[k]
			}
			if c41Count(before, it.key) > 0 {
				idempotent[it.kind]++
			}
		}
	}
	// identical items sent twice in one request are stored once
	dupInReq := [3]int{}
	for _, its := range reqItems {
		seen := map[string]bool{}
		for _, it := range its {
			if seen[it.key] {
				dupInReq[it.kind]++
			}
			seen[it.key] = true
		}
	}
	// must-store: strictly newer items of valid series, unless the whole request failed with 5xx
	notStored := 0
	notStoredIntra := [3]int{} // of those: out of order / duplicate only with respect to the same request
	notStoredOther := 0
	mustMissing := ""
	for k, its := range reqItems {
		for _, it := range its {
			list := o.After.Samples[k]
			if it.kind == 2 {
				list = o.After.Exemplars[k]
				if c.Proto == "v1" {
					continue // 1.0 has no exemplars; the receiver ingests them best effort
				}
			}
			if c41Count(list, it.key) == 0 {
				notStored++
				if it.intra {
					notStoredIntra[it.kind]++
				} else {
					notStoredOther++
				}
				if it.newer && it.kind != 2 && mustMissing == "" {
					mustMissing = k + " " + it.key
				}
			}
		}
	}
	const intraSig = "/intra-request-out-of-order-or-duplicate"
	success := o.Status/100 == 2
	switch {
	case o.Status/100 == 5:
		if storedNew != [3]int{} {
			viol("server-error-but-data-stored", "5xx answers must leave nothing behind (senders retry them)")
			return "violation"
		}
		if !anyInvalid && notStored == 0 {
			viol("server-error-for-valid-request", "a fully valid request was answered with %d", o.Status)
			return "violation"
		}
		// a 5xx for a request with invalid parts: the specifications ask for 400 (not retryable)
		viol("server-error-for-invalid-data", "invalid or out-of-order data must be answered with 400, not with a retryable %d", o.Status)
		return "violation"
	case success:
		if anyInvalid {
			viol("success-status-with-invalid-series", "the request carries invalid series/histograms/references (%v) but was answered with %d", refs, o.Status)
			return "violation"
		}
		if notStored > 0 && notStoredOther == 0 {
			// precondition of the known finding: everything missing is out of order / duplicate
			// relative to an earlier item of the SAME request (the head only notices at commit)
			viol("success-status-but-data-not-stored"+intraSig, "%d item(s) of the request that are not newer than an earlier item of the same request for their series were dropped, but the answer is %d", notStored, o.Status)
		} else if notStored > 0 {
			viol("success-status-but-data-not-stored", "%d item(s) of the request are not in storage but the answer is %d (first strictly newer one missing: %q)", notStored, o.Status, mustMissing)
			return "violation"
		}
	case o.Status == 400:
		if !anyInvalid && notStored == 0 && totals != [3]int{} {
			viol("bad-request-for-valid-request", "everything was valid and is stored, yet the answer is 400")
			return "violation"
		}
		if c.Proto == "v2" && mustMissing != "" {
			// 2.0 partial writes: the valid rest must be written
			viol("valid-sample-not-stored", "%s is strictly newer than everything before it for its series, yet it was not stored", mustMissing)
			return "violation"
		}
	default:
		viol("unexpected-status", "status %d", o.Status)
		return "violation"
	}
	// R3: written counts (2.0 only; 1.0 answers carry no counts)
	if c.Proto == "v2" {
		names := [3]string{"samples", "histograms", "exemplars"}
		for i := 0; i < 3; i++ {
			if o.Headers[i] == "" {
				viol("written-header-missing/"+names[i], "2.0 answers must carry the X-Prometheus-Remote-Write-*-Written headers")
				return "violation"
			}
			n, err := strconv.Atoi(o.Headers[i])
			if err != nil {
				viol("written-header-unparsable/"+names[i], "%q", o.Headers[i])
				return "violation"
			}
			// stored (distinct new items); items identical to already stored ones may be counted or not
			lo, hi := storedNew[i], storedNew[i]+idempotent[i]+dupInReq[i]
			if n > hi && n <= hi+notStoredIntra[i] {
				viol("written-count-differs-from-stored"+intraSig, "reported %d %s written, storage gained %d: %d item(s) that are not newer than an earlier item of the same request were counted but dropped at commit", n, names[i], storedNew[i], notStoredIntra[i])
			} else if n < lo || n > hi {
				viol("written-count-differs-from-stored/"+names[i], "reported %d %s written, storage gained %d (identical re-sends that change nothing: %d)", n, names[i], storedNew[i], idempotent[i]+dupInReq[i])
				return "violation"
			}
		}
	} else if o.Headers != [3]string{} {
		viol("written-headers-on-v1", "1.0 answers must not claim written counts: %v", o.Headers)
		return "violation"
	}
	return fmt.Sprintf("%d/new%v/inv%v/miss%d", o.Status, storedNew, anyInvalid, notStored)
}

// ---- driver ---------------------------------------------------------------------------------------

func c41Series2(c c41Case) []c41Series {
	var out []c41Series
	for i, sh := range c.Shapes {
		out = append(out, c41BuildSeries(sh, i))
	}
	return out
}

func c41Eval(r *vx.Run, c c41Case) string {
	series := c41Series2(c)
	if p, stack := vx.Guard(func() { c41RoundTrip(r, c, series) }); p != nil {
		r.Violation("codec-panic/"+c.Proto, fmt.Sprintf("case %+v: %v\n%s", c, p, stack), c)
	}
	var o c41Obs
	if p, stack := vx.Guard(func() { o = c41Run(c, series) }); p != nil {
		r.Violation(c.Proto+"-handler-panic", fmt.Sprintf("case %+v: %v\n%s", c, p, stack), c)
		return "panic"
	}
	return c41Judge(func(sig, msg string) { r.Violation(sig, msg, c) }, c, series, o)
}

func TestVerifC41(t *testing.T) {
	r := vx.Start(t, "C41", "exploration")
	defer r.Finish()
	if r.Replay != "" {
		var c c41Case
		r.LoadReplay(&c)
		t.Logf("replay %+v -> %s", c, c41Eval(r, c))
		return
	}
	// self-test: the judge must reject wrong observations
	{
		c := c41Case{Proto: "v2", State: "empty", Cfg: "plain", Shapes: []string{"A:f12:e0:m0"}}
		series := c41Series2(c)
		good := c41Run(c, series)
		nviol := 0
		probe := func(string, string) { nviol++ }
		if out := c41Judge(probe, c, series, good); nviol != 0 {
			r.Violation("v2-selftest-history-fails", "the plain two-sample request is judged wrong: "+out, c)
		} else {
			bad := good
			bad.Headers[0] = "1"
			if c41Judge(probe, c, series, bad); nviol != 1 {
				t.Fatal("self-test: wrong written count not reported")
			}
			bad = good
			bad.After = c41Stored{Samples: map[string][]string{`{__name__="m", a="1"}`: {"1=f:10"}}, Exemplars: map[string][]string{}}
			if c41Judge(probe, c, series, bad); nviol != 2 {
				t.Fatal("self-test: missing sample with success status not reported")
			}
			bad = good
			bad.After = c41Stored{Samples: map[string][]string{`{__name__="m", a="1"}`: {"1=f:10", "2=f:11"}, `{__name__="x"}`: {"1=f:1"}}, Exemplars: map[string][]string{}}
			if c41Judge(probe, c, series, bad); nviol != 3 {
				t.Fatal("self-test: invented series not reported")
			}
		}
	}
	shapes := c41Shapes()
	second := shapes
	if r.Quick() {
		second = c41PairSubset
	}
	var cases []c41Case
	cfgs := []string{"plain", "stmeta", "typeunit"}
	for _, proto := range []string{"v1", "v2"} {
		for _, state := range []string{"empty", "a1"} {
			for _, cfg := range cfgs {
				for _, a := range shapes {
					relevant := cfg == "plain" || strings.Contains(a, ":m1") || strings.HasSuffix(a, ":st")
					if relevant {
						cases = append(cases, c41Case{proto, state, cfg, []string{a}})
					}
					for _, b := range second {
						if cfg == "plain" || (r.Thorough() && (relevant || strings.Contains(b, ":m1") || strings.HasSuffix(b, ":st"))) {
							cases = append(cases, c41Case{proto, state, cfg, []string{a, b}})
						}
					}
				}
			}
		}
	}
	var n atomic.Int64
	outcomes := map[string]int{}
	var mu = make(chan struct{}, 1)
	mu <- struct{}{}
	r.ParallelN(int64(len(cases)), func(i int64) {
		c := cases[i]
		out := c41Eval(r, c)
		k := n.Add(1)
		<-mu
		outcomes[out]++
		mu <- struct{}{}
		r.Distinct("distinct_outcomes", out)
		if out != "violation" && out != "panic" && !strings.HasPrefix(out, "204/new[0 0 0]") {
			r.Distinct("distinct_nontrivial", fmt.Sprintf("%v|%s", c.Shapes, c.Proto+c.State+c.Cfg))
		}
		r.SampleAt(k, func() any { return map[string]any{"case": c, "outcome": out} })
	})
	r.Count("evaluations", int(n.Load()))
	keys := make([]string, 0, len(outcomes))
	for k := range outcomes {
		keys = append(keys, k)
	}
	sort.Strings(keys)
	for _, k := range keys {
		t.Logf("outcome %-40s %d", k, outcomes[k])
	}
	r.Set("shapes", len(shapes))
	r.Set("rule", "every request of 1 or 2 series drawn from the shape list (label set x float/histogram samples with timestamps 1,2 in every order and with duplicates x exemplars x metadata x start timestamps x malformed 2.0 symbol references) x protocol 1.0/2.0 x initial storage {empty, series A holds t=1} x handler configuration {plain, start-timestamp zero samples + metadata, type-and-unit labels}; each is round-tripped through the write codecs and sent through remote.NewWriteHandler into a fresh real tsdb.Head, whose full content is read back; distinct_nontrivial = distinct cases in which the storage gained data or the request was (partly) rejected")
	r.Assume("a receiver may answer an identical re-send (same series, timestamp and value as stored) either way; an exemplar's acceptance is only judged through the written count and the no-invention rule")
	if len(outcomes) < 4 {
		t.Fatalf("vacuous run: outcomes %v", outcomes)
	}
}
