package remote

// C40, thorough tier: the queue manager is fed by a REAL tsdb.Head writing a REAL WAL that is
// tailed by the REAL wlog.Watcher (series/samples/histogram/exemplar records, two segment
// rotations, a checkpoint that drops a churned series, WAL truncation, the watcher's series
// garbage collection). The only seam is a pass-through WriteTo between watcher and queue manager
// that lets the harness see which WAL data went through QueueManager.Append*.

import (
	"context"
	"fmt"
	"os"
	"path/filepath"
	"time"

	"github.com/prometheus/common/promslog"

	"github.com/prometheus/prometheus/model/exemplar"
	"github.com/prometheus/prometheus/model/labels"
	"github.com/prometheus/prometheus/storage"
	"github.com/prometheus/prometheus/tsdb"
	"github.com/prometheus/prometheus/tsdb/chunks"
	"github.com/prometheus/prometheus/tsdb/record"
	"github.com/prometheus/prometheus/tsdb/wlog"
	"github.com/prometheus/prometheus/util/compression"
)

type c40WAL struct {
	dir     string
	wl      *wlog.WL
	head    *tsdb.Head
	watcher *wlog.Watcher
	refs    map[chunks.HeadSeriesRef]string // head ref -> series name (learnt from StoreSeries)
	passed  map[string]bool                 // datum key -> went through Append* (returned true)
	dead    bool
	calls   int
	m5ref   chunks.HeadSeriesRef
}

func c40NewWAL(w *c40World) c40Feeder {
	dir, err := os.MkdirTemp("", "c40wal")
	if err != nil {
		panic(err)
	}
	f := &c40WAL{dir: dir, refs: map[chunks.HeadSeriesRef]string{}, passed: map[string]bool{}}
	f.wl, err = wlog.NewSize(nil, nil, filepath.Join(dir, "wal"), 128*1024, compression.None)
	if err != nil {
		panic(err)
	}
	opts := tsdb.DefaultHeadOptions()
	opts.ChunkDirRoot = dir
	opts.EnableExemplarStorage = true
	opts.MaxExemplars.Store(100)
	f.head, err = tsdb.NewHead(nil, nil, f.wl, nil, opts, nil)
	if err != nil {
		panic(err)
	}
	if err := f.head.Init(0); err != nil {
		panic(err)
	}
	return f
}

func (f *c40WAL) Dir() string { return f.dir }

// c40Tap is the pass-through wlog.WriteTo.
type c40Tap struct {
	w *c40World
	f *c40WAL
}

func (t c40Tap) name(ref chunks.HeadSeriesRef) string { return t.f.refs[ref] }

func (t c40Tap) mark(ok bool, keys []string) bool {
	t.w.mu.Lock()
	t.f.calls++
	if !ok {
		t.f.dead = true
	}
	if ok && !t.f.dead {
		for _, k := range keys {
			t.f.passed[k] = true
		}
	}
	t.w.mu.Unlock()
	return ok
}

func (t c40Tap) Append(s []record.RefSample) bool {
	t.w.mu.Lock()
	var keys []string
	for _, x := range s {
		keys = append(keys, c40Key(t.name(x.Ref), 'f', x.T))
	}
	t.w.mu.Unlock()
	return t.mark(t.w.m.Append(s), keys)
}

func (t c40Tap) AppendExemplars(s []record.RefExemplar) bool {
	t.w.mu.Lock()
	var keys []string
	for _, x := range s {
		keys = append(keys, c40Key(t.name(x.Ref), 'e', x.T))
	}
	t.w.mu.Unlock()
	return t.mark(t.w.m.AppendExemplars(s), keys)
}

func (t c40Tap) AppendHistograms(s []record.RefHistogramSample) bool {
	t.w.mu.Lock()
	var keys []string
	for _, x := range s {
		keys = append(keys, c40Key(t.name(x.Ref), 'h', x.T))
	}
	t.w.mu.Unlock()
	return t.mark(t.w.m.AppendHistograms(s), keys)
}

func (t c40Tap) AppendFloatHistograms(s []record.RefFloatHistogramSample) bool {
	return t.w.m.AppendFloatHistograms(s)
}

func (t c40Tap) StoreSeries(s []record.RefSeries, segment int) {
	t.w.mu.Lock()
	for _, x := range s {
		t.f.refs[x.Ref] = x.Labels.Get("__name__")
	}
	t.w.mu.Unlock()
	t.w.m.StoreSeries(s, segment)
}
func (t c40Tap) StoreMetadata(m []record.RefMetadata) { t.w.m.StoreMetadata(m) }
func (t c40Tap) UpdateSeriesSegment(s []record.RefSeries, segment int) {
	t.w.m.UpdateSeriesSegment(s, segment)
}
func (t c40Tap) SeriesReset(index int) { t.w.m.SeriesReset(index) }

// Prepare is called after NewQueueManager and before Start: the manager's watcher is replaced
// by an identical one whose WriteTo is the tap (and which has metrics: the real watcher needs
// them as soon as it finds a WAL).
func (f *c40WAL) Prepare(w *c40World) {
	f.watcher = wlog.NewWatcher(wlog.NewWatcherMetrics(nil), wlog.NewLiveReaderMetrics(nil), nil, "c40", c40Tap{w, f}, f.dir, true, true, w.cfg.V2, record.NewBuffersPool())
	w.m.watcher = f.watcher
}

func (f *c40WAL) Submit(w *c40World, i int) {
	w.mu.Lock()
	samples, hists, exs := w.c40BatchRecords(i)
	byRef := map[chunks.HeadSeriesRef]c40SeriesDef{}
	for _, d := range w.defs {
		byRef[d.Ref] = d
	}
	w.mu.Unlock()
	// One commit per scrape, as the scrape loop does: the samples of the batch are split at
	// the point where a series repeats.
	app := f.head.Appender(context.Background())
	seen := map[chunks.HeadSeriesRef]bool{}
	commit := func() {
		if err := app.Commit(); err != nil {
			panic(fmt.Sprintf("c40: head commit: %v", err))
		}
		app = f.head.Appender(context.Background())
		seen = map[chunks.HeadSeriesRef]bool{}
	}
	var m1ref storage.SeriesRef
	for _, s := range samples {
		if seen[s.Ref] {
			commit()
		}
		seen[s.Ref] = true
		r, err := app.Append(0, byRef[s.Ref].Lset, s.T, s.V)
		if err != nil {
			panic(fmt.Sprintf("c40: head append %s@%d: %v", byRef[s.Ref].Name, s.T, err))
		}
		if byRef[s.Ref].Name == "m1" {
			m1ref = r
		}
		if byRef[s.Ref].Name == "m5" {
			f.m5ref = chunks.HeadSeriesRef(r)
		}
	}
	for _, h := range hists {
		if _, err := app.AppendHistogram(0, byRef[h.Ref].Lset, h.T, h.H, nil); err != nil {
			panic(fmt.Sprintf("c40: head append histogram: %v", err))
		}
	}
	for _, e := range exs {
		if _, err := app.AppendExemplar(m1ref, byRef[e.Ref].Lset, exemplar.Exemplar{Labels: e.Labels, Value: e.V, Ts: e.T, HasTs: true}); err != nil {
			panic(fmt.Sprintf("c40: head append exemplar: %v", err))
		}
	}
	if err := app.Commit(); err != nil {
		panic(fmt.Sprintf("c40: head commit: %v", err))
	}
	f.watcher.Notify() // what storage.Notify does after a head commit
}

// GC: two segment rotations, time for the watcher to follow, then a checkpoint of the first two
// segments that drops the churned series m5, then truncation of the WAL below the checkpoint.
// The watcher notices the checkpoint at its next 5s tick and garbage-collects its series.
func (f *c40WAL) GC(w *c40World) {
	for k := 0; k < 2; k++ {
		if _, err := f.wl.NextSegmentSync(); err != nil {
			panic(err)
		}
	}
	w.sleep(250 * time.Millisecond)
	first, last, err := wlog.Segments(f.wl.Dir())
	if err != nil || last-first < 2 {
		panic(fmt.Sprintf("c40: segments %d..%d %v", first, last, err))
	}
	drop := f.m5ref
	if _, err := wlog.Checkpoint(promslog.NewNopLogger(), f.wl, first, last-1, func(id chunks.HeadSeriesRef) bool { return id != drop }, 0, false); err != nil {
		panic(fmt.Sprintf("c40: checkpoint: %v", err))
	}
	if err := f.wl.Truncate(last); err != nil {
		panic(err)
	}
}

func (f *c40WAL) batchPassed(w *c40World, i int) bool {
	for _, e := range w.order {
		if e.Batch == i && !f.passed[e.Key] {
			return false
		}
	}
	return true
}

func (f *c40WAL) Idle(w *c40World) bool {
	if f.dead {
		return true
	}
	for i := 0; i < w.submitted; i++ {
		if !f.batchPassed(w, i) {
			return false
		}
	}
	return true
}

func (f *c40WAL) BatchDone(w *c40World, i int) bool { return !f.dead && f.batchPassed(w, i) }

func (f *c40WAL) Progress(w *c40World) string {
	return fmt.Sprintf("wal calls=%d passed=%d dead=%v", f.calls, len(f.passed), f.dead)
}

func (f *c40WAL) Close(w *c40World) {
	_ = f.head.Close()
	_ = os.RemoveAll(f.dir)
}

var _ = labels.EmptyLabels
