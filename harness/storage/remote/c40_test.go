package remote

// C40 driver: event-order model checking (engine E5, lib/evloop + vx.BFS) of the real
// QueueManager. See c40_world_test.go for the world, the event menu and the oracle.

import (
	"fmt"
	"os"
	"runtime"
	"runtime/debug"
	"strings"
	"sync"
	"sync/atomic"
	"testing"
	"testing/synctest"
	"time"

	"github.com/prometheus/prometheus/internal/verif/evloop"
	"github.com/prometheus/prometheus/internal/verif/vx"
)

// c40Counted wraps a world so that the outcome of every checked history is accounted.
type c40Counted struct {
	*c40World
	r *vx.Run
}

func (c c40Counted) Check() *vx.Fail {
	f := c.c40World.Check()
	st := c.c40World.stats()
	r := c.r
	r.Count("evaluations", 1)
	r.Distinct("distinct_outcomes", st.Outcome)
	if st.Ingested > 0 {
		r.Distinct("distinct_nontrivial", st.Outcome)
	}
	if st.Failures > 0 {
		r.Count("histories_with_send_failures", 1)
	}
	if st.Exempt > 0 {
		r.Count("histories_with_exempted_samples", 1)
	}
	r.Count("samples_accepted_by_endpoint", st.Ingested)
	r.Count("store_calls", st.Arrivals)
	h := strings.Join(c.hist, ",")
	if strings.Contains(h, "R") {
		r.Count("histories_with_reshard", 1)
	}
	if strings.Contains(h, "S") {
		r.Count("histories_with_stop_event", 1)
	}
	return f
}

var c40Made atomic.Int64

func c40Mk(r *vx.Run, cfg c40Cfg, feed func(w *c40World) c40Feeder) func() evloop.World {
	return func() evloop.World {
		// The collector is off (a collection pre-empts the running goroutine and so perturbs the
		// run-queue order inside a burst); collect at this calm point instead: nothing else runs.
		if c40Made.Add(1)%64 == 0 {
			runtime.GC()
		}
		runtime.VerifTimerTie = cfg.Tie
		return c40Counted{c40NewWorld(cfg, feed), r}
	}
}

// c40SelfTest: the oracle must complain about wrong deliveries.
func c40SelfTest(t *testing.T) {
	expect := func(name, sig string, sabotage func(w *c40World)) {
		synctest.Test(t, func(t *testing.T) {
			w := c40NewWorld(c40Configs()["v1"], c40NewEmu)
			synctest.Wait()
			w.Apply("A")
			synctest.Wait()
			w.mu.Lock()
			broken := w.fail != nil || len(w.pending) == 0
			w.mu.Unlock()
			if broken {
				// the code under test already misbehaves on [A]: that is for the exploration to
				// report as a violation, not for the self-test to turn into a tool failure
				w.Check()
				w.Close()
				synctest.Wait()
				return
			}
			sabotage(w)
			w.Check()
			w.Close()
			synctest.Wait()
			w.mu.Lock()
			got := w.sigs[sig]
			w.mu.Unlock()
			if !got {
				t.Fatalf("self-test %s: oracle did not report %s (reported %v)", name, sig, w.sigs)
			}
		})
	}
	expect("lost", "sample-not-delivered", func(w *c40World) {
		// the endpoint "accepts" the first request but the data never counts as received
		w.mu.Lock()
		p := w.pending[0]
		w.removePending(p)
		p.ans <- c40AnsOK
		w.mu.Unlock()
	})
	expect("reordered", "out-of-order", func(w *c40World) {
		w.mu.Lock()
		// find two data of the same series in the history and feed them swapped
		var a, b *c40Exp
		for _, e := range w.order {
			if e.Series == "m1" && e.Kind == 'f' {
				if a == nil {
					a = e
				} else if b == nil {
					b = e
				}
			}
		}
		want := ""
		for k, v := range w.byWant {
			if v == "m1" {
				want = k
			}
		}
		w.onIngest(&c40Pending{Data: []c40Datum{{Labels: want, Kind: 'f', T: b.T, V: b.V}, {Labels: want, Kind: 'f', T: a.T, V: a.V}}})
		w.mu.Unlock()
	})
	expect("dropped-series", "dropped-series-sent", func(w *c40World) {
		w.mu.Lock()
		w.onArrival(&c40Pending{Data: []c40Datum{{Labels: `{__name__="drop_me", cluster="c1", job="a", region="eu"}`, Kind: 'f', T: w.base}}})
		w.mu.Unlock()
	})
	expect("labels", "wrong-labels", func(w *c40World) {
		w.mu.Lock()
		w.onArrival(&c40Pending{Data: []c40Datum{{Labels: `{__name__="m1", job="a", env="x"}`, Kind: 'f', T: w.base}}})
		w.mu.Unlock()
	})
	expect("twice", "sent-twice-without-failure", func(w *c40World) {
		w.mu.Lock()
		w.onArrival(w.pending[0])
		w.mu.Unlock()
	})
}

type c40Plan struct {
	cfg   string
	feed  string // "emu" | "wal"
	depth int
	menu  []string
	gate  bool // with the hold/release events H/U (see c40Cfg.Gate)
}

func c40Feed(name string) func(w *c40World) c40Feeder {
	if name == "wal" {
		return c40NewWAL
	}
	return c40NewEmu
}

// c40Prefixes enumerates every enabled event sequence of exactly n events (no de-duplication),
// in menu order: the unit of work distribution between shard processes.
func c40Prefixes(eng *evloop.Engine, mk func() evloop.World, n int) [][]string {
	var out [][]string
	var rec func(pre []string)
	rec = func(pre []string) {
		if len(pre) == n {
			out = append(out, append([]string{}, pre...))
			return
		}
		s := eng.Sys(mk)
		for _, op := range pre {
			s.Apply(op, false)
		}
		ops := s.Ops()
		s.Close()
		for _, op := range ops {
			rec(append(pre, op))
		}
	}
	rec(nil)
	return out
}

func TestVerifC40(t *testing.T) {
	r := vx.Start(t, "C40", "model_checking")
	defer r.Finish()
	debug.SetGCPercent(-1)
	cfgs := c40Configs()
	eng := &evloop.Engine{T: t, GuardFirst: 50}

	if r.Replay != "" {
		var rp struct {
			Config string   `json:"config"`
			Ops    []string `json:"ops"`
		}
		r.LoadReplay(&rp)
		if rp.Config == "queue" {
			var rq struct {
				Geo   c40QGeo `json:"geo"`
				Calls []int   `json:"calls"`
			}
			r.LoadReplay(&rq)
			if f, _ := c40QRun(rq.Geo, rq.Calls); f.sig != "" {
				r.Violation(f.sig, f.msg, rq)
			}
			return
		}
		// config = "<cfg>/<feed>[|prefix,ops]"
		name, pre, _ := strings.Cut(rp.Config, "|")
		cn, feed, _ := strings.Cut(name, "/")
		var ops []string
		if pre != "" {
			ops = strings.Split(pre, ",")
		}
		ops = append(ops, rp.Ops...)
		cfg := cfgs[cn]
		feed, gate := strings.CutSuffix(feed, "+gate")
		cfg.Gate = gate
		cfg.Wal = feed == "wal"
		if f := eng.Replay(c40Mk(r, cfg, c40Feed(feed)), ops); f != nil {
			r.Violation(f.Signature, f.Message, rp)
		}
		return
	}

	c40SelfTest(t)
	var unit int64
	c40QueueProtocol(t, r, &unit)

	var plans []c40Plan
	if r.Quick() {
		plans = []c40Plan{{cfg: "v1", feed: "emu", depth: 5, gate: true}, {cfg: "v1+cap4", feed: "emu", depth: 4, gate: true}, {cfg: "v2+age", feed: "emu", depth: 4, gate: true}, {cfg: "v1~lifo", feed: "emu", depth: 4, gate: true}}
	} else {
		plans = []c40Plan{
			{cfg: "v1+cap4", feed: "emu", depth: 5, gate: true}, {cfg: "v2+cap4", feed: "emu", depth: 5, gate: true},
			{cfg: "v1", feed: "emu", depth: 6, gate: true}, {cfg: "v2+age", feed: "emu", depth: 5, gate: true}, {cfg: "v1~lifo", feed: "emu", depth: 5, gate: true},
			{cfg: "v2+age", feed: "emu", depth: 6}, {cfg: "v1", feed: "wal", depth: 4}, {cfg: "v2", feed: "emu", depth: 6}, {cfg: "v1~lifo", feed: "emu", depth: 5},
			{cfg: "v1+age", feed: "emu", depth: 5}, {cfg: "v2+age~lifo", feed: "emu", depth: 5}, {cfg: "v2", feed: "wal", depth: 3},
			{cfg: "v1", feed: "emu", depth: 7}, // the big one last: a deadline on an overloaded machine cuts only this plan
		}
	}
	if v := os.Getenv("VERIF_C40_PLAN"); v != "" { // e.g. "v1:emu:4,v2:wal:3"
		plans = nil
		for _, p := range strings.Split(v, ",") {
			q := strings.Split(p, ":")
			pl := c40Plan{cfg: q[0], feed: q[1]}
			pl.feed, pl.gate = strings.CutSuffix(pl.feed, "+gate")
			fmt.Sscan(q[2], &pl.depth)
			plans = append(plans, pl)
		}
	}
	const prefixLen = 2
	done := map[string]int{}
	var doneMu sync.Mutex
	for _, p := range plans {
		cfg, ok := cfgs[p.cfg]
		if !ok {
			t.Fatalf("unknown config %s", p.cfg)
		}
		cfg.Menu = p.menu
		cfg.Wal = p.feed == "wal"
		cfg.Gate = p.gate
		name := p.cfg + "/" + p.feed
		if p.gate {
			name += "+gate"
		}
		mk := c40Mk(r, cfg, c40Feed(p.feed))
		completed := p.depth
		// histories of <= prefixLen events: shard 0
		if r.Mine(unit) {
			res := r.BFS(name, func() vx.Sys { return eng.Sys(mk) }, min(prefixLen, p.depth))
			if r.Expired() || r.TooManyViolations() {
				completed = min(completed, res.DepthCompleted)
			}
		}
		unit++
		if p.depth > prefixLen {
			for _, pre := range c40Prefixes(eng, mk, prefixLen) {
				mine := r.Mine(unit)
				unit++
				if !mine {
					continue
				}
				if r.Expired() {
					completed = min(completed, prefixLen)
					continue
				}
				pre := pre
				res := r.BFS(name+"|"+strings.Join(pre, ","), func() vx.Sys {
					s := eng.Sys(mk)
					for _, op := range pre {
						if f := s.Apply(op, false); f != nil {
							panic("c40: prefix replay failed: " + f.Message)
						}
					}
					return s
				}, p.depth-prefixLen)
				if r.Expired() || r.TooManyViolations() {
					completed = min(completed, prefixLen+res.DepthCompleted)
				}
			}
		}
		doneMu.Lock()
		done[name] = completed
		doneMu.Unlock()
		t.Logf("C40 %s depth %d: completed %d, evaluations so far %d", name, p.depth, completed, r.Get("evaluations"))
	}
	ds := map[string]string{}
	for k, v := range done {
		r.Set("min_depth_completed "+k, v) // merged over shard processes with min()
		ds[k] = fmt.Sprint(v)
	}
	r.Set("depth_completed", ds)
	if d := eng.Diverged(); len(d) > 0 {
		t.Fatalf("determinism guard: %d of %d re-executed histories diverged, e.g. %s", len(d), eng.Guarded(), d[0])
	}
	r.Count("histories_executed_twice_by_determinism_guard", int(eng.Guarded()))
	r.Set("event_menu", "A=next WAL batch (2 scrapes of m1,m2,drop_me[,m5,m6] + 1 histogram + 1 exemplar) | ok/rec/unrec=endpoint answers the oldest pending Store with 200/503/400 | okNewest=200 to the newest pending Store | T1=+110ms | T2=+1600ms | R1,R2,R3=reshard request through reshardChan | G=checkpoint: UpdateSeriesSegment+SeriesReset | S=QueueManager.Stop | (+gate plans) H=everybody about to lock a shard queue's batchMtx is held up there (the harness holds the mutexes), while held only A / ok / rec / one T1 / U are enabled | U=they go on")
	r.Set("queue_config", fmt.Sprintf("capacity=2 (4 in the +cap4 configurations) max_samples_per_send=2 min_shards=1 max_shards=3 batch_send_deadline=%v min_backoff=%v max_backoff=%v flush_deadline=%v sample_age_limit(age configs)=%v", c40BatchSendDeadline, c40MinBackoff, c40MaxBackoff, c40FlushDeadline, c40AgeLimit))
	r.Set("rule", "every sequence of enabled events up to the depth per configuration (events that cannot change anything in the current state are disabled), each replayed on a fresh QueueManager in a fresh synctest bubble with synctest.Wait after every event; states de-duplicated on the timed log of everything the environment did and saw + visible shard/queue state; after each history a closing phase (endpoint answers 200 at once, clock advances, Stop) and the delivery oracle; distinct_nontrivial = distinct (accepted-sample sequence, exemption reasons) outcomes with at least one accepted sample")
	r.Assume("between two quiescent points the order in which runnable goroutines run is the Go runtime's (GOMAXPROCS=1, deterministic runtime overlay), not an enumerated choice")
	r.Assume("sync.Mutex/RWMutex of storage/remote are replaced by the vsync shims in bubble mode (TryLock + park on a bubble channel) so that lock waits are visible to synctest; uber/std atomics are replaced by pass-through shims")
	r.Assume("the automatic shard calculation (updateShardsLoop ticker, 10s) never asks for a reshard on its own in these runs (no incoming-rate samples are fed to it); reshard requests are injected into reshardChan exactly as updateShardsLoop does")
	r.Assume("a recoverable (503) or unrecoverable (400) answer means the endpoint did not store the request; a request cancelled by the hard shutdown was not stored")
	if r.Get("evaluations") > 0 {
		if r.Get("histories_with_reshard") == 0 || r.Get("histories_with_send_failures") == 0 || r.Get("samples_accepted_by_endpoint") == 0 {
			if r.NShards <= 1 {
				t.Fatalf("vacuous run: reshard=%d failures=%d accepted=%d", r.Get("histories_with_reshard"), r.Get("histories_with_send_failures"), r.Get("samples_accepted_by_endpoint"))
			}
		}
	}
	_ = time.Now
}
