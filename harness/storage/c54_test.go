package storage_test

// C54: fanout storage merges primary and secondary data with best-effort secondaries.
//
// External test package (only the public API is needed) so that REAL TSDBs (util/teststorage) can
// back the primary and the secondaries; thin wrappers inject exactly one failure at exactly one
// point of exactly one storage. Enumerated exhaustively:
//
//	query part:  0..2 secondaries x content of every storage in {none, {s1}, {s1,s2}} x
//	             (no failure | failing storage x failure point) x {Querier, ChunkQuerier}.
//	             One "query" = two Selects issued on the same fanout querier before any iteration
//	             (A: all series, B: only s2) + LabelNames + LabelValues.
//	             Failure points: Querier()/ChunkQuerier() creation, Select A / Select B returning an
//	             error set, first Next of A / of B, a later Next of A, LabelNames, LabelValues.
//	append part: 0..2 secondaries x {Appender, AppenderV2} x transaction {s1} / {s1,s2} x
//	             (no failure | Append #n of storage k | Commit of storage k) ; also Rollback.
//
// Every storage stamps its samples with its own timestamps (10k+1..3), so "contains nothing from
// the failed secondary" is decidable from the merged result.
//
// Oracle = the statement. Two places where the implementation documents a narrower promise than the
// statement (secondary failing at querier creation; secondary failing in a later Next) have their
// own signatures and do not stop the enumeration.

import (
	"context"
	"errors"
	"fmt"
	"slices"
	"sort"
	"strings"
	"sync"
	"sync/atomic"
	"testing"
	"time"

	"github.com/prometheus/common/promslog"

	"github.com/prometheus/prometheus/internal/verif/vx"
	"github.com/prometheus/prometheus/model/histogram"
	"github.com/prometheus/prometheus/model/labels"
	"github.com/prometheus/prometheus/storage"
	"github.com/prometheus/prometheus/tsdb/chunkenc"
	"github.com/prometheus/prometheus/util/annotations"
	"github.com/prometheus/prometheus/util/teststorage"
)

var c54Err = errors.New("c54 injected failure")

var (
	c54S1 = labels.FromStrings("__name__", "m", "i", "1")
	c54S2 = labels.FromStrings("__name__", "m", "i", "2")
)

type c54Sample struct {
	T int64
	V float64
}

// content c of storage k: series -> samples
func c54Content(k, c int) map[string][]c54Sample {
	out := map[string][]c54Sample{}
	if c >= 1 {
		out[c54S1.String()] = []c54Sample{{int64(10*k + 1), float64(k)}, {int64(10*k + 2), float64(k)}}
	}
	if c >= 2 {
		out[c54S2.String()] = []c54Sample{{int64(10*k + 3), float64(k)}}
	}
	return out
}

// ---------------------------------------------------------------------------------------------
// failure-injecting wrappers
// ---------------------------------------------------------------------------------------------

const (
	c54None = iota
	c54AtQuerier
	c54AtSelectAErr
	c54AtSelectANext1
	c54AtSelectALater
	c54AtSelectBErr
	c54AtSelectBNext1
	c54AtLabelNames
	c54AtLabelValues
	c54NPoints
)

var c54PointNames = [...]string{"none", "querier-creation", "selectA-returns-error-set", "selectA-first-Next", "selectA-later-Next", "selectB-returns-error-set", "selectB-first-Next", "LabelNames", "LabelValues"}

type c54Storage struct {
	storage.Storage
	point int // failure point for the read path (c54None = healthy)

	// write path
	failAppendAt int // 1-based index of the Append call that fails, 0 = none
	failCommit   bool

	mu          sync.Mutex
	commits     int
	rollbacks   int
	appendCalls int
}

func (s *c54Storage) Querier(mint, maxt int64) (storage.Querier, error) {
	if s.point == c54AtQuerier {
		return nil, c54Err
	}
	q, err := s.Storage.Querier(mint, maxt)
	if err != nil {
		return nil, err
	}
	return &c54Querier{Querier: q, s: s}, nil
}

func (s *c54Storage) ChunkQuerier(mint, maxt int64) (storage.ChunkQuerier, error) {
	if s.point == c54AtQuerier {
		return nil, c54Err
	}
	q, err := s.Storage.ChunkQuerier(mint, maxt)
	if err != nil {
		return nil, err
	}
	return &c54ChunkQuerier{ChunkQuerier: q, s: s}, nil
}

// which Select is this? A selects on __name__ only, B has a matcher on i.
func c54IsB(ms []*labels.Matcher) bool {
	for _, m := range ms {
		if m.Name == "i" {
			return true
		}
	}
	return false
}

type c54Querier struct {
	storage.Querier
	s *c54Storage
}

func (q *c54Querier) Select(ctx context.Context, sorted bool, hints *storage.SelectHints, ms ...*labels.Matcher) storage.SeriesSet {
	b := c54IsB(ms)
	p := q.s.point
	switch {
	case (p == c54AtSelectAErr && !b) || (p == c54AtSelectBErr && b):
		return storage.ErrSeriesSet(c54Err)
	case (p == c54AtSelectANext1 && !b) || (p == c54AtSelectBNext1 && b):
		return &c54FailingSet[storage.Series]{inner: q.Querier.Select(ctx, sorted, hints, ms...), okFor: 0}
	case p == c54AtSelectALater && !b:
		return &c54FailingSet[storage.Series]{inner: q.Querier.Select(ctx, sorted, hints, ms...), okFor: 1}
	}
	return q.Querier.Select(ctx, sorted, hints, ms...)
}

func (q *c54Querier) LabelNames(ctx context.Context, h *storage.LabelHints, ms ...*labels.Matcher) ([]string, annotations.Annotations, error) {
	if q.s.point == c54AtLabelNames {
		return nil, nil, c54Err
	}
	return q.Querier.LabelNames(ctx, h, ms...)
}

func (q *c54Querier) LabelValues(ctx context.Context, name string, h *storage.LabelHints, ms ...*labels.Matcher) ([]string, annotations.Annotations, error) {
	if q.s.point == c54AtLabelValues {
		return nil, nil, c54Err
	}
	return q.Querier.LabelValues(ctx, name, h, ms...)
}

type c54ChunkQuerier struct {
	storage.ChunkQuerier
	s *c54Storage
}

func (q *c54ChunkQuerier) Select(ctx context.Context, sorted bool, hints *storage.SelectHints, ms ...*labels.Matcher) storage.ChunkSeriesSet {
	b := c54IsB(ms)
	p := q.s.point
	switch {
	case (p == c54AtSelectAErr && !b) || (p == c54AtSelectBErr && b):
		return storage.ErrChunkSeriesSet(c54Err)
	case (p == c54AtSelectANext1 && !b) || (p == c54AtSelectBNext1 && b):
		return &c54FailingSet[storage.ChunkSeries]{inner: q.ChunkQuerier.Select(ctx, sorted, hints, ms...), okFor: 0}
	case p == c54AtSelectALater && !b:
		return &c54FailingSet[storage.ChunkSeries]{inner: q.ChunkQuerier.Select(ctx, sorted, hints, ms...), okFor: 1}
	}
	return q.ChunkQuerier.Select(ctx, sorted, hints, ms...)
}

func (q *c54ChunkQuerier) LabelNames(ctx context.Context, h *storage.LabelHints, ms ...*labels.Matcher) ([]string, annotations.Annotations, error) {
	if q.s.point == c54AtLabelNames {
		return nil, nil, c54Err
	}
	return q.ChunkQuerier.LabelNames(ctx, h, ms...)
}

func (q *c54ChunkQuerier) LabelValues(ctx context.Context, name string, h *storage.LabelHints, ms ...*labels.Matcher) ([]string, annotations.Annotations, error) {
	if q.s.point == c54AtLabelValues {
		return nil, nil, c54Err
	}
	return q.ChunkQuerier.LabelValues(ctx, name, h, ms...)
}

type c54Set[T any] interface {
	Next() bool
	At() T
	Err() error
	Warnings() annotations.Annotations
}

// c54FailingSet passes okFor series through (fewer if the inner set is shorter) and then fails.
type c54FailingSet[T any] struct {
	inner  c54Set[T]
	okFor  int
	n      int
	failed bool
}

func (s *c54FailingSet[T]) Next() bool {
	if s.failed {
		return false
	}
	if s.n < s.okFor && s.inner.Next() {
		s.n++
		return true
	}
	s.failed = true
	return false
}
func (s *c54FailingSet[T]) At() T { return s.inner.At() }
func (s *c54FailingSet[T]) Err() error {
	if s.failed {
		return c54Err
	}
	return s.inner.Err()
}
func (s *c54FailingSet[T]) Warnings() annotations.Annotations { return s.inner.Warnings() }

// --- write path

func (s *c54Storage) Appender(ctx context.Context) storage.Appender {
	return &c54Appender{Appender: s.Storage.Appender(ctx), s: s}
}

func (s *c54Storage) AppenderV2(ctx context.Context) storage.AppenderV2 {
	return &c54AppenderV2{AppenderV2: s.Storage.AppenderV2(ctx), s: s}
}

func (s *c54Storage) nextAppendFails() bool {
	s.mu.Lock()
	defer s.mu.Unlock()
	s.appendCalls++
	return s.failAppendAt != 0 && s.appendCalls == s.failAppendAt
}

func (s *c54Storage) note(commit bool) {
	s.mu.Lock()
	if commit {
		s.commits++
	} else {
		s.rollbacks++
	}
	s.mu.Unlock()
}

type c54Appender struct {
	storage.Appender
	s *c54Storage
}

func (a *c54Appender) Append(ref storage.SeriesRef, l labels.Labels, t int64, v float64) (storage.SeriesRef, error) {
	if a.s.nextAppendFails() {
		return 0, c54Err
	}
	// every storage has its own reference space
	return a.Appender.Append(0, l, t, v)
}

func (a *c54Appender) Commit() error {
	a.s.note(true)
	if a.s.failCommit {
		_ = a.Appender.Rollback()
		return c54Err
	}
	return a.Appender.Commit()
}

func (a *c54Appender) Rollback() error {
	a.s.note(false)
	return a.Appender.Rollback()
}

type c54AppenderV2 struct {
	storage.AppenderV2
	s *c54Storage
}

func (a *c54AppenderV2) Append(ref storage.SeriesRef, l labels.Labels, st, t int64, v float64, h *histogram.Histogram, fh *histogram.FloatHistogram, opts storage.AOptions) (storage.SeriesRef, error) {
	if a.s.nextAppendFails() {
		return 0, c54Err
	}
	return a.AppenderV2.Append(0, l, st, t, v, h, fh, opts)
}

func (a *c54AppenderV2) Commit() error {
	a.s.note(true)
	if a.s.failCommit {
		_ = a.AppenderV2.Rollback()
		return c54Err
	}
	return a.AppenderV2.Commit()
}

func (a *c54AppenderV2) Rollback() error {
	a.s.note(false)
	return a.AppenderV2.Rollback()
}

// ---------------------------------------------------------------------------------------------
// real storages
// ---------------------------------------------------------------------------------------------

func c54NewReal(t *testing.T) *teststorage.TestStorage {
	s, err := teststorage.NewWithError()
	if err != nil {
		t.Fatalf("c54: cannot open test storage: %v", err)
	}
	return s
}

func c54Fill(t *testing.T, s storage.Storage, content map[string][]c54Sample) {
	app := s.Appender(context.Background())
	for _, ls := range []labels.Labels{c54S1, c54S2} {
		for _, smp := range content[ls.String()] {
			if _, err := app.Append(0, ls, smp.T, smp.V); err != nil {
				t.Fatalf("c54: fill: %v", err)
			}
		}
	}
	if err := app.Commit(); err != nil {
		t.Fatalf("c54: fill: %v", err)
	}
}

// c54ReadAll returns series -> samples of a storage through its own (unwrapped) querier.
func c54ReadAll(s storage.Storage) (map[string][]c54Sample, error) {
	return c54ReadRange(s, 0, 1000)
}

func c54ReadRange(s storage.Storage, mint, maxt int64) (map[string][]c54Sample, error) {
	q, err := s.Querier(mint, maxt)
	if err != nil {
		return nil, err
	}
	defer q.Close()
	ss := q.Select(context.Background(), true, nil, labels.MustNewMatcher(labels.MatchEqual, "__name__", "m"))
	return c54Drain(ss)
}

func c54Drain(ss storage.SeriesSet) (map[string][]c54Sample, error) {
	out := map[string][]c54Sample{}
	var it chunkenc.Iterator
	for ss.Next() {
		s := ss.At()
		key := s.Labels().String()
		if _, dup := out[key]; dup {
			return out, fmt.Errorf("series %s returned twice", key)
		}
		out[key] = []c54Sample{}
		it = s.Iterator(it)
		for it.Next() == chunkenc.ValFloat {
			t, v := it.At()
			out[key] = append(out[key], c54Sample{t, v})
		}
		if err := it.Err(); err != nil {
			return out, err
		}
	}
	return out, ss.Err()
}

func c54DrainChunks(ss storage.ChunkSeriesSet) (map[string][]c54Sample, error) {
	out := map[string][]c54Sample{}
	for ss.Next() {
		s := ss.At()
		key := s.Labels().String()
		if _, dup := out[key]; dup {
			return out, fmt.Errorf("series %s returned twice", key)
		}
		out[key] = []c54Sample{}
		ci := s.Iterator(nil)
		for ci.Next() {
			it := ci.At().Chunk.Iterator(nil)
			for it.Next() == chunkenc.ValFloat {
				t, v := it.At()
				out[key] = append(out[key], c54Sample{t, v})
			}
			if err := it.Err(); err != nil {
				return out, err
			}
		}
		if err := ci.Err(); err != nil {
			return out, err
		}
	}
	return out, ss.Err()
}

// ---------------------------------------------------------------------------------------------
// query part
// ---------------------------------------------------------------------------------------------

type c54QueryCase struct {
	NSec     int   `json:"secondaries"`
	Contents []int `json:"contents"` // per storage (0 = primary)
	FailAt   int   `json:"failing_storage"`
	Point    int   `json:"point"`
	Chunks   bool  `json:"chunk_querier"`
}

func (c c54QueryCase) String() string {
	f := "no failure"
	if c.Point != c54None {
		who := "primary"
		if c.FailAt > 0 {
			who = fmt.Sprintf("secondary %d", c.FailAt)
		}
		f = fmt.Sprintf("%s fails at %s", who, c54PointNames[c.Point])
	}
	kind := "Querier"
	if c.Chunks {
		kind = "ChunkQuerier"
	}
	return fmt.Sprintf("%d secondaries, contents(primary first; 0=none 1={s1} 2={s1,s2}) %v, %s, %s", c.NSec, c.Contents, f, kind)
}

func c54Merge(cs c54QueryCase, skip int, onlyS2 bool) map[string][]c54Sample {
	out := map[string][]c54Sample{}
	for k, c := range cs.Contents {
		if k == skip {
			continue
		}
		for key, smp := range c54Content(k, c) {
			if onlyS2 && key != c54S2.String() {
				continue
			}
			out[key] = append(out[key], smp...)
		}
	}
	for key := range out {
		sort.Slice(out[key], func(i, j int) bool { return out[key][i].T < out[key][j].T })
	}
	return out
}

func c54Equal(a, b map[string][]c54Sample) bool {
	if len(a) != len(b) {
		return false
	}
	for k, v := range a {
		w, ok := b[k]
		if !ok || !slices.Equal(v, w) {
			return false
		}
	}
	return true
}

// c54ContainsFrom reports whether res holds a sample stamped by storage k.
func c54ContainsFrom(res map[string][]c54Sample, k int) bool {
	for _, smp := range res {
		for _, s := range smp {
			if s.T/10 == int64(k) {
				return true
			}
		}
	}
	return false
}

func c54HasWarning(ws annotations.Annotations) bool {
	for _, w := range ws {
		if errors.Is(w, c54Err) || strings.Contains(w.Error(), c54Err.Error()) {
			return true
		}
	}
	return false
}

// c54RunQuery executes one case against pre-built read-only real storages pool[k][content].
func c54RunQuery(r *vx.Run, pool [4][3]storage.Storage, cs c54QueryCase) (outcome string) {
	viol := func(sig, format string, a ...any) {
		r.Violation(sig, fmt.Sprintf(format, a...)+"  ["+cs.String()+"]", cs)
	}
	var wrapped []*c54Storage
	for k := 0; k <= cs.NSec; k++ {
		w := &c54Storage{Storage: pool[k][cs.Contents[k]]}
		if cs.Point != c54None && k == cs.FailAt {
			w.point = cs.Point
		}
		wrapped = append(wrapped, w)
	}
	var secs []storage.Storage
	for _, w := range wrapped[1:] {
		secs = append(secs, w)
	}
	f := storage.NewFanout(promslog.NewNopLogger(), wrapped[0], secs...)
	failing := cs.Point != c54None
	primaryFails := failing && cs.FailAt == 0
	selectPoint := cs.Point >= c54AtSelectAErr && cs.Point <= c54AtSelectBNext1

	mA := labels.MustNewMatcher(labels.MatchEqual, "__name__", "m")
	mB := labels.MustNewMatcher(labels.MatchEqual, "i", "2")
	ctx := context.Background()

	var resA, resB map[string][]c54Sample
	var errA, errB error
	var ws annotations.Annotations
	var names, values []string
	var wsN, wsV annotations.Annotations
	var errN, errV error
	var lq storage.LabelQuerier

	p, stack := vx.Guard(func() {
		if cs.Chunks {
			q, err := f.ChunkQuerier(0, 1000)
			if err != nil {
				errA, errB, errN, errV = err, err, err, err
				outcome = "creation-error"
				return
			}
			lq = q
			sa := q.Select(ctx, true, nil, mA)
			sb := q.Select(ctx, true, nil, mA, mB)
			resA, errA = c54DrainChunks(sa)
			resB, errB = c54DrainChunks(sb)
			ws.Merge(sa.Warnings())
			ws.Merge(sb.Warnings())
		} else {
			q, err := f.Querier(0, 1000)
			if err != nil {
				errA, errB, errN, errV = err, err, err, err
				outcome = "creation-error"
				return
			}
			lq = q
			sa := q.Select(ctx, true, nil, mA)
			sb := q.Select(ctx, true, nil, mA, mB)
			resA, errA = c54Drain(sa)
			resB, errB = c54Drain(sb)
			ws.Merge(sa.Warnings())
			ws.Merge(sb.Warnings())
		}
		names, wsN, errN = lq.LabelNames(ctx, nil)
		values, wsV, errV = lq.LabelValues(ctx, "i", nil)
	})
	if lq != nil {
		lq.Close()
	}
	if p != nil {
		sig := "fanout-query-panic"
		if failing && cs.FailAt > 0 && cs.Point == c54AtSelectALater {
			sig = "fanout-secondary-late-iteration-error-not-best-effort"
		}
		viol(sig, "panic: %v\n%.1200s", p, stack)
		return "panic"
	}

	// --- querier creation
	if outcome == "creation-error" {
		switch {
		case !failing || cs.Point != c54AtQuerier:
			viol("fanout-querier-creation-unexpected-error", "Querier() failed: %v", errA)
		case primaryFails:
			// the query fails: expected
		default:
			// Statement: a failing secondary must not fail the query. The implementation promises
			// best effort only for operations of an already created querier.
			viol("fanout-secondary-querier-creation-error-fails-query", "secondary %d failed in Querier()/ChunkQuerier() and the whole fanout query failed: %v", cs.FailAt, errA)
		}
		return outcome
	}
	if failing && cs.Point == c54AtQuerier {
		if primaryFails {
			viol("fanout-primary-failure-swallowed", "the primary failed at querier creation but the fanout returned a querier")
			return "swallowed"
		}
		// a secondary failed at creation and the fanout went on: must look like a best-effort failure
	}

	// --- selects
	switch {
	case failing && selectPoint && primaryFails:
		if errA == nil && errB == nil {
			viol("fanout-primary-failure-swallowed", "the primary failed at %s but neither series set reports an error (A=%v B=%v)", c54PointNames[cs.Point], resA, resB)
		}
		outcome = "select-error"
	case failing && (selectPoint || cs.Point == c54AtQuerier) && !primaryFails:
		late := cs.Point == c54AtSelectALater
		sigSuffix := ""
		if late {
			// documented limitation (storage/secondary.go): only failures of the first Next are best effort
			sigSuffix = "-late-iteration"
		}
		wantA, wantB := c54Merge(cs, cs.FailAt, false), c54Merge(cs, cs.FailAt, true)
		switch {
		case errA != nil || errB != nil:
			if late {
				viol("fanout-secondary-late-iteration-error-not-best-effort", "secondary %d failed after its first series and the query failed: A err=%v, B err=%v", cs.FailAt, errA, errB)
			} else {
				viol("fanout-secondary-failure-fails-query", "secondary %d failed at %s and the query failed: A err=%v, B err=%v", cs.FailAt, c54PointNames[cs.Point], errA, errB)
			}
		case c54ContainsFrom(resA, cs.FailAt) || c54ContainsFrom(resB, cs.FailAt):
			viol("fanout-result-contains-data-of-failed-secondary"+sigSuffix, "secondary %d failed at %s but its samples are in the result: A=%v B=%v", cs.FailAt, c54PointNames[cs.Point], resA, resB)
		case !c54Equal(resA, wantA) || !c54Equal(resB, wantB):
			viol("fanout-result-wrong-after-secondary-failure"+sigSuffix, "secondary %d failed at %s: A=%v want %v ; B=%v want %v", cs.FailAt, c54PointNames[cs.Point], resA, wantA, resB, wantB)
		case !c54HasWarning(ws):
			viol("fanout-secondary-failure-without-warning"+sigSuffix, "secondary %d failed at %s but no warning was reported (warnings %v)", cs.FailAt, c54PointNames[cs.Point], ws)
		}
		outcome = "select-best-effort"
	default:
		wantA, wantB := c54Merge(cs, -1, false), c54Merge(cs, -1, true)
		switch {
		case errA != nil || errB != nil:
			viol("fanout-select-unexpected-error", "A err=%v, B err=%v", errA, errB)
		case !c54Equal(resA, wantA) || !c54Equal(resB, wantB):
			viol("fanout-result-not-the-merge", "A=%v want %v ; B=%v want %v", resA, wantA, resB, wantB)
		case len(ws) != 0:
			viol("fanout-unexpected-warning", "warnings %v", ws)
		}
		outcome = fmt.Sprintf("merged-%d-series", len(wantA))
	}

	// --- label queries
	checkLabels := func(what string, point int, got []string, ws annotations.Annotations, err error, want func(skip int) []string) {
		switch {
		case failing && cs.Point == point && primaryFails:
			if err == nil {
				viol("fanout-primary-failure-swallowed", "the primary failed in %s but the call succeeded with %v", what, got)
			}
		case failing && (cs.Point == point || cs.Point == c54AtQuerier) && !primaryFails:
			w := want(cs.FailAt)
			switch {
			case err != nil:
				viol("fanout-secondary-failure-fails-query", "secondary %d failed in %s and the call failed: %v", cs.FailAt, what, err)
			case !slices.Equal(got, w):
				viol("fanout-label-result-wrong-after-secondary-failure", "%s = %v, want %v", what, got, w)
			case !c54HasWarning(ws):
				viol("fanout-secondary-failure-without-warning", "secondary %d failed in %s but no warning was reported", cs.FailAt, what)
			}
		default:
			w := want(-1)
			if err != nil {
				viol("fanout-label-query-unexpected-error", "%s: %v", what, err)
			} else if !slices.Equal(got, w) {
				viol("fanout-label-result-not-the-merge", "%s = %v, want %v", what, got, w)
			}
		}
	}
	checkLabels("LabelNames", c54AtLabelNames, names, wsN, errN, func(skip int) []string {
		if len(c54Merge(cs, skip, false)) == 0 {
			return nil
		}
		return []string{"__name__", "i"}
	})
	checkLabels("LabelValues(i)", c54AtLabelValues, values, wsV, errV, func(skip int) []string {
		m := c54Merge(cs, skip, false)
		var out []string
		if _, ok := m[c54S1.String()]; ok {
			out = append(out, "1")
		}
		if _, ok := m[c54S2.String()]; ok {
			out = append(out, "2")
		}
		return out
	})
	if cs.Point == c54AtLabelNames || cs.Point == c54AtLabelValues {
		if primaryFails {
			outcome = "label-error"
		} else {
			outcome = "label-best-effort"
		}
	}
	return outcome
}

// ---------------------------------------------------------------------------------------------
// append part
// ---------------------------------------------------------------------------------------------

type c54AppendCase struct {
	NSec       int  `json:"secondaries"`
	V2         bool `json:"appender_v2"`
	TwoSeries  bool `json:"two_series"`
	FailAt     int  `json:"failing_storage"`
	FailAppend int  `json:"fail_append_call"` // 1-based, 0 none
	FailCommit bool `json:"fail_commit"`
	Rollback   bool `json:"rollback_instead_of_commit"`
}

func (c c54AppendCase) String() string {
	who := "primary"
	if c.FailAt > 0 {
		who = fmt.Sprintf("secondary %d", c.FailAt)
	}
	f := "no failure"
	switch {
	case c.FailAppend > 0:
		f = fmt.Sprintf("Append #%d of %s fails", c.FailAppend, who)
	case c.FailCommit:
		f = fmt.Sprintf("Commit of %s fails", who)
	}
	return fmt.Sprintf("%d secondaries, AppenderV2=%v, two series=%v, %s, rollback=%v", c.NSec, c.V2, c.TwoSeries, f, c.Rollback)
}

// c54RunAppend runs one write-path case on the real storages of set (re-used between cases: every
// case writes at its own timestamp ts, larger than all earlier ones of that set).
func c54RunAppend(t *testing.T, r *vx.Run, cs c54AppendCase, set []*teststorage.TestStorage, ts int64) (outcome string) {
	viol := func(sig, format string, a ...any) {
		r.Violation(sig, fmt.Sprintf(format, a...)+"  ["+cs.String()+"]", cs)
	}
	reals := set[:cs.NSec+1]
	var wrapped []*c54Storage
	for k := 0; k <= cs.NSec; k++ {
		w := &c54Storage{Storage: reals[k]}
		if k == cs.FailAt {
			w.failAppendAt = cs.FailAppend
			w.failCommit = cs.FailCommit
		}
		wrapped = append(wrapped, w)
	}
	var secs []storage.Storage
	for _, w := range wrapped[1:] {
		secs = append(secs, w)
	}
	f := storage.NewFanout(promslog.NewNopLogger(), wrapped[0], secs...)
	tx := []labels.Labels{c54S1}
	if cs.TwoSeries {
		tx = append(tx, c54S2)
	}
	want := map[string][]c54Sample{}
	for _, ls := range tx {
		want[ls.String()] = []c54Sample{{ts, 7}}
	}
	var appendErr, endErr error
	p, stack := vx.Guard(func() {
		ctx := context.Background()
		var commit, rollback func() error
		var appendOne func(ls labels.Labels) error
		if cs.V2 {
			app := f.AppenderV2(ctx)
			commit, rollback = app.Commit, app.Rollback
			appendOne = func(ls labels.Labels) error {
				_, err := app.Append(0, ls, 0, ts, 7, nil, nil, storage.AOptions{})
				return err
			}
		} else {
			app := f.Appender(ctx)
			commit, rollback = app.Commit, app.Rollback
			appendOne = func(ls labels.Labels) error {
				_, err := app.Append(0, ls, ts, 7)
				return err
			}
		}
		for _, ls := range tx {
			if err := appendOne(ls); err != nil {
				appendErr = err
				break
			}
		}
		if appendErr != nil || cs.Rollback {
			endErr = rollback()
		} else {
			endErr = commit()
		}
	})
	if p != nil {
		viol("fanout-append-panic", "panic: %v\n%.1200s", p, stack)
		return "panic"
	}
	contents := make([]map[string][]c54Sample, len(reals))
	for k, rs := range reals {
		c, err := c54ReadRange(rs, ts, ts)
		if err != nil {
			t.Fatalf("c54: reading back storage %d: %v", k, err)
		}
		contents[k] = c
	}
	empty := map[string][]c54Sample{}
	allEmpty := func() bool {
		for _, c := range contents {
			if !c54Equal(c, empty) {
				return false
			}
		}
		return true
	}
	switch {
	case cs.FailAppend > 0:
		// the failing Append call exists only if the transaction is long enough
		if cs.FailAppend > len(tx) {
			t.Fatalf("c54: bad case %v", cs)
		}
		if appendErr == nil {
			viol("fanout-append-failure-swallowed", "an underlying Append failed but the fanout Append returned nil (a later Commit would not reach every storage)")
		}
		if !allEmpty() {
			viol("fanout-rollback-left-data", "after Append error + Rollback the storages hold %v", contents)
		}
		for k, w := range wrapped {
			if w.commits != 0 {
				viol("fanout-rollback-committed-a-storage", "storage %d saw %d Commit calls during Rollback", k, w.commits)
			}
		}
		outcome = "append-error-rolled-back"
	case cs.Rollback:
		if endErr != nil {
			viol("fanout-rollback-unexpected-error", "%v", endErr)
		}
		if !allEmpty() {
			viol("fanout-rollback-left-data", "after Rollback the storages hold %v", contents)
		}
		outcome = "rolled-back"
	case cs.FailCommit && cs.FailAt == 0:
		if endErr == nil {
			viol("fanout-primary-commit-failure-swallowed", "the primary's Commit failed but the fanout Commit returned nil")
		}
		for k := 1; k < len(wrapped); k++ {
			if wrapped[k].commits != 0 || !c54Equal(contents[k], empty) {
				viol("fanout-secondary-committed-after-primary-commit-failed", "secondary %d: %d Commit calls, content %v", k, wrapped[k].commits, contents[k])
			}
		}
		outcome = "primary-commit-failed"
	case cs.FailCommit:
		if endErr == nil {
			viol("fanout-secondary-commit-failure-swallowed", "Commit of secondary %d failed but the fanout Commit returned nil although the data did not reach every storage", cs.FailAt)
		}
		if !c54Equal(contents[0], want) {
			viol("fanout-commit-did-not-reach-primary", "primary holds %v, want %v", contents[0], want)
		}
		outcome = "secondary-commit-failed"
	default:
		if appendErr != nil || endErr != nil {
			viol("fanout-append-unexpected-error", "append err=%v commit err=%v", appendErr, endErr)
		}
		for k, c := range contents {
			if !c54Equal(c, want) {
				viol("fanout-commit-did-not-reach-every-storage", "storage %d holds %v, want %v", k, c, want)
			}
		}
		outcome = "committed-everywhere"
	}
	return outcome
}

// ---------------------------------------------------------------------------------------------

func c54QueryCases(maxSec int) []c54QueryCase {
	var out []c54QueryCase
	for nsec := 0; nsec <= maxSec; nsec++ {
		dims := make([]int, nsec+1)
		for i := range dims {
			dims[i] = 3
		}
		for ci := int64(0); ci < vx.ProductSize(dims); ci++ {
			contents := vx.ProductAt(dims, ci, nil)
			for _, chunks := range []bool{false, true} {
				out = append(out, c54QueryCase{NSec: nsec, Contents: append([]int{}, contents...), Chunks: chunks})
				for k := 0; k <= nsec; k++ {
					for p := c54AtQuerier; p < c54NPoints; p++ {
						out = append(out, c54QueryCase{NSec: nsec, Contents: append([]int{}, contents...), FailAt: k, Point: p, Chunks: chunks})
					}
				}
			}
		}
	}
	return out
}

func c54AppendCases(maxSec int) []c54AppendCase {
	var out []c54AppendCase
	for nsec := 0; nsec <= maxSec; nsec++ {
		for _, v2 := range []bool{false, true} {
			for _, two := range []bool{false, true} {
				out = append(out, c54AppendCase{NSec: nsec, V2: v2, TwoSeries: two})
				out = append(out, c54AppendCase{NSec: nsec, V2: v2, TwoSeries: two, Rollback: true})
				for k := 0; k <= nsec; k++ {
					out = append(out, c54AppendCase{NSec: nsec, V2: v2, TwoSeries: two, FailAt: k, FailAppend: 1})
					if two {
						out = append(out, c54AppendCase{NSec: nsec, V2: v2, TwoSeries: two, FailAt: k, FailAppend: 2})
					}
					out = append(out, c54AppendCase{NSec: nsec, V2: v2, TwoSeries: two, FailAt: k, FailCommit: true})
				}
			}
		}
	}
	return out
}

func TestVerifC54(t *testing.T) {
	r := vx.Start(t, "C54", "fault_enumeration")
	defer r.Finish()

	// read-only pool: pool[k][c] = real TSDB holding content c stamped for storage k
	var pool [4][3]storage.Storage
	var toClose []*teststorage.TestStorage
	defer func() {
		for _, s := range toClose {
			s.Close()
		}
	}()
	buildPool := func() {
		for k := 0; k < 4; k++ {
			for c := 0; c < 3; c++ {
				rs := c54NewReal(t)
				toClose = append(toClose, rs)
				c54Fill(t, rs, c54Content(k, c))
				pool[k][c] = rs
			}
		}
	}

	if r.Replay != "" {
		var raw map[string]any
		r.LoadReplay(&raw)
		if _, ok := raw["contents"]; ok {
			var cs c54QueryCase
			r.LoadReplay(&cs)
			buildPool()
			c54RunQuery(r, pool, cs)
		} else {
			var cs c54AppendCase
			r.LoadReplay(&cs)
			set := []*teststorage.TestStorage{c54NewReal(t), c54NewReal(t), c54NewReal(t), c54NewReal(t)}
			toClose = append(toClose, set...)
			c54RunAppend(t, r, cs, set, 1000)
		}
		return
	}
	buildPool()

	// self-test: the fill is what the model says, and the oracle notices foreign data
	for k := 0; k < 4; k++ {
		for c := 0; c < 3; c++ {
			got, err := c54ReadAll(pool[k][c])
			if err != nil || !c54Equal(got, c54Content(k, c)) {
				t.Fatalf("self-test: storage %d content %d reads back %v (%v)", k, c, got, err)
			}
		}
	}
	if !c54ContainsFrom(c54Content(2, 1), 2) || c54ContainsFrom(c54Content(1, 2), 2) {
		t.Fatal("self-test: sample attribution by timestamp is broken")
	}
	if c54Equal(c54Merge(c54QueryCase{Contents: []int{1, 1}}, -1, false), c54Merge(c54QueryCase{Contents: []int{1, 1}}, 1, false)) {
		t.Fatal("self-test: the reference merge ignores the excluded storage")
	}

	maxSec := vx.Pick(r, 2, 3)
	qcases := c54QueryCases(maxSec)
	acases := c54AppendCases(maxSec)
	r.Set("max_secondaries", maxSec)
	var mu sync.Mutex
	outcomes := map[string]int{}
	note := func(o string) {
		mu.Lock()
		outcomes[o]++
		mu.Unlock()
	}
	t0 := time.Now()
	r.ParallelN(int64(len(qcases)), func(i int64) {
		cs := qcases[i]
		note("query:" + c54RunQuery(r, pool, cs))
		if cs.Point != c54None {
			r.Distinct("distinct_nontrivial", "q:"+cs.String())
		}
		r.SampleAt(i, func() any { return map[string]any{"part": "query", "case": cs.String()} })
	})
	t.Logf("query part: %.1fs", time.Since(t0).Seconds())
	t0 = time.Now()
	// one set of three real TSDBs per worker; a global counter hands out increasing timestamps
	sets := make(chan []*teststorage.TestStorage, r.Workers())
	for w := 0; w < r.Workers(); w++ {
		set := []*teststorage.TestStorage{c54NewReal(t), c54NewReal(t), c54NewReal(t), c54NewReal(t)}
		toClose = append(toClose, set...)
		sets <- set
	}
	var clock atomic.Int64
	clock.Store(1000)
	r.ParallelN(int64(len(acases)), func(i int64) {
		cs := acases[i]
		set := <-sets
		out := c54RunAppend(t, r, cs, set, clock.Add(1))
		sets <- set
		note("append:" + out)
		if cs.FailAppend > 0 || cs.FailCommit {
			r.Distinct("distinct_nontrivial", "a:"+cs.String())
		}
		r.SampleAt(i+3, func() any { return map[string]any{"part": "append", "case": cs.String()} })
	})
	t.Logf("append part: %.1fs", time.Since(t0).Seconds())
	r.Count("evaluations", len(qcases)+len(acases))
	r.Count("query_cases", len(qcases))
	r.Count("append_cases", len(acases))
	r.Set("outcome_classes", outcomes)
	for _, o := range vx.SortedKeys(outcomes) {
		r.Distinct("distinct_outcomes", o)
	}
	r.Set("rule", "query: 0..2 (thorough 3) secondaries x content {none,{s1},{s1,s2}} per storage x (no failure | failing storage x 8 failure points: querier creation, Select A/B returning an error set, first Next of A/B, later Next of A, LabelNames, LabelValues) x {Querier, ChunkQuerier}; each case issues two Selects on one fanout querier, LabelNames and LabelValues. append: 0..2 (thorough 3) secondaries x {Appender, AppenderV2} x {one, two series} x (no failure | rollback | Append #n of storage k fails | Commit of storage k fails) on fresh real TSDBs. distinct_nontrivial = distinct cases with an injected failure.")
	r.Assume("storages are real TSDBs (util/teststorage) behind thin failure-injecting wrappers; every storage stamps its samples with its own timestamps so that the origin of each merged sample is decidable")
	r.Assume("exactly one failure per case; a failing Commit of a wrapper rolls the real appender back")
	if len(outcomes) < 6 && r.Violations() == 0 {
		t.Fatalf("vacuous: only %d outcome classes: %v", len(outcomes), outcomes)
	}
}
