package storage

// C19: merging series sets de-duplicates without losing data.
//
// Three bounded-exhaustive parts, all against a "boring" list model written from the statement:
//
//	series: ChainedSeriesMerge of k input series (every k-tuple over ALL sample lists on a small
//	        time grid with float / histogram / float-histogram samples, equal timestamps across
//	        inputs) driven by EVERY operation sequence over {Next, Seek(0..T+1)} of the given depth
//	        (every prefix is checked, then the iterator is drained with Next).
//	chunks: NewCompactingChunkSeriesMerger(ChainedSeriesMerge) on every k-tuple of chunk lists
//	        (identical, overlapping, mixed type).
//	sets:   NewMergeSeriesSet / NewMergeChunkSeriesSet on every k-tuple of label-sorted sets over
//	        three label sets.
//
// Oracle (from the statement): the merged sequence has the sorted union of the inputs' timestamps,
// at each timestamp one sample that is equal to the sample of SOME input at that timestamp (the
// statement leaves the choice open; counter-reset hints are not part of it: the merge documents
// that it may degrade them to "unknown"); Next/Seek behave like a cursor over that list under the
// chunkenc.Iterator contract; chunk-level: ordered, non-overlapping chunks, meta = first/last
// sample, samples = the same list model, a group of byte-identical chunks that overlaps nothing
// else comes out as exactly one chunk.

import (
	"fmt"
	"math"
	"sort"
	"strings"
	"sync/atomic"
	"testing"
	"time"

	"github.com/prometheus/prometheus/internal/verif/vx"
	"github.com/prometheus/prometheus/model/histogram"
	"github.com/prometheus/prometheus/model/labels"
	"github.com/prometheus/prometheus/tsdb/chunkenc"
	"github.com/prometheus/prometheus/tsdb/chunks"
	"github.com/prometheus/prometheus/util/annotations"
)

// ---------------------------------------------------------------------------------------------
// samples
// ---------------------------------------------------------------------------------------------

const (
	c19Absent = 0
	c19Float  = 1
	c19Hist   = 2
	c19FHist  = 3
)

type c19Sample struct {
	t    int64
	kind int
	v    int // the value: f, or the histogram count
	h    *histogram.Histogram
	fh   *histogram.FloatHistogram
}

func (s c19Sample) T() int64                      { return s.t }
func (c19Sample) ST() int64                       { return 0 }
func (s c19Sample) F() float64                    { return float64(s.v) }
func (s c19Sample) H() *histogram.Histogram       { return s.h }
func (s c19Sample) FH() *histogram.FloatHistogram { return s.fh }
func (s c19Sample) Type() chunkenc.ValueType {
	switch s.kind {
	case c19Hist:
		return chunkenc.ValHistogram
	case c19FHist:
		return chunkenc.ValFloatHistogram
	}
	return chunkenc.ValFloat
}

func (s c19Sample) Copy() chunks.Sample {
	c := s
	if s.h != nil {
		c.h = s.h.Copy()
	}
	if s.fh != nil {
		c.fh = s.fh.Copy()
	}
	return c
}

func (s c19Sample) String() string {
	return fmt.Sprintf("%d:%s%d", s.t, [...]string{"-", "f", "h", "fh"}[s.kind], s.v)
}

func c19Mk(kind int, t int64, v int) c19Sample {
	s := c19Sample{t: t, kind: kind, v: v}
	switch kind {
	case c19Hist:
		s.h = &histogram.Histogram{
			Schema: 0, Count: uint64(v), Sum: float64(v), ZeroThreshold: 0.001,
			PositiveSpans: []histogram.Span{{Offset: 0, Length: 1}}, PositiveBuckets: []int64{int64(v)},
		}
	case c19FHist:
		s.fh = &histogram.FloatHistogram{
			Schema: 0, Count: float64(v), Sum: float64(v), ZeroThreshold: 0.001,
			PositiveSpans: []histogram.Span{{Offset: 0, Length: 1}}, PositiveBuckets: []float64{float64(v)},
		}
	}
	return s
}

func c19ToSamples(in []c19Sample) []chunks.Sample {
	out := make([]chunks.Sample, len(in))
	for i, s := range in {
		out[i] = s
	}
	return out
}

// ---------------------------------------------------------------------------------------------
// the reference model: sorted list of slots, each with the candidate samples of the inputs
// ---------------------------------------------------------------------------------------------

type c19Slot struct {
	t     int64
	cands []c19Sample
}

func c19Model(inputs [][]c19Sample) []c19Slot {
	m := map[int64][]c19Sample{}
	for _, in := range inputs {
		for _, s := range in {
			m[s.t] = append(m[s.t], s)
		}
	}
	ts := make([]int64, 0, len(m))
	for t := range m {
		ts = append(ts, t)
	}
	sort.Slice(ts, func(i, j int) bool { return ts[i] < ts[j] })
	out := make([]c19Slot, 0, len(ts))
	for _, t := range ts {
		out = append(out, c19Slot{t, m[t]})
	}
	return out
}

func c19ModelShared(model []c19Slot) bool {
	for _, s := range model {
		if len(s.cands) > 1 {
			return true
		}
	}
	return false
}

// c19Match checks the sample under the cursor against a slot; returns "" or a description, plus
// (if wantGot or on failure) a short rendering of what was read.
func c19Match(vt chunkenc.ValueType, it chunkenc.Iterator, slot c19Slot, wantGot bool) (problem, got string) {
	if at := it.AtT(); at != slot.t {
		return fmt.Sprintf("AtT()=%d, the merged sequence has %d here", at, slot.t), ""
	}
	var t int64
	ok := false
	switch vt {
	case chunkenc.ValFloat:
		var f float64
		t, f = it.At()
		for _, c := range slot.cands {
			if c.kind == c19Float && float64(c.v) == f {
				ok = true
			}
		}
		if !ok || wantGot || t != slot.t {
			got = fmt.Sprintf("%d:f%v", t, f)
		}
	case chunkenc.ValHistogram:
		var h *histogram.Histogram
		t, h = it.AtHistogram(nil)
		if h == nil {
			return "AtHistogram returned nil", ""
		}
		for _, c := range slot.cands {
			if c.kind == c19Hist && c.h.Equals(h) {
				ok = true
			}
		}
		if !ok || wantGot || t != slot.t {
			got = fmt.Sprintf("%d:h%d", t, h.Count)
		}
	case chunkenc.ValFloatHistogram:
		var fh *histogram.FloatHistogram
		t, fh = it.AtFloatHistogram(nil)
		if fh == nil {
			return "AtFloatHistogram returned nil", ""
		}
		for _, c := range slot.cands {
			if c.kind == c19FHist && c.fh.Equals(fh) {
				ok = true
			}
		}
		if !ok || wantGot || t != slot.t {
			got = fmt.Sprintf("%d:fh%v", t, fh.Count)
		}
	default:
		return fmt.Sprintf("unexpected value type %v", vt), ""
	}
	if t != slot.t {
		return fmt.Sprintf("At*() timestamp %d != %d", t, slot.t), got
	}
	if !ok {
		return fmt.Sprintf("sample %s equals no input sample at t=%d (inputs have %v)", got, slot.t, slot.cands), got
	}
	return "", got
}

// c19RunOps drives it with ops (0 = Next, k>0 = Seek(k-1)), comparing with a cursor over model,
// then drains with Next. checkAfterEnd: keep comparing operations issued after exhaustion
// (requires the INPUT iterators to honour "exhausted stays exhausted", which the list iterators
// do and the XOR chunk iterator does not).
func c19RunOps(it chunkenc.Iterator, model []c19Slot, ops []int, targets []int64, checkAfterEnd bool, trace *strings.Builder) (sig, msg string) {
	n := len(model)
	p := -1
	done := false
	opName := func(op int) string {
		if op == 0 {
			return "Next"
		}
		return fmt.Sprintf("Seek(%d)", targets[op-1])
	}
	step := func(op int, vt chunkenc.ValueType, wantPos int) (string, string) {
		// wantPos == n : exhausted
		if wantPos >= n {
			if vt != chunkenc.ValNone {
				return "merge-iter-sample-after-end", fmt.Sprintf("%s returned %v (t=%d) but the merged sequence is exhausted", opName(op), vt, it.AtT())
			}
			if trace != nil {
				trace.WriteString(opName(op) + "=end ")
			}
			return "", ""
		}
		if vt == chunkenc.ValNone {
			return "merge-iter-lost-sample", fmt.Sprintf("%s returned ValNone, expected the sample at t=%d (err=%v)", opName(op), model[wantPos].t, it.Err())
		}
		prob, got := c19Match(vt, it, model[wantPos], trace != nil)
		if prob != "" {
			s := "merge-iter-wrong-sample"
			if strings.HasPrefix(prob, "AtT()=") {
				s = "merge-iter-wrong-timestamp"
			}
			return s, opName(op) + ": " + prob
		}
		if trace != nil {
			trace.WriteString(opName(op) + "=" + got + " ")
		}
		return "", ""
	}
	for _, op := range ops {
		if done && !checkAfterEnd {
			break
		}
		if op == 0 {
			vt := it.Next()
			if !done {
				p++
			}
			if p >= n {
				p = n
				done = true
			}
			if s, m := step(0, vt, p); s != "" {
				return s, m
			}
			continue
		}
		t := targets[op-1]
		vt := it.Seek(t)
		switch {
		case done:
		case p >= 0 && model[p].t >= t:
			// no-op
		default:
			j := p + 1
			for j < n && model[j].t < t {
				j++
			}
			p = j
			if p >= n {
				done = true
			}
		}
		if s, m := step(op, vt, p); s != "" {
			return s, m
		}
	}
	// drain
	for !done {
		vt := it.Next()
		p++
		if p >= n {
			p = n
			done = true
		}
		if s, m := step(0, vt, p); s != "" {
			return s, "draining: " + m
		}
	}
	if err := it.Err(); err != nil {
		return "merge-iter-unexpected-error", err.Error()
	}
	return "", ""
}

// ---------------------------------------------------------------------------------------------
// part "series"
// ---------------------------------------------------------------------------------------------

type c19SeriesCfg struct {
	Flavour string `json:"flavour"` // "list": NewListSeries inputs; "chunk": encoded chunks decoded through nested chains
	T       int    `json:"T"`       // time grid 1..T
	Kinds   int    `json:"kinds"`   // 3: absent/float/hist, 4: + float histogram
	K       int    `json:"k"`       // number of inputs
	Depth   int    `json:"depth"`   // op sequence length
	Extreme bool   `json:"extreme"` // grid = int64 extremes instead of 1..T
}

func c19SC(fl string, T, kinds, k, depth int, extreme bool) c19SeriesCfg {
	return c19SeriesCfg{Flavour: fl, T: T, Kinds: kinds, K: k, Depth: depth, Extreme: extreme}
}

var c19ExtremeGrid = []int64{math.MinInt64, math.MinInt64 + 1, math.MaxInt64}

func (cfg c19SeriesCfg) time(t int) int64 {
	if cfg.Extreme {
		return c19ExtremeGrid[t-1]
	}
	return int64(t)
}

// Seek targets: 0..T+1, or every extreme grid point and its neighbours.
func (cfg c19SeriesCfg) targets() []int64 {
	if cfg.Extreme {
		return []int64{math.MinInt64, math.MinInt64 + 1, 0, math.MaxInt64 - 1, math.MaxInt64}
	}
	var out []int64
	for t := 0; t <= cfg.T+1; t++ {
		out = append(out, int64(t))
	}
	return out
}

// list number a of the alphabet: digit d_t (base kinds) for time t.
func c19ListAt(cfg c19SeriesCfg, a, input int) []c19Sample {
	var out []c19Sample
	for t := 1; t <= cfg.T; t++ {
		kind := a % cfg.Kinds
		a /= cfg.Kinds
		if kind != c19Absent {
			out = append(out, c19Mk(kind, cfg.time(t), 10*(input+1)+t))
		}
	}
	return out
}

var c19Outcomes atomic.Int64

func c19Outcome(r *vx.Run, s string) {
	if r.Distinct("distinct_outcomes", s) {
		c19Outcomes.Add(1)
	}
}

func c19Pow(a, b int) int {
	n := 1
	for i := 0; i < b; i++ {
		n *= a
	}
	return n
}

func c19SeriesFor(cfg c19SeriesCfg, in []c19Sample) Series {
	lset := labels.FromStrings("n", "a")
	if cfg.Flavour == "list" {
		return NewListSeries(lset, c19ToSamples(in))
	}
	// one chunk per maximal run of equal type, decoded and chained like chunkSetToSeriesSet does.
	var parts []Series
	for i := 0; i < len(in); {
		j := i
		for j < len(in) && in[j].kind == in[i].kind {
			j++
		}
		m, err := chunks.ChunkFromSamples(c19ToSamples(in[i:j]))
		if err != nil {
			panic("c19: cannot encode input chunk: " + err.Error())
		}
		parts = append(parts, newChunkToSeriesDecoder(lset, m))
		i = j
	}
	if len(parts) == 0 {
		m, _ := chunks.ChunkFromSamples(nil)
		parts = append(parts, newChunkToSeriesDecoder(lset, m))
	}
	return ChainedSeriesMerge(parts...)
}

func c19SeriesInputs(cfg c19SeriesCfg, combo int64) [][]c19Sample {
	s := c19Pow(cfg.Kinds, cfg.T)
	dims := make([]int, cfg.K)
	for i := range dims {
		dims[i] = s
	}
	tup := vx.ProductAt(dims, combo, nil)
	inputs := make([][]c19Sample, cfg.K)
	for i, a := range tup {
		inputs[i] = c19ListAt(cfg, a, i)
	}
	return inputs
}

// c19SeriesCombo runs every op sequence of cfg.Depth on the merge of one combination of inputs.
func c19SeriesCombo(r *vx.Run, cfg c19SeriesCfg, combo int64, mk func([]Series) Series) (sequences int) {
	inputs := c19SeriesInputs(cfg, combo)
	model := c19Model(inputs)
	series := make([]Series, len(inputs))
	for i, in := range inputs {
		series[i] = c19SeriesFor(cfg, in)
	}
	merged := mk(series)
	targets := cfg.targets()
	nops := 1 + len(targets) // Next, Seek(target)...
	report := func(sig, msg string, ops []int, reused bool) {
		if cfg.Extreme {
			// Narrow classes for the int64-extreme grid (each names its precondition):
			hasMin := len(model) > 0 && model[0].t == math.MinInt64
			seekMin := false
			for _, o := range ops {
				if o > 0 && targets[o-1] == math.MinInt64 {
					seekMin = true
				}
			}
			switch {
			case reused && seekMin:
				// (a combination with a MinInt64 sample that suffers from the sentinel defect has
				// already failed in the fresh-iterator pass and never gets here)
				sig = "merge-iter-reused-iterator-seek-minint64-stale-cursor"
			case hasMin:
				sig = "merge-iter-sample-at-minint64-timestamp-mishandled"
			default:
				sig += "-at-int64-extreme"
			}
		}
		r.Violation(sig, fmt.Sprintf("%s  [inputs %v; merged timestamps %v; ops %s; reused iterator=%v; config %+v]", msg, inputs, c19Times(model), c19OpNames(ops, targets), reused, cfg),
			map[string]any{"part": "series", "cfg": cfg, "combo": combo})
	}
	checkAfterEnd := cfg.Flavour == "list"
	var ops []int
	nseq := vx.SeqCount(nops, cfg.Depth, cfg.Depth)
	for i := int64(0); i < nseq; i++ {
		ops = vx.SeqAt(nops, cfg.Depth, cfg.Depth, i, ops)
		var sig, msg string
		var tr *strings.Builder
		if i == 0 || i == nseq-1 {
			tr = &strings.Builder{}
		}
		p, stack := vx.Guard(func() {
			sig, msg = c19RunOps(merged.Iterator(nil), model, ops, targets, checkAfterEnd, tr)
		})
		if p != nil {
			report("merge-iter-panic", fmt.Sprintf("panic %v\n%s", p, c19Trim(stack)), ops, false)
			return int(i)
		}
		if sig != "" {
			report(sig, msg, ops, false)
			return int(i)
		}
		if tr != nil {
			c19Outcome(r, tr.String())
		}
		sequences++
	}
	// iterator reuse (the `it = s.Iterator(it)` pattern of every caller): the iterator left in an
	// arbitrary state by one sequence is handed back for the next one. Depth 2 prefixes.
	var it chunkenc.Iterator
	d2 := min(2, cfg.Depth)
	nseq = vx.SeqCount(nops, d2, d2)
	for i := int64(0); i < nseq; i++ {
		ops = vx.SeqAt(nops, d2, d2, i, ops)
		var sig, msg string
		p, stack := vx.Guard(func() {
			it = merged.Iterator(it)
			sig, msg = c19RunOps(it, model, ops, targets, checkAfterEnd, nil)
		})
		if p != nil {
			report("merge-iter-panic", fmt.Sprintf("panic %v\n%s", p, c19Trim(stack)), ops, true)
			return sequences
		}
		if sig != "" {
			report(sig+"-reused-iterator", msg, ops, true)
			return sequences
		}
		// leave a half-consumed iterator behind for the next round
		vx.Guard(func() {
			it = merged.Iterator(it)
			if i%2 == 0 {
				it.Next()
			} else {
				it.Seek(targets[2])
			}
		})
		sequences++
	}
	return sequences
}

func c19Times(model []c19Slot) []int64 {
	out := make([]int64, len(model))
	for i, s := range model {
		out[i] = s.t
	}
	return out
}

func c19OpNames(ops []int, targets []int64) string {
	var s []string
	for _, o := range ops {
		if o == 0 {
			s = append(s, "Next")
		} else {
			s = append(s, fmt.Sprintf("Seek(%d)", targets[o-1]))
		}
	}
	return strings.Join(s, ",")
}

func c19Trim(stack string) string {
	if len(stack) > 1500 {
		return stack[:1500]
	}
	return stack
}

func c19SeriesPart(r *vx.Run, cfgs []c19SeriesCfg) {
	var seqs, combos atomic.Int64
	for _, cfg := range cfgs {
		total := int64(c19Pow(c19Pow(cfg.Kinds, cfg.T), cfg.K))
		r.ParallelN(total, func(i int64) {
			n := c19SeriesCombo(r, cfg, i, func(s []Series) Series { return ChainedSeriesMerge(s...) })
			seqs.Add(int64(n))
			k := combos.Add(1)
			inputs := c19SeriesInputs(cfg, i)
			model := c19Model(inputs)
			if c19ModelShared(model) {
				r.Distinct("distinct_nontrivial", fmt.Sprintf("S%+v %v", cfg, inputs))
			}
			r.SampleAt(k, func() any {
				return map[string]any{"part": "series", "config": cfg, "inputs": fmt.Sprint(inputs), "merged_timestamps": c19Times(model)}
			})
		})
	}
	r.Count("evaluations", int(seqs.Load()))
	r.Count("series_input_combinations", int(combos.Load()))
	r.Count("series_op_sequences", int(seqs.Load()))
}

// ---------------------------------------------------------------------------------------------
// part "chunks"
// ---------------------------------------------------------------------------------------------

type c19ChunkCfg struct {
	T int `json:"T"`
	K int `json:"k"`
}

type c19ChunkSpec struct {
	kind  int
	times []int
}

// all chunk lists of one input: empty, one chunk, or two time-disjoint ordered chunks; every chunk
// a non-empty subset of 1..T of one type (float / histogram).
func c19ChunkLists(T int) [][]c19ChunkSpec {
	var subsets [][]int
	for m := 1; m < 1<<T; m++ {
		var s []int
		for t := 1; t <= T; t++ {
			if m&(1<<(t-1)) != 0 {
				s = append(s, t)
			}
		}
		subsets = append(subsets, s)
	}
	sort.SliceStable(subsets, func(i, j int) bool { return len(subsets[i]) < len(subsets[j]) })
	kinds := []int{c19Float, c19Hist}
	out := [][]c19ChunkSpec{nil}
	for _, s := range subsets {
		for _, k := range kinds {
			out = append(out, []c19ChunkSpec{{k, s}})
		}
	}
	for _, s1 := range subsets {
		for _, s2 := range subsets {
			if s1[len(s1)-1] >= s2[0] {
				continue
			}
			for _, k1 := range kinds {
				for _, k2 := range kinds {
					out = append(out, []c19ChunkSpec{{k1, s1}, {k2, s2}})
				}
			}
		}
	}
	return out
}

type c19ChunkInput struct {
	specs  []c19ChunkSpec
	shared bool // values depend on t only (byte-identical chunks across inputs are possible)
	input  int
}

func (ci c19ChunkInput) samples() [][]c19Sample {
	var out [][]c19Sample
	for _, sp := range ci.specs {
		var c []c19Sample
		for _, t := range sp.times {
			v := t
			if !ci.shared {
				v = 10*(ci.input+1) + t
			}
			c = append(c, c19Mk(sp.kind, int64(t), v))
		}
		out = append(out, c)
	}
	return out
}

func (ci c19ChunkInput) String() string {
	return fmt.Sprintf("%v", ci.samples())
}

// option o of an input: 0 = empty, then (list, shared) pairs.
func c19ChunkInputAt(lists [][]c19ChunkSpec, o, input int) c19ChunkInput {
	if o == 0 {
		return c19ChunkInput{input: input}
	}
	o--
	return c19ChunkInput{specs: lists[1+o/2], shared: o%2 == 0, input: input}
}

func c19ChunkOptions(lists [][]c19ChunkSpec) int { return 1 + 2*(len(lists)-1) }

type c19InChunk struct {
	min, max int64
	bytes    string
}

// c19CheckChunks verifies the chunk-level result against the list model.
func c19CheckChunks(got []chunks.Meta, model []c19Slot, in []c19InChunk) (sig, msg string) {
	pos := 0
	for ci, m := range got {
		if m.Chunk == nil {
			return "merge-chunk-nil", fmt.Sprintf("chunk %d is nil", ci)
		}
		if ci > 0 && got[ci-1].MaxTime >= m.MinTime {
			return "merge-chunks-overlap-or-unordered", fmt.Sprintf("chunk %d [%d,%d] follows chunk [%d,%d]", ci, m.MinTime, m.MaxTime, got[ci-1].MinTime, got[ci-1].MaxTime)
		}
		it := m.Chunk.Iterator(nil)
		first := true
		var last int64
		for vt := it.Next(); vt != chunkenc.ValNone; vt = it.Next() {
			if pos >= len(model) {
				return "merge-chunks-extra-sample", fmt.Sprintf("chunk %d has a sample at t=%d beyond the merged sequence", ci, it.AtT())
			}
			if prob, _ := c19Match(vt, it, model[pos], false); prob != "" {
				return "merge-chunks-wrong-sample", fmt.Sprintf("chunk %d sample #%d overall: %s", ci, pos, prob)
			}
			if first && it.AtT() != m.MinTime {
				return "merge-chunk-meta-mismatch", fmt.Sprintf("chunk %d MinTime=%d but first sample at %d", ci, m.MinTime, it.AtT())
			}
			first = false
			last = it.AtT()
			pos++
		}
		if err := it.Err(); err != nil {
			return "merge-chunk-undecodable", err.Error()
		}
		if first {
			return "merge-chunk-empty", fmt.Sprintf("chunk %d [%d,%d] has no samples", ci, m.MinTime, m.MaxTime)
		}
		if last != m.MaxTime {
			return "merge-chunk-meta-mismatch", fmt.Sprintf("chunk %d MaxTime=%d but last sample at %d", ci, m.MaxTime, last)
		}
	}
	if pos != len(model) {
		return "merge-chunks-lost-sample", fmt.Sprintf("chunks hold %d samples, the merged sequence has %d (first missing t=%d)", pos, len(model), model[pos].t)
	}
	// identical duplicates collapse: a group of byte-identical chunks overlapping nothing else => one chunk.
	s := append([]c19InChunk{}, in...)
	sort.Slice(s, func(i, j int) bool {
		if s[i].min != s[j].min {
			return s[i].min < s[j].min
		}
		return s[i].max < s[j].max
	})
	for i := 0; i < len(s); {
		j, hi, same := i+1, s[i].max, true
		for j < len(s) && s[j].min <= hi {
			if s[j].bytes != s[i].bytes || s[j].min != s[i].min || s[j].max != s[i].max {
				same = false
			}
			if s[j].max > hi {
				hi = s[j].max
			}
			j++
		}
		if same {
			cnt := 0
			for _, m := range got {
				if m.MinTime <= hi && m.MaxTime >= s[i].min {
					cnt++
					if m.MinTime != s[i].min || m.MaxTime != hi {
						return "merge-chunks-duplicate-not-collapsed", fmt.Sprintf("%d identical input chunks [%d,%d] came out as chunk [%d,%d]", j-i, s[i].min, hi, m.MinTime, m.MaxTime)
					}
				}
			}
			if cnt != 1 {
				return "merge-chunks-duplicate-not-collapsed", fmt.Sprintf("%d identical input chunks [%d,%d] came out as %d chunks", j-i, s[i].min, hi, cnt)
			}
		}
		i = j
	}
	return "", ""
}

func c19BuildChunkSeries(lset labels.Labels, ins []c19ChunkInput) (series []ChunkSeries, flat [][]c19Sample, inChunks []c19InChunk) {
	for _, ci := range ins {
		smp := ci.samples()
		var all []c19Sample
		var metas []chunks.Meta
		for _, c := range smp {
			all = append(all, c...)
			m, err := chunks.ChunkFromSamples(c19ToSamples(c))
			if err != nil {
				panic("c19: cannot encode input chunk: " + err.Error())
			}
			metas = append(metas, m)
			inChunks = append(inChunks, c19InChunk{m.MinTime, m.MaxTime, string(m.Chunk.Bytes())})
		}
		flat = append(flat, all)
		ms := metas
		series = append(series, &ChunkSeriesEntry{Lset: lset, ChunkIteratorFn: func(chunks.Iterator) chunks.Iterator {
			return NewListChunkSeriesIterator(ms...)
		}})
	}
	return series, flat, inChunks
}

func c19ChunkCombo(r *vx.Run, cfg c19ChunkCfg, lists [][]c19ChunkSpec, combo int64) (ins []c19ChunkInput, nout int) {
	nopt := c19ChunkOptions(lists)
	dims := make([]int, cfg.K)
	for i := range dims {
		dims[i] = nopt
	}
	tup := vx.ProductAt(dims, combo, nil)
	for i, o := range tup {
		ins = append(ins, c19ChunkInputAt(lists, o, i))
	}
	series, flat, inChunks := c19BuildChunkSeries(labels.FromStrings("n", "a"), ins)
	model := c19Model(flat)
	var got []chunks.Meta
	var sig, msg string
	p, stack := vx.Guard(func() {
		merged := NewCompactingChunkSeriesMerger(ChainedSeriesMerge)(series...)
		it := merged.Iterator(nil)
		for it.Next() {
			got = append(got, it.At())
			if len(got) > 64 {
				sig, msg = "merge-chunks-runaway", "more than 64 chunks"
				return
			}
		}
		if err := it.Err(); err != nil {
			sig, msg = "merge-chunks-unexpected-error", err.Error()
			return
		}
		sig, msg = c19CheckChunks(got, model, inChunks)
	})
	if p != nil {
		sig, msg = "merge-chunks-panic", fmt.Sprintf("panic %v\n%s", p, c19Trim(stack))
	}
	if sig != "" {
		var desc []string
		for _, m := range got {
			desc = append(desc, fmt.Sprintf("[%d,%d]", m.MinTime, m.MaxTime))
		}
		r.Violation(sig, fmt.Sprintf("%s  [input chunk lists %v; output chunks %v; config %+v]", msg, ins, desc, cfg), map[string]any{"part": "chunks", "cfg": cfg, "combo": combo})
	}
	return ins, len(got)
}

func c19ChunkPart(r *vx.Run, cfgs []c19ChunkCfg) {
	var n atomic.Int64
	for _, cfg := range cfgs {
		lists := c19ChunkLists(cfg.T)
		total := int64(c19Pow(c19ChunkOptions(lists), cfg.K))
		r.ParallelN(total, func(i int64) {
			ins, nout := c19ChunkCombo(r, cfg, lists, i)
			k := n.Add(1)
			// non-trivial: at least two inputs non-empty (something to merge)
			ne := 0
			for _, in := range ins {
				if len(in.specs) > 0 {
					ne++
				}
			}
			if ne >= 2 {
				r.Distinct("distinct_nontrivial", fmt.Sprintf("C%+v %v", cfg, ins))
			}
			c19Outcome(r, fmt.Sprintf("chunks-out-%d", nout))
			r.SampleAt(k+3, func() any {
				return map[string]any{"part": "chunks", "config": cfg, "input_chunk_lists": fmt.Sprint(ins), "output_chunks": nout}
			})
		})
	}
	r.Count("evaluations", int(n.Load()))
	r.Count("chunk_input_combinations", int(n.Load()))
}

// ---------------------------------------------------------------------------------------------
// part "sets"
// ---------------------------------------------------------------------------------------------

type c19ListSet struct {
	series []Series
	i      int
}

func (s *c19ListSet) Next() bool                        { s.i++; return s.i <= len(s.series) }
func (s *c19ListSet) At() Series                        { return s.series[s.i-1] }
func (*c19ListSet) Err() error                          { return nil }
func (*c19ListSet) Warnings() annotations.Annotations   { return nil }

type c19ListChunkSet struct {
	series []ChunkSeries
	i      int
}

func (s *c19ListChunkSet) Next() bool                      { s.i++; return s.i <= len(s.series) }
func (s *c19ListChunkSet) At() ChunkSeries                 { return s.series[s.i-1] }
func (*c19ListChunkSet) Err() error                        { return nil }
func (*c19ListChunkSet) Warnings() annotations.Annotations { return nil }

type c19SetCfg struct {
	K int `json:"k"`
}

// three label sets, the second extends the first (exercises labels.Compare on a common prefix).
func c19LabelSets() []labels.Labels {
	ls := []labels.Labels{
		labels.FromStrings("n", "a"),
		labels.FromStrings("n", "a", "z", "1"),
		labels.FromStrings("n", "b"),
	}
	sort.Slice(ls, func(i, j int) bool { return labels.Compare(ls[i], ls[j]) < 0 })
	return ls
}

// option o of set i: 0 = empty; else subset mask (1..7) and flavour: 0 = a single sample at the
// set's own time i+2; 1 = a sample at the common time 1 plus one at 10+i.
func c19SetSamples(o, set, lbl int) []c19Sample {
	if o == 0 {
		return nil
	}
	o--
	mask, fl := 1+o/2, o%2
	if mask&(1<<lbl) == 0 {
		return nil
	}
	v := 100*(set+1) + 10*lbl
	if fl == 0 {
		return []c19Sample{c19Mk(c19Float, int64(set+2), v+1)}
	}
	return []c19Sample{c19Mk(c19Float, 1, v+2), c19Mk(c19Float, int64(10+set), v+3)}
}

const c19SetOptions = 1 + 7*2

func c19SetCombo(r *vx.Run, cfg c19SetCfg, combo int64) (nseries int) {
	lsets := c19LabelSets()
	dims := make([]int, cfg.K)
	for i := range dims {
		dims[i] = c19SetOptions
	}
	tup := vx.ProductAt(dims, combo, nil)
	// per label: the inputs' sample lists
	perLabel := make([][][]c19Sample, len(lsets))
	var ssets []SeriesSet
	var csets []ChunkSeriesSet
	for i, o := range tup {
		ss, cs := &c19ListSet{}, &c19ListChunkSet{}
		for l, ls := range lsets {
			smp := c19SetSamples(o, i, l)
			if smp == nil {
				continue
			}
			perLabel[l] = append(perLabel[l], smp)
			ss.series = append(ss.series, NewListSeries(ls, c19ToSamples(smp)))
			cs.series = append(cs.series, NewListChunkSeriesFromSamples(ls, c19ToSamples(smp)))
		}
		ssets = append(ssets, ss)
		csets = append(csets, cs)
	}
	var wantLabels []labels.Labels
	var wantModels [][]c19Slot
	var wantIn [][][]c19Sample
	for l, ls := range lsets {
		if len(perLabel[l]) > 0 {
			wantLabels = append(wantLabels, ls)
			wantModels = append(wantModels, c19Model(perLabel[l]))
			wantIn = append(wantIn, perLabel[l])
		}
	}
	fail := func(sig, msg string) {
		var desc []string
		for i, o := range tup {
			var d []string
			for l, ls := range lsets {
				if smp := c19SetSamples(o, i, l); smp != nil {
					d = append(d, fmt.Sprintf("%s%v", ls.String(), smp))
				}
			}
			desc = append(desc, "{"+strings.Join(d, " ")+"}")
		}
		r.Violation(sig, fmt.Sprintf("%s  [input sets %v]", msg, desc), map[string]any{"part": "sets", "cfg": cfg, "combo": combo})
	}
	// sample level
	p, stack := vx.Guard(func() {
		ms := NewMergeSeriesSet(ssets, 0, ChainedSeriesMerge)
		idx := 0
		var it chunkenc.Iterator
		for ms.Next() {
			s := ms.At()
			if idx >= len(wantLabels) {
				fail("merge-set-extra-series", fmt.Sprintf("series #%d %s beyond the %d expected", idx, s.Labels(), len(wantLabels)))
				return
			}
			if !labels.Equal(s.Labels(), wantLabels[idx]) {
				fail("merge-set-wrong-series-order", fmt.Sprintf("series #%d is %s, expected %s", idx, s.Labels(), wantLabels[idx]))
				return
			}
			it = s.Iterator(it)
			if sig, msg := c19RunOps(it, wantModels[idx], nil, nil, true, nil); sig != "" {
				fail(sig, fmt.Sprintf("series %s: %s", s.Labels(), msg))
				return
			}
			idx++
		}
		if idx != len(wantLabels) {
			fail("merge-set-lost-series", fmt.Sprintf("got %d series, expected %d", idx, len(wantLabels)))
			return
		}
		if err := ms.Err(); err != nil {
			fail("merge-set-unexpected-error", err.Error())
		}
		if ms.Next() {
			fail("merge-set-next-after-end", "Next returned true after it had returned false")
		}
	})
	if p != nil {
		fail("merge-set-panic", fmt.Sprintf("panic %v\n%s", p, c19Trim(stack)))
	}
	// chunk level
	p, stack = vx.Guard(func() {
		ms := NewMergeChunkSeriesSet(csets, 0, NewCompactingChunkSeriesMerger(ChainedSeriesMerge))
		idx := 0
		for ms.Next() {
			s := ms.At()
			if idx >= len(wantLabels) {
				fail("merge-chunkset-extra-series", fmt.Sprintf("series #%d %s beyond the %d expected", idx, s.Labels(), len(wantLabels)))
				return
			}
			if !labels.Equal(s.Labels(), wantLabels[idx]) {
				fail("merge-chunkset-wrong-series-order", fmt.Sprintf("series #%d is %s, expected %s", idx, s.Labels(), wantLabels[idx]))
				return
			}
			var got []chunks.Meta
			ci := s.Iterator(nil)
			for ci.Next() {
				got = append(got, ci.At())
			}
			if err := ci.Err(); err != nil {
				fail("merge-chunks-unexpected-error", err.Error())
				return
			}
			var in []c19InChunk
			for _, smp := range wantIn[idx] {
				m, _ := chunks.ChunkFromSamples(c19ToSamples(smp))
				in = append(in, c19InChunk{m.MinTime, m.MaxTime, string(m.Chunk.Bytes())})
			}
			if sig, msg := c19CheckChunks(got, wantModels[idx], in); sig != "" {
				fail(sig, fmt.Sprintf("series %s: %s", s.Labels(), msg))
				return
			}
			idx++
		}
		if idx != len(wantLabels) {
			fail("merge-chunkset-lost-series", fmt.Sprintf("got %d series, expected %d", idx, len(wantLabels)))
			return
		}
		if err := ms.Err(); err != nil {
			fail("merge-set-unexpected-error", err.Error())
		}
	})
	if p != nil {
		fail("merge-set-panic", fmt.Sprintf("panic %v\n%s", p, c19Trim(stack)))
	}
	return len(wantLabels)
}

func c19SetPart(r *vx.Run, cfgs []c19SetCfg) {
	var n atomic.Int64
	for _, cfg := range cfgs {
		total := int64(c19Pow(c19SetOptions, cfg.K))
		r.ParallelN(total, func(i int64) {
			ns := c19SetCombo(r, cfg, i)
			k := n.Add(1)
			if cfg.K >= 2 && ns >= 1 {
				r.Distinct("distinct_nontrivial", fmt.Sprintf("L%d/%d", cfg.K, i))
			}
			c19Outcome(r, fmt.Sprintf("sets-out-%d", ns))
			r.SampleAt(k+5, func() any {
				return map[string]any{"part": "sets", "inputs": cfg.K, "combination": i, "merged_series": ns}
			})
		})
	}
	r.Count("evaluations", int(n.Load()))
	r.Count("set_input_combinations", int(n.Load()))
}

// ---------------------------------------------------------------------------------------------
// self-test of the oracle
// ---------------------------------------------------------------------------------------------

func c19SelfTest(t *testing.T) {
	a := []c19Sample{c19Mk(c19Float, 1, 11), c19Mk(c19Float, 2, 12)}
	b := []c19Sample{c19Mk(c19Float, 2, 22), c19Mk(c19Hist, 3, 23)}
	model := c19Model([][]c19Sample{a, b})
	// a "merge" that does not de-duplicate t=2
	bad := []c19Sample{a[0], a[1], b[0], b[1]}
	if sig, _ := c19RunOps(NewListSeriesIterator(samples(c19ToSamples(bad))), model, nil, []int64{0, 1, 2, 3, 4}, true, nil); sig == "" {
		t.Fatal("self-test: oracle accepted a merge with a duplicated timestamp")
	}
	// a merge that loses the histogram
	if sig, _ := c19RunOps(NewListSeriesIterator(samples(c19ToSamples(bad[:2]))), model, nil, []int64{0, 1, 2, 3, 4}, true, nil); sig != "merge-iter-lost-sample" {
		t.Fatalf("self-test: oracle did not notice a lost sample (%q)", sig)
	}
	// a merge that invents a value
	inv := []c19Sample{a[0], c19Mk(c19Float, 2, 99), b[1]}
	if sig, _ := c19RunOps(NewListSeriesIterator(samples(c19ToSamples(inv))), model, nil, []int64{0, 1, 2, 3, 4}, true, nil); sig != "merge-iter-wrong-sample" {
		t.Fatalf("self-test: oracle did not notice an invented value (%q)", sig)
	}
	// a correct one, with a Seek that must not move backwards
	good := []c19Sample{a[0], b[0], b[1]}
	if sig, msg := c19RunOps(NewListSeriesIterator(samples(c19ToSamples(good))), model, []int{3, 1, 0, 5, 0}, []int64{0, 1, 2, 3, 4}, true, nil); sig != "" {
		t.Fatalf("self-test: oracle rejected a correct iterator: %s %s", sig, msg)
	}
	// chunk oracle: overlapping output must be rejected
	m1, _ := chunks.ChunkFromSamples(c19ToSamples(a))
	m2, _ := chunks.ChunkFromSamples(c19ToSamples(b[:1]))
	if sig, _ := c19CheckChunks([]chunks.Meta{m1, m2}, c19Model([][]c19Sample{a, b[:1]}), nil); sig != "merge-chunks-overlap-or-unordered" {
		t.Fatalf("self-test: chunk oracle accepted overlapping chunks (%q)", sig)
	}
}

// ---------------------------------------------------------------------------------------------

func TestVerifC19(t *testing.T) {
	r := vx.Start(t, "C19", "exploration")
	defer r.Finish()

	if r.Replay != "" {
		var rp struct {
			Part  string          `json:"part"`
			Combo int64           `json:"combo"`
			Cfg   map[string]any  `json:"cfg"`
		}
		r.LoadReplay(&rp)
		geti := func(k string) int { f, _ := rp.Cfg[k].(float64); return int(f) }
		switch rp.Part {
		case "series":
			fl, _ := rp.Cfg["flavour"].(string)
			ex, _ := rp.Cfg["extreme"].(bool)
			cfg := c19SeriesCfg{Flavour: fl, T: geti("T"), Kinds: geti("kinds"), K: geti("k"), Depth: geti("depth"), Extreme: ex}
			c19SeriesCombo(r, cfg, rp.Combo, func(s []Series) Series { return ChainedSeriesMerge(s...) })
		case "chunks":
			cfg := c19ChunkCfg{T: geti("T"), K: geti("k")}
			c19ChunkCombo(r, cfg, c19ChunkLists(cfg.T), rp.Combo)
		case "sets":
			c19SetCombo(r, c19SetCfg{K: geti("k")}, rp.Combo)
		default:
			t.Fatalf("unknown replay part %q", rp.Part)
		}
		return
	}

	c19SelfTest(t)

	var scfgs []c19SeriesCfg
	var ccfgs []c19ChunkCfg
	var lcfgs []c19SetCfg
	if r.Quick() {
		for k := 1; k <= 3; k++ {
			scfgs = append(scfgs, c19SC("list", 3, 3, k, 4, false))
		}
		for k := 1; k <= 2; k++ {
			scfgs = append(scfgs, c19SC("chunk", 3, 3, k, 4, false))
		}
		for k := 1; k <= 3; k++ {
			ccfgs = append(ccfgs, c19ChunkCfg{3, k})
		}
		for k := 0; k <= 4; k++ {
			lcfgs = append(lcfgs, c19SetCfg{k})
		}
	} else {
		for k := 1; k <= 3; k++ {
			scfgs = append(scfgs, c19SC("list", 3, 3, k, 5, false))
		}
		scfgs = append(scfgs, c19SC("list", 3, 3, 2, 6, false))
		scfgs = append(scfgs, c19SC("list", 4, 3, 1, 4, false), c19SC("list", 4, 3, 2, 4, false), c19SC("list", 4, 3, 3, 2, false))
		scfgs = append(scfgs, c19SC("list", 3, 4, 1, 4, false), c19SC("list", 3, 4, 2, 4, false), c19SC("list", 3, 4, 3, 3, false))
		scfgs = append(scfgs, c19SC("list", 3, 3, 4, 2, false))
		scfgs = append(scfgs, c19SC("chunk", 3, 4, 1, 4, false), c19SC("chunk", 3, 4, 2, 4, false), c19SC("chunk", 3, 3, 3, 3, false))
		for k := 1; k <= 3; k++ {
			ccfgs = append(ccfgs, c19ChunkCfg{4, k})
		}
		for k := 0; k <= 5; k++ {
			lcfgs = append(lcfgs, c19SetCfg{k})
		}
	}
	// int64 extremes as timestamps and Seek targets (list and chunk backed, k<=2, depth 3)
	for k := 1; k <= 2; k++ {
		scfgs = append(scfgs, c19SC("list", 3, 3, k, 3, true), c19SC("chunk", 3, 3, k, 3, true))
	}
	t0 := time.Now()
	c19SetPart(r, lcfgs)
	t.Logf("sets part: %.1fs", time.Since(t0).Seconds())
	t0 = time.Now()
	c19ChunkPart(r, ccfgs)
	t.Logf("chunks part: %.1fs", time.Since(t0).Seconds())
	t0 = time.Now()
	c19SeriesPart(r, scfgs)
	t.Logf("series part: %.1fs", time.Since(t0).Seconds())

	r.Set("series_configs", scfgs)
	r.Set("chunk_configs", ccfgs)
	r.Set("set_configs", lcfgs)
	r.Set("rule", "series: every k-tuple of sample lists over the grid 1..T (each time absent/float/histogram[/float histogram], values tagged by input) merged by ChainedSeriesMerge and driven by every operation sequence of the stated depth over {Next, Seek(0..T+1)} (all prefixes checked, then drained; plus depth-2 sequences on a re-used iterator); "+
		"chunks: every k-tuple of chunk lists (empty / one chunk / two disjoint chunks, each a subset of 1..T, float or histogram, values shared or per-input) through NewCompactingChunkSeriesMerger; "+
		"sets: every k-tuple of sorted sets over 3 label sets through NewMergeSeriesSet and NewMergeChunkSeriesSet. "+
		"distinct_nontrivial counts distinct input combinations in which the merge has real work: two inputs share a timestamp (series), at least two non-empty inputs (chunks), at least two input sets and a non-empty result (sets). evaluations = op sequences + chunk combinations + set combinations.")
	r.Assume("input series sets are label-sorted and each input series is time-sorted (precondition stated in the code); chunks within one input series are time-ordered and disjoint")
	r.Assume("operations issued after exhaustion are compared only for list-backed inputs (the XOR chunk iterator itself does not stay exhausted on Seek, which belongs to C10)")
	r.Assume("counter-reset hints of histograms are not compared (the merge documents that it degrades them to unknown)")
	if c19Outcomes.Load() < 10 && r.Violations() == 0 {
		t.Fatalf("vacuous run: only %d distinct outcomes", c19Outcomes.Load())
	}
}
