package v1

// C51: the query API's JSON codec encodes values losslessly.
//
// Engine E1, input enumeration: scalars, strings, vectors and matrices of <= 2 elements over
// sharp alphabets of timestamps (ms boundaries, sign, API min/max), floats (formatting cut-offs
// 1e-6 / 1e21 +- ulp, subnormals, +-0, +-Inf, NaN payloads, shortest-representation edge cases)
// and native histograms (the histmodel shape alphabet in every span layout plus shapes with
// negative counts), encoded with JSONCodec.Encode and decoded INDEPENDENTLY with encoding/json
// (UseNumber), math/big (timestamps) and strconv.ParseFloat (values).
//
// Oracle (statement): the decoded timestamp, rounded to milliseconds, equals the input; the
// decoded float equals the input bit for bit (any NaN for any NaN); a histogram decodes to the
// same count and sum and exactly its non-empty buckets, with the boundaries and inclusiveness the
// native histogram specification assigns to the bucket index (positive (lower,upper], negative
// [lower,upper), zero bucket [-zt,zt], custom (prev bound, bound]; a bucket cut by the zero bucket
// starts at the zero threshold, as documented on AllBucketIterator).

import (
	"bytes"
	"encoding/json"
	"fmt"
	"math"
	"math/big"
	"sort"
	"strconv"
	"strings"
	"sync/atomic"
	"testing"

	"github.com/prometheus/prometheus/internal/verif/histmodel"
	"github.com/prometheus/prometheus/internal/verif/vx"
	"github.com/prometheus/prometheus/model/histogram"
	"github.com/prometheus/prometheus/model/labels"
	"github.com/prometheus/prometheus/promql"
	"github.com/prometheus/prometheus/promql/parser"
)

// ---------------------------------------------------------------------------
// expected values (plain data)
// ---------------------------------------------------------------------------

type c51Bucket struct {
	Code                int // 0 (l,u]  1 [l,u)  2 (l,u)  3 [l,u]
	Lower, Upper, Count float64
	exactBounds         bool
}

type c51Hist struct {
	Count, Sum float64
	Buckets    []c51Bucket
}

type c51Point struct {
	T int64
	F float64
	H *c51Hist
}

type c51Series struct {
	Labels [][2]string
	Points []c51Point // floats first, then histograms (the order of the JSON members)
}

type c51Value struct {
	Type   string // scalar string vector matrix
	Scalar c51Point
	Str    string
	Series []c51Series
}

func c51Dyadic(schema, idx int32) bool {
	x := float64(idx) * math.Ldexp(1, int(-schema))
	return x == math.Trunc(x)
}

// c51ExpectHist derives the expected JSON content from the model histogram (never from the
// FloatHistogram under test).
func c51ExpectHist(m *histmodel.H) *c51Hist {
	e := &c51Hist{Count: m.Count, Sum: m.Sum}
	if m.Custom {
		for idx, c := range m.Pos {
			if c == 0 {
				continue
			}
			b := c51Bucket{Code: 0, Lower: math.Inf(-1), Upper: math.Inf(1), Count: c, exactBounds: true}
			if idx > 0 {
				b.Lower = m.Bounds[idx-1]
			}
			if int(idx) < len(m.Bounds) {
				b.Upper = m.Bounds[idx]
			}
			e.Buckets = append(e.Buckets, b)
		}
	} else {
		zt := m.ZeroThreshold
		for idx, c := range m.Pos {
			if c == 0 {
				continue
			}
			b := c51Bucket{Code: 0, Lower: histmodel.Bound(m.Schema, idx-1), Upper: histmodel.Bound(m.Schema, idx), Count: c,
				exactBounds: c51Dyadic(m.Schema, idx) && c51Dyadic(m.Schema, idx-1)}
			if b.Lower < zt {
				b.Lower = zt
			}
			e.Buckets = append(e.Buckets, b)
		}
		for idx, c := range m.Neg {
			if c == 0 {
				continue
			}
			b := c51Bucket{Code: 1, Lower: -histmodel.Bound(m.Schema, idx), Upper: -histmodel.Bound(m.Schema, idx-1), Count: c,
				exactBounds: c51Dyadic(m.Schema, idx) && c51Dyadic(m.Schema, idx-1)}
			if b.Upper > -zt {
				b.Upper = -zt
			}
			e.Buckets = append(e.Buckets, b)
		}
		if m.ZeroCount != 0 {
			e.Buckets = append(e.Buckets, c51Bucket{Code: 3, Lower: -zt, Upper: zt, Count: m.ZeroCount, exactBounds: true})
		}
	}
	sort.Slice(e.Buckets, func(i, j int) bool { return e.Buckets[i].Lower < e.Buckets[j].Lower })
	return e
}

// ---------------------------------------------------------------------------
// independent decoder
// ---------------------------------------------------------------------------

type c51Fail struct{ sig, msg string }

func c51f(sig, format string, a ...any) *c51Fail { return &c51Fail{sig, fmt.Sprintf(format, a...)} }

func c51SameFloat(a, b float64) bool {
	if math.IsNaN(a) || math.IsNaN(b) {
		return math.IsNaN(a) && math.IsNaN(b)
	}
	return math.Float64bits(a) == math.Float64bits(b)
}

// c51Millis converts a JSON number (seconds, decimal text) to milliseconds, rounding half away
// from zero, with exact rational arithmetic.
func c51Millis(v any) (int64, string, bool) {
	n, ok := v.(json.Number)
	if !ok {
		return 0, fmt.Sprintf("%T", v), false
	}
	r, ok := new(big.Rat).SetString(string(n))
	if !ok {
		return 0, string(n), false
	}
	r.Mul(r, big.NewRat(1000, 1))
	// round half away from zero
	half := big.NewRat(1, 2)
	if r.Sign() < 0 {
		r.Sub(r, half)
	} else {
		r.Add(r, half)
	}
	q := new(big.Int).Quo(r.Num(), r.Denom()) // truncates toward zero
	if !q.IsInt64() {
		return 0, string(n), false
	}
	return q.Int64(), string(n), true
}

func c51Float(v any) (float64, string, bool) {
	s, ok := v.(string)
	if !ok {
		return 0, fmt.Sprintf("%T", v), false
	}
	f, err := strconv.ParseFloat(s, 64)
	if err != nil {
		return 0, s, false
	}
	return f, s, true
}

func c51CheckPoint(kind string, want c51Point, got any) *c51Fail {
	arr, ok := got.([]any)
	if !ok || len(arr) != 2 {
		return c51f("malformed-point", "%s point is not a 2-element array: %v", kind, got)
	}
	ms, txt, ok := c51Millis(arr[0])
	if !ok {
		return c51f("malformed-timestamp", "%s timestamp %q is not a JSON number in int64 ms range", kind, txt)
	}
	if ms != want.T && kind == "scalar" && (want.T >= c51FloatSecondsLimit || want.T <= -c51FloatSecondsLimit) {
		// precondition of a recorded finding: Scalar/String go through float64(T)/1000
		return c51f("scalar-timestamp-beyond-float-ms-precision", "%s timestamp %d ms is written as %s, which is %d ms", kind, want.T, txt, ms)
	}
	if ms != want.T {
		return c51f(kind+"-timestamp-mismatch", "%s timestamp %d ms is written as %s, which is %d ms", kind, want.T, txt, ms)
	}
	if want.H == nil {
		f, txt, ok := c51Float(arr[1])
		if !ok {
			return c51f("malformed-float", "%s value %q does not parse with strconv.ParseFloat", kind, txt)
		}
		if !c51SameFloat(f, want.F) {
			return c51f(kind+"-float-mismatch", "%s value %v (bits %016x) is written as %q, which is %v (bits %016x)", kind, want.F, math.Float64bits(want.F), txt, f, math.Float64bits(f))
		}
		return nil
	}
	obj, ok := arr[1].(map[string]any)
	if !ok {
		return c51f("malformed-histogram", "%s histogram is not an object: %v", kind, arr[1])
	}
	for k := range obj {
		if k != "count" && k != "sum" && k != "buckets" {
			return c51f("malformed-histogram", "unexpected histogram member %q", k)
		}
	}
	cnt, ctxt, ok1 := c51Float(obj["count"])
	sum, stxt, ok2 := c51Float(obj["sum"])
	if !ok1 || !ok2 {
		return c51f("malformed-histogram", "count %q / sum %q do not parse", ctxt, stxt)
	}
	if !c51SameFloat(cnt, want.H.Count) {
		return c51f("histogram-count-mismatch", "histogram count %v written as %q", want.H.Count, ctxt)
	}
	if !c51SameFloat(sum, want.H.Sum) {
		return c51f("histogram-sum-mismatch", "histogram sum %v written as %q", want.H.Sum, stxt)
	}
	var gotB []c51Bucket
	if bs, present := obj["buckets"]; present {
		list, ok := bs.([]any)
		if !ok {
			return c51f("malformed-histogram", "buckets is not an array")
		}
		for _, b := range list {
			ba, ok := b.([]any)
			if !ok || len(ba) != 4 {
				return c51f("malformed-histogram", "bucket is not a 4-element array: %v", b)
			}
			cn, ok := ba[0].(json.Number)
			code, err := strconv.Atoi(string(cn))
			if !ok || err != nil || code < 0 || code > 3 {
				return c51f("malformed-histogram", "bucket boundary code %v", ba[0])
			}
			lo, _, ok1 := c51Float(ba[1])
			up, _, ok2 := c51Float(ba[2])
			c, _, ok3 := c51Float(ba[3])
			if !ok1 || !ok2 || !ok3 {
				return c51f("malformed-histogram", "bucket numbers do not parse: %v", b)
			}
			gotB = append(gotB, c51Bucket{Code: code, Lower: lo, Upper: up, Count: c})
		}
	}
	sort.SliceStable(gotB, func(i, j int) bool { return gotB[i].Lower < gotB[j].Lower })
	near := func(a, b float64, exact bool) bool {
		if c51SameFloat(a, b) {
			return true
		}
		if exact || math.IsInf(a, 0) || math.IsInf(b, 0) {
			return false
		}
		return math.Abs(a-b) <= 1e-13*math.Max(math.Abs(a), math.Abs(b))
	}
	if len(gotB) == len(want.H.Buckets)-1 {
		// precondition of a recorded finding: a zero bucket with a NEGATIVE count is the missing one
		for i, w := range want.H.Buckets {
			if w.Code == 3 && w.Count < 0 && (i >= len(gotB) || gotB[i].Code != 3) {
				return c51f("histogram-negative-zero-bucket-missing", "histogram has a zero bucket [%v,%v] with count %v; the JSON has no zero bucket: %v", w.Lower, w.Upper, w.Count, gotB)
			}
		}
	}
	if len(gotB) < len(want.H.Buckets) {
		return c51f("histogram-bucket-missing", "histogram has %d non-empty buckets %v, JSON has %d: %v", len(want.H.Buckets), want.H.Buckets, len(gotB), gotB)
	}
	if len(gotB) > len(want.H.Buckets) {
		return c51f("histogram-bucket-extra", "histogram has %d non-empty buckets %v, JSON has %d: %v", len(want.H.Buckets), want.H.Buckets, len(gotB), gotB)
	}
	for i, w := range want.H.Buckets {
		g := gotB[i]
		if !near(g.Lower, w.Lower, w.exactBounds) || !near(g.Upper, w.Upper, w.exactBounds) {
			return c51f("histogram-bucket-boundary", "bucket %d should be %v..%v, JSON has %v..%v", i, w.Lower, w.Upper, g.Lower, g.Upper)
		}
		if g.Code != w.Code {
			// inclusiveness of an infinite boundary has no meaning
			lowDiff := (g.Code == 1 || g.Code == 3) != (w.Code == 1 || w.Code == 3)
			upDiff := (g.Code == 0 || g.Code == 3) != (w.Code == 0 || w.Code == 3)
			if (lowDiff && !math.IsInf(w.Lower, 0)) || (upDiff && !math.IsInf(w.Upper, 0)) {
				return c51f("histogram-bucket-inclusiveness", "bucket %d (%v..%v) should have boundary code %d, JSON has %d", i, w.Lower, w.Upper, w.Code, g.Code)
			}
		}
		if !c51SameFloat(g.Count, w.Count) {
			return c51f("histogram-bucket-count", "bucket %d (%v..%v) count %v written as %v", i, w.Lower, w.Upper, w.Count, g.Count)
		}
	}
	return nil
}

func c51CheckLabels(want [][2]string, got any) *c51Fail {
	obj, ok := got.(map[string]any)
	if !ok {
		return c51f("malformed-labels", "metric is not an object: %v", got)
	}
	if len(obj) != len(want) {
		return c51f("labels-mismatch", "labels %v written as %v", want, obj)
	}
	for _, l := range want {
		if v, ok := obj[l[0]].(string); !ok || v != l[1] {
			return c51f("labels-mismatch", "label %q=%q written as %v", l[0], l[1], obj[l[0]])
		}
	}
	return nil
}

// c51Compare decodes body with encoding/json and compares it with the expected value.
func c51Compare(want c51Value, body []byte) *c51Fail {
	dec := json.NewDecoder(bytes.NewReader(body))
	dec.UseNumber()
	var top map[string]any
	if err := dec.Decode(&top); err != nil {
		return c51f("json-invalid", "encoding/json rejects the body: %v: %.300s", err, body)
	}
	if dec.More() {
		return c51f("json-invalid", "trailing data after the JSON value")
	}
	if top["status"] != "success" {
		return c51f("envelope", "status %v", top["status"])
	}
	data, ok := top["data"].(map[string]any)
	if !ok {
		return c51f("envelope", "data is not an object")
	}
	if data["resultType"] != want.Type {
		return c51f("result-type", "resultType %v, want %s", data["resultType"], want.Type)
	}
	res := data["result"]
	switch want.Type {
	case "scalar":
		return c51CheckPoint("scalar", want.Scalar, res)
	case "string":
		arr, ok := res.([]any)
		if !ok || len(arr) != 2 {
			return c51f("malformed-point", "string result: %v", res)
		}
		ms, txt, ok := c51Millis(arr[0])
		if ok && ms != want.Scalar.T && (want.Scalar.T >= c51FloatSecondsLimit || want.Scalar.T <= -c51FloatSecondsLimit) {
			return c51f("scalar-timestamp-beyond-float-ms-precision", "string timestamp %d ms is written as %s, which is %d ms", want.Scalar.T, txt, ms)
		}
		if !ok || ms != want.Scalar.T {
			return c51f("scalar-timestamp-mismatch", "string timestamp %d ms is written as %s, which is %d ms", want.Scalar.T, txt, ms)
		}
		if s, ok := arr[1].(string); !ok || s != want.Str {
			return c51f("string-mismatch", "string %q written as %v", want.Str, arr[1])
		}
		return nil
	}
	list, ok := res.([]any)
	if !ok {
		return c51f("malformed-result", "result is not an array: %v", res)
	}
	if len(list) != len(want.Series) {
		return c51f("element-count", "%d elements written as %d", len(want.Series), len(list))
	}
	for i, ws := range want.Series {
		obj, ok := list[i].(map[string]any)
		if !ok {
			return c51f("malformed-result", "element %d is not an object", i)
		}
		if f := c51CheckLabels(ws.Labels, obj["metric"]); f != nil {
			return f
		}
		if want.Type == "vector" {
			p := ws.Points[0]
			key, other := "value", "histogram"
			if p.H != nil {
				key, other = "histogram", "value"
			}
			if _, bad := obj[other]; bad {
				return c51f("sample-kind", "element %d carries %q", i, other)
			}
			if f := c51CheckPoint("sample", p, obj[key]); f != nil {
				return f
			}
			continue
		}
		var fl, hs []c51Point
		for _, p := range ws.Points {
			if p.H == nil {
				fl = append(fl, p)
			} else {
				hs = append(hs, p)
			}
		}
		for _, part := range []struct {
			key string
			pts []c51Point
		}{{"values", fl}, {"histograms", hs}} {
			var arr []any
			if v, present := obj[part.key]; present {
				if arr, ok = v.([]any); !ok {
					return c51f("malformed-result", "%s is not an array", part.key)
				}
			}
			if len(arr) != len(part.pts) {
				return c51f("point-count", "series %d: %d %s written as %d", i, len(part.pts), part.key, len(arr))
			}
			for k, p := range part.pts {
				if f := c51CheckPoint("sample", p, arr[k]); f != nil {
					return f
				}
			}
		}
	}
	return nil
}

// ---------------------------------------------------------------------------
// alphabets
// ---------------------------------------------------------------------------

func c51Floats() []float64 {
	up := func(f float64) float64 { return math.Nextafter(f, math.Inf(1)) }
	dn := func(f float64) float64 { return math.Nextafter(f, math.Inf(-1)) }
	fs := []float64{0, math.Copysign(0, -1), 1, -1, 2, 10, 0.1, 0.5, 1.5, -2.5, 100, 1e6, 123456789,
		1e-6, dn(1e-6), up(1e-6), -1e-6, -dn(1e-6), 9.999999e-7, 1.0000001e-6, 1e-7, 1e-5,
		1e21, dn(1e21), up(1e21), -1e21, -dn(1e21), 1e20, 1e22, 9.99e20, 123456789012345678901.0, 999999999999999868928,
		math.MaxFloat64, -math.MaxFloat64, dn(math.MaxFloat64), math.SmallestNonzeroFloat64, -math.SmallestNonzeroFloat64, 3 * math.SmallestNonzeroFloat64,
		2.2250738585072014e-308, dn(2.2250738585072014e-308), 2.2250738585072011e-308, 1e-310,
		math.Inf(1), math.Inf(-1), math.NaN(), math.Float64frombits(0xfff8000000000001), math.Float64frombits(0x7ff0000000000002), math.Float64frombits(0x7ff0000000000001),
		1.0 / 3, 0.3, 0.1 + 0.2, up(1), dn(1), 1 << 53, 1<<53 + 2, 1<<53 - 1, 1e15, 1e16, 1e17, 123456789.123456789, 4.35, 0.000001234, 1e23, 8.41e21, 5e-324, 2e-323,
		1.7976931348623157e308, 9007199254740993, 0.000001, 0.0000009999999999999999, 1e21 - 131072, 295147905179352825856, 1234.5678e-9, float64(float32(0.1)), 1e-6 * 3}
	return fs
}

// From 2^43 seconds on (year ~280 000) the spacing of float64 seconds exceeds one millisecond.
const c51FloatSecondsLimit = (1 << 43) * 1000

const (
	c51APIMinMs = (math.MinInt64/1000 + 62135596801) * 1000
	c51APIMaxMs = (math.MaxInt64/1000-62135596801)*1000 + 999
)

func c51Timestamps() []int64 {
	ts := []int64{0, 1, -1, 9, -9, 10, -10, 99, -99, 100, -100, 999, -999, 1000, -1000, 1001, -1001, 1010, -1010, 1100, -1100, 1999, -1999, 2000, 60000, -60000,
		1700000000123, 1700000000000, -1700000000120, 1 << 53, 1<<53 + 1, -(1<<53 + 1), 1<<53 - 1, 1 << 51, 1<<51 + 1, 1<<52 + 1, 253402300799999, -62135596800000, c51FloatSecondsLimit - 1, c51FloatSecondsLimit - 999, -(c51FloatSecondsLimit - 1), c51FloatSecondsLimit, c51FloatSecondsLimit + 1,
		c51APIMinMs, c51APIMaxMs, c51APIMinMs + 1, c51APIMaxMs - 1, c51APIMinMs + 999, c51APIMaxMs - 999, c51APIMaxMs - 1000}
	return ts
}

var c51LabelSets = [][][2]string{
	{},
	{{"__name__", "up"}},
	{{"__name__", "a:b"}, {"le", "+Inf"}, {"q\"uo\\te", "x\ny\t </script>"}, {"utf8.日本", "日本\x00"}},
}

func c51Labels(l [][2]string) labels.Labels {
	b := labels.NewScratchBuilder(len(l))
	for _, kv := range l {
		b.Add(kv[0], kv[1])
	}
	b.Sort()
	return b.Labels()
}

type c51HistCase struct {
	name string
	fh   *histogram.FloatHistogram
	exp  *c51Hist
}

func c51Hists(all bool) []c51HistCase {
	var out []c51HistCase
	shapes := histmodel.Shapes()
	if all {
		shapes = histmodel.ShapesAll()
	}
	for _, s := range shapes {
		out = append(out, c51HistCase{s.Name, s.Float, c51ExpectHist(s.Model)})
	}
	// results of histogram subtraction: negative counts (the API returns them, with a warning)
	extra := func(name string, mut func(m *histmodel.H)) {
		for _, s := range histmodel.Shapes() {
			if s.Name[:3] == "e06" || s.Name[:3] == "e15" || s.Name[:3] == "c01" {
				m := s.Model.Copy()
				if m.Custom && strings.Contains(name, "zero") {
					continue
				}
				mut(m)
				for l := 0; l < histmodel.NumLayouts; l += 3 {
					out = append(out, c51HistCase{s.Name + "+" + name, m.ToFloat(l), c51ExpectHist(m)})
				}
			}
		}
	}
	extra("neg-zero-count", func(m *histmodel.H) { m.ZeroCount = -1; m.Count -= 2 })
	extra("neg-bucket", func(m *histmodel.H) {
		for k := range m.Pos {
			m.Pos[k] = -m.Pos[k]
		}
	})
	extra("fraction-zero-count", func(m *histmodel.H) { m.ZeroCount = 1e-7 })
	extra("special-sums", func(m *histmodel.H) { m.Sum = math.Inf(-1); m.Count = 1e21 })
	return out
}

// ---------------------------------------------------------------------------
// case construction
// ---------------------------------------------------------------------------

type c51Elem struct {
	f  float64
	h  *c51HistCase
	ts int64
	l  int
}

func (e c51Elem) point() c51Point {
	if e.h != nil {
		return c51Point{T: e.ts, H: e.h.exp}
	}
	return c51Point{T: e.ts, F: e.f}
}

func c51Encode(typ string, res parser.Value) ([]byte, any) {
	var body []byte
	var err error
	p, _ := vx.Guard(func() {
		body, err = JSONCodec{}.Encode(&Response{Status: statusSuccess, Data: &QueryData{ResultType: parser.ValueType(typ), Result: res}})
	})
	if p != nil {
		return nil, p
	}
	if err != nil {
		return nil, err
	}
	return body, nil
}

type c51ReplayElem struct {
	T     int64  `json:"t"`
	FBits string `json:"float_bits,omitempty"`
	Hist  string `json:"histogram_case,omitempty"`
	L     int    `json:"label_set"`
}

type c51Replay struct {
	Kind  string          `json:"kind"`
	Elems []c51ReplayElem `json:"elems"`
	Str   string          `json:"str,omitempty"`
}

func c51Run(r *vx.Run, kind string, elems []c51Elem, str string) (body []byte) {
	var want c51Value
	want.Type = kind
	var res parser.Value
	switch kind {
	case "scalar":
		want.Scalar = c51Point{T: elems[0].ts, F: elems[0].f}
		res = promql.Scalar{T: elems[0].ts, V: elems[0].f}
	case "string":
		want.Scalar = c51Point{T: elems[0].ts}
		want.Str = str
		res = promql.String{T: elems[0].ts, V: str}
	case "vector":
		var v promql.Vector
		for _, e := range elems {
			s := promql.Sample{T: e.ts, F: e.f, Metric: c51Labels(c51LabelSets[e.l])}
			if e.h != nil {
				s.H = e.h.fh
			}
			v = append(v, s)
			want.Series = append(want.Series, c51Series{Labels: c51LabelSets[e.l], Points: []c51Point{e.point()}})
		}
		if v == nil {
			v = promql.Vector{}
		}
		res = v
	case "matrix":
		// all elements with the same label set form one series (floats and histograms separately, in order)
		var m promql.Matrix
		bySet := map[int]int{}
		for _, e := range elems {
			i, ok := bySet[e.l]
			if !ok {
				i = len(m)
				bySet[e.l] = i
				m = append(m, promql.Series{Metric: c51Labels(c51LabelSets[e.l])})
				want.Series = append(want.Series, c51Series{Labels: c51LabelSets[e.l]})
			}
			if e.h != nil {
				m[i].Histograms = append(m[i].Histograms, promql.HPoint{T: e.ts, H: e.h.fh})
			} else {
				m[i].Floats = append(m[i].Floats, promql.FPoint{T: e.ts, F: e.f})
			}
			want.Series[i].Points = append(want.Series[i].Points, e.point())
		}
		if m == nil {
			m = promql.Matrix{}
		}
		res = m
	}
	replay := func() c51Replay {
		rp := c51Replay{Kind: kind, Str: str}
		for _, e := range elems {
			fb, hn := fmt.Sprintf("%016x", math.Float64bits(e.f)), ""
			if e.h != nil {
				fb, hn = "", e.h.name
			}
			rp.Elems = append(rp.Elems, c51ReplayElem{T: e.ts, FBits: fb, Hist: hn, L: e.l})
		}
		return rp
	}
	body, bad := c51Encode(kind, res)
	if bad != nil {
		r.Violation("encode-failed", fmt.Sprintf("JSONCodec.Encode of a %s failed/panicked: %v", kind, bad), replay())
		return nil
	}
	if f := c51Compare(want, body); f != nil {
		r.Violation(f.sig, fmt.Sprintf("%s; body: %.600s", f.msg, body), replay())
	}
	return body
}

// c51Class is the formatting class of an element (for distinct_outcomes).
func c51Class(e c51Elem) string {
	t := "t:int"
	switch {
	case e.ts < 0 && e.ts%1000 != 0:
		t = "t:negfrac"
	case e.ts < 0:
		t = "t:neg"
	case e.ts%1000 != 0 && e.ts%1000 < 10:
		t = "t:frac00x"
	case e.ts%1000 != 0 && e.ts%1000 < 100:
		t = "t:frac0xx"
	case e.ts%1000 != 0:
		t = "t:fracxxx"
	}
	if e.h != nil {
		return t + " hist buckets=" + strconv.Itoa(len(e.h.exp.Buckets))
	}
	a := math.Abs(e.f)
	switch {
	case math.IsNaN(e.f):
		return t + " NaN"
	case math.IsInf(e.f, 0):
		return t + " Inf"
	case a == 0:
		return t + " zero"
	case a < 1e-6:
		return t + " exp-small"
	case a >= 1e21:
		return t + " exp-large"
	case a == math.Trunc(a):
		return t + " integer"
	}
	return t + " fraction"
}

func TestVerifC51(t *testing.T) {
	r := vx.Start(t, "C51", "exploration")
	defer r.Finish()

	floats := c51Floats()
	tss := c51Timestamps()
	hists := c51Hists(r.Thorough())
	histByName := map[string]*c51HistCase{}
	for i := range hists {
		histByName[hists[i].name] = &hists[i]
	}

	if r.Replay != "" {
		var rp c51Replay
		r.LoadReplay(&rp)
		all := c51Hists(true)
		for i := range all {
			histByName[all[i].name] = &all[i]
		}
		var elems []c51Elem
		for _, x := range rp.Elems {
			e := c51Elem{ts: x.T, l: x.L}
			if x.Hist != "" {
				e.h = histByName[x.Hist]
				if e.h == nil {
					t.Fatalf("replay: unknown histogram case %q", x.Hist)
				}
			} else {
				b, _ := strconv.ParseUint(x.FBits, 16, 64)
				e.f = math.Float64frombits(b)
			}
			elems = append(elems, e)
		}
		c51Run(r, rp.Kind, elems, rp.Str)
		return
	}

	// ---- self-test: the decoder/comparator rejects near-miss encodings
	{
		// hand-written body and expectation: the self-test must not depend on the code under test
		hexp := &c51Hist{Count: 3, Sum: 15.5, Buckets: []c51Bucket{
			{Code: 1, Lower: -4, Upper: -2, Count: 1, exactBounds: true},
			{Code: 3, Lower: -0.001, Upper: 0.001, Count: 1, exactBounds: true},
			{Code: 0, Lower: 0.125, Upper: 0.25, Count: 1, exactBounds: true}}}
		h := &c51HistCase{exp: hexp}
		want := c51Value{Type: "vector", Series: []c51Series{
			{Labels: c51LabelSets[1], Points: []c51Point{{T: 1001, F: 0.1}}},
			{Labels: c51LabelSets[0], Points: []c51Point{{T: 1001, H: h.exp}}},
		}}
		body := []byte(`{"status":"success","data":{"resultType":"vector","result":[{"metric":{"__name__":"up"},"value":[1.001,"0.1"]},` +
			`{"metric":{},"histogram":[1.001,{"count":"3","sum":"15.5","buckets":[[1,"-4","-2","1"],[3,"-0.001","0.001","1"],[0,"0.125","0.25","1"]]}]}]}}`)
		if f := c51Compare(want, body); f != nil {
			t.Fatalf("self-test: a correct encoding is rejected: %s: %s\n%s", f.sig, f.msg, body)
		}
		muts := []struct{ old, new, sig string }{
			{`[1.001,"0.1"]`, `[1.01,"0.1"]`, "sample-timestamp-mismatch"},
			{`[1.001,"0.1"]`, `[1.0004,"0.1"]`, "sample-timestamp-mismatch"},
			{`[1.001,"0.1"]`, `[1.001,"0.10000000000000002"]`, "sample-float-mismatch"},
			{`[1.001,"0.1"]`, `[1.001,0.1]`, "malformed-float"},
			{`"__name__":"up"`, `"__name__":"down"`, "labels-mismatch"},
			{`"buckets":[[1,`, `"buckets":[[0,`, "histogram-bucket-inclusiveness"},
			{`"count":"`, `"count":"1`, "histogram-count-mismatch"},
		}
		for _, m := range muts {
			if !bytes.Contains(body, []byte(m.old)) {
				t.Fatalf("self-test: body lacks %q: %s", m.old, body)
			}
			mb := bytes.Replace(body, []byte(m.old), []byte(m.new), 1)
			if f := c51Compare(want, mb); f == nil || f.sig != m.sig {
				t.Fatalf("self-test: mutation %q -> %q not detected as %s (got %+v)", m.old, m.new, m.sig, f)
			}
		}
		// dropping one bucket must be noticed
		w2 := want
		h2 := *h.exp
		h2.Buckets = append([]c51Bucket{{Code: 0, Lower: 1e-300, Upper: 2e-300, Count: 1, exactBounds: true}}, h2.Buckets...)
		w2.Series = []c51Series{want.Series[0], {Labels: c51LabelSets[0], Points: []c51Point{{T: 1001, H: &h2}}}}
		if f := c51Compare(w2, body); f == nil || f.sig != "histogram-bucket-missing" {
			t.Fatalf("self-test: missing bucket not detected: %+v", f)
		}
		if ms, _, ok := c51Millis(json.Number("-0.0015")); !ok || ms != -2 {
			t.Fatalf("self-test: millis rounding: %d", ms)
		}
		if ms, _, ok := c51Millis(json.Number("9.223309901257975e+15")); !ok || ms != 9223309901257975000 {
			t.Fatalf("self-test: millis exponent: %d", ms)
		}
	}

	var evals atomic.Int64
	run := func(kind string, elems []c51Elem, str string) {
		body := c51Run(r, kind, elems, str)
		n := evals.Add(1)
		for _, e := range elems {
			r.Distinct("distinct_outcomes", kind+" "+c51Class(e))
		}
		if body != nil {
			r.Distinct("distinct_nontrivial", string(body))
		}
		r.SampleAt(n, func() any {
			return map[string]any{"kind": kind, "json": string(body)}
		})
	}

	nf, nt, nh := len(floats), len(tss), len(hists)
	r.Set("floats", nf)
	r.Set("timestamps", nt)
	r.Set("histogram_cases", nh)
	r.Set("label_sets", len(c51LabelSets))

	// 1. scalars and strings: every timestamp x every float / a few strings
	strs := []string{"", "a", "q\"uo\\te\n <>&", "日本\x00"} // valid UTF-8 only: JSON cannot carry other bytes, and the statement is about timestamps and values
	r.ParallelN(int64(nt*nf), func(i int64) {
		run("scalar", []c51Elem{{ts: tss[i/int64(nf)], f: floats[i%int64(nf)]}}, "")
	})
	for _, ts := range tss {
		for _, s := range strs {
			run("string", []c51Elem{{ts: ts}}, s)
		}
	}
	// 2. vectors of 0 and 1 element: timestamps x (floats + histograms) x label sets
	run("vector", nil, "")
	run("matrix", nil, "")
	r.ParallelN(int64(nt*(nf+nh)*len(c51LabelSets)), func(i int64) {
		l := int(i % int64(len(c51LabelSets)))
		j := i / int64(len(c51LabelSets))
		v := int(j % int64(nf+nh))
		e := c51Elem{ts: tss[j/int64(nf+nh)], l: l}
		if v < nf {
			e.f = floats[v]
		} else {
			e.h = &hists[v-nf]
		}
		run("vector", []c51Elem{e}, "")
		run("matrix", []c51Elem{e}, "")
	})
	// 3. a dense timestamp sweep (every ms in [-2100, 2100] and around powers of ten) in vectors
	var sweep []int64
	for t := int64(-2100); t <= 2100; t++ {
		sweep = append(sweep, t)
	}
	for p := int64(10000); p < math.MaxInt64/100; p *= 10 {
		for d := int64(-2); d <= 2; d++ {
			sweep = append(sweep, p+d, -p+d, p*1000+d*1000, p+d+999)
		}
	}
	r.Set("timestamp_sweep", len(sweep))
	r.ParallelN(int64(len(sweep)), func(i int64) {
		run("vector", []c51Elem{{ts: sweep[i], f: 1}}, "")
		run("scalar", []c51Elem{{ts: sweep[i], f: 1}}, "")
	})
	// 4. two elements: vectors (same timestamp, two series) and matrices (one series with two points,
	//    or two series), every pair of values
	vals := nf + nh
	tPairs := [][2]int64{{0, 1}, {999, 1000}, {-1001, -1000}, {1700000000123, 1700000000124}, {c51APIMinMs, c51APIMaxMs}, {-1, 1}}
	if r.Thorough() {
		// every pair of neighbours in the sorted timestamp alphabet
		sorted := append([]int64{}, tss...)
		sort.Slice(sorted, func(i, j int) bool { return sorted[i] < sorted[j] })
		for i := 0; i+1 < len(sorted); i++ {
			if sorted[i] < sorted[i+1] {
				tPairs = append(tPairs, [2]int64{sorted[i], sorted[i+1]})
			}
		}
	}
	r.Set("timestamp_pairs", len(tPairs))
	mk := func(v int, ts int64, l int) c51Elem {
		if v < nf {
			return c51Elem{ts: ts, l: l, f: floats[v]}
		}
		return c51Elem{ts: ts, l: l, h: &hists[v-nf]}
	}
	r.ParallelN(int64(vals*vals), func(i int64) {
		a, b := int(i/int64(vals)), int(i%int64(vals))
		for k, tp := range tPairs {
			run("vector", []c51Elem{mk(a, tp[0], 1), mk(b, tp[0], 2)}, "")
			run("matrix", []c51Elem{mk(a, tp[0], 1), mk(b, tp[1], 1)}, "")
			if k%2 == 0 {
				run("matrix", []c51Elem{mk(a, tp[0], 2), mk(b, tp[1], 0)}, "")
			}
		}
	})

	r.Count("evaluations", int(evals.Load()))
	r.Set("rule", "one evaluation = one API result (scalar, string, vector or matrix with <= 2 elements / points) encoded by JSONCodec.Encode inside the success envelope and decoded with encoding/json(UseNumber)+math/big+strconv. "+
		"Enumerated: every timestamp x every float as scalar; every timestamp x every float and histogram case x 3 label sets as 1-element vector and matrix; a dense timestamp sweep; every ordered pair of values (floats and histograms) as 2-element vector, 2-point series and 2-series matrix over the timestamp pairs. "+
		"distinct_nontrivial = distinct JSON bodies; distinct_outcomes = (result kind, timestamp format class, value format class) combinations.")
	r.Assume("expected bucket boundaries come from histmodel (2^(idx*2^-schema), compared exactly for power-of-two boundaries and to 1e-13 relative otherwise); inclusiveness of infinite boundaries is not compared")
	r.Assume("timestamps are taken from the API's time range [MinTime, MaxTime] in ms")
	if r.Violations() == 0 && evals.Load() < 1000 {
		t.Fatalf("vacuous run: %d evaluations", evals.Load())
	}
}
