package scrape

// C37: scraping stores exactly the exposed samples and marks vanished series stale.
//
// Statement (properties.jsonl): for any sequence of scrape outcomes for a target (successful
// bodies with churning series, explicit timestamps, failures, limit violations, target removal)
// storage receives exactly the exposed samples after metric relabeling at the scrape time or
// their explicit timestamp, a staleness marker at the next scrape time for every series without
// explicit timestamp (or any series when timestamp staleness tracking is on) that stopped being
// exposed, for all such series on failure or target removal, and report series with correct
// values. A scrape whose body fails to parse or exceeds a sample or label limit stores none of its
// samples, is treated like a failed scrape for staleness, and still stores its report series.
//
// Engine E1, sequence mode: EVERY history of length <= 3 (quick) / <= 4 (thorough) over a
// 21-symbol per-scrape outcome alphabet, for both appender interfaces and
// track_timestamps_staleness on/off, is driven through the real scrape loop built by the
// production constructor newScrapeLoop (real sample mutator with target labels and a
// metric_relabel rule dropping series "y", real limits, real parser) by calling its per-scrape
// step scrapeAndReport(last, scrapeTime) with explicit scrape times; target removal is
// endOfRunStaleness. The scraper is a fake returning the outcome's body or error, the storage is
// teststorage's recording Appendable. After every step the newly committed samples are compared
// with a reference model written from the statement.

import (
	"context"
	"errors"
	"fmt"
	"io"
	"math"
	"net/http"
	"net/http/httptest"
	"net/url"
	"sort"
	"strings"
	"sync/atomic"
	"testing"
	"time"

	"github.com/prometheus/client_golang/prometheus"
	"github.com/prometheus/common/model"
	"github.com/prometheus/common/promslog"

	"github.com/prometheus/prometheus/config"
	"github.com/prometheus/prometheus/internal/verif/vx"
	"github.com/prometheus/prometheus/model/labels"
	"github.com/prometheus/prometheus/model/relabel"
	"github.com/prometheus/prometheus/model/value"
	"github.com/prometheus/prometheus/util/pool"
	"github.com/prometheus/prometheus/util/teststorage"
)

// ---------------------------------------------------------------------------------------------
// outcome alphabet
// ---------------------------------------------------------------------------------------------

type c37Line struct {
	Series string // metric name (+ labels) as exposed
	Key    string // series identity after relabeling ("" = dropped by the relabel rule)
	Val    float64
	TSOff  int64 // explicit timestamp = scrape time + TSOff (ms); 0 = no explicit timestamp
}

type c37Outcome struct {
	Name  string
	Kind  string // body, parse-error, sample-limit, label-limit, scrape-failure, read-failure, stop
	Lines func(step int) []c37Line
	Raw   func(step int) string // overrides the rendering of Lines (parse error)
	// failing bodies: series the loop has already read (and appended, before the rollback) when
	// the failure is detected
	ReadBeforeFailure []string
}

const (
	c37SampleLimit = 2 // bodies {x,z} and dup{x@,x@} sit exactly on the limit
	c37LabelLimit  = 4 // __name__, instance, job + one own label
	c37IntervalMs  = 15000
)

var c37T0 = time.Date(2020, 1, 1, 0, 0, 0, 0, time.UTC)

func c37Key(name string, kv ...string) string {
	return labels.FromStrings(append([]string{"__name__", name, "instance", "i:1", "job", "j"}, kv...)...).String()
}

func c37Outcomes() []c37Outcome {
	var out []c37Outcome
	v := func(step, k int) float64 { return float64(10*(step+1) + k) }
	ser := func(step int, name string, tsOff int64) c37Line {
		k := map[string]int{"x": 1, "y": 2, "z": 3, "w": 4, "v": 5}[name]
		key := c37Key(name)
		if name == "y" {
			key = "" // dropped by metric_relabel_configs
		}
		return c37Line{Series: name, Key: key, Val: v(step, k), TSOff: tsOff}
	}
	// simplest first: subsets of {x,y,z} without explicit timestamps
	for _, sub := range [][]string{{}, {"x"}, {"z"}, {"y"}, {"x", "z"}, {"x", "y"}, {"y", "z"}, {"x", "y", "z"}} {
		sub := sub
		out = append(out, c37Outcome{Name: "body{" + strings.Join(sub, ",") + "}", Kind: "body", Lines: func(step int) []c37Line {
			var ls []c37Line
			for _, s := range sub {
				ls = append(ls, ser(step, s, 0))
			}
			return ls
		}})
	}
	// x with an explicit timestamp
	for _, sub := range [][]string{{"x"}, {"x", "z"}, {"x", "y"}, {"x", "y", "z"}} {
		sub := sub
		out = append(out, c37Outcome{Name: "body{" + strings.Join(sub, ",") + "}@x", Kind: "body", Lines: func(step int) []c37Line {
			var ls []c37Line
			for _, s := range sub {
				off := int64(0)
				if s == "x" {
					off = -7
				}
				ls = append(ls, ser(step, s, off))
			}
			return ls
		}})
	}
	// duplicate line of x (no timestamps): one sample per series and timestamp can be stored
	out = append(out, c37Outcome{Name: "dup{x,x,z}", Kind: "body", Lines: func(step int) []c37Line {
		a, b := ser(step, "x", 0), ser(step, "x", 0)
		b.Val += 0.5
		return []c37Line{a, b, ser(step, "z", 0)}
	}})
	// duplicate line of x with two different explicit timestamps: two samples
	out = append(out, c37Outcome{Name: "dup{x@,x@}", Kind: "body", Lines: func(step int) []c37Line {
		a, b := ser(step, "x", -7), ser(step, "x", -3)
		b.Val += 0.5
		return []c37Line{a, b}
	}})
	out = append(out, c37Outcome{Name: "parse-error{x,!,z}", Kind: "parse-error", ReadBeforeFailure: []string{c37Key("x")}, Raw: func(step int) string {
		return fmt.Sprintf("x %g\n!!! not a sample\nz %g\n", v(step, 1), v(step, 3))
	}})
	out = append(out, c37Outcome{Name: "sample-limit{x,z,w,v}", Kind: "sample-limit", ReadBeforeFailure: []string{c37Key("x"), c37Key("z")}, Lines: func(step int) []c37Line {
		return []c37Line{ser(step, "x", 0), ser(step, "z", 0), ser(step, "w", 0), ser(step, "v", 0)}
	}})
	out = append(out, c37Outcome{Name: "label-limit{z,q{a,b}}", Kind: "label-limit", ReadBeforeFailure: []string{c37Key("z")}, Lines: func(step int) []c37Line {
		return []c37Line{ser(step, "z", 0), {Series: `q{a="1",b="2"}`, Key: c37Key("q", "a", "1", "b", "2"), Val: v(step, 6)}}
	}})
	out = append(out, c37Outcome{Name: "scrape-failure", Kind: "scrape-failure"})
	// the request succeeds but READING the body fails after part of it arrived (reset/timeout
	// mid-body, body_size_limit, broken gzip): a failed scrape, nothing of the partial body counts
	out = append(out, c37Outcome{Name: "read-failure{x,z|}", Kind: "read-failure", Raw: func(step int) string {
		return fmt.Sprintf("x %g\nz %g\n", v(step, 1), v(step, 3)) // complete lines only
	}})
	out = append(out, c37Outcome{Name: "read-failure{x,z,w..}", Kind: "read-failure", Raw: func(step int) string {
		return fmt.Sprintf("x %g\nz %g\nw", v(step, 1), v(step, 3)) // ends inside a line
	}})
	out = append(out, c37Outcome{Name: "stop", Kind: "stop"})
	return out
}

func (o *c37Outcome) body(step int, scrapeMs int64) string {
	if o.Raw != nil {
		return o.Raw(step)
	}
	var sb strings.Builder
	for _, l := range o.Lines(step) {
		if l.TSOff != 0 {
			fmt.Fprintf(&sb, "%s %g %d\n", l.Series, l.Val, scrapeMs+l.TSOff)
		} else {
			fmt.Fprintf(&sb, "%s %g\n", l.Series, l.Val)
		}
	}
	return sb.String()
}

// ---------------------------------------------------------------------------------------------
// reference model (from the statement)
// ---------------------------------------------------------------------------------------------

type c37Model struct {
	trackTS bool
	// series that must be marked stale when they stop being exposed: stored by the most recent
	// scrape cycle without explicit timestamp (or any, with timestamp staleness tracking)
	tracked map[string]bool
	// series exposed by the previous scrape when that one succeeded (for scrape_series_added)
	prevExposed map[string]bool
	prevOK      bool
	everSeen    map[string]bool
	scrapes     int // scrape cycles so far
	// shadow of the implementation's staleness tracking, used ONLY to recognise the known
	// deviations (see c37Dev) so that they are reported under their own signatures and the
	// exploration can continue past them; the expectation itself never depends on it
	implPrev map[string]bool
}

// c37Dev is one known deviation of the implementation from the statement at this step.
type c37Dev struct {
	Marker  string // the staleness marker concerned
	Missing bool   // true: demanded by the statement but not written; false: written but not demanded
	Sig     string
}

type c37Expect struct {
	Samples []string // exact multiset of non-report samples "key @t =v"
	// report series
	Up                         float64
	Scraped, PostRelabel       float64 // -1: not checked
	SeriesAddedLo, SeriesAddHi float64
	Stop                       bool
	NoScrapeYet                bool
	Known                      []c37Dev
}

func c37S(key string, t int64, v float64) string {
	if value.IsStaleNaN(v) {
		return fmt.Sprintf("%s @%d =STALE", key, t)
	}
	return fmt.Sprintf("%s @%d =%g", key, t, v)
}

var c37Stale = math.Float64frombits(value.StaleNaN)

func (m *c37Model) step(o *c37Outcome, step int, scrapeMs int64) c37Expect {
	e := c37Expect{Scraped: -1, PostRelabel: -1}
	trackedBefore := map[string]bool{}
	for k := range m.tracked {
		trackedBefore[k] = true
	}
	staleAll := func(t int64) {
		for _, k := range vx.SortedKeys(m.tracked) {
			e.Samples = append(e.Samples, c37S(k, t, c37Stale))
		}
		m.tracked = map[string]bool{}
	}
	switch o.Kind {
	case "body":
		m.scrapes++
		lines := o.Lines(step)
		exposed := map[string]bool{}
		newTracked := map[string]bool{}
		stored := map[string]bool{} // (series, timestamp) already stored in this scrape
		post := 0
		for _, l := range lines {
			if l.Key == "" {
				continue // dropped by relabeling
			}
			post++
			exposed[l.Key] = true
			t := scrapeMs
			if l.TSOff != 0 {
				t = scrapeMs + l.TSOff
			}
			id := fmt.Sprintf("%s@%d", l.Key, t)
			if stored[id] {
				continue // one sample per series and timestamp
			}
			stored[id] = true
			e.Samples = append(e.Samples, c37S(l.Key, t, l.Val))
			if l.TSOff == 0 || m.trackTS {
				newTracked[l.Key] = true
			}
		}
		for _, k := range vx.SortedKeys(m.tracked) {
			if !exposed[k] {
				e.Samples = append(e.Samples, c37S(k, scrapeMs, c37Stale))
			}
		}
		m.tracked = newTracked
		e.Up, e.Scraped, e.PostRelabel = 1, float64(len(lines)), float64(post)
		// scrape_series_added is documented as approximate ("new" is relative to the loop's
		// series cache): at least the never-seen series, at most those not exposed by the
		// previous scrape when that one succeeded with a non-empty body, else all exposed.
		lo, hi := 0, 0
		for k := range exposed {
			if !m.everSeen[k] {
				lo++
			}
			if !(m.prevOK && len(m.prevExposed) > 0 && m.prevExposed[k]) {
				hi++
			}
		}
		e.SeriesAddedLo, e.SeriesAddHi = float64(lo), float64(hi)
		if m.everSeen == nil {
			m.everSeen = map[string]bool{}
		}
		for k := range exposed {
			m.everSeen[k] = true
		}
		m.prevExposed, m.prevOK = exposed, true
	case "parse-error", "sample-limit", "label-limit", "scrape-failure", "read-failure":
		m.scrapes++
		staleAll(scrapeMs)
		e.Up = 0
		e.SeriesAddedLo, e.SeriesAddHi = 0, 4
		switch o.Kind {
		case "scrape-failure", "read-failure":
			e.Scraped, e.PostRelabel, e.SeriesAddHi = 0, 0, 0
		case "sample-limit":
			// documented: parsing continues so that the totals are still reported
			e.Scraped, e.PostRelabel = float64(len(o.Lines(step))), float64(len(o.Lines(step)))
		}
		if m.everSeen == nil {
			m.everSeen = map[string]bool{}
		}
		for _, k := range o.ReadBeforeFailure {
			m.everSeen[k] = true // may or may not stay in the loop's cache
		}
		m.prevOK = false
	case "stop":
		staleAll(-1) // time of the marker: when the next scrape would have happened (not controlled here)
		e.Stop = m.scrapes > 0 // a target removed before its first scrape leaves nothing to mark
		e.NoScrapeYet = m.scrapes == 0
	}
	// known deviations (shadow): the implementation writes markers for implPrev minus the series it
	// tracked in this cycle, where a failing body's series read before the failure count as tracked
	// and series exposed with an explicit timestamp do not (unless timestamp tracking is on)
	implCur := map[string]bool{}
	withTS := map[string]bool{}
	switch o.Kind {
	case "body":
		for _, l := range o.Lines(step) {
			if l.Key == "" {
				continue
			}
			if l.TSOff == 0 || m.trackTS {
				implCur[l.Key] = true
			} else {
				withTS[l.Key] = true
			}
		}
	default:
		for _, k := range o.ReadBeforeFailure {
			implCur[k] = true
		}
	}
	mt := scrapeMs
	if o.Kind == "stop" {
		mt = -1
	}
	want := map[string]bool{}
	for _, x := range e.Samples {
		want[x] = true
	}
	if !(o.Kind == "stop" && m.scrapes == 0) {
		for _, k := range vx.SortedKeys(m.implPrev) {
			mk := c37S(k, mt, c37Stale)
			if implCur[k] || want[mk] {
				continue
			}
			d := c37Dev{Marker: mk}
			switch {
			case withTS[k]:
				d.Sig = "staleness-marker-unexpected-series-now-has-explicit-timestamp"
			case !trackedBefore[k]:
				d.Sig = "staleness-marker-for-series-of-rolled-back-failed-body"
			default:
				continue
			}
			e.Known = append(e.Known, d)
		}
		for _, k := range o.ReadBeforeFailure {
			if mk := c37S(k, mt, c37Stale); want[mk] && m.implPrev[k] {
				e.Known = append(e.Known, c37Dev{Marker: mk, Missing: true, Sig: "staleness-marker-missing-after-partially-read-failed-body"})
			}
		}
	}
	m.implPrev = implCur
	sort.Strings(e.Samples)
	return e
}

// ---------------------------------------------------------------------------------------------
// the real system
// ---------------------------------------------------------------------------------------------

type c37Scraper struct {
	body    string
	err     error // scrape() fails
	readErr error // readResponse() fails after having written body
}

func (s *c37Scraper) scrape(context.Context) (*http.Response, error) { return nil, s.err }
func (s *c37Scraper) readResponse(_ context.Context, _ *http.Response, w io.Writer) (string, error) {
	_, err := io.WriteString(w, s.body)
	if s.readErr != nil {
		return "", s.readErr // like targetScraper: no content type on error
	}
	return "text/plain; version=0.0.4", err
}
func (*c37Scraper) Report(time.Time, time.Duration, error)    {}
func (*c37Scraper) offset(time.Duration, uint64) time.Duration { return 0 }

type c37Cfg struct {
	V2      bool `json:"appender_v2"`
	TrackTS bool `json:"track_timestamps_staleness"`
	// HTTP: the real targetScraper against an httptest server with body_size_limit instead of the
	// fake scraper (read failures = body larger than the limit, scrape failure = HTTP 500)
	HTTP bool `json:"real_http_scraper"`
}

func (c c37Cfg) String() string {
	return fmt.Sprintf("appenderV2=%v track_timestamps_staleness=%v real-http-scraper=%v", c.V2, c.TrackTS, c.HTTP)
}

const c37BodySizeLimit = 96

type c37Sys struct {
	sl      *scrapeLoop
	srv     *httptest.Server
	srvBody atomic.Pointer[string] // nil: answer 500
	scraper *c37Scraper
	app     *teststorage.Appendable
	seen    int
	last    time.Time
	cancel  context.CancelFunc
}

func c37New(cfg c37Cfg) (*c37Sys, error) {
	metrics, err := newScrapeMetrics(prometheus.NewRegistry())
	if err != nil {
		return nil, err
	}
	rc := &relabel.Config{
		SourceLabels: model.LabelNames{"__name__"}, Separator: ";", Regex: relabel.MustNewRegexp("y"),
		Action: relabel.Drop, Replacement: "$1", NameValidationScheme: model.UTF8Validation,
	}
	if err := rc.Validate(model.UTF8Validation); err != nil {
		return nil, err
	}
	scfg := &config.ScrapeConfig{
		JobName: "j", ScrapeInterval: model.Duration(c37IntervalMs * time.Millisecond), ScrapeTimeout: model.Duration(10 * time.Second),
		HonorTimestamps: true, TrackTimestampsStaleness: cfg.TrackTS,
		SampleLimit: c37SampleLimit, LabelLimit: c37LabelLimit,
		// the content type is unknown when reading the response fails
		ScrapeFallbackProtocol: config.PrometheusText0_0_4,
		MetricRelabelConfigs:       []*relabel.Config{rc},
		MetricNameValidationScheme: model.UTF8Validation,
	}
	app := teststorage.NewAppendable()
	ctx, cancel := context.WithCancel(context.Background())
	sp := &scrapePool{
		ctx: ctx, cancel: cancel, logger: promslog.NewNopLogger(), config: scfg, options: &Options{},
		symbolTable: labels.NewSymbolTable(), metrics: metrics,
		buffers: pool.New(1e3, 1e6, 3, func(sz int) any { return make([]byte, 0, sz) }),
	}
	if cfg.V2 {
		sp.appendableV2 = app
	} else {
		sp.appendable = app
	}
	sys := &c37Sys{app: app, cancel: cancel, scraper: &c37Scraper{}}
	var scr scraper = sys.scraper
	target := NewTarget(labels.FromStrings("instance", "i:1", "job", "j"), scfg, nil, nil)
	if cfg.HTTP {
		sys.srv = httptest.NewServer(http.HandlerFunc(func(w http.ResponseWriter, _ *http.Request) {
			b := sys.srvBody.Load()
			if b == nil {
				http.Error(w, "down", http.StatusInternalServerError)
				return
			}
			w.Header().Set("Content-Type", "text/plain; version=0.0.4")
			_, _ = io.WriteString(w, *b)
		}))
		u, err := url.Parse(sys.srv.URL)
		if err != nil {
			return nil, err
		}
		target = NewTarget(labels.FromStrings("instance", "i:1", "job", "j", model.SchemeLabel, u.Scheme, model.AddressLabel, u.Host, model.MetricsPathLabel, "/metrics"), scfg, nil, nil)
		scr = &targetScraper{Target: target, client: sys.srv.Client(), timeout: 10 * time.Second, bodySizeLimit: c37BodySizeLimit,
			acceptHeader: "text/plain;version=0.0.4", acceptEncodingHeader: "identity", metrics: metrics}
	}
	sys.sl = newScrapeLoop(scrapeLoopOptions{
		target: target, scraper: scr, cache: newScrapeCache(metrics),
		interval: c37IntervalMs * time.Millisecond, timeout: 10 * time.Second, sp: sp,
	})
	return sys, nil
}

func (s *c37Sys) close() {
	s.cancel()
	if s.srv != nil {
		s.srv.Close()
	}
}

// serve sets what the target answers to the next scrape (both scraper kinds).
func (s *c37Sys) serve(o *c37Outcome, step int, scrapeMs int64) {
	s.scraper.body, s.scraper.err, s.scraper.readErr = "", nil, nil
	s.srvBody.Store(nil)
	switch o.Kind {
	case "scrape-failure":
		s.scraper.err = errors.New("connection refused") // HTTP: status 500
	case "read-failure":
		body := o.body(step, scrapeMs)
		s.scraper.body, s.scraper.readErr = body, errors.New("unexpected EOF")
		// HTTP: the same lines followed by more than body_size_limit allows
		big := body
		if !strings.HasSuffix(big, "\n") {
			big += "_tail 1\n"
		}
		for i := 0; len(big) <= c37BodySizeLimit+20; i++ {
			big += fmt.Sprintf("padding_series_%d 1\n", i)
		}
		s.srvBody.Store(&big)
	default:
		body := o.body(step, scrapeMs)
		if len(body) >= c37BodySizeLimit {
			panic("c37: regular body reaches body_size_limit: " + body)
		}
		s.scraper.body = body
		s.srvBody.Store(&body)
	}
}

var c37ReportNames = []string{"up", "scrape_duration_seconds", "scrape_samples_scraped", "scrape_samples_post_metric_relabeling", "scrape_series_added"}

type c37Obs struct {
	Samples []string           // non-report samples
	Report  map[string]float64 // report series values
	ReportT map[string]int64
	Extra   []string // anything unexpected about the report series
}

// apply performs one step on the real scrape loop and returns what storage received.
func (s *c37Sys) apply(o *c37Outcome, step int, scrapeMs int64) c37Obs {
	switch o.Kind {
	case "stop":
		tk := time.NewTicker(time.Millisecond)
		s.sl.endOfRunStaleness(s.last, tk, time.Millisecond)
		tk.Stop()
	default:
		s.serve(o, step, scrapeMs)
		s.last = s.sl.scrapeAndReport(s.last, time.UnixMilli(scrapeMs), nil)
	}
	all := s.app.ResultSamples()
	obs := c37Obs{Report: map[string]float64{}, ReportT: map[string]int64{}}
	for _, smp := range all[s.seen:] {
		name := smp.L.Get("__name__")
		isReport := false
		for _, rn := range c37ReportNames {
			isReport = isReport || rn == name
		}
		if smp.H != nil || smp.FH != nil {
			obs.Extra = append(obs.Extra, "histogram sample "+smp.L.String())
			continue
		}
		if isReport {
			if smp.L.String() != c37Key(name) {
				obs.Extra = append(obs.Extra, "report series with labels "+smp.L.String())
			}
			if _, dup := obs.Report[name]; dup {
				obs.Extra = append(obs.Extra, "report series "+name+" stored twice")
			}
			obs.Report[name], obs.ReportT[name] = smp.V, smp.T
			continue
		}
		obs.Samples = append(obs.Samples, c37S(smp.L.String(), smp.T, smp.V))
	}
	s.seen = len(all)
	sort.Strings(obs.Samples)
	return obs
}

// c37Check compares one step's observation with the model's expectation.
func c37Check(e c37Expect, obs c37Obs, scrapeMs int64) (sig, msg string) {
	if len(obs.Extra) > 0 {
		return "report-series-malformed", strings.Join(obs.Extra, "; ")
	}
	got := obs.Samples
	if e.Stop {
		// the time of end-of-run markers is the loop's own clock: all markers share it
		var ts int64 = -1
		var norm []string
		for _, g := range got {
			at := strings.LastIndex(g, " @")
			eq := strings.LastIndex(g, " =")
			var t int64
			fmt.Sscanf(g[at+2:eq], "%d", &t)
			if ts == -1 {
				ts = t
			} else if t != ts {
				return "stop-markers-different-times", fmt.Sprintf("end-of-run staleness markers carry different timestamps: %v", got)
			}
			norm = append(norm, g[:at]+" @-1"+g[eq:])
		}
		got = norm
		for _, rn := range c37ReportNames {
			v, ok := obs.Report[rn]
			if !ok || !value.IsStaleNaN(v) {
				return "stop-report-series-not-stale", fmt.Sprintf("after target removal report series %s must get a staleness marker; got %v (present=%v)", rn, v, ok)
			}
			if ts != -1 && obs.ReportT[rn] != ts {
				return "stop-markers-different-times", fmt.Sprintf("report series %s marked stale at %d, series at %d", rn, obs.ReportT[rn], ts)
			}
		}
	}
	if strings.Join(got, "\n") != strings.Join(e.Samples, "\n") && len(e.Known) > 0 {
		// does the observation equal the statement's expectation modified by exactly the known
		// deviations that apply here? then report those (soft) and carry on
		drop, add := map[string]bool{}, []string{}
		for _, d := range e.Known {
			if d.Missing {
				drop[d.Marker] = true
			} else {
				add = append(add, d.Marker)
			}
		}
		var alt []string
		for _, x := range e.Samples {
			if !drop[x] {
				alt = append(alt, x)
			}
		}
		alt = append(alt, add...)
		sort.Strings(alt)
		if strings.Join(got, "\n") == strings.Join(alt, "\n") {
			var sigs []string
			for _, d := range e.Known {
				sigs = append(sigs, d.Sig)
			}
			return "SOFT:" + strings.Join(sigs, ","), fmt.Sprintf("storage received\n  %s\nexpected\n  %s", strings.Join(got, "\n  "), strings.Join(e.Samples, "\n  "))
		}
	}
	if strings.Join(got, "\n") != strings.Join(e.Samples, "\n") {
		sig = "stored-samples-differ"
		gs, es := map[string]bool{}, map[string]bool{}
		for _, g := range got {
			gs[g] = true
		}
		for _, x := range e.Samples {
			es[x] = true
		}
		var missing, extra []string
		for _, x := range e.Samples {
			if !gs[x] {
				missing = append(missing, x)
			}
		}
		for _, g := range got {
			if !es[g] {
				extra = append(extra, g)
			}
		}
		onlyStale := func(l []string) bool {
			for _, x := range l {
				if !strings.HasSuffix(x, "=STALE") {
					return false
				}
			}
			return true
		}
		switch {
		case len(missing) > 0 && len(extra) == 0 && onlyStale(missing):
			sig = "staleness-marker-missing"
		case len(extra) > 0 && len(missing) == 0 && onlyStale(extra):
			sig = "staleness-marker-unexpected"
		case len(missing) > 0 && len(extra) == 0:
			sig = "exposed-sample-missing"
		case len(extra) > 0 && len(missing) == 0:
			sig = "sample-stored-that-must-not-be"
		}
		return sig, fmt.Sprintf("storage received\n  %s\nexpected\n  %s", strings.Join(got, "\n  "), strings.Join(e.Samples, "\n  "))
	}
	if e.Stop {
		return "", ""
	}
	if e.NoScrapeYet {
		if len(obs.Report) > 0 {
			return "report-series-without-scrape", fmt.Sprintf("report series stored although the target was never scraped: %v", obs.Report)
		}
		return "", ""
	}
	for _, rn := range c37ReportNames {
		v, ok := obs.Report[rn]
		if !ok {
			return "report-series-missing", fmt.Sprintf("report series %s not stored for the scrape at %d", rn, scrapeMs)
		}
		if obs.ReportT[rn] != scrapeMs {
			return "report-series-wrong-time", fmt.Sprintf("report series %s stored at %d, scrape time %d", rn, obs.ReportT[rn], scrapeMs)
		}
		bad := false
		switch rn {
		case "up":
			bad = v != e.Up
		case "scrape_samples_scraped":
			bad = e.Scraped >= 0 && v != e.Scraped
		case "scrape_samples_post_metric_relabeling":
			bad = e.PostRelabel >= 0 && v != e.PostRelabel
		case "scrape_series_added":
			bad = v < e.SeriesAddedLo || v > e.SeriesAddHi
		case "scrape_duration_seconds":
			bad = !(v >= 0) // wall-clock duration: only sanity
		}
		if bad {
			return "report-value-wrong/" + rn, fmt.Sprintf("report series %s = %v; expected up=%v scraped=%v post_relabel=%v series_added in [%v,%v] (-1 = not checked)", rn, v, e.Up, e.Scraped, e.PostRelabel, e.SeriesAddedLo, e.SeriesAddHi)
		}
	}
	return "", ""
}

// ---------------------------------------------------------------------------------------------
// driver
// ---------------------------------------------------------------------------------------------

type c37Replay struct {
	Cfg     c37Cfg   `json:"config"`
	History []string `json:"history"`
}

func c37RunHistory(r *vx.Run, cfg c37Cfg, alpha []c37Outcome, hist []int, outcomes *atomic.Int64) {
	sys, err := c37New(cfg)
	if err != nil {
		r.T.Fatalf("c37: cannot build scrape loop: %v", err)
	}
	defer sys.close()
	m := &c37Model{trackTS: cfg.TrackTS, tracked: map[string]bool{}}
	var names []string
	for step, oi := range hist {
		o := &alpha[oi]
		names = append(names, o.Name)
		scrapeMs := c37T0.UnixMilli() + int64(step)*c37IntervalMs
		exp := m.step(o, step, scrapeMs)
		var obs c37Obs
		if p, stack := vx.Guard(func() { obs = sys.apply(o, step, scrapeMs) }); p != nil {
			r.Violation("scrape-loop-panic", fmt.Sprintf("panic %v in history %v (%s)\n%s", p, names, cfg, stack), c37Replay{cfg, names})
			return
		}
		sig, msg := c37Check(exp, obs, scrapeMs)
		if strings.HasPrefix(sig, "SOFT:") {
			// known deviation(s): report and continue with the rest of the history; the report
			// series of this step are still checked
			for _, sg := range strings.Split(strings.TrimPrefix(sig, "SOFT:"), ",") {
				r.Violation(sg, fmt.Sprintf("step %d (%s) of history %v, %s, scrape time %d:\n%s", step+1, o.Name, names, cfg, scrapeMs, msg), c37Replay{cfg, names})
			}
			exp2 := exp
			exp2.Samples = obs.Samples
			if exp.Stop {
				exp2.Samples = nil
				for _, g := range obs.Samples {
					at, eq := strings.LastIndex(g, " @"), strings.LastIndex(g, " =")
					exp2.Samples = append(exp2.Samples, g[:at]+" @-1"+g[eq:])
				}
			}
			exp2.Known = nil
			sig, msg = c37Check(exp2, obs, scrapeMs)
		}
		if sig != "" {
			r.Violation(sig, fmt.Sprintf("step %d (%s) of history %v, %s, scrape time %d:\n%s", step+1, o.Name, names, cfg, scrapeMs, msg), c37Replay{cfg, names})
			return
		}
		r.Distinct("distinct_outcomes", strings.Join(obs.Samples, "|")+fmt.Sprint(obs.Report["up"], obs.Report["scrape_series_added"]))
		if len(obs.Samples) > 0 {
			r.Distinct("distinct_nontrivial", fmt.Sprintf("%v|%s", names, cfg))
		}
		if o.Kind == "stop" {
			break
		}
	}
	outcomes.Add(1)
}

func TestVerifC37(t *testing.T) {
	r := vx.Start(t, "C37", "exploration")
	defer r.Finish()
	alpha := c37Outcomes()
	cfgs := []c37Cfg{{false, false, false}, {true, false, false}, {false, true, false}, {true, true, false},
		// real targetScraper + httptest server, one history element shorter
		{false, false, true}, {true, true, true}}
	var done atomic.Int64

	if r.Replay != "" {
		var rp c37Replay
		r.LoadReplay(&rp)
		var hist []int
		for _, n := range rp.History {
			for i := range alpha {
				if alpha[i].Name == n {
					hist = append(hist, i)
				}
			}
		}
		c37RunHistory(r, rp.Cfg, alpha, hist, &done)
		return
	}

	// self-test of the oracle: a lost staleness marker, a sample stored by a failed scrape and a
	// wrong "up" must be rejected; the model's own expectation must be accepted.
	{
		m := &c37Model{tracked: map[string]bool{}}
		t0 := c37T0.UnixMilli()
		m.step(&alpha[4], 0, t0) // body{x,z}
		e := m.step(&alpha[1], 1, t0+c37IntervalMs) // body{x}: z vanished
		okObs := c37Obs{Samples: append([]string{}, e.Samples...), Report: map[string]float64{"up": 1, "scrape_duration_seconds": 0.1, "scrape_samples_scraped": 1, "scrape_samples_post_metric_relabeling": 1, "scrape_series_added": 0}, ReportT: map[string]int64{}}
		for _, rn := range c37ReportNames {
			okObs.ReportT[rn] = t0 + c37IntervalMs
		}
		if sig, msg := c37Check(e, okObs, t0+c37IntervalMs); sig != "" {
			t.Fatalf("self-test: correct observation rejected: %s %s", sig, msg)
		}
		bad := okObs
		bad.Samples = nil
		for _, s := range okObs.Samples {
			if !strings.HasSuffix(s, "=STALE") {
				bad.Samples = append(bad.Samples, s)
			}
		}
		if sig, _ := c37Check(e, bad, t0+c37IntervalMs); sig != "staleness-marker-missing" {
			t.Fatalf("self-test: lost staleness marker not rejected (%q)", sig)
		}
		bad = okObs
		bad.Samples = append(append([]string{}, okObs.Samples...), c37S(c37Key("w"), t0+c37IntervalMs, 1))
		sort.Strings(bad.Samples)
		if sig, _ := c37Check(e, bad, t0+c37IntervalMs); sig != "sample-stored-that-must-not-be" {
			t.Fatalf("self-test: extra sample not rejected (%q)", sig)
		}
		bad = okObs
		bad.Report = map[string]float64{"up": 0, "scrape_duration_seconds": 0.1, "scrape_samples_scraped": 1, "scrape_samples_post_metric_relabeling": 1, "scrape_series_added": 0}
		if sig, _ := c37Check(e, bad, t0+c37IntervalMs); sig != "report-value-wrong/up" {
			t.Fatalf("self-test: wrong up not rejected (%q)", sig)
		}
	}

	depth := vx.Pick(r, 3, 4)
	stopIdx := len(alpha) - 1
	var skipped atomic.Int64
	for _, cfg := range cfgs {
		cfg := cfg
		d := depth
		if cfg.HTTP {
			d = depth - 1
		}
		total := vx.SeqCount(len(alpha), 1, d)
		r.ParallelN(total, func(i int64) {
			hist := vx.SeqAt(len(alpha), 1, d, i, nil)
			// stop is terminal: histories continuing after it are the same as their prefix
			for k, h := range hist {
				if h == stopIdx && k != len(hist)-1 {
					skipped.Add(1)
					return
				}
			}
			c37RunHistory(r, cfg, alpha, hist, &done)
			n := done.Load()
			r.SampleAt(n, func() any {
				var names []string
				for _, h := range hist {
					names = append(names, alpha[h].Name)
				}
				return map[string]any{"config": cfg.String(), "history": names}
			})
		})
	}
	r.Count("evaluations", int(done.Load()))
	r.Count("histories_after_stop_skipped", int(skipped.Load()))
	r.Set("depth", depth)
	r.Set("alphabet", len(alpha))
	var an []string
	for _, a := range alpha {
		an = append(an, a.Name)
	}
	r.Set("outcomes", an)
	r.Set("rule", fmt.Sprintf("every history of 1..%d per-scrape outcomes over the %d-symbol alphabet (stop only as last element), for appender V1/V2 x track_timestamps_staleness off/on with the fake scraper, and of 1..depth-1 outcomes through the real targetScraper + httptest server with body_size_limit (V1/tracking off, V2/tracking on); storage contents compared with the model after every step; a history is non-trivial when a step stores at least one non-report sample (distinct_nontrivial counts such (history, config) pairs; distinct_outcomes counts distinct per-step storage contents)", depth, len(alpha)))
	r.Assume("teststorage.Appendable records what the scrape loop commits; scrape times are passed explicitly (T0 + k*15s); the time of end-of-run staleness markers and scrape_duration_seconds come from the loop's own clock and are only checked for consistency/sanity")
	r.Assume("scrape_series_added is documented as approximate: exact after a successful scrape, only bounded after a failed one")
	if !r.Expired() && done.Load() == 0 {
		t.Fatal("vacuous run")
	}
}
