package histogram_test

// C31: native histogram arithmetic preserves bucket semantics.
//
// Engine E1 (input enumeration): every shape of histmodel.Shapes() (quick) / ShapesAll() (thorough)
// through Compact / ReduceResolution / CopyToSchema / ToFloat / bucket iterators, every ORDERED PAIR
// of shapes through Add / Sub / KahanAdd and DetectReset, every pair again as (prev, prev+other)
// for DetectReset, and (thorough) every ordered triple of the core shapes through chained
// Add / KahanAdd. The oracle is the bucket-map model of lib/histmodel written from the statement.

import (
	"fmt"
	"math"
	"sync/atomic"
	"testing"

	"github.com/prometheus/prometheus/internal/verif/histmodel"
	"github.com/prometheus/prometheus/internal/verif/vx"
	"github.com/prometheus/prometheus/model/histogram"
)

type c31Replay struct {
	Op    string `json:"op"`
	A     string `json:"a"`
	B     string `json:"b,omitempty"`
	C     string `json:"c,omitempty"`
	Param int    `json:"param,omitempty"`
}

const c31Tol = 1e-12

func c31tol(ss ...histmodel.Shape) float64 {
	for _, s := range ss {
		if !s.Exact {
			return c31Tol
		}
	}
	return 0
}

func c31Validate(fh *histogram.FloatHistogram) error {
	// Validate() also rejects negative bucket counts, which Sub may legitimately produce; callers
	// only use it on results that must be non-negative.
	return fh.Validate()
}

// c31Unary runs every single-histogram operation on one shape.
func c31Unary(r *vx.Run, s histmodel.Shape) {
	rp := func(op string, p int) c31Replay { return c31Replay{Op: op, A: s.Name, Param: p} }
	// --- bucket iterators agree with the model (index, count, bounds 2^(idx*2^-schema)) ---
	{
		m := s.Model
		got := map[int32]float64{}
		it := s.Float.PositiveBucketIterator()
		for it.Next() {
			b := it.At()
			if b.Count != 0 {
				got[b.Index] += b.Count
			}
			if !m.Custom {
				up, lo := histmodel.Bound(m.Schema, b.Index), histmodel.Bound(m.Schema, b.Index-1)
				if math.Abs(b.Upper-up) > 4e-16*up || math.Abs(b.Lower-lo) > 4e-16*lo {
					r.Violation("iterator-bucket-bounds", fmt.Sprintf("%s: positive bucket %d has bounds (%g,%g], want (%g,%g]", s.Name, b.Index, b.Lower, b.Upper, lo, up), rp("unary", 0))
				}
			} else {
				up := math.Inf(1)
				if int(b.Index) < len(m.Bounds) {
					up = m.Bounds[b.Index]
				}
				if b.Upper != up {
					r.Violation("iterator-bucket-bounds", fmt.Sprintf("%s: custom bucket %d has upper bound %g, want %g", s.Name, b.Index, b.Upper, up), rp("unary", 0))
				}
			}
		}
		for k, v := range m.Pos {
			if got[k] != v {
				r.Violation("iterator-bucket-count", fmt.Sprintf("%s: positive bucket %d iterates as %g, want %g", s.Name, k, got[k], v), rp("unary", 0))
			}
		}
		if len(got) != len(m.Pos) {
			r.Violation("iterator-bucket-count", fmt.Sprintf("%s: iterator yields %d populated positive buckets, want %d", s.Name, len(got), len(m.Pos)), rp("unary", 0))
		}
		// AllBucketIterator: ascending, total preserved
		var total float64
		last := math.Inf(-1)
		all := s.Float.AllBucketIterator()
		for all.Next() {
			b := all.At()
			total += b.Count
			if b.Count != 0 {
				if b.Upper < last {
					r.Violation("iterator-all-order", fmt.Sprintf("%s: AllBucketIterator not ascending at %v", s.Name, b), rp("unary", 0))
				}
				last = b.Upper
			}
		}
		want := m.ZeroCount
		for _, v := range m.Pos {
			want += v
		}
		for _, v := range m.Neg {
			want += v
		}
		if math.Abs(total-want) > c31Tol*math.Max(1, want) {
			r.Violation("iterator-all-total", fmt.Sprintf("%s: AllBucketIterator total %g, want %g", s.Name, total, want), rp("unary", 0))
		}
	}
	// --- ToFloat preserves every count ---
	if s.Int != nil {
		junk := &histogram.FloatHistogram{Schema: 3, ZeroThreshold: 9, ZeroCount: 9, Count: 9, Sum: 9,
			PositiveSpans: []histogram.Span{{Offset: 7, Length: 2}}, PositiveBuckets: []float64{9, 9},
			NegativeSpans: []histogram.Span{{Offset: 7, Length: 2}}, NegativeBuckets: []float64{9, 9}, CustomValues: []float64{1}}
		for k, target := range []*histogram.FloatHistogram{nil, junk} {
			in := s.Int.Copy()
			var fh *histogram.FloatHistogram
			if p, st := vx.Guard(func() { fh = in.ToFloat(target) }); p != nil {
				r.Violation("tofloat-panic", fmt.Sprintf("%s: ToFloat panicked: %v\n%s", s.Name, p, st), rp("tofloat", k))
				continue
			}
			got := histmodel.FromFloat(fh)
			if d := histmodel.Diff(s.Model, got, 0); d != "" || got.Hint != s.Model.Hint {
				r.Violation("tofloat-changes-histogram", fmt.Sprintf("%s (reused target=%v): %s; hint %d vs %d\nmodel %v\ngot   %v", s.Name, k == 1, d, s.Model.Hint, got.Hint, s.Model, got), rp("tofloat", k))
			}
			if err := fh.Validate(); err != nil {
				r.Violation("tofloat-invalid-result", fmt.Sprintf("%s (reused target=%v): result of ToFloat on a valid histogram does not validate: %v", s.Name, k == 1, err), rp("tofloat", k))
			}
			if !in.Equals(s.Int) {
				r.Violation("tofloat-mutates-receiver", s.Name, rp("tofloat", k))
			}
			r.Count("evaluations", 1)
		}
	}
	// --- Compact never changes a bucket total ---
	for n := 0; n <= 3; n++ {
		fh := s.Float.Copy()
		if p, st := vx.Guard(func() { fh.Compact(n) }); p != nil {
			r.Violation("compact-panic", fmt.Sprintf("%s: FloatHistogram.Compact(%d) panicked: %v\n%s", s.Name, n, p, st), rp("compact-float", n))
		} else {
			got := histmodel.FromFloat(fh)
			if d := histmodel.Diff(s.Model, got, 0); d != "" {
				r.Violation("compact-changes-bucket", fmt.Sprintf("%s: FloatHistogram.Compact(%d): %s\nbefore %v\nafter  %v", s.Name, n, d, s.Model, got), rp("compact-float", n))
			} else if err := c31Validate(fh); err != nil {
				r.Violation("compact-invalid-result", fmt.Sprintf("%s: FloatHistogram.Compact(%d): %v", s.Name, n, err), rp("compact-float", n))
			}
			r.Distinct("distinct_outcomes", fmt.Sprintf("compact %v %v", fh.PositiveSpans, fh.NegativeSpans))
		}
		r.Count("evaluations", 1)
		if s.Int != nil {
			ih := s.Int.Copy()
			if p, st := vx.Guard(func() { ih.Compact(n) }); p != nil {
				r.Violation("compact-panic", fmt.Sprintf("%s: Histogram.Compact(%d) panicked: %v\n%s", s.Name, n, p, st), rp("compact-int", n))
			} else {
				got := histmodel.FromInt(ih)
				if d := histmodel.Diff(s.Model, got, 0); d != "" {
					r.Violation("compact-changes-bucket", fmt.Sprintf("%s: Histogram.Compact(%d): %s\nbefore %v\nafter  %v", s.Name, n, d, s.Model, got), rp("compact-int", n))
				} else if err := ih.Validate(); err != nil {
					r.Violation("compact-invalid-result", fmt.Sprintf("%s: Histogram.Compact(%d): %v", s.Name, n, err), rp("compact-int", n))
				}
			}
			r.Count("evaluations", 1)
		}
	}
	// --- resolution reduction never changes a bucket total ---
	if !s.Model.Custom {
		for target := s.Model.Schema - 1; target >= histogram.ExponentialSchemaMin; target-- {
			want := s.Model.Reduce(target)
			check := func(what string, got *histmodel.H, err error) {
				if err != nil {
					r.Violation("reduce-error", fmt.Sprintf("%s: %s(%d): %v", s.Name, what, target, err), rp(what, int(target)))
					return
				}
				if d := histmodel.Diff(want, got, 0); d != "" {
					r.Violation("reduce-changes-bucket-total", fmt.Sprintf("%s: %s(%d): %s\nmodel %v\ngot   %v", s.Name, what, target, d, want, got), rp(what, int(target)))
				}
				if r.Distinct("distinct_nontrivial", "reduce "+want.String()) {
					r.Count("reduce_results", 1)
				}
			}
			fh := s.Float.Copy()
			var err error
			if p, st := vx.Guard(func() { err = fh.ReduceResolution(target) }); p != nil {
				r.Violation("reduce-panic", fmt.Sprintf("%s: FloatHistogram.ReduceResolution(%d): %v\n%s", s.Name, target, p, st), rp("reduce-float", int(target)))
			} else {
				check("reduce-float", histmodel.FromFloat(fh), err)
				if err == nil {
					if verr := c31Validate(fh); verr != nil {
						r.Violation("reduce-invalid-result", fmt.Sprintf("%s: FloatHistogram.ReduceResolution(%d): %v", s.Name, target, verr), rp("reduce-float", int(target)))
					}
				}
			}
			orig := s.Float.Copy()
			var cp *histogram.FloatHistogram
			if p, st := vx.Guard(func() { cp = orig.CopyToSchema(target) }); p != nil {
				r.Violation("reduce-panic", fmt.Sprintf("%s: CopyToSchema(%d): %v\n%s", s.Name, target, p, st), rp("copytoschema", int(target)))
			} else {
				check("copytoschema", histmodel.FromFloat(cp), nil)
				if !orig.Equals(s.Float) {
					r.Violation("copytoschema-mutates-receiver", s.Name, rp("copytoschema", int(target)))
				}
			}
			r.Count("evaluations", 2)
			if s.Int != nil {
				ih := s.Int.Copy()
				if p, st := vx.Guard(func() { err = ih.ReduceResolution(target) }); p != nil {
					r.Violation("reduce-panic", fmt.Sprintf("%s: Histogram.ReduceResolution(%d): %v\n%s", s.Name, target, p, st), rp("reduce-int", int(target)))
				} else {
					check("reduce-int", histmodel.FromInt(ih), err)
					if err == nil {
						if verr := ih.Validate(); verr != nil {
							r.Violation("reduce-invalid-result", fmt.Sprintf("%s: Histogram.ReduceResolution(%d): %v", s.Name, target, verr), rp("reduce-int", int(target)))
						}
					}
				}
				r.Count("evaluations", 1)
			}
		}
	}
}

func c31CeilDiv(i, d int32) int32 {
	q := i / d
	if i%d != 0 && i > 0 {
		q++
	}
	return q
}

// c31ThresholdInsideMerged classifies the inputs of one known failure class: widening x's zero
// bucket to t absorbs a populated bucket of x, but at the lower resolution s the bucket that this
// source bucket merges into reaches beyond t (t is not a bucket boundary of schema s).
func c31ThresholdInsideMerged(x *histmodel.H, t float64, s int32) bool {
	if x.Custom || x.Schema <= s || x.ZeroThreshold >= t {
		return false
	}
	f := int32(1) << uint(x.Schema-s)
	for _, m := range []map[int32]float64{x.Pos, x.Neg} {
		for k := range m {
			if histmodel.Bound(x.Schema, k) <= t && histmodel.Bound(s, c31CeilDiv(k, f)) > t {
				return true
			}
		}
	}
	return false
}

// c31InsideMerged: for "recv op other" the common zero threshold is not a bucket boundary of the
// lower schema and widening other's zero bucket absorbs a bucket that merges across it.
func c31InsideMerged(recv, other *histmodel.H) bool {
	if recv.Custom || other.Custom {
		return false
	}
	s := recv.Schema
	if other.Schema < s {
		s = other.Schema
	}
	return c31ThresholdInsideMerged(other, histmodel.CommonThreshold(recv, other), s)
}

// c31Class returns the signature suffix for a failure of a chain of operations recv op o1 op o2 ...:
// narrow classes for the two input features with known genuine defects, "" for everything else.
func c31Class(recvLayout int, recv *histmodel.H, others ...*histmodel.H) string {
	acc := recv
	for _, o := range others {
		if c31InsideMerged(acc, o) {
			return "-zero-threshold-inside-merged-bucket"
		}
		if next, err := histmodel.Add(acc, o); err == nil {
			acc = next
		}
	}
	if recvLayout == 3 {
		return "-receiver-has-zero-length-span"
	}
	return ""
}

// c31Sig: failures in one of the known classes share one signature per class whatever the
// operation (Add, Sub, KahanAdd and the chains all go through addBuckets/kahanAddBuckets).
func c31Sig(op, class string) string {
	if class != "" {
		return "addsub-wrong" + class
	}
	return op + "-differs-from-bucketwise"
}

func c31Nontrivial(a, b *histmodel.H) bool {
	if a.Custom != b.Custom {
		return false
	}
	if a.Custom {
		return fmt.Sprint(a.Bounds) != fmt.Sprint(b.Bounds)
	}
	return a.Schema != b.Schema || a.ZeroThreshold != b.ZeroThreshold
}

// c31Arith runs Add, Sub and KahanAdd on the ordered pair (a, b).
func c31Arith(r *vx.Run, a, b histmodel.Shape) {
	tol := c31tol(a, b)
	for _, op := range []string{"add", "sub", "kahanadd"} {
		rp := c31Replay{Op: op, A: a.Name, B: b.Name}
		var want *histmodel.H
		var werr error
		if op == "sub" {
			want, werr = histmodel.Sub(a.Model, b.Model)
		} else {
			want, werr = histmodel.Add(a.Model, b.Model)
		}
		h, o := a.Float.Copy(), b.Float.Copy()
		var res *histogram.FloatHistogram
		var err error
		p, st := vx.Guard(func() {
			switch op {
			case "add":
				res, _, _, err = h.Add(o)
			case "sub":
				res, _, _, err = h.Sub(o)
			case "kahanadd":
				var c *histogram.FloatHistogram
				c, _, _, err = h.KahanAdd(o, nil)
				if err == nil {
					res, _, _, err = h.Add(c)
				}
			}
		})
		r.Count("evaluations", 1)
		if p != nil {
			r.Violation(op+"-panic", fmt.Sprintf("%s %s %s panicked: %v\n%s", a.Name, op, b.Name, p, st), rp)
			continue
		}
		if werr != nil {
			if err == nil {
				r.Violation(op+"-accepts-incompatible", fmt.Sprintf("%s %s %s: no error for mixed exponential/custom buckets", a.Name, op, b.Name), rp)
			}
			r.Distinct("distinct_outcomes", "incompatible")
			continue
		}
		if err != nil {
			r.Violation(op+"-unexpected-error", fmt.Sprintf("%s %s %s: %v", a.Name, op, b.Name, err), rp)
			continue
		}
		got := histmodel.FromFloat(res)
		if d := histmodel.Diff(want, got, tol); d != "" {
			r.Violation(c31Sig(op, c31Class(a.Layout, a.Model, b.Model)), fmt.Sprintf("%s %s %s: %s (model vs implementation)\nmodel %v\ngot   %v", a.Name, op, b.Name, d, want, got), rp)
		} else if op != "sub" && a.Name[:3] != "e23" && b.Name[:3] != "e23" {
			if verr := c31Validate(res); verr != nil {
				r.Violation(op+"-invalid-result", fmt.Sprintf("%s %s %s: %v", a.Name, op, b.Name, verr), rp)
			}
		}
		if !o.Equals(b.Float) {
			r.Violation(op+"-mutates-other", fmt.Sprintf("%s %s %s modified its argument", a.Name, op, b.Name), rp)
		}
		if c31Nontrivial(a.Model, b.Model) {
			r.Distinct("distinct_nontrivial", op+" "+want.String())
		}
		r.Distinct("distinct_outcomes", want.String())
	}
}

func c31Reset(r *vx.Run, what string, cur, prev *histogram.FloatHistogram, mc, mp *histmodel.H, rp c31Replay) {
	want := histmodel.DetectReset(mc, mp)
	var got bool
	c, pv := cur.Copy(), prev.Copy()
	if p, st := vx.Guard(func() { got = c.DetectReset(pv) }); p != nil {
		r.Violation("detectreset-panic", fmt.Sprintf("%s: %v\n%s", what, p, st), rp)
		return
	}
	r.Count("evaluations", 1)
	if got != want {
		sig := "detectreset-missed"
		if got {
			sig = "detectreset-spurious"
			if !mc.Custom && !mp.Custom && c31ThresholdInsideMerged(mp, mc.ZeroThreshold, mc.Schema) {
				sig += "-zero-threshold-inside-merged-bucket"
			}
		}
		r.Violation(sig, fmt.Sprintf("%s: DetectReset=%v, statement says %v\ncur  %v\nprev %v", what, got, want, mc, mp), rp)
	}
	if !c.Equals(cur) || !pv.Equals(prev) {
		r.Violation("detectreset-mutates", what, rp)
	}
	r.Distinct("distinct_outcomes", fmt.Sprintf("reset=%v", want))
	if !want && c31Nontrivial(mc, mp) {
		r.Distinct("distinct_nontrivial", "noreset "+mc.String()+" <- "+mp.String())
	}
}

func c31WithHint(fh *histogram.FloatHistogram, m *histmodel.H, hint histogram.CounterResetHint) (*histogram.FloatHistogram, *histmodel.H) {
	f, mm := fh.Copy(), m.Copy()
	f.CounterResetHint, mm.Hint, mm.Gauge = hint, hint, hint == histogram.GaugeType
	return f, mm
}

// c31ResetPair: DetectReset(cur=a, prev=b) with a's own hint and with Unknown; then prev=a and
// cur=a+b (model sum, materialised in the layout of b) in both directions.
func c31ResetPair(r *vx.Run, a, b histmodel.Shape) {
	hints := []histogram.CounterResetHint{a.Model.Hint}
	if a.Model.Hint != histogram.UnknownCounterReset {
		hints = append(hints, histogram.UnknownCounterReset)
	}
	for _, hint := range hints {
		f, m := c31WithHint(a.Float, a.Model, hint)
		c31Reset(r, fmt.Sprintf("cur=%s(hint %d) prev=%s", a.Name, hint, b.Name), f, b.Float, m, b.Model, c31Replay{Op: "reset", A: a.Name, B: b.Name, Param: int(hint)})
	}
	sum, err := histmodel.Add(a.Model, b.Model)
	if err != nil || math.IsNaN(sum.Count) || math.IsInf(sum.Count, 0) {
		return
	}
	sum.Hint, sum.Gauge = histogram.UnknownCounterReset, false
	fs := sum.ToFloat(b.Layout)
	af, am := c31WithHint(a.Float, a.Model, histogram.UnknownCounterReset)
	c31Reset(r, fmt.Sprintf("cur=%s+%s prev=%s", a.Name, b.Name, a.Name), fs, af, sum, am, c31Replay{Op: "reset-grown", A: a.Name, B: b.Name})
	c31Reset(r, fmt.Sprintf("cur=%s prev=%s+%s", a.Name, a.Name, b.Name), af, fs, am, sum, c31Replay{Op: "reset-shrunk", A: a.Name, B: b.Name})
}

// c31Chain: ((a+b)+c) by Add and by KahanAdd with a running compensation histogram.
func c31Chain(r *vx.Run, a, b, c histmodel.Shape) {
	ab, err := histmodel.Add(a.Model, b.Model)
	if err != nil {
		return
	}
	want, err := histmodel.Add(ab, c.Model)
	if err != nil {
		return
	}
	tol := c31tol(a, b, c)
	for _, op := range []string{"add-chain", "kahanadd-chain"} {
		rp := c31Replay{Op: op, A: a.Name, B: b.Name, C: c.Name}
		h := a.Float.Copy()
		var res *histogram.FloatHistogram
		var e error
		p, st := vx.Guard(func() {
			if op == "add-chain" {
				if res, _, _, e = h.Add(b.Float.Copy()); e == nil {
					res, _, _, e = res.Add(c.Float.Copy())
				}
				return
			}
			var comp *histogram.FloatHistogram
			if comp, _, _, e = h.KahanAdd(b.Float.Copy(), nil); e != nil {
				return
			}
			if comp, _, _, e = h.KahanAdd(c.Float.Copy(), comp); e != nil {
				return
			}
			res, _, _, e = h.Add(comp)
		})
		r.Count("evaluations", 1)
		if p != nil {
			r.Violation(op+"-panic", fmt.Sprintf("%s+%s+%s: %v\n%s", a.Name, b.Name, c.Name, p, st), rp)
			continue
		}
		if e != nil {
			r.Violation(op+"-unexpected-error", fmt.Sprintf("%s+%s+%s: %v", a.Name, b.Name, c.Name, e), rp)
			continue
		}
		got := histmodel.FromFloat(res)
		if d := histmodel.Diff(want, got, tol); d != "" {
			r.Violation(c31Sig(op, c31Class(a.Layout, a.Model, b.Model, c.Model)), fmt.Sprintf("%s+%s+%s: %s (model vs implementation)\nmodel %v\ngot   %v", a.Name, b.Name, c.Name, d, want, got), rp)
		}
		r.Distinct("distinct_outcomes", want.String())
	}
}

func c31SelfTest(t *testing.T, shapes []histmodel.Shape) {
	for _, s := range shapes {
		if err := s.Float.Validate(); err != nil {
			t.Fatalf("self-test: shape %s (float) invalid: %v", s.Name, err)
		}
		if d := histmodel.Diff(s.Model, histmodel.FromFloat(s.Float), 0); d != "" {
			t.Fatalf("self-test: shape %s: FromFloat disagrees with the specification: %s", s.Name, d)
		}
		if s.Int != nil {
			if err := s.Int.Validate(); err != nil {
				t.Fatalf("self-test: shape %s (int) invalid: %v", s.Name, err)
			}
			if d := histmodel.Diff(s.Model, histmodel.FromInt(s.Int), 0); d != "" {
				t.Fatalf("self-test: shape %s: FromInt disagrees with the specification: %s", s.Name, d)
			}
		}
		if !s.Model.Custom {
			for _, m := range []map[int32]float64{s.Model.Pos, s.Model.Neg} {
				for k := range m {
					if histmodel.Bound(s.Model.Schema, k) <= s.Model.ZeroThreshold {
						t.Fatalf("self-test: shape %s has populated bucket %d inside its own zero bucket", s.Name, k)
					}
				}
			}
		}
	}
	// the oracle is not vacuous: seeded wrong answers are rejected
	a := histmodel.FromFloat(&histogram.FloatHistogram{Schema: 1, Count: 3, PositiveSpans: []histogram.Span{{Offset: 1, Length: 2}}, PositiveBuckets: []float64{1, 2}})
	b := histmodel.FromFloat(&histogram.FloatHistogram{Schema: 0, Count: 4, ZeroThreshold: 1, ZeroCount: 1, PositiveSpans: []histogram.Span{{Offset: 1, Length: 1}}, PositiveBuckets: []float64{3}})
	sum, _ := histmodel.Add(a, b)
	wantSum := histmodel.FromFloat(&histogram.FloatHistogram{Schema: 0, Count: 7, ZeroThreshold: 1, ZeroCount: 1, PositiveSpans: []histogram.Span{{Offset: 1, Length: 1}}, PositiveBuckets: []float64{6}})
	if d := histmodel.Diff(sum, wantSum, 0); d != "" {
		t.Fatalf("self-test: model Add wrong on a hand-computed case: %s", d)
	}
	wrong := wantSum.Copy()
	wrong.Pos[1] = 5
	if histmodel.Diff(sum, wrong, 1e-9) == "" {
		t.Fatal("self-test: Diff accepts a wrong bucket count")
	}
	wrong = wantSum.Copy()
	wrong.ZeroThreshold = 2
	if histmodel.Diff(sum, wrong, 1e-9) == "" {
		t.Fatal("self-test: Diff accepts a wrong zero threshold")
	}
	if histmodel.DetectReset(sum, a) || !histmodel.DetectReset(a, sum) || !histmodel.DetectReset(a, b) {
		t.Fatal("self-test: model DetectReset wrong on hand-computed cases")
	}
	if histmodel.Bound(0, 1) != 2 || histmodel.Bound(-1, 1) != 4 || histmodel.Bound(3, -1024) != math.Ldexp(1, -128) || math.Abs(histmodel.Bound(1, 1)-math.Sqrt2) > 1e-15 {
		t.Fatal("self-test: Bound")
	}
	r8 := histmodel.FromFloat(&histogram.FloatHistogram{Schema: 2, PositiveSpans: []histogram.Span{{Offset: -4, Length: 9}}, PositiveBuckets: []float64{1, 2, 3, 4, 5, 6, 7, 8, 9}}).Reduce(0)
	// source idx -4..-4 -> -1 ; -3..0 -> 0 ; 1..4 -> 1
	if r8.Pos[-1] != 1 || r8.Pos[0] != 2+3+4+5 || r8.Pos[1] != 6+7+8+9 || len(r8.Pos) != 3 {
		t.Fatalf("self-test: model Reduce wrong: %v", r8)
	}
}

func TestVerifC31(t *testing.T) {
	r := vx.Start(t, "C31", "exploration")
	defer r.Finish()
	core := histmodel.Shapes()
	shapes := core
	if r.Thorough() {
		shapes = histmodel.ShapesAll()
	}
	byName := map[string]histmodel.Shape{}
	for _, s := range histmodel.ShapesAll() {
		byName[s.Name] = s
	}
	if r.Replay != "" {
		var rp c31Replay
		r.LoadReplay(&rp)
		a, okA := byName[rp.A]
		b, okB := byName[rp.B]
		c, okC := byName[rp.C]
		switch {
		case okA && okB && okC:
			c31Chain(r, a, b, c)
		case okA && okB:
			c31Arith(r, a, b)
			c31ResetPair(r, a, b)
		case okA:
			c31Unary(r, a)
		default:
			t.Fatalf("replay: unknown shape in %+v", rp)
		}
		return
	}
	c31SelfTest(t, histmodel.ShapesAll())
	r.Assume("lib/histmodel (decode, alignment, bucket-wise add/sub, reset rule) is the trusted reference, written from the statement and the type documentation")
	r.Assume("a fixed catalogue of shapes stands for 'generated valid histograms'; zero thresholds are powers of two, 1.5 or 0.001 (never within rounding distance of an irrational bucket boundary)")
	r.Assume("counter-reset hints of Add/Sub results (adjustCounterReset) are not part of the statement and not checked; DetectReset's CounterReset/NotCounterReset shortcuts are taken from its documentation")

	all := histmodel.ShapesAll() // single-histogram operations are cheap: every layout in every tier
	r.ParallelN(int64(len(all)), func(i int64) { c31Unary(r, all[i]) })
	n := int64(len(shapes))
	var pairs atomic.Int64
	r.ParallelN(n*n, func(i int64) {
		a, b := shapes[i/n], shapes[i%n]
		c31Arith(r, a, b)
		c31ResetPair(r, a, b)
		k := pairs.Add(1)
		r.SampleAt(k, func() any {
			w, err := histmodel.Add(a.Model, b.Model)
			s := "incompatible"
			if err == nil {
				s = w.String()
			}
			return map[string]any{"a": a.Model.String(), "b": b.Model.String(), "a_plus_b_model": s, "reset_cur_a_prev_b": histmodel.DetectReset(a.Model, b.Model)}
		})
	})
	triples := int64(0)
	if r.Thorough() {
		m := int64(len(core))
		triples = m * m * m
		r.ParallelN(triples, func(i int64) {
			c31Chain(r, core[i/(m*m)], core[(i/m)%m], core[i%m])
		})
	}
	r.Set("shapes", len(shapes))
	r.Set("ordered_pairs", n*n)
	r.Set("ordered_triples", triples)
	r.Set("rule", fmt.Sprintf("every one of %d shapes (schemas -4..8, custom bounds, 4 span layout styles, zero thresholds on/inside/outside bucket boundaries, int/dyadic/fractional counts, gauge/counter hints, NaN/stale/Inf sums) through ToFloat, Compact(0..3), ReduceResolution/CopyToSchema to every lower schema and the bucket iterators; every ordered pair through Add, Sub, KahanAdd(+compensation), DetectReset(a,b), DetectReset(a+b,a), DetectReset(a,a+b); thorough: every ordered triple of the %d core shapes through chained Add/KahanAdd. distinct_nontrivial = distinct model results of operations that needed alignment (different schema, zero threshold or custom bounds), distinct reduced histograms, and distinct no-reset verdicts across different layouts", len(shapes), len(core)))
	if r.Get("evaluations") > 0 && !r.Expired() {
		// vacuity guard: both reset verdicts and many different sums must have been seen
		newT := r.Distinct("distinct_outcomes", "reset=true")
		newF := r.Distinct("distinct_outcomes", "reset=false")
		if newT || newF {
			t.Fatal("vacuous run: DetectReset produced a single verdict for every pair")
		}
	}
}
