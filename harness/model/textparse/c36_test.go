package textparse

// C36: classic histogram -> native histogram with custom buckets (NHCB) conversion while parsing.
//
// Statement (properties.jsonl): each classic histogram (the bucket, count and sum series of one
// label set at one timestamp) becomes ONE native histogram with the finite bucket upper bounds as
// custom bounds, the de-cumulated bucket counts, the count, the sum, the timestamp and the
// exemplars; other series pass through unchanged. With keep-classic the classic series are also
// emitted exactly as without conversion, and no NHCB is emitted for a series that already has an
// exponential native histogram.
//
// Engine E1 (bounded-exhaustive inputs). Families are built from the client_model protobuf types
// and encoded with prometheus/common/expfmt (text, OpenMetrics, delimited protobuf). Two sweeps:
//   values: full product of label-set lists x bucket shapes x cumulative-count vectors x sums x
//           timestamp combinations x exemplar modes x start timestamps x trailers x options, in
//           expfmt line order and in reversed line order (protobuf: every bucket permutation and
//           metric order), and
//   orders: EVERY permutation of the series lines of the histogram family (text, OpenMetrics)
//           for a reduced value alphabet.
// Oracle: (1) the parse with conversion, minus custom-bucket histograms, equals the parse without
// conversion (keep-classic) or that parse minus the classic series of converted label sets;
// (2) the multiset of emitted custom-bucket histograms equals the one computed from the model.

import (
	"bytes"
	"fmt"
	"math"
	"sort"
	"strings"
	"sync"
	"sync/atomic"
	"testing"
	"time"

	dto "github.com/prometheus/client_model/go"
	"github.com/prometheus/common/expfmt"
	"google.golang.org/protobuf/proto"
	"google.golang.org/protobuf/types/known/timestamppb"

	"github.com/prometheus/prometheus/internal/verif/vx"
	"github.com/prometheus/prometheus/model/histogram"
	"github.com/prometheus/prometheus/model/labels"
)

// ---------------------------------------------------------------------------------------------
// alphabets
// ---------------------------------------------------------------------------------------------

// label-set lists; "z" sorts after "le", "a" before it; list 5 has one set that extends the other.
var c36LabelLists = [][][]string{
	{{}},
	{{"a", "x"}},
	{{"z", "x"}},
	{{"a", "x"}, {"a", "y"}},
	{{}, {"z", "x"}},
	{{"a", "x"}, {"a", "x", "z", "1"}},
}

type c36Shape struct {
	Bounds []float64
	Inf    bool // the +Inf bucket is exposed
}

var c36Shapes = []c36Shape{
	{nil, true},
	{[]float64{0.5}, true},
	{[]float64{0.5}, false},
	{[]float64{-1, 0.5}, true},
	{[]float64{-1, 0.5}, false},
	{[]float64{-1, 0.5, 10}, true},
	{[]float64{-1, 0.5, 10}, false},
	{nil, false},
}

// shape pairs for families with two label sets (first, second)
var c36ShapePairs = [][2]int{{1, 1}, {2, 1}, {0, 2}, {7, 1}, {4, 2}, {3, 2}, {3, 1}, {3, 3}, {5, 1}}

// cumulative vectors (finite buckets..., total): every non-decreasing tuple over {0,1,3}, then
// one strictly increasing and one non-integral vector.
var c36VecCache = [4][][]float64{c36MkVectors(0), c36MkVectors(1), c36MkVectors(2), c36MkVectors(3)}

func c36Vectors(nb int) [][]float64 { return c36VecCache[nb] }

func c36MkVectors(nb int) [][]float64 {
	dom := []float64{0, 1, 3}
	var out [][]float64
	var rec func(cur []float64, from int)
	rec = func(cur []float64, from int) {
		if len(cur) == nb+1 {
			out = append(out, append([]float64{}, cur...))
			return
		}
		for i := from; i < len(dom); i++ {
			rec(append(cur, dom[i]), i)
		}
	}
	rec(nil, 0)
	out = append(out, []float64{1, 3, 4, 6}[:nb+1])
	out = append(out, []float64{0.5, 1.5, 1.5, 2.5}[:nb+1])
	return out
}

var c36Sums = []float64{2.5, math.NaN(), -1}

// per-set explicit timestamps (ms, 0 = none), one and two label sets
var c36TS1 = [][]int64{{0}, {1000}}
var c36TS2 = [][]int64{{0, 0}, {1000, 1000}, {1000, 2000}, {1000, 0}, {0, 1000}}

const (
	c36TrailerNone   = 0
	c36TrailerTyped  = 1 // a counter family with HELP/TYPE and explicit timestamp 7000
	c36TrailerBareTS = 2 // an untyped sample without metadata lines, explicit timestamp 7000
	c36TrailerBare   = 3 // an untyped sample without metadata lines and without timestamp
	// a second classic histogram family "h2" {le=1: 1, +Inf: 2, sum 3}:
	c36TrailerHistNoTS = 4 // no sample timestamp, bucket exemplar WITHOUT timestamp
	c36TrailerHistTS   = 5 // sample timestamp 3000, bucket exemplar with timestamp
)

const (
	c36Text = iota
	c36OM
	c36Proto
	c36ProtoWrap // NewNHCBParser around a ProtobufParser that does not convert itself
)

var c36FmtNames = []string{"text", "openmetrics", "protobuf", "protobuf+NHCBParser"}

// ---------------------------------------------------------------------------------------------
// case description (JSON-able: replay artefact)
// ---------------------------------------------------------------------------------------------

type c36Case struct {
	Fmt          int   `json:"fmt"`
	Keep         bool  `json:"keep"`
	TypeUnit     bool  `json:"typeunit"`
	SkipST       bool  `json:"skipst"`        // OpenMetricsSkipSTSeries (= caller wants start timestamps)
	IgnoreNative bool  `json:"ignore_native"` // protobuf only
	LL           int   `json:"ll"`
	Sh           []int `json:"shapes"`
	Vec          int   `json:"vec"`
	Sum          int   `json:"sum"`
	TSC          int   `json:"tsc"`
	Ex           int   `json:"ex"` // 0 none, 1 first bucket line, 2 every bucket line
	ST           bool  `json:"st"`
	Native       int   `json:"native"` // protobuf: bit i = set i also carries an exponential histogram
	Trailer      int   `json:"trailer"`
	ExNoTS       int   `json:"ex_no_ts"` // bit i: the exemplars of set i carry NO timestamp
	Broken       int   `json:"broken"`   // bit i: set i is not convertible (non-cumulative buckets / count mismatch)
	// text/OpenMetrics: permutation of the series lines (canonical order = set by set, buckets
	// ascending, [+Inf], sum, count). protobuf: [swap sets, bucket permutation index per set...].
	Perm []int `json:"perm"`
}

type c36Set struct {
	Lbl    []string
	Bounds []float64
	Cum    []float64
	Total  float64
	Inf    bool
	Sum    float64
	TS     int64
	Ex     int
	ST     int64
	Native bool
	Float  bool
	ExNoTS bool
	Broken bool
}

func (c *c36Case) sets() []c36Set {
	ll := c36LabelLists[c.LL]
	tsl := c36TS1
	if len(ll) == 2 {
		tsl = c36TS2
	}
	var out []c36Set
	for i, l := range ll {
		sh := c36Shapes[c.Sh[i]]
		nb := len(sh.Bounds)
		var vec []float64
		sum := 7.25
		if i == 0 {
			vec = c36Vectors(nb)[c.Vec]
			sum = c36Sums[c.Sum]
		} else {
			vec = []float64{2, 4, 5, 7}[:nb+1]
		}
		s := c36Set{Lbl: l, Bounds: sh.Bounds, Cum: vec[:nb], Total: vec[nb], Inf: sh.Inf, Sum: sum, TS: tsl[c.TSC][i], Ex: c.Ex}
		for _, v := range vec {
			if v != math.Trunc(v) {
				s.Float = true
			}
		}
		if c.ST {
			s.ST = 500 + int64(i)*250
		}
		s.Native = c.Native&(1<<i) != 0
		s.ExNoTS = c.ExNoTS&(1<<i) != 0
		s.Broken = c.Broken&(1<<i) != 0
		out = append(out, s)
	}
	return out
}

// ---------------------------------------------------------------------------------------------
// encoding with expfmt / client_model
// ---------------------------------------------------------------------------------------------

func c36LabelPairs(kv []string) []*dto.LabelPair {
	var out []*dto.LabelPair
	for i := 0; i+1 < len(kv); i += 2 {
		out = append(out, &dto.LabelPair{Name: proto.String(kv[i]), Value: proto.String(kv[i+1])})
	}
	return out
}

func c36Exemplar(set, bucket int, noTS bool) *dto.Exemplar {
	e := &dto.Exemplar{
		Label: c36LabelPairs([]string{"trace", fmt.Sprintf("t%d%d", set, bucket)}),
		Value: proto.Float64(0.25 + float64(bucket) + 10*float64(set)),
	}
	if !noTS {
		e.Timestamp = timestamppb.New(c36TimeMs(1500 + int64(bucket)))
	}
	return e
}

// c36Breakable: can the set's exposition be made non-convertible?
func c36Breakable(s *c36Set) bool { return len(s.Bounds) > 0 || s.Inf }

func c36HistFamily(sets []c36Set, order []int, bperm [][]int) *dto.MetricFamily {
	mf := &dto.MetricFamily{Name: proto.String("h"), Help: proto.String("a histogram"), Type: dto.MetricType_HISTOGRAM.Enum()}
	for _, si := range order {
		s := sets[si]
		h := &dto.Histogram{SampleSum: proto.Float64(s.Sum)}
		if s.Float {
			h.SampleCountFloat = proto.Float64(s.Total)
		} else {
			h.SampleCount = proto.Uint64(uint64(s.Total))
		}
		var bs []*dto.Bucket
		mk := func(i int, ub, cum float64) {
			b := &dto.Bucket{UpperBound: proto.Float64(ub)}
			if s.Float {
				b.CumulativeCountFloat = proto.Float64(cum)
			} else {
				b.CumulativeCount = proto.Uint64(uint64(cum))
			}
			if s.Ex == 2 || (s.Ex == 1 && i == 0) {
				b.Exemplar = c36Exemplar(si, i, s.ExNoTS)
			}
			bs = append(bs, b)
		}
		for i, ub := range s.Bounds {
			cum := s.Cum[i]
			if s.Broken && i == 0 {
				cum = s.Total + 5 // non-cumulative: more than the later buckets and the count
			}
			mk(i, ub, cum)
		}
		if s.Inf {
			mk(len(s.Bounds), math.Inf(1), s.Total)
		}
		if s.Broken && len(s.Bounds) == 0 {
			h.SampleCount = proto.Uint64(uint64(s.Total) + 1) // count differs from the +Inf bucket
		}
		if bperm != nil && bperm[si] != nil {
			p := make([]*dto.Bucket, len(bs))
			for k, j := range bperm[si] {
				p[k] = bs[j]
			}
			bs = p
		}
		h.Bucket = bs
		if s.ST != 0 {
			h.CreatedTimestamp = timestamppb.New(c36TimeMs(s.ST))
		}
		if s.Native {
			h.Schema = proto.Int32(0)
			h.ZeroThreshold = proto.Float64(0.001)
			h.ZeroCount = proto.Uint64(0)
			h.PositiveSpan = []*dto.BucketSpan{{Offset: proto.Int32(0), Length: proto.Uint32(1)}}
			h.PositiveDelta = []int64{int64(s.Total)}
		}
		m := &dto.Metric{Label: c36LabelPairs(s.Lbl), Histogram: h}
		if s.TS != 0 {
			m.TimestampMs = proto.Int64(s.TS)
		}
		mf.Metric = append(mf.Metric, m)
	}
	return mf
}

func c36Encode(f expfmt.Format, mf *dto.MetricFamily, created bool) []byte {
	var buf bytes.Buffer
	var enc expfmt.Encoder
	if created {
		enc = expfmt.NewEncoder(&buf, f, expfmt.WithCreatedLines())
	} else {
		enc = expfmt.NewEncoder(&buf, f)
	}
	if err := enc.Encode(mf); err != nil {
		panic("c36: expfmt encode: " + err.Error())
	}
	return buf.Bytes() // no Close: the OpenMetrics "# EOF" is appended by the caller
}

func c36Format(fm int) expfmt.Format {
	switch fm {
	case c36Text:
		return expfmt.NewFormat(expfmt.TypeTextPlain)
	case c36OM:
		return expfmt.NewFormat(expfmt.TypeOpenMetrics)
	}
	return expfmt.NewFormat(expfmt.TypeProtoDelim)
}

func c36ContentType(fm int) string {
	switch fm {
	case c36Text:
		return "text/plain; version=0.0.4"
	case c36OM:
		return "application/openmetrics-text; version=1.0.0"
	}
	return "application/vnd.google.protobuf; proto=io.prometheus.client.MetricFamily; encoding=delimited"
}

// series line of the permutable part of the histogram family
type c36Line struct {
	Set  int
	Text string
}

// c36Lines encodes the histogram family and returns header lines, the permutable series lines in
// canonical order and the per-set "_created" line (OpenMetrics, "" if none).
func c36Lines(fm int, sets []c36Set) (header []string, lines []c36Line, created []string) {
	order := make([]int, len(sets))
	for i := range order {
		order[i] = i
	}
	hasST := false
	for _, s := range sets {
		hasST = hasST || s.ST != 0
	}
	raw := strings.Split(strings.TrimSuffix(string(c36Encode(c36Format(fm), c36HistFamily(sets, order, nil), hasST && fm == c36OM)), "\n"), "\n")
	i := 0
	for ; i < len(raw) && strings.HasPrefix(raw[i], "#"); i++ {
		header = append(header, raw[i])
	}
	created = make([]string, len(sets))
	for si, s := range sets {
		n := len(s.Bounds) + 3 // buckets, +Inf (always written by expfmt), sum, count
		for k := 0; k < n; k++ {
			if k == len(s.Bounds) && !s.Inf {
				i++ // drop the +Inf line
				continue
			}
			lines = append(lines, c36Line{si, raw[i]})
			i++
		}
		if s.ST != 0 && fm == c36OM {
			created[si] = raw[i]
			i++
		}
	}
	if i != len(raw) {
		panic(fmt.Sprintf("c36: unexpected expfmt output (%d of %d lines consumed): %q", i, len(raw), raw))
	}
	return header, lines, created
}

func c36GaugeFamily() *dto.MetricFamily {
	return &dto.MetricFamily{Name: proto.String("g0"), Help: proto.String("a gauge"), Type: dto.MetricType_GAUGE.Enum(),
		Metric: []*dto.Metric{{Gauge: &dto.Gauge{Value: proto.Float64(1)}}}}
}

func c36TrailerFamily(tr int) *dto.MetricFamily {
	switch tr {
	case c36TrailerTyped:
		return &dto.MetricFamily{Name: proto.String("c_total"), Help: proto.String("a counter"), Type: dto.MetricType_COUNTER.Enum(),
			Metric: []*dto.Metric{{Counter: &dto.Counter{Value: proto.Float64(3)}, TimestampMs: proto.Int64(7000)}}}
	case c36TrailerBareTS:
		return &dto.MetricFamily{Name: proto.String("u"), Type: dto.MetricType_UNTYPED.Enum(),
			Metric: []*dto.Metric{{Untyped: &dto.Untyped{Value: proto.Float64(5)}, TimestampMs: proto.Int64(7000)}}}
	case c36TrailerBare:
		return &dto.MetricFamily{Name: proto.String("u"), Type: dto.MetricType_UNTYPED.Enum(),
			Metric: []*dto.Metric{{Untyped: &dto.Untyped{Value: proto.Float64(5)}}}}
	case c36TrailerHistNoTS, c36TrailerHistTS:
		ex := &dto.Exemplar{Label: c36LabelPairs([]string{"trace", "h2"}), Value: proto.Float64(0.5)}
		m := &dto.Metric{}
		if tr == c36TrailerHistTS {
			ex.Timestamp = timestamppb.New(c36TimeMs(1700))
			m.TimestampMs = proto.Int64(3000)
		}
		m.Histogram = &dto.Histogram{SampleCount: proto.Uint64(2), SampleSum: proto.Float64(3), Bucket: []*dto.Bucket{
			{UpperBound: proto.Float64(1), CumulativeCount: proto.Uint64(1), Exemplar: ex},
			{UpperBound: proto.Float64(math.Inf(1)), CumulativeCount: proto.Uint64(2)},
		}}
		return &dto.MetricFamily{Name: proto.String("h2"), Help: proto.String("second histogram"), Type: dto.MetricType_HISTOGRAM.Enum(), Metric: []*dto.Metric{m}}
	}
	return nil
}

// c36Contiguous: do the lines of every label set form one block in this order?
func c36Contiguous(lines []c36Line, perm []int) bool {
	seen := map[int]bool{}
	last := -1
	for _, p := range perm {
		s := lines[p].Set
		if s != last {
			if seen[s] {
				return false
			}
			seen[s] = true
			last = s
		}
	}
	return true
}

// c36Payload builds the exposition and tells whether each label set's lines are contiguous.
func c36Payload(c *c36Case, x *c36Ctx) (payload []byte, contiguous bool) {
	sets := x.sets
	var buf bytes.Buffer
	f := c36Format(c.Fmt)
	if c.Fmt == c36Proto || c.Fmt == c36ProtoWrap {
		buf.Write(c36Encode(f, c36GaugeFamily(), false))
		order := []int{0, 1}[:len(sets)]
		if len(c.Perm) > 0 && c.Perm[0] == 1 && len(sets) == 2 {
			order = []int{1, 0}
		}
		buf.Write(c36Encode(f, c36HistFamily(sets, order, nil), false))
		if t := c36TrailerFamily(c.Trailer); t != nil {
			buf.Write(c36Encode(f, t, false))
		}
		return buf.Bytes(), true
	}
	enc := x.enc
	header, lines, created := enc.header, enc.lines, enc.created
	buf.Write(enc.prefix)
	for _, h := range header {
		buf.WriteString(h + "\n")
	}
	perm := c.Perm
	if perm == nil {
		perm = make([]int, len(lines))
		for i := range perm {
			perm[i] = i
		}
	}
	if len(perm) != len(lines) {
		panic(fmt.Sprintf("c36: permutation %v does not fit %d lines", perm, len(lines)))
	}
	var lastOf [2]int
	for k, p := range perm {
		lastOf[lines[p].Set] = k
	}
	for k, p := range perm {
		buf.WriteString(lines[p].Text)
		buf.WriteByte('\n')
		if s := lines[p].Set; lastOf[s] == k && created[s] != "" {
			buf.WriteString(created[s] + "\n")
		}
	}
	buf.Write(enc.trailer)
	return buf.Bytes(), c36Contiguous(lines, perm)
}

type c36Enc struct {
	prefix  []byte
	header  []string
	lines   []c36Line
	created []string
	trailer []byte
}

var c36EncCache sync.Map

// c36GetEnc encodes (once per value configuration) the pieces of a text/OpenMetrics payload.
func c36GetEnc(c *c36Case, sets []c36Set) *c36Enc {
	key := fmt.Sprint(c.Fmt, c.LL, c.Sh, c.Vec, c.Sum, c.TSC, c.Ex, c.ST, c.Trailer, c.ExNoTS, c.Broken)
	if v, ok := c36EncCache.Load(key); ok {
		return v.(*c36Enc)
	}
	f := c36Format(c.Fmt)
	e := &c36Enc{prefix: c36Encode(f, c36GaugeFamily(), false)}
	e.header, e.lines, e.created = c36Lines(c.Fmt, sets)
	var buf bytes.Buffer
	switch c.Trailer {
	case c36TrailerTyped, c36TrailerHistNoTS, c36TrailerHistTS:
		buf.Write(c36Encode(f, c36TrailerFamily(c.Trailer), false))
	case c36TrailerBareTS:
		if c.Fmt == c36OM {
			buf.WriteString("u 5.0 7.0\n")
		} else {
			buf.WriteString("u 5 7000\n")
		}
	case c36TrailerBare:
		if c.Fmt == c36OM {
			buf.WriteString("u 5.0\n")
		} else {
			buf.WriteString("u 5\n")
		}
	}
	if c.Fmt == c36OM {
		buf.WriteString("# EOF\n")
	}
	e.trailer = buf.Bytes()
	c36EncCache.Store(key, e)
	return e
}

// ---------------------------------------------------------------------------------------------
// reference: the custom-bucket histograms the statement demands
// ---------------------------------------------------------------------------------------------

type c36NH struct {
	Labels  string
	HasTS   bool
	TS      int64
	Bounds  []float64
	Buckets []float64 // absolute (de-cumulated) counts, len(Bounds)+1
	Count   uint64    // float bits
	Sum     uint64    // float bits
	Ex      []string  // sorted
	ST      int64
}

func (n c36NH) key(withST bool) string {
	st := int64(0)
	if withST {
		st = n.ST
	}
	return fmt.Sprintf("%s ts=%v/%d bounds=%v buckets=%v count=%s sum=%s ex=%v st=%d", n.Labels, n.HasTS, n.TS, n.Bounds, n.Buckets, tpxF(n.Count), tpxF(n.Sum), n.Ex, st)
}

func c36ExKey(x tpxEx) string {
	return fmt.Sprintf("%s %s|%v@%d", x.Labels, tpxF(x.Val), x.HasTS, x.TS)
}

// c36Want computes, from the model alone, the custom-bucket histograms that must be emitted.
func c36Want(c *c36Case, sets []c36Set) []c36NH {
	var out []c36NH
	// exemplars without timestamp are (documented) not returned for native histograms by the
	// protobuf parser itself; NHCBParser keeps them
	keepNoTS := c.Fmt != c36Proto
	for si, s := range sets {
		if s.Native && !c.IgnoreNative {
			continue // already has an exponential native histogram: no NHCB
		}
		if s.Broken && c36Breakable(&s) {
			continue // not a valid classic histogram: nothing to convert
		}
		kv := append([]string{"__name__", "h"}, s.Lbl...)
		if c.TypeUnit {
			kv = append(kv, "__type__", "histogram")
		}
		w := c36NH{Labels: labels.FromStrings(kv...).String(), Count: tpxBits(s.Total), Sum: tpxBits(s.Sum)}
		if s.TS != 0 {
			w.HasTS, w.TS = true, s.TS
		}
		w.Bounds = append([]float64{}, s.Bounds...)
		prev := 0.0
		for _, cum := range s.Cum {
			w.Buckets = append(w.Buckets, cum-prev)
			prev = cum
		}
		w.Buckets = append(w.Buckets, s.Total-prev)
		if c.Fmt != c36Text { // the text format cannot carry exemplars
			nb := len(s.Bounds)
			if s.Inf {
				nb++
			}
			for b := 0; b < nb; b++ {
				if s.Ex == 2 || (s.Ex == 1 && b == 0) {
					x := tpxEx{Labels: labels.FromStrings("trace", fmt.Sprintf("t%d%d", si, b)).String(), Val: tpxBits(0.25 + float64(b) + 10*float64(si))}
					if !s.ExNoTS {
						x.HasTS, x.TS = true, 1500+int64(b)
					} else if !keepNoTS {
						continue
					}
					w.Ex = append(w.Ex, c36ExKey(x))
				}
			}
			sort.Strings(w.Ex)
		}
		w.ST = s.ST
		out = append(out, w)
	}
	if c.Trailer == c36TrailerHistNoTS || c.Trailer == c36TrailerHistTS {
		kv := []string{"__name__", "h2"}
		if c.TypeUnit {
			kv = append(kv, "__type__", "histogram")
		}
		w := c36NH{Labels: labels.FromStrings(kv...).String(), Count: tpxBits(2), Sum: tpxBits(3), Bounds: []float64{1}, Buckets: []float64{1, 1}}
		x := tpxEx{Labels: labels.FromStrings("trace", "h2").String(), Val: tpxBits(0.5)}
		if c.Trailer == c36TrailerHistTS {
			w.HasTS, w.TS = true, 3000
			x.HasTS, x.TS = true, 1700
		}
		if c.Fmt != c36Text && (x.HasTS || keepNoTS) {
			w.Ex = []string{c36ExKey(x)}
		}
		out = append(out, w)
	}
	return out
}

// c36Norm turns an emitted custom-bucket histogram entry into the comparable form (absolute
// bucket counts per custom bound, whatever the span layout).
func c36Norm(e tpxEntry) (c36NH, error) {
	n := c36NH{Labels: e.LS.String(), HasTS: e.HasTS, TS: e.TS, ST: e.ST}
	var fh *histogram.FloatHistogram
	switch {
	case e.H != nil && e.FH != nil:
		return n, fmt.Errorf("both integer and float histogram returned")
	case e.H != nil:
		if err := e.H.Validate(); err != nil {
			return n, fmt.Errorf("invalid histogram: %w", err)
		}
		fh = e.H.ToFloat(nil)
	case e.FH != nil:
		if err := e.FH.Validate(); err != nil {
			return n, fmt.Errorf("invalid float histogram: %w", err)
		}
		fh = e.FH
	default:
		return n, fmt.Errorf("histogram entry without histogram")
	}
	if fh.Schema != histogram.CustomBucketsSchema {
		return n, fmt.Errorf("schema %d is not the custom-buckets schema", fh.Schema)
	}
	if len(fh.NegativeSpans) != 0 || len(fh.NegativeBuckets) != 0 || fh.ZeroCount != 0 || fh.ZeroThreshold != 0 {
		return n, fmt.Errorf("custom-bucket histogram with negative/zero buckets: %s", fh)
	}
	n.Bounds = append([]float64{}, fh.CustomValues...)
	n.Buckets = make([]float64, len(fh.CustomValues)+1)
	idx, bi := 0, 0
	for _, sp := range fh.PositiveSpans {
		idx += int(sp.Offset)
		for k := 0; k < int(sp.Length); k++ {
			if idx < 0 || idx >= len(n.Buckets) || bi >= len(fh.PositiveBuckets) {
				return n, fmt.Errorf("span layout exceeds custom bounds: %s %v", fh, fh.CustomValues)
			}
			n.Buckets[idx] = fh.PositiveBuckets[bi]
			idx++
			bi++
		}
	}
	if bi != len(fh.PositiveBuckets) {
		return n, fmt.Errorf("spans cover %d buckets, %d present", bi, len(fh.PositiveBuckets))
	}
	n.Count, n.Sum = tpxBits(fh.Count), tpxBits(fh.Sum)
	for _, x := range e.Ex {
		n.Ex = append(n.Ex, c36ExKey(x))
	}
	sort.Strings(n.Ex)
	return n, nil
}

func c36IsNHCB(e tpxEntry) bool {
	if e.Kind != "hist" {
		return false
	}
	if e.H != nil {
		return e.H.Schema == histogram.CustomBucketsSchema
	}
	return e.FH != nil && e.FH.Schema == histogram.CustomBucketsSchema
}

// c36ClassicOf reports the index of the label set whose classic series e is (-1: none).
const c36H2 = 100 // c36ClassicOf: series of the trailing histogram family h2

func c36ClassicOf(e *tpxEntry, x *c36Ctx) int {
	if e.Kind != "series" {
		return -1
	}
	switch e.LS.Get("__name__") {
	case "h_bucket", "h_sum", "h_count":
	case "h2_bucket", "h2_sum", "h2_count":
		return c36H2
	default:
		return -1
	}
	for i, want := range x.setLS {
		n, ok := 0, true
		e.LS.Range(func(l labels.Label) {
			switch l.Name {
			case "__name__", "le", "__type__", "__unit__":
				return
			}
			if want.Get(l.Name) != l.Value {
				ok = false
			}
			n++
		})
		if ok && n == want.Len() {
			return i
		}
	}
	return -1
}

// ---------------------------------------------------------------------------------------------
// one case
// ---------------------------------------------------------------------------------------------

func c36Parser(c *c36Case, payload []byte, convert bool) (Parser, error) {
	st := labels.NewSymbolTable()
	if c.Fmt == c36ProtoWrap {
		inner := NewProtobufParser(payload, false, true, false, c.TypeUnit, st)
		if !convert {
			return inner, nil
		}
		return NewNHCBParser(inner, st, c.Keep, true), nil
	}
	return New(payload, c36ContentType(c.Fmt), st, ParserOptions{
		EnableTypeAndUnitLabels:                 c.TypeUnit,
		IgnoreNativeHistograms:                  c.IgnoreNative,
		ConvertClassicHistogramsToNHCB:          convert,
		KeepClassicOnClassicAndNativeHistograms: c.Keep,
		OpenMetricsSkipSTSeries:                 c.SkipST,
	})
}

type c36Viol struct {
	Sig string
	Msg func() string
}

func c36V(sig string, msg func() string) c36Viol { return c36Viol{sig, msg} }

type c36Scratch struct{ base, conv, rest, exp []tpxEntry }

var c36Pool = sync.Pool{New: func() any { return &c36Scratch{} }}

type c36Result struct {
	Viols   []c36Viol
	Outcome string // the emitted custom-bucket histograms (canonical keys)
}

// c36Ctx: everything about a case that does not depend on the line order.
type c36Ctx struct {
	sets   []c36Set
	want   []string // sorted keys of the expected custom-bucket histograms
	wantL  []c36NH
	wantST bool
	enc    *c36Enc // text/OpenMetrics only
	setLS  []labels.Labels
}

func c36NewCtx(c *c36Case) *c36Ctx {
	x := &c36Ctx{sets: c.sets()}
	for _, st := range x.sets {
		x.setLS = append(x.setLS, labels.FromStrings(st.Lbl...))
	}
	x.wantST = c.SkipST || c.Fmt == c36Proto || c.Fmt == c36ProtoWrap
	x.wantL = c36Want(c, x.sets)
	for _, w := range x.wantL {
		x.want = append(x.want, w.key(x.wantST))
	}
	sort.Strings(x.want)
	if c.Fmt == c36Text || c.Fmt == c36OM {
		x.enc = c36GetEnc(c, x.sets)
	}
	return x
}

// c36Compare is the oracle proper (also used by the self-test): base = entries without
// conversion, conv = entries with conversion.
func c36Compare(c *c36Case, x *c36Ctx, base, conv []tpxEntry, contiguous bool) (viols []c36Viol, outcome string) {
	return c36CompareS(c, x, base, conv, contiguous, &c36Scratch{})
}

func c36CompareS(c *c36Case, x *c36Ctx, base, conv []tpxEntry, contiguous bool, sc *c36Scratch) (viols []c36Viol, outcome string) {
	sets := x.sets
	rest := sc.rest[:0]
	defer func() { sc.rest = rest }()
	var got []string
	var gl []c36NH
	for _, e := range conv {
		if c36IsNHCB(e) {
			n, err := c36Norm(e)
			if err != nil {
				viols = append(viols, c36V("nhcb-malformed", func() string { return fmt.Sprintf("%v: %s", err, e) }))
				continue
			}
			got = append(got, n.key(x.wantST))
			gl = append(gl, n)
			continue
		}
		rest = append(rest, e)
	}
	outcome = strings.Join(got, "|")
	// (1) everything else
	exp := sc.exp[:0]
	defer func() { sc.exp = exp }()
	// classic series of a set that is not convertible (broken): the statement says nothing about
	// them when keep-classic is off, they are ignored on both sides
	brokenSeries := func(e *tpxEntry) bool {
		si := c36ClassicOf(e, x)
		return !c.Keep && si >= 0 && si != c36H2 && sets[si].Broken && c36Breakable(&sets[si])
	}
	for _, e := range base {
		if !c.Keep {
			if si := c36ClassicOf(&e, x); si >= 0 && (si == c36H2 || !sets[si].Native || c.IgnoreNative) {
				continue
			}
		}
		exp = append(exp, e)
	}
	if c.Broken != 0 && !c.Keep {
		k := 0
		for i := range rest {
			if !brokenSeries(&rest[i]) {
				rest[k] = rest[i]
				k++
			}
		}
		rest = rest[:k]
	}
	if !tpxSameList(rest, exp) {
		what := "passthrough-differs"
		if c.Keep {
			what = "keep-classic-differs"
			// narrower class: the only difference is that classic series lost their exemplars
			stripped := append([]tpxEntry{}, exp...)
			for i := range stripped {
				if c36ClassicOf(&stripped[i], x) >= 0 {
					stripped[i].Ex = nil
				}
			}
			if tpxSameList(rest, stripped) {
				what = "keep-classic-exemplars-lost"
			} else {
				// same exemplars on the classic series, only their timestamps differ
				a, b := append([]tpxEntry{}, rest...), append([]tpxEntry{}, exp...)
				for _, l := range [][]tpxEntry{a, b} {
					for i := range l {
						if c36ClassicOf(&l[i], x) >= 0 && len(l[i].Ex) > 0 {
							ex := append([]tpxEx{}, l[i].Ex...)
							for k := range ex {
								ex[k].HasTS, ex[k].TS = false, 0
							}
							l[i].Ex = ex
						}
					}
				}
				if tpxSameList(a, b) {
					what = "keep-classic-exemplar-timestamp-mismatch"
				}
			}
		}
		m := ""
		if c36SigNew(what) {
			m = fmt.Sprintf("entries other than custom-bucket histograms with conversion:\n  %s\nexpected (parse without conversion%s):\n  %s",
			strings.Join(tpxStrings(rest), "\n  "), map[bool]string{true: "", false: " minus classic series of converted sets"}[c.Keep], strings.Join(tpxStrings(exp), "\n  "))
		}
		viols = append(viols, c36V(what, func() string { return m }))
	}
	// (2) the custom-bucket histograms
	sg := append([]string{}, got...)
	sort.Strings(sg)
	if strings.Join(sg, "\n") == strings.Join(x.want, "\n") {
		return viols, outcome
	}
	sig := "nhcb-content-mismatch"
	switch {
	case !contiguous:
		// The lines of one label set are separated by lines of the other one: the statement
		// still demands one histogram per label set. One dedicated signature (see report).
		sig = "interleaved-label-sets-not-collated"
	case len(got) > len(x.want):
		sig = "nhcb-extra-histogram"
	case len(got) < len(x.want):
		sig = "nhcb-missing-histogram"
	default:
		// same number: find the field that differs by blanking one field at a time
		try := func(f func(n *c36NH)) bool {
			var a, b []string
			for _, n := range gl {
				f(&n)
				a = append(a, n.key(x.wantST))
			}
			for _, n := range x.wantL {
				f(&n)
				b = append(b, n.key(x.wantST))
			}
			sort.Strings(a)
			sort.Strings(b)
			return strings.Join(a, "\n") == strings.Join(b, "\n")
		}
		switch {
		case try(func(n *c36NH) { n.HasTS, n.TS = false, 0 }):
			sig = c36TSSig(c, x, "nhcb-timestamp-mismatch")
		case try(func(n *c36NH) { n.ST = 0 }):
			sig = "nhcb-start-timestamp-mismatch"
		case try(func(n *c36NH) { n.Ex = nil }):
			sig = "nhcb-exemplars-mismatch"
			noTS := func(n *c36NH) {
				ex := make([]string, len(n.Ex))
				for i, e := range n.Ex {
					ex[i] = e[:strings.LastIndex(e, "|")]
				}
				sort.Strings(ex)
				n.Ex = ex
			}
			fromBroken := false
			for _, n := range gl {
				for _, e := range n.Ex {
					for si := range sets {
						if sets[si].Broken && c36Breakable(&sets[si]) && strings.Contains(e, fmt.Sprintf("trace=\"t%d", si)) {
							fromBroken = true
						}
					}
				}
			}
			switch {
			case fromBroken:
				// an emitted histogram carries exemplars of an earlier histogram whose conversion failed
				sig = "nhcb-exemplars-of-failed-conversion-reused"
			case try(noTS):
				// right exemplars, but with a timestamp they do not have (or vice versa)
				sig = "nhcb-exemplar-timestamp-mismatch"
			}
		case try(func(n *c36NH) { n.Labels = "" }):
			sig = "nhcb-labels-mismatch"
		case try(func(n *c36NH) { n.Sum = 0 }):
			sig = "nhcb-sum-mismatch"
		case try(func(n *c36NH) { n.Count = 0 }):
			sig = "nhcb-count-mismatch"
		case try(func(n *c36NH) { n.Buckets = nil }):
			sig = "nhcb-bucket-counts-mismatch"
		case try(func(n *c36NH) { n.Bounds, n.Buckets = nil, nil }):
			sig = "nhcb-bounds-mismatch"
		}
	}
	viols = append(viols, c36V(sig, func() string {
		return fmt.Sprintf("custom-bucket histograms emitted:\n  %s\nexpected (one per label set, from the model):\n  %s", strings.Join(got, "\n  "), strings.Join(x.want, "\n  "))
	}))
	return viols, outcome
}

// c36Seen: signatures already reported (messages of repeats are not rendered).
var c36Seen sync.Map

func c36SigNew(sig string) bool { _, ok := c36Seen.Load(sig); return !ok }

func c36Run(c *c36Case, x *c36Ctx) c36Result {
	if x == nil {
		x = c36NewCtx(c)
	}
	payload, contiguous := c36Payload(c, x)
	show := func() string {
		if c.Fmt == c36Proto || c.Fmt == c36ProtoWrap {
			return fmt.Sprintf("%s payload %x", c36FmtNames[c.Fmt], payload)
		}
		return fmt.Sprintf("%s payload:\n%s", c36FmtNames[c.Fmt], payload)
	}
	cc := *c
	cc.Perm = append([]int{}, c.Perm...)
	opts := fmt.Sprintf("keep-classic=%v type-and-unit-labels=%v skip-st-series=%v ignore-native=%v", cc.Keep, cc.TypeUnit, cc.SkipST, cc.IgnoreNative)
	sc := c36Pool.Get().(*c36Scratch)
	defer c36Pool.Put(sc)
	var base, conv []tpxEntry
	var berr, cerr error
	pnc, stack := vx.Guard(func() {
		p, err := c36Parser(c, payload, false)
		if err != nil || p == nil {
			berr = fmt.Errorf("no parser: %v", err)
			return
		}
		base, berr = tpxCollectInto(p, x.wantST, 1000, sc.base)
		sc.base = base
		p, err = c36Parser(c, payload, true)
		if err != nil || p == nil {
			cerr = fmt.Errorf("no parser: %v", err)
			return
		}
		conv, cerr = tpxCollectInto(p, x.wantST, 1000, sc.conv)
		sc.conv = conv
	})
	one := func(sig, msg string) c36Result {
		return c36Result{Viols: []c36Viol{c36V(sig, func() string { return msg })}}
	}
	if pnc != nil {
		return one("nhcb-parse-panic", fmt.Sprintf("panic %v (%s)\n%s\n%s", pnc, opts, show(), stack))
	}
	if berr != nil {
		// the generated payload is valid by construction: the harness (or the base parser) is broken
		return one("valid-payload-rejected", fmt.Sprintf("parse without conversion failed: %v (%s)\n%s", berr, opts, show()))
	}
	if cerr != nil {
		return one("nhcb-parse-error", fmt.Sprintf("parse with conversion failed: %v (%s)\n%s", cerr, opts, show()))
	}
	viols, out := c36CompareS(c, x, base, conv, contiguous, sc)
	for i := range viols {
		// precondition-based signature: an earlier histogram of the payload is not convertible
		switch viols[i].Sig {
		case "nhcb-exemplar-timestamp-mismatch", "keep-classic-exemplar-timestamp-mismatch", "nhcb-exemplars-of-failed-conversion-reused", "interleaved-label-sets-not-collated":
		default:
			if c.Broken != 0 {
				viols[i].Sig += "-after-failed-conversion"
			}
		}
		m := viols[i].Msg
		viols[i].Msg = func() string { return fmt.Sprintf("%s (%s)\n%s", m(), opts, show()) }
	}
	return c36Result{Viols: viols, Outcome: out}
}

// c36TSSig narrows a timestamp mismatch: "…-next-sample-differs" when some label set is followed
// (next sample line of the payload) by a sample whose timestamp differs from the set's own.
func c36TSSig(c *c36Case, x *c36Ctx, sig string) string {
	if c.Fmt == c36ProtoWrap {
		// NHCBParser around a ProtobufParser: the next sample is the next metric of the family
		// or the first metric of the following family.
		order := []int{0, 1}[:len(x.sets)]
		if len(c.Perm) > 0 && c.Perm[0] == 1 && len(x.sets) == 2 {
			order = []int{1, 0}
		}
		for k, si := range order {
			next := int64(-1)
			switch {
			case k+1 < len(order):
				next = x.sets[order[k+1]].TS
			case c.Trailer == c36TrailerTyped || c.Trailer == c36TrailerBareTS:
				next = 7000
			case c.Trailer == c36TrailerBare:
				next = 0
			}
			if next >= 0 && next != x.sets[si].TS {
				return sig + "-next-sample-differs"
			}
		}
		return sig
	}
	if x.enc == nil {
		return sig
	}
	sets, lines := x.sets, x.enc.lines
	perm := c.Perm
	if perm == nil {
		for i := range lines {
			perm = append(perm, i)
		}
	}
	trailerTS := int64(-1) // -1: no following sample (end of input or metadata lines first)
	switch c.Trailer {
	case c36TrailerBareTS:
		trailerTS = 7000
	case c36TrailerBare:
		trailerTS = 0
	}
	for k, p := range perm {
		s := lines[p].Set
		next := trailerTS
		switch {
		case k+1 < len(perm) && lines[perm[k+1]].Set == s:
			continue
		case x.enc.created[s] != "" && !c.SkipST:
			next = 0 // the set's "_created" sample (written without timestamp) follows
		case k+1 < len(perm):
			next = sets[lines[perm[k+1]].Set].TS
		}
		if next >= 0 && next != sets[s].TS {
			return sig + "-next-sample-differs"
		}
	}
	return sig
}

// ---------------------------------------------------------------------------------------------
// enumeration
// ---------------------------------------------------------------------------------------------

type c36Job struct {
	C     c36Case
	First int // orders sweep: fixed first line
	Lines int
	Mode  int // values sweep: 1 = arithmetic product, 2 = carried-metadata product
}

func c36Opts(fm int) []c36Case {
	var out []c36Case
	bools := []bool{false, true}
	for _, keep := range bools {
		for _, tu := range bools {
			switch fm {
			case c36Text, c36ProtoWrap:
				out = append(out, c36Case{Fmt: fm, Keep: keep, TypeUnit: tu})
			case c36OM:
				for _, sk := range bools {
					out = append(out, c36Case{Fmt: fm, Keep: keep, TypeUnit: tu, SkipST: sk})
				}
			case c36Proto:
				for _, ig := range bools {
					out = append(out, c36Case{Fmt: fm, Keep: keep, TypeUnit: tu, IgnoreNative: ig})
				}
			}
		}
	}
	return out
}

func c36NLines(sh []int) int {
	n := 0
	for _, s := range sh {
		n += len(c36Shapes[s].Bounds) + 2
		if c36Shapes[s].Inf {
			n++
		}
	}
	return n
}

func c36ShapeSets(nsets int) [][]int {
	var out [][]int
	if nsets == 1 {
		for s := range c36Shapes {
			out = append(out, []int{s})
		}
		return out
	}
	for _, p := range c36ShapePairs {
		out = append(out, []int{p[0], p[1]})
	}
	return out
}

// c36ValueJobs: outer loop of the "values" sweep. Mode 1 (arithmetic): every cumulative vector
// and sum, timestamps {first, last combination}, no trailer; mode 2 (carried metadata): the
// strictly increasing vector, every timestamp combination, trailer, exemplar mode, start
// timestamp and native-histogram assignment. Both: every format and option combination.
func c36ValueJobs(r *vx.Run) []c36Job {
	var jobs []c36Job
	for ll, lists := range c36LabelLists {
		for _, sh := range c36ShapeSets(len(lists)) {
			nvec := len(c36Vectors(len(c36Shapes[sh[0]].Bounds)))
			for vec := 0; vec < nvec; vec++ {
				for sum := range c36Sums {
					jobs = append(jobs, c36Job{C: c36Case{LL: ll, Sh: sh, Vec: vec, Sum: sum}, Mode: 1})
				}
			}
			jobs = append(jobs, c36Job{C: c36Case{LL: ll, Sh: sh, Vec: nvec - 2, Sum: 0}, Mode: 2})
			jobs = append(jobs, c36Job{C: c36Case{LL: ll, Sh: sh, Vec: nvec - 2, Sum: 0}, Mode: 3})
		}
	}
	return jobs
}

// c36ExemplarInner (mode 3, consecutive histograms): every timestamp combination x following
// family {none, histogram h2 without / with timestamps} x exemplars of each set with / without
// timestamp x {all sets convertible, one set not convertible} x keep-classic, every bucket line
// with an exemplar, in expfmt and reversed line order (protobuf: both metric orders).
func c36ExemplarInner(j c36Job, f func(c *c36Case) bool) {
	lists := c36LabelLists[j.C.LL]
	sh := j.C.Sh
	n := len(lists)
	tsl := len(c36TS1)
	if n == 2 {
		tsl = len(c36TS2)
	}
	base := j.C
	base.Ex = 2
	sets := base.sets()
	brokens := []int{0}
	for i := range sets {
		if c36Breakable(&sets[i]) {
			brokens = append(brokens, 1<<i)
		}
	}
	for tsc := 0; tsc < tsl; tsc++ {
		for _, tr := range []int{c36TrailerNone, c36TrailerHistNoTS, c36TrailerHistTS} {
			for fm := c36Text; fm <= c36ProtoWrap; fm++ {
				for _, keep := range []bool{false, true} {
					for ex := 0; ex < 1<<n; ex++ {
						if fm == c36Text && ex != 0 {
							continue // no exemplars in the text format
						}
						for _, br := range brokens {
							if fm == c36Proto && br != 0 {
								continue // the protobuf parser rejects the whole payload
							}
							c := base
							c.Fmt, c.Keep, c.TSC, c.Trailer, c.ExNoTS, c.Broken = fm, keep, tsc, tr, ex, br
							if fm == c36Text {
								c.Ex = 0
							}
							if fm == c36Proto || fm == c36ProtoWrap {
								for swap := 0; swap < n; swap++ {
									cc := c
									cc.Perm = []int{swap}
									if !f(&cc) {
										return
									}
								}
								continue
							}
							nl := c36NLines(sh)
							id, rev := make([]int, nl), make([]int, nl)
							for i := range id {
								id[i], rev[i] = i, nl-1-i
							}
							c1, c2 := c, c
							c1.Perm, c2.Perm = id, rev
							if !f(&c1) || !f(&c2) {
								return
							}
						}
					}
				}
			}
		}
	}
}

// c36ValueInner enumerates the inner dimensions of one values-sweep job.
func c36ValueInner(j c36Job, f func(c *c36Case) bool) {
	if j.Mode == 3 {
		c36ExemplarInner(j, f)
		return
	}
	lists := c36LabelLists[j.C.LL]
	sh := j.C.Sh
	nvec := len(c36Vectors(len(c36Shapes[sh[0]].Bounds)))
	isFloat := j.C.Vec == nvec-1
	tsl := len(c36TS1)
	if len(lists) == 2 {
		tsl = len(c36TS2)
	}
	tscs, trs, exs, sts := []int{0, tsl - 1}, []int{c36TrailerNone}, []int{2}, []int{0}
	if j.Mode == 2 {
		tscs = nil
		for i := 0; i < tsl; i++ {
			tscs = append(tscs, i)
		}
		trs, exs, sts = []int{0, 1, 2, 3}, []int{0, 1, 2}, []int{0, 1}
	}
	for _, tsc := range tscs {
		for _, tr := range trs {
			for fm := c36Text; fm <= c36ProtoWrap; fm++ {
				if isFloat && fm == c36OM {
					continue // expfmt cannot write fractional bucket counts in OpenMetrics
				}
				isProto := fm == c36Proto || fm == c36ProtoWrap
				for _, o := range c36Opts(fm) {
					for _, ex := range exs {
						if fm == c36Text && ex != exs[0] {
							continue
						}
						for _, st := range sts {
							if fm == c36Text && st > 0 {
								continue
							}
							natives := []int{0}
							if isProto && !isFloat && j.Mode == 2 {
								// every set or no set also carries an exponential histogram (families
								// mixing classic-only and native metrics are left to C35)
								natives = []int{0, 1<<len(lists) - 1}
							}
							for _, nat := range natives {
								c := o
								c.LL, c.Sh, c.Vec, c.Sum, c.TSC, c.Ex, c.ST, c.Trailer, c.Native = j.C.LL, sh, j.C.Vec, j.C.Sum, tsc, ex, st == 1, tr, nat
								if fm == c36Text {
									c.Ex = 0
								}
								if !isProto {
									// expfmt order and the completely reversed order
									n := c36NLines(sh)
									id, rev := make([]int, n), make([]int, n)
									for i := range id {
										id[i], rev[i] = i, n-1-i
									}
									c1, c2 := c, c
									c1.Perm, c2.Perm = id, rev
									if !f(&c1) || !f(&c2) {
										return
									}
									continue
								}
								// protobuf: both metric orders (buckets must be ascending in the protobuf format)
								for swap := 0; swap < len(sh); swap++ {
									cc := c
									cc.Perm = []int{swap}
									if !f(&cc) {
										return
									}
								}
							}
						}
					}
				}
			}
		}
	}
}

// c36OrderJobs: the "orders" sweep — all permutations of the series lines, split by first line.
//
//	quick:    <= 6 lines: every timestamp combination, trailers {none, bare sample with timestamp};
//	          7 lines: distinct timestamps only.
//	thorough: <= 7 lines: everything; 8 lines (label sets a=x / a=y): every timestamp combination,
//	          timestamp combinations {none, distinct, first only}, two trailers; 9 lines: text format,
//	          distinct timestamps, two trailers.
func c36OrderJobs(r *vx.Run) []c36Job {
	var jobs []c36Job
	all := func(n int) []int {
		var out []int
		for i := 0; i < n; i++ {
			out = append(out, i)
		}
		return out
	}
	two := []int{c36TrailerNone, c36TrailerBareTS}
	for ll, lists := range c36LabelLists {
		if r.Quick() && ll == 5 {
			continue
		}
		tsl := len(c36TS1)
		if len(lists) == 2 {
			tsl = len(c36TS2)
		}
		for _, sh := range c36ShapeSets(len(lists)) {
			n := c36NLines(sh)
			tscs, trailers, fewOpts, textOnly := all(tsl), all(4), false, false
			switch {
			case r.Quick() && n <= 6:
				trailers = two
			case r.Quick() && n == 7:
				tscs, trailers = []int{2}, two
			case r.Quick():
				continue
			case n <= 7:
			case n == 8 && ll == 3:
				tscs, trailers = []int{0, 2, 3}, two
			case n == 9 && ll == 3:
				tscs, trailers, fewOpts, textOnly = []int{2}, two, true, true
			default:
				continue
			}
			nvec := len(c36Vectors(len(c36Shapes[sh[0]].Bounds)))
			for _, tsc := range tscs {
				for _, tr := range trailers {
					for fm := c36Text; fm <= c36OM; fm++ {
						for _, o := range c36Opts(fm) {
							if o.TypeUnit || (fewOpts && o.SkipST) || (textOnly && fm != c36Text) {
								continue
							}
							c := o
							c.LL, c.Sh, c.Vec, c.Sum, c.TSC, c.Trailer = ll, sh, nvec-2, 0, tsc, tr
							if fm == c36OM {
								c.Ex = 2
							}
							for first := 0; first < n; first++ {
								jobs = append(jobs, c36Job{C: c, First: first, Lines: n})
							}
						}
					}
				}
			}
		}
	}
	return jobs
}

func TestVerifC36(t *testing.T) {
	r := vx.Start(t, "C36", "exploration")
	defer r.Finish()

	report := func(c *c36Case, res c36Result) {
		for _, v := range res.Viols {
			if _, dup := c36Seen.LoadOrStore(v.Sig, true); dup {
				r.Violation(v.Sig, "", nil) // counted by vx; only the first one is rendered
				continue
			}
			r.Violation(v.Sig, v.Msg(), c)
		}
	}
	if r.Replay != "" {
		var c c36Case
		r.LoadReplay(&c)
		res := c36Run(&c, nil)
		report(&c, res)
		for _, v := range res.Viols {
			fmt.Printf("replay: %s\n", v.Sig)
		}
		return
	}

	// self-test: the oracle must reject cumulative instead of de-cumulated counts, wrong bucket
	// counts, a second histogram for the same label set, a dropped pass-through entry, a wrong
	// timestamp; and accept the (correct) conversion of this simple case.
	{
		// (hand-made entries: the self-test must not depend on the implementation under test)
		c := &c36Case{Fmt: c36Text, LL: 1, Sh: []int{3}, Vec: len(c36Vectors(2)) - 2, Perm: nil, Trailer: c36TrailerBare}
		x := c36NewCtx(c)
		ser := func(v float64, kv ...string) tpxEntry {
			return tpxEntry{Kind: "series", LS: labels.FromStrings(kv...), Val: tpxBits(v)}
		}
		base := []tpxEntry{
			{Kind: "type", Name: "h", Text: "histogram"},
			ser(1, "__name__", "h_bucket", "a", "x", "le", "-1.0"),
			ser(3, "__name__", "h_bucket", "a", "x", "le", "0.5"),
			ser(4, "__name__", "h_bucket", "a", "x", "le", "+Inf"),
			ser(2.5, "__name__", "h_sum", "a", "x"),
			ser(4, "__name__", "h_count", "a", "x"),
			ser(5, "__name__", "u"),
		}
		conv := []tpxEntry{
			base[0],
			{Kind: "hist", LS: labels.FromStrings("__name__", "h", "a", "x"), H: &histogram.Histogram{
				Schema: histogram.CustomBucketsSchema, Count: 4, Sum: 2.5, CustomValues: []float64{-1, 0.5},
				PositiveSpans: []histogram.Span{{Offset: 0, Length: 3}}, PositiveBuckets: []int64{1, 1, -1},
			}},
			base[6],
		}
		sigOf := func(conv []tpxEntry) string {
			v, _ := c36Compare(c, x, base, conv, true)
			var ss []string
			for _, y := range v {
				ss = append(ss, y.Sig)
			}
			return strings.Join(ss, ",")
		}
		clone := func() []tpxEntry {
			out := append([]tpxEntry{}, conv...)
			for i := range out {
				if out[i].H != nil {
					out[i].H = out[i].H.Copy()
				}
			}
			return out
		}
		hi := 1
		if sig := sigOf(conv); sig != "" {
			t.Fatalf("self-test: the correct conversion is rejected (%s)", sig)
		}
		bad := clone()
		bad[hi].H.PositiveBuckets = []int64{1, 2, 1} // the cumulative counts 1,3,4 (delta-encoded) instead of 1,2,1
		if sig := sigOf(bad); sig == "" {
			t.Fatalf("self-test: cumulative bucket counts not rejected")
		}
		bad = clone()
		bad[hi].H.PositiveBuckets = []int64{2, -1, 0} // counts 2,1,1 instead of 1,2,1
		if sig := sigOf(bad); sig != "nhcb-bucket-counts-mismatch" {
			t.Fatalf("self-test: wrong bucket counts not rejected (got %q)", sig)
		}
		bad = append(clone(), conv[hi])
		if sig := sigOf(bad); sig != "nhcb-extra-histogram" {
			t.Fatalf("self-test: duplicate histogram not rejected (got %q)", sig)
		}
		bad = clone()[1:]
		if sig := sigOf(bad); sig != "passthrough-differs" {
			t.Fatalf("self-test: dropped pass-through entry not rejected (got %q)", sig)
		}
		bad = clone()
		bad[hi].HasTS, bad[hi].TS = true, 7000
		if sig := sigOf(bad); sig != "nhcb-timestamp-mismatch" {
			t.Fatalf("self-test: wrong timestamp not rejected (got %q)", sig)
		}
	}

	vjobs := c36ValueJobs(r)
	ojobs := c36OrderJobs(r)
	var nEval, nInter, nConvExpected atomic.Int64
	runOne := func(c *c36Case, x *c36Ctx) {
		res := c36Run(c, x)
		report(c, res)
		k := nEval.Add(1)
		r.Distinct("distinct_outcomes", res.Outcome)
		if res.Outcome != "" {
			r.Distinct("distinct_nontrivial", res.Outcome)
			nConvExpected.Add(1)
		}
		for _, v := range res.Viols {
			if v.Sig == "interleaved-label-sets-not-collated" {
				nInter.Add(1)
			}
		}
		r.SampleAt(k, func() any {
			p, _ := c36Payload(c, c36NewCtx(c))
			s := string(p)
			if c.Fmt >= c36Proto {
				s = fmt.Sprintf("%x", p)
			}
			return map[string]any{"case": c, "payload": s, "custom_bucket_histograms_emitted": strings.Split(res.Outcome, "|")}
		})
	}
	r.ParallelN(int64(len(vjobs)), func(i int64) {
		cnt := 0
		c36ValueInner(vjobs[i], func(c *c36Case) bool {
			runOne(c, nil)
			cnt++
			return cnt%256 != 0 || !(r.Expired() || r.TooManyViolations())
		})
	})
	valuesDone := nEval.Load()
	r.ParallelN(int64(len(ojobs)), func(i int64) {
		j := ojobs[i]
		x := c36NewCtx(&j.C)
		rest := make([]int, 0, j.Lines-1)
		for k := 0; k < j.Lines; k++ {
			if k != j.First {
				rest = append(rest, k)
			}
		}
		cnt := 0
		c := j.C
		c.Perm = make([]int, j.Lines)
		vx.Perms(j.Lines-1, func(p []int) bool {
			c.Perm[0] = j.First
			for k, y := range p {
				c.Perm[k+1] = rest[y]
			}
			runOne(&c, x)
			cnt++
			return cnt%256 != 0 || !(r.Expired() || r.TooManyViolations())
		})
	})
	r.Count("evaluations", int(nEval.Load()))
	r.Count("evaluations_values_sweep", int(valuesDone))
	r.Count("evaluations_orders_sweep", int(nEval.Load()-valuesDone))
	r.Count("cases_with_custom_bucket_histogram_emitted", int(nConvExpected.Load()))
	r.Count("interleaved_order_cases_flagged", int(nInter.Load()))
	r.Set("max_lines_all_permutations", vx.Pick(r, 7, 9))
	r.Set("value_jobs", len(vjobs))
	r.Set("order_jobs", len(ojobs))
	r.Set("rule", "values sweep: product of 6 label-set lists x bucket shapes (0-3 finite bounds, +Inf exposed or not) x all non-decreasing cumulative vectors over {0,1,3} plus a strictly increasing and a fractional one x sums {2.5,NaN,-1} x per-set timestamp combinations x exemplar modes x start timestamps x 4 trailers x every ParserOptions combination x {text, OpenMetrics (expfmt order and reversed), protobuf and protobuf wrapped in NHCBParser (every bucket order, both metric orders, with/without an exponential histogram on each set)}; orders sweep: every permutation of the series lines of the histogram family (text, OpenMetrics). A case is non-trivial when a custom-bucket histogram is emitted; distinct_nontrivial counts distinct full parser outputs of such cases.")
	r.Assume("expfmt (prometheus/common) and client_model encode the model families correctly; the parse WITHOUT conversion is the reference for pass-through entries (its own faithfulness is C35)")
	r.Assume("inputs are valid classic histograms (cumulative counts non-decreasing, +Inf bucket equal to count, all lines of a label set carry the same timestamp, exemplars carry timestamps)")
	if r.Get("evaluations") > 0 && !r.Expired() {
		// vacuity guard
		if nConvExpected.Load() == 0 {
			t.Fatal("vacuous run: no case emitted a custom-bucket histogram")
		}
	}
}

func c36TimeMs(ms int64) time.Time { return time.UnixMilli(ms).UTC() }
