package textparse

// Shared by the C35 and C36 harnesses: drains a Parser the way the scrape loop does
// (Next; Type/Help/Unit/Comment; Series|Histogram; Labels; StartTimestamp; Exemplar*) and
// records every entry as plain comparable data.

import (
	"errors"
	"fmt"
	"io"
	"math"
	"strings"

	"github.com/prometheus/prometheus/model/exemplar"
	"github.com/prometheus/prometheus/model/histogram"
	"github.com/prometheus/prometheus/model/labels"
)

type tpxEx struct {
	Labels string
	Val    uint64 // float bits
	HasTS  bool
	TS     int64
}

type tpxEntry struct {
	Kind   string // help type unit comment series hist
	Name   string // metadata: family name as reported
	Text   string // metadata text / type name
	LS     labels.Labels // series: labels
	HasTS  bool
	TS     int64
	Val    uint64 // float bits (series)
	H      *histogram.Histogram
	FH     *histogram.FloatHistogram
	Ex     []tpxEx
	ST     int64
}

func tpxBits(f float64) uint64 { return math.Float64bits(f) }

func tpxF(b uint64) string {
	return fmt.Sprint(math.Float64frombits(b))
}

// String renders the entry without pointers, for messages and digests.
func (e tpxEntry) String() string {
	var sb strings.Builder
	sb.WriteString(e.Kind)
	switch e.Kind {
	case "help", "type", "unit", "comment":
		fmt.Fprintf(&sb, " %q %q", e.Name, e.Text)
		return sb.String()
	}
	sb.WriteString(" " + e.LS.String())
	if e.HasTS {
		fmt.Fprintf(&sb, " @%d", e.TS)
	}
	switch {
	case e.H != nil:
		sb.WriteString(" H" + e.H.String() + fmt.Sprint(e.H.CustomValues, e.H.CounterResetHint))
	case e.FH != nil:
		sb.WriteString(" FH" + e.FH.String() + fmt.Sprint(e.FH.CustomValues, e.FH.CounterResetHint))
	default:
		sb.WriteString(" =" + tpxF(e.Val))
	}
	if e.ST != 0 {
		fmt.Fprintf(&sb, " st=%d", e.ST)
	}
	for _, x := range e.Ex {
		fmt.Fprintf(&sb, " #%s %s", x.Labels, tpxF(x.Val))
		if x.HasTS {
			fmt.Fprintf(&sb, "@%d", x.TS)
		}
	}
	return sb.String()
}

// tpxSame compares two entries structurally (what String renders, without rendering).
func tpxSame(a, b *tpxEntry) bool {
	if a.Kind != b.Kind || a.Name != b.Name || a.Text != b.Text || a.HasTS != b.HasTS || a.TS != b.TS || a.Val != b.Val || a.ST != b.ST || len(a.Ex) != len(b.Ex) {
		return false
	}
	if !labels.Equal(a.LS, b.LS) {
		return false
	}
	for i := range a.Ex {
		if a.Ex[i] != b.Ex[i] {
			return false
		}
	}
	if (a.H == nil) != (b.H == nil) || (a.FH == nil) != (b.FH == nil) {
		return false
	}
	if a.H != nil && !(a.H.Equals(b.H) && a.H.CounterResetHint == b.H.CounterResetHint) {
		return a.String() == b.String() // Equals is strict about NaN sums: fall back to the rendering
	}
	if a.FH != nil && !(a.FH.Equals(b.FH) && a.FH.CounterResetHint == b.FH.CounterResetHint) {
		return a.String() == b.String()
	}
	return true
}

func tpxSameList(a, b []tpxEntry) bool {
	if len(a) != len(b) {
		return false
	}
	for i := range a {
		if !tpxSame(&a[i], &b[i]) {
			return false
		}
	}
	return true
}

func tpxStrings(es []tpxEntry) []string {
	out := make([]string, len(es))
	for i, e := range es {
		out[i] = e.String()
	}
	return out
}

// tpxCollect drains p. wantST: call StartTimestamp for every sample (what the scrape loop does
// when start-timestamp ingestion is on). The returned error is the terminating error when it is
// not io.EOF. maxEntries guards against a parser that never terminates.
func tpxCollect(p Parser, wantST bool, maxEntries int) (out []tpxEntry, err error) {
	return tpxCollectInto(p, wantST, maxEntries, make([]tpxEntry, 0, 24))
}

// tpxCollectInto is tpxCollect appending to buf[:0] (buffer reuse in hot loops).
func tpxCollectInto(p Parser, wantST bool, maxEntries int, buf []tpxEntry) (out []tpxEntry, err error) {
	out = buf[:0]
	for {
		if len(out) > maxEntries {
			return out, errors.New("tpx: parser did not terminate")
		}
		et, e := p.Next()
		if e != nil {
			if errors.Is(e, io.EOF) {
				return out, nil
			}
			return out, e
		}
		switch et {
		case EntryHelp:
			n, t := p.Help()
			out = append(out, tpxEntry{Kind: "help", Name: string(n), Text: string(t)})
		case EntryType:
			n, t := p.Type()
			out = append(out, tpxEntry{Kind: "type", Name: string(n), Text: string(t)})
		case EntryUnit:
			n, t := p.Unit()
			out = append(out, tpxEntry{Kind: "unit", Name: string(n), Text: string(t)})
		case EntryComment:
			out = append(out, tpxEntry{Kind: "comment", Text: string(p.Comment())})
		case EntrySeries, EntryHistogram:
			var en tpxEntry
			var ts *int64
			if et == EntrySeries {
				var v float64
				_, ts, v = p.Series()
				en.Kind = "series"
				en.Val = tpxBits(v)
			} else {
				var h *histogram.Histogram
				var fh *histogram.FloatHistogram
				_, ts, h, fh = p.Histogram()
				en.Kind = "hist"
				if h != nil {
					en.H = h.Copy()
				}
				if fh != nil {
					en.FH = fh.Copy()
				}
			}
			if ts != nil {
				en.HasTS, en.TS = true, *ts
			}
			var l labels.Labels
			p.Labels(&l)
			en.LS = l.Copy()
			if wantST {
				en.ST = p.StartTimestamp()
			}
			var ex exemplar.Exemplar
			for p.Exemplar(&ex) {
				en.Ex = append(en.Ex, tpxEx{Labels: ex.Labels.String(), Val: tpxBits(ex.Value), HasTS: ex.HasTs, TS: ex.Ts})
				ex = exemplar.Exemplar{}
				if len(en.Ex) > maxEntries {
					return out, errors.New("tpx: exemplar iteration did not terminate")
				}
			}
			out = append(out, en)
		default:
			return out, fmt.Errorf("tpx: Next returned entry kind %d without error", et)
		}
	}
}
