package textparse

// C35: exposition formats are parsed faithfully and consistently; parsing arbitrary bytes never
// crashes and yields entries or an error.
//
// Engine E1 (bounded-exhaustive inputs).
//
// Part 1 (faithfulness): metric families built from the client_model protobuf types are encoded
// by prometheus/common expfmt as text, OpenMetrics and delimited protobuf and parsed by
// textparse.New under every ParserOptions combination. The oracle computes, from the MODEL and the
// formats' documented naming rules only, the set of metadata entries and the set of samples
// (labels, value bits, timestamp, exemplars, start timestamp) that must come out, and compares.
// The outputs of the three formats are also compared with each other directly on what all of them
// can express (labels/value/timestamp of every sample).
//
// Part 2 (totality): every byte string up to length 5 (thorough 6) over a 12-symbol alphabet per
// format, and every single-byte substitution (alphabet + special bytes; thorough: all 256) and
// deletion in each distinct valid payload of a representative list: the parser terminates,
// does not panic, and every Next returns an entry or an error.

import (
	"bytes"
	"fmt"
	"math"
	"sort"
	"strconv"
	"strings"
	"sync"
	"sync/atomic"
	"testing"
	"time"
	"unicode/utf8"

	dto "github.com/prometheus/client_model/go"
	"github.com/prometheus/common/expfmt"
	"github.com/prometheus/common/model"
	"google.golang.org/protobuf/proto"
	"google.golang.org/protobuf/types/known/timestamppb"

	"github.com/prometheus/prometheus/internal/verif/vx"
	"github.com/prometheus/prometheus/model/histogram"
	"github.com/prometheus/prometheus/model/labels"
)

// ---------------------------------------------------------------------------------------------
// model
// ---------------------------------------------------------------------------------------------

const (
	c35Counter = iota
	c35Gauge
	c35Untyped
	c35Summary
	c35Histogram
	c35Native // protobuf only: exponential native histogram (optionally with classic buckets)
)

const (
	c35Text = iota
	c35OM
	c35Proto
)

var c35FmtNames = []string{"text", "openmetrics", "protobuf"}

type c35Ex struct {
	Lbl   []string
	Val   float64
	HasTS bool
	TS    int64 // ms
}

type c35Metric struct {
	Lbl   []string
	HasTS bool
	TS    int64
	Val   float64 // counter gauge untyped
	Ex    *c35Ex  // counter
	ST    int64   // ms, 0 none (counter summary histogram)
	// summary
	Q, QV []float64
	// summary + histogram
	Sum   float64
	Count float64 // integral unless Float
	// classic buckets (histogram, native)
	B     []float64 // upper bounds, ascending; may end with +Inf
	Cum   []float64
	BEx   []*c35Ex // per bucket, may be nil
	Float bool
	// native
	Schema     int32
	ZeroThresh float64
	ZeroCount  float64
	PosSpans   [][2]int // offset,length
	PosBuckets []float64 // absolute counts per bucket
	NegSpans   [][2]int
	NegBuckets []float64
	NEx        []*c35Ex
	Gauge      bool
	// family of type c35Native: this metric has no native part (classic buckets only)
	ClassicOnly bool
}

type c35Fam struct {
	Name    string
	Type    int
	Help    *string
	Unit    string
	Metrics []c35Metric
}

// ---------------------------------------------------------------------------------------------
// encoding (client_model + expfmt)
// ---------------------------------------------------------------------------------------------

func c35Pairs(kv []string) []*dto.LabelPair {
	var out []*dto.LabelPair
	for i := 0; i+1 < len(kv); i += 2 {
		out = append(out, &dto.LabelPair{Name: proto.String(kv[i]), Value: proto.String(kv[i+1])})
	}
	return out
}

func c35TS(ms int64) *timestamppb.Timestamp { return timestamppb.New(time.UnixMilli(ms).UTC()) }

func c35DtoEx(e *c35Ex) *dto.Exemplar {
	if e == nil {
		return nil
	}
	x := &dto.Exemplar{Label: c35Pairs(e.Lbl), Value: proto.Float64(e.Val)}
	if e.HasTS {
		x.Timestamp = c35TS(e.TS)
	}
	return x
}

func c35Spans(s [][2]int) []*dto.BucketSpan {
	var out []*dto.BucketSpan
	for _, x := range s {
		out = append(out, &dto.BucketSpan{Offset: proto.Int32(int32(x[0])), Length: proto.Uint32(uint32(x[1]))})
	}
	return out
}

func c35Deltas(abs []float64) []int64 {
	var out []int64
	prev := int64(0)
	for _, a := range abs {
		out = append(out, int64(a)-prev)
		prev = int64(a)
	}
	return out
}

func (f *c35Fam) dto() *dto.MetricFamily {
	mf := &dto.MetricFamily{Name: proto.String(f.Name), Help: f.Help}
	if f.Unit != "" {
		mf.Unit = proto.String(f.Unit)
	}
	for _, m := range f.Metrics {
		d := &dto.Metric{Label: c35Pairs(m.Lbl)}
		if m.HasTS {
			d.TimestampMs = proto.Int64(m.TS)
		}
		var created *timestamppb.Timestamp
		if m.ST != 0 {
			created = c35TS(m.ST)
		}
		switch f.Type {
		case c35Counter:
			mf.Type = dto.MetricType_COUNTER.Enum()
			d.Counter = &dto.Counter{Value: proto.Float64(m.Val), Exemplar: c35DtoEx(m.Ex), CreatedTimestamp: created}
		case c35Gauge:
			mf.Type = dto.MetricType_GAUGE.Enum()
			d.Gauge = &dto.Gauge{Value: proto.Float64(m.Val)}
		case c35Untyped:
			mf.Type = dto.MetricType_UNTYPED.Enum()
			d.Untyped = &dto.Untyped{Value: proto.Float64(m.Val)}
		case c35Summary:
			mf.Type = dto.MetricType_SUMMARY.Enum()
			s := &dto.Summary{SampleCount: proto.Uint64(uint64(m.Count)), SampleSum: proto.Float64(m.Sum), CreatedTimestamp: created}
			for i, q := range m.Q {
				s.Quantile = append(s.Quantile, &dto.Quantile{Quantile: proto.Float64(q), Value: proto.Float64(m.QV[i])})
			}
			d.Summary = s
		case c35Histogram, c35Native:
			mf.Type = dto.MetricType_HISTOGRAM.Enum()
			if m.Gauge {
				mf.Type = dto.MetricType_GAUGE_HISTOGRAM.Enum()
			}
			h := &dto.Histogram{SampleSum: proto.Float64(m.Sum), CreatedTimestamp: created}
			if m.Float {
				h.SampleCountFloat = proto.Float64(m.Count)
			} else {
				h.SampleCount = proto.Uint64(uint64(m.Count))
			}
			for i, ub := range m.B {
				b := &dto.Bucket{UpperBound: proto.Float64(ub)}
				if m.Float {
					b.CumulativeCountFloat = proto.Float64(m.Cum[i])
				} else {
					b.CumulativeCount = proto.Uint64(uint64(m.Cum[i]))
				}
				if i < len(m.BEx) {
					b.Exemplar = c35DtoEx(m.BEx[i])
				}
				h.Bucket = append(h.Bucket, b)
			}
			if f.Type == c35Native {
				h.Schema = proto.Int32(m.Schema)
				h.ZeroThreshold = proto.Float64(m.ZeroThresh)
				h.PositiveSpan, h.NegativeSpan = c35Spans(m.PosSpans), c35Spans(m.NegSpans)
				if m.Float {
					h.ZeroCountFloat = proto.Float64(m.ZeroCount)
					h.PositiveCount, h.NegativeCount = m.PosBuckets, m.NegBuckets
				} else {
					h.ZeroCount = proto.Uint64(uint64(m.ZeroCount))
					h.PositiveDelta, h.NegativeDelta = c35Deltas(m.PosBuckets), c35Deltas(m.NegBuckets)
				}
				for _, e := range m.NEx {
					h.Exemplars = append(h.Exemplars, c35DtoEx(e))
				}
			}
			d.Histogram = h
		}
		mf.Metric = append(mf.Metric, d)
	}
	return mf
}

func c35ExpFormat(fm int) expfmt.Format {
	switch fm {
	case c35Text:
		return expfmt.NewFormat(expfmt.TypeTextPlain).WithEscapingScheme(model.NoEscaping)
	case c35OM:
		return expfmt.NewFormat(expfmt.TypeOpenMetrics).WithEscapingScheme(model.NoEscaping)
	}
	return expfmt.NewFormat(expfmt.TypeProtoDelim).WithEscapingScheme(model.NoEscaping)
}

func c35ContentType(fm int) string {
	switch fm {
	case c35Text:
		return "text/plain; version=0.0.4; escaping=allow-utf-8"
	case c35OM:
		return "application/openmetrics-text; version=1.0.0; escaping=allow-utf-8"
	}
	return "application/vnd.google.protobuf; proto=io.prometheus.client.MetricFamily; encoding=delimited"
}

func c35Encode(fm int, fams []*c35Fam) (out []byte, err error) {
	var buf bytes.Buffer
	enc := expfmt.NewEncoder(&buf, c35ExpFormat(fm), expfmt.WithCreatedLines())
	for _, f := range fams {
		if e := enc.Encode(f.dto()); e != nil {
			return nil, e
		}
	}
	if c, ok := enc.(expfmt.Closer); ok {
		if e := c.Close(); e != nil {
			return nil, e
		}
	}
	return buf.Bytes(), nil
}

// ---------------------------------------------------------------------------------------------
// reference: what must come out (from the model and the formats' documented rules)
// ---------------------------------------------------------------------------------------------

type c35Opts struct {
	TypeUnit     bool
	SkipST       bool // OpenMetrics: hide _created series, caller wants start timestamps
	IgnoreNative bool // protobuf
	KeepClassic  bool // protobuf: classic series of a histogram that is also native
}

func (o c35Opts) String() string {
	return fmt.Sprintf("type-and-unit-labels=%v skip-st-series=%v ignore-native=%v keep-classic=%v", o.TypeUnit, o.SkipST, o.IgnoreNative, o.KeepClassic)
}

// c35OMFloat: OpenMetrics canonical float rendering ("le"/"quantile" label values).
func c35OMFloat(f float64) string {
	switch {
	case math.IsNaN(f):
		return "NaN"
	case math.IsInf(f, 1):
		return "+Inf"
	case math.IsInf(f, -1):
		return "-Inf"
	}
	s := strconv.FormatFloat(f, 'g', -1, 64)
	if strings.ContainsAny(s, "e.") {
		return s
	}
	return s + ".0"
}

type c35Want struct {
	Meta    []string
	Samples []string
}

// Alternative expectations that describe known defects exactly (used only to give them their own
// narrow signatures; the primary expectation is always the quirk-free one).
const (
	c35QExEscaped   = 1 << iota // OpenMetrics: exemplar label values returned still escaped
	c35QUnitLeak                // OpenMetrics: a family without UNIT inherits the previous family's unit
	c35QNativeExLost            // protobuf: exemplars of native histograms lost from the 2nd metric of a family on
	c35QMixedClassic            // protobuf: native metrics following a classic-only first metric are parsed as classic
)

var c35OMEscaper = strings.NewReplacer("\\", "\\\\", "\n", "\\n", "\"", "\\\"")

func c35ExStrQ(e *c35Ex, fm int, quirks int) string {
	if quirks&c35QExEscaped != 0 && fm == c35OM {
		kv := append([]string{}, e.Lbl...)
		for i := 1; i < len(kv); i += 2 {
			kv[i] = c35OMEscaper.Replace(kv[i])
		}
		e = &c35Ex{Lbl: kv, Val: e.Val, HasTS: e.HasTS, TS: e.TS}
	}
	return c35ExStr(e, fm)
}

func c35ExStr(e *c35Ex, fm int) string {
	x := tpxEx{Labels: labels.FromStrings(e.Lbl...).String(), Val: tpxBits(e.Val), HasTS: e.HasTS, TS: e.TS}
	return fmt.Sprintf("#%s %s %v@%d", x.Labels, tpxF(x.Val), x.HasTS, x.TS)
}

func c35SampleStr(ls labels.Labels, val string, hasTS bool, ts int64, ex []string, st int64) string {
	return fmt.Sprintf("%s %s ts=%v/%d ex=%v st=%d", ls.String(), val, hasTS, ts, ex, st)
}

func c35TypeName(f *c35Fam, fm int) string {
	switch f.Type {
	case c35Counter:
		if fm == c35OM && !strings.HasSuffix(f.Name, "_total") {
			return "unknown" // OpenMetrics counters must be named *_total; expfmt downgrades others
		}
		return "counter"
	case c35Gauge:
		return "gauge"
	case c35Untyped:
		return "unknown"
	case c35Summary:
		return "summary"
	}
	if len(f.Metrics) > 0 && f.Metrics[0].Gauge {
		return "gaugehistogram"
	}
	return "histogram"
}

// c35Expect computes the expected metadata entries and samples of ONE family.
func c35Expect(f *c35Fam, fm int, o c35Opts) c35Want { return c35ExpectQ(f, fm, o, 0, "") }

// c35ExpectQ: quirks/leakedUnit select an alternative expectation (see c35Q*).
func c35ExpectQ(f *c35Fam, fm int, o c35Opts, quirks int, leakedUnit string) c35Want {
	var w c35Want
	famName := f.Name
	if fm == c35OM && f.Type == c35Counter {
		famName = strings.TrimSuffix(f.Name, "_total")
	}
	typ := c35TypeName(f, fm)
	if f.Help != nil || fm == c35Proto {
		h := ""
		if f.Help != nil {
			h = *f.Help
		}
		w.Meta = append(w.Meta, fmt.Sprintf("help %q %q", famName, h))
	}
	w.Meta = append(w.Meta, fmt.Sprintf("type %q %q", famName, typ))
	unit := ""
	if fm != c35Text {
		unit = f.Unit
	}
	if unit != "" {
		w.Meta = append(w.Meta, fmt.Sprintf("unit %q %q", famName, unit))
	}
	wantST := (fm == c35OM && o.SkipST) || fm == c35Proto
	lblUnit := unit
	if lblUnit == "" && quirks&c35QUnitLeak != 0 && fm == c35OM {
		lblUnit = leakedUnit
	}
	for mi, m := range f.Metrics {
		hasTS, ts := m.HasTS, m.TS
		if fm == c35Proto && ts == 0 {
			hasTS = false // protobuf cannot distinguish timestamp 0 from "no timestamp" (documented)
		}
		lset := func(name string, extra ...string) labels.Labels {
			kv := append([]string{"__name__", name}, m.Lbl...)
			kv = append(kv, extra...)
			if o.TypeUnit {
				if typ != "unknown" {
					kv = append(kv, "__type__", typ)
				}
				if lblUnit != "" {
					kv = append(kv, "__unit__", lblUnit)
				}
			}
			return labels.FromStrings(kv...)
		}
		st := int64(0)
		if wantST && (f.Type != c35Counter || fm == c35Proto || typ == "counter") {
			st = m.ST
		}
		add := func(ls labels.Labels, v float64, ex []string) {
			w.Samples = append(w.Samples, c35SampleStr(ls, "="+tpxF(tpxBits(v)), hasTS, ts, ex, st))
		}
		exOf := func(e *c35Ex) []string {
			if e == nil || fm == c35Text {
				return nil
			}
			return []string{c35ExStrQ(e, fm, quirks)}
		}
		created := func() {
			// OpenMetrics "_created" line kept as an ordinary sample (no timestamp) unless skipped
			if fm == c35OM && m.ST != 0 && !(o.SkipST && typ != "unknown") {
				kv := append([]string{"__name__", famName + "_created"}, m.Lbl...)
				if o.TypeUnit {
					if typ != "unknown" {
						kv = append(kv, "__type__", typ)
					}
					if lblUnit != "" {
						kv = append(kv, "__unit__", lblUnit)
					}
				}
				w.Samples = append(w.Samples, c35SampleStr(labels.FromStrings(kv...), "="+tpxF(tpxBits(float64(m.ST)/1000)), false, 0, nil, st))
			}
		}
		switch f.Type {
		case c35Counter, c35Gauge, c35Untyped:
			var ex []string
			if f.Type == c35Counter {
				ex = exOf(m.Ex)
			}
			add(lset(f.Name), m.Val, ex)
			if f.Type == c35Counter {
				created()
			}
		case c35Summary:
			for i, q := range m.Q {
				add(lset(f.Name, "quantile", c35OMFloat(q)), m.QV[i], nil)
			}
			add(lset(f.Name+"_sum"), m.Sum, nil)
			add(lset(f.Name+"_count"), m.Count, nil)
			created()
		case c35Histogram, c35Native:
			native := f.Type == c35Native && fm == c35Proto && !o.IgnoreNative && !m.ClassicOnly
			if quirks&c35QMixedClassic != 0 && f.Metrics[0].ClassicOnly {
				native = false
			}
			if native {
				var ex []string
				if quirks&c35QNativeExLost != 0 && mi > 0 {
					// nothing
				} else if len(m.NEx) > 0 {
					for _, e := range m.NEx {
						if e.HasTS { // exemplars of native histograms need a timestamp (documented)
							ex = append(ex, c35ExStr(e, fm))
						}
					}
				} else {
					for _, e := range m.BEx {
						if e != nil && e.HasTS {
							ex = append(ex, c35ExStr(e, fm))
						}
					}
				}
				w.Samples = append(w.Samples, c35SampleStr(lset(f.Name), c35NativeStr(&m), hasTS, ts, ex, st))
				if !(o.KeepClassic && len(m.B) > 0) {
					continue
				}
			}
			seenInf := false
			for i, ub := range m.B {
				var ex []string
				if i < len(m.BEx) {
					ex = exOf(m.BEx[i])
				}
				add(lset(f.Name+"_bucket", "le", c35OMFloat(ub)), m.Cum[i], ex)
				seenInf = seenInf || math.IsInf(ub, 1)
			}
			if !seenInf {
				add(lset(f.Name+"_bucket", "le", "+Inf"), m.Count, nil)
			}
			add(lset(f.Name+"_sum"), m.Sum, nil)
			add(lset(f.Name+"_count"), m.Count, nil)
			created()
		}
	}
	return w
}

// c35NativeStr renders the model's native histogram as absolute bucket counts per index.
func c35NativeStr(m *c35Metric) string {
	exp := func(spans [][2]int, b []float64) string {
		var sb strings.Builder
		idx, k := 0, 0
		for _, s := range spans {
			idx += s[0]
			for j := 0; j < s[1]; j++ {
				if b[k] != 0 {
					fmt.Fprintf(&sb, "%d:%g ", idx, b[k])
				}
				idx++
				k++
			}
		}
		return sb.String()
	}
	hint := "counter"
	if m.Gauge {
		hint = "gauge"
	}
	return fmt.Sprintf("native{float=%v schema=%d zt=%g zc=%g count=%g sum=%s pos[%s] neg[%s] %s}", m.Float, m.Schema, m.ZeroThresh, m.ZeroCount, m.Count, tpxF(tpxBits(m.Sum)), exp(m.PosSpans, m.PosBuckets), exp(m.NegSpans, m.NegBuckets), hint)
}

// c35GotNative renders a parsed native histogram the same way.
func c35GotNative(e *tpxEntry) string {
	var fh *histogram.FloatHistogram
	isFloat := false
	switch {
	case e.H != nil:
		if err := e.H.Validate(); err != nil {
			return "INVALID " + err.Error()
		}
		fh = e.H.ToFloat(nil)
	case e.FH != nil:
		fh = e.FH
		isFloat = true
	default:
		return "NIL-HISTOGRAM"
	}
	exp := func(spans []histogram.Span, b []float64) string {
		var sb strings.Builder
		idx, k := 0, 0
		for _, s := range spans {
			idx += int(s.Offset)
			for j := 0; j < int(s.Length); j++ {
				if k < len(b) && b[k] != 0 {
					fmt.Fprintf(&sb, "%d:%g ", idx, b[k])
				}
				idx++
				k++
			}
		}
		return sb.String()
	}
	hint := "counter"
	if fh.CounterResetHint == histogram.GaugeType {
		hint = "gauge"
	}
	return fmt.Sprintf("native{float=%v schema=%d zt=%g zc=%g count=%g sum=%s pos[%s] neg[%s] %s}", isFloat, fh.Schema, fh.ZeroThreshold, fh.ZeroCount, fh.Count, tpxF(tpxBits(fh.Sum)), exp(fh.PositiveSpans, fh.PositiveBuckets), exp(fh.NegativeSpans, fh.NegativeBuckets), hint)
}

// c35Got renders parsed entries in the reference's vocabulary.
func c35Got(es []tpxEntry) c35Want {
	var w c35Want
	for i := range es {
		e := &es[i]
		switch e.Kind {
		case "help", "type", "unit":
			w.Meta = append(w.Meta, fmt.Sprintf("%s %q %q", e.Kind, e.Name, e.Text))
		case "comment":
			w.Meta = append(w.Meta, fmt.Sprintf("comment %q", e.Text))
		case "series", "hist":
			var ex []string
			for _, x := range e.Ex {
				ex = append(ex, fmt.Sprintf("#%s %s %v@%d", x.Labels, tpxF(x.Val), x.HasTS, x.TS))
			}
			v := "=" + tpxF(e.Val)
			if e.Kind == "hist" {
				v = c35GotNative(e)
			}
			w.Samples = append(w.Samples, c35SampleStr(e.LS, v, e.HasTS, e.TS, ex, e.ST))
		}
	}
	return w
}

func c35SortedEq(a, b []string) bool {
	if len(a) != len(b) {
		return false
	}
	x, y := append([]string{}, a...), append([]string{}, b...)
	sort.Strings(x)
	sort.Strings(y)
	for i := range x {
		if x[i] != y[i] {
			return false
		}
	}
	return true
}

// ---------------------------------------------------------------------------------------------
// one case of part 1
// ---------------------------------------------------------------------------------------------

func c35OptsFor(fm int) []c35Opts {
	var out []c35Opts
	for _, tu := range []bool{false, true} {
		switch fm {
		case c35Text:
			out = append(out, c35Opts{TypeUnit: tu})
		case c35OM:
			out = append(out, c35Opts{TypeUnit: tu}, c35Opts{TypeUnit: tu, SkipST: true})
		case c35Proto:
			for _, ig := range []bool{false, true} {
				for _, kc := range []bool{false, true} {
					out = append(out, c35Opts{TypeUnit: tu, IgnoreNative: ig, KeepClassic: kc})
				}
			}
		}
	}
	return out
}

var c35Leaked atomic.Int64 // parses that never returned (their goroutines keep spinning)

var errC35Hang = fmt.Errorf("tpx: parse did not return within the watchdog time")

// c35Parse runs one parse under a watchdog: a parser stuck inside Next/StartTimestamp cannot be
// interrupted, so its goroutine is abandoned and the case reported.
func c35Parse(fm int, o c35Opts, payload []byte) (es []tpxEntry, err error, pnc any, stack string) {
	type res struct {
		es    []tpxEntry
		err   error
		pnc   any
		stack string
	}
	ch := make(chan res, 1)
	go func() {
		var x res
		x.es, x.err, x.pnc, x.stack = c35ParseRaw(fm, o, payload)
		ch <- x
	}()
	t := time.NewTimer(5 * time.Second)
	defer t.Stop()
	select {
	case x := <-ch:
		return x.es, x.err, x.pnc, x.stack
	case <-t.C:
		c35Leaked.Add(1)
		return nil, errC35Hang, nil, ""
	}
}

func c35ParseRaw(fm int, o c35Opts, payload []byte) (es []tpxEntry, err error, pnc any, stack string) {
	pnc, stack = vx.Guard(func() {
		var p Parser
		p, err = New(payload, c35ContentType(fm), labels.NewSymbolTable(), ParserOptions{
			EnableTypeAndUnitLabels:                 o.TypeUnit,
			IgnoreNativeHistograms:                  o.IgnoreNative,
			KeepClassicOnClassicAndNativeHistograms: o.KeepClassic,
			OpenMetricsSkipSTSeries:                 o.SkipST,
		})
		if p == nil {
			if err == nil {
				err = fmt.Errorf("no parser")
			}
			return
		}
		err = nil
		es, err = tpxCollect(p, (fm == c35OM && o.SkipST) || fm == c35Proto, 100000)
	})
	return
}

type c35Case struct {
	Facet string `json:"facet"`
	Index int    `json:"index"`
}

func c35Show(fm int, payload []byte) string {
	if fm == c35Proto {
		return fmt.Sprintf("protobuf payload %x", payload)
	}
	return fmt.Sprintf("%s payload:\n%s", c35FmtNames[fm], payload)
}

func c35FamStr(fams []*c35Fam) string {
	var sb strings.Builder
	for _, f := range fams {
		sb.WriteString(strings.ReplaceAll(f.dto().String(), "  ", " "))
		sb.WriteString(" ; ")
	}
	return sb.String()
}

// c35ExpressibleIn: can the family be written in this format at all?
func c35Expressible(f *c35Fam, fm int) bool {
	if f.Type == c35Native && fm != c35Proto {
		return false
	}
	for _, m := range f.Metrics {
		if m.Float && fm == c35OM {
			return false // OpenMetrics 1.0 has no float bucket counts (expfmt refuses)
		}
		if m.Gauge && fm != c35Proto {
			return false
		}
		if fm == c35OM && !c35TSOKForOM(c35TSv{m.HasTS, m.TS}) {
			return false
		}
	}
	return true
}

// c35Project: what every format can express about a parse result (cross-format agreement).
func c35Project(es []tpxEntry, fm int) []string {
	var out []string
	for i := range es {
		e := &es[i]
		if e.Kind != "series" {
			continue
		}
		name := e.LS.Get("__name__")
		if strings.HasSuffix(name, "_created") {
			continue // OpenMetrics-only sample
		}
		hasTS, ts := e.HasTS, e.TS
		if ts == 0 {
			hasTS = false // protobuf rule
		}
		out = append(out, fmt.Sprintf("%s =%s ts=%v/%d", e.LS.String(), tpxF(e.Val), hasTS, ts))
	}
	sort.Strings(out)
	return out
}

func c35RunFaith(r *vx.Run, cs c35Case, fams []*c35Fam, nontrivial *atomic.Int64) {
	var proj [3][]string
	var have [3]bool
	for fm := c35Text; fm <= c35Proto; fm++ {
		ok := true
		for _, f := range fams {
			ok = ok && c35Expressible(f, fm)
		}
		if !ok {
			continue
		}
		payload, err := c35Encode(fm, fams)
		if err != nil {
			r.Count("encoder_refused", 1)
			continue
		}
		r.Distinct("distinct_payloads", string(payload))
		for _, o := range c35OptsFor(fm) {
			es, perr, pnc, stack := c35Parse(fm, o, payload)
			r.Count("evaluations", 1)
			ctx := func() string {
				return fmt.Sprintf("(%s; options %s)\nmodel: %s\n%s", c35FmtNames[fm], o, c35FamStr(fams), c35Show(fm, payload))
			}
			if pnc != nil {
				r.Violation("faithful-parse-panic/"+c35FmtNames[fm], fmt.Sprintf("panic %v %s\n%s", pnc, ctx(), stack), cs)
				continue
			}
			if perr == errC35Hang {
				r.Violation("parser-does-not-terminate/"+c35FmtNames[fm], fmt.Sprintf("parse did not return within 5s %s", ctx()), cs)
				continue
			}
			if perr != nil {
				sig := "valid-payload-rejected/" + c35FmtNames[fm]
				if fm == c35Text && c35HasNegTS(fams) && strings.Contains(perr.Error(), "expected timestamp or new record, got \"-\"") {
					sig = "text-negative-timestamp-rejected"
				}
				r.Violation(sig, fmt.Sprintf("error %v %s", perr, ctx()), cs)
				continue
			}
			expect := func(quirks int) c35Want {
				var want c35Want
				leaked := ""
				for _, f := range fams {
					w := c35ExpectQ(f, fm, o, quirks, leaked)
					want.Meta = append(want.Meta, w.Meta...)
					want.Samples = append(want.Samples, w.Samples...)
					if f.Unit != "" {
						leaked = f.Unit
					}
				}
				return want
			}
			want := expect(0)
			got := c35Got(es)
			if len(got.Samples) > 0 {
				nontrivial.Add(1)
				r.Distinct("distinct_nontrivial", strings.Join(got.Samples, "|"))
			}
			r.Distinct("distinct_outcomes", strings.Join(got.Samples, "|")+strings.Join(got.Meta, "|"))
			if !c35SortedEq(got.Meta, want.Meta) {
				r.Violation("metadata-mismatch/"+c35FmtNames[fm], fmt.Sprintf("metadata entries parsed:\n  %s\nexpected:\n  %s\n%s", strings.Join(got.Meta, "\n  "), strings.Join(want.Meta, "\n  "), ctx()), cs)
			}
			if !c35SortedEq(got.Samples, want.Samples) {
				sig := c35SampleSig(got.Samples, want.Samples) + "/" + c35FmtNames[fm]
				for i := range es {
					if es[i].Kind == "hist" && es[i].H == nil && es[i].FH == nil {
						sig = "histogram-entry-without-histogram/" + c35FmtNames[fm]
					}
				}
				// known defects get their own signature when (and only when) the output equals
				// the alternative expectation that describes exactly that defect
				for _, q := range []struct {
					q   int
					sig string
				}{
					{c35QExEscaped, "om-exemplar-label-value-not-unescaped"},
					{c35QUnitLeak, "om-unit-label-leaks-into-next-family"},
					{c35QNativeExLost, "proto-native-exemplars-lost-after-first-metric"},
					{c35QMixedClassic, "proto-native-after-classic-metric-parsed-as-classic"},
					{c35QExEscaped | c35QUnitLeak, "om-exemplar-label-value-not-unescaped"},
				} {
					if c35SortedEq(got.Samples, expect(q.q).Samples) {
						sig = q.sig
						break
					}
				}
				r.Violation(sig, fmt.Sprintf("samples parsed:\n  %s\nexpected:\n  %s\n%s", strings.Join(got.Samples, "\n  "), strings.Join(want.Samples, "\n  "), ctx()), cs)
			}
			if !o.TypeUnit && !o.IgnoreNative && !o.KeepClassic && !o.SkipST {
				proj[fm], have[fm] = c35Project(es, fm), true
			}
		}
	}
	// cross-format agreement, directly between the parse results
	for a := c35Text; a <= c35Proto; a++ {
		for b := a + 1; b <= c35Proto; b++ {
			if have[a] && have[b] && strings.Join(proj[a], "\n") != strings.Join(proj[b], "\n") {
				r.Violation("formats-disagree/"+c35FmtNames[a]+"-"+c35FmtNames[b], fmt.Sprintf("samples (labels, value, timestamp) differ between formats\n%s:\n  %s\n%s:\n  %s\nmodel: %s", c35FmtNames[a], strings.Join(proj[a], "\n  "), c35FmtNames[b], strings.Join(proj[b], "\n  "), c35FamStr(fams)), cs)
			}
		}
	}
}

func c35HasNegTS(fams []*c35Fam) bool {
	for _, f := range fams {
		for _, m := range f.Metrics {
			if m.HasTS && m.TS < 0 {
				return true
			}
		}
	}
	return false
}

// c35SampleSig classifies a sample mismatch by the first field that differs.
func c35SampleSig(got, want []string) string {
	if len(got) < len(want) {
		return "sample-missing"
	}
	if len(got) > len(want) {
		return "sample-extra"
	}
	g, w := append([]string{}, got...), append([]string{}, want...)
	sort.Strings(g)
	sort.Strings(w)
	for i := range g {
		if g[i] == w[i] {
			continue
		}
		// fields: labels value ts= ex= st=
		cut := func(s, key string) (string, string) {
			k := strings.LastIndex(s, key)
			if k < 0 {
				return s, ""
			}
			return s[:k], s[k:]
		}
		gs, gst := cut(g[i], " st=")
		ws, wst := cut(w[i], " st=")
		ge, gex := cut(gs, " ex=")
		we, wex := cut(ws, " ex=")
		gt, gts := cut(ge, " ts=")
		wt, wts := cut(we, " ts=")
		switch {
		case gt != wt:
			if strings.Contains(gt, "native{") || strings.Contains(wt, "native{") {
				return "native-histogram-mismatch"
			}
			gl, _ := cut(gt, " =")
			wl, _ := cut(wt, " =")
			if gl != wl {
				return "sample-labels-mismatch"
			}
			return "sample-value-mismatch"
		case gts != wts:
			return "sample-timestamp-mismatch"
		case gex != wex:
			return "sample-exemplar-mismatch"
		case gst != wst:
			return "sample-start-timestamp-mismatch"
		}
	}
	return "sample-mismatch"
}

// ---------------------------------------------------------------------------------------------
// alphabets and facets of part 1
// ---------------------------------------------------------------------------------------------

var c35LabelSets = [][]string{
	{},
	{"l", "v"},
	{"l", "a\\b\"c\nd"},
	{"l", "é→"},
	{"l.é", "v"},
	{"a", "1", "z", "2"},
	{"l", "} # {x=\"y\"} 1 2"},
	// escapes at the boundaries of the value
	{"l", "\\start"},
	{"l", "\"quote first and last\""},
	{"l", "\nline feed first"},
	{"l", "ends with backslash\\"},
	{"l", "ends with line feed\n"},
	{"l", "\\\n\""},
	{"l", "a\\\\b\\n"},
}

var c35Values = []float64{0, 1, -1.5, 1e-7, 1.7976931348623157e308, 5e-324, math.NaN(), math.Inf(1), math.Inf(-1), 123456789012345680}

type c35TSv struct {
	Has bool
	V   int64
}

var c35TSs = []c35TSv{{false, 0}, {true, 0}, {true, -1}, {true, 1}, {true, 1700000000123}, {true, 1700000000999}, {true, math.MaxInt64}, {true, math.MinInt64}}

// timestamps that OpenMetrics (seconds as a decimal float) can carry exactly
func c35TSOKForOM(t c35TSv) bool { return !t.Has || (t.V > -1e15 && t.V < 1e15) }

var c35Helps = []*string{nil, proto.String(""), proto.String("plain help"), proto.String("esc \\ \n \" \\n end"), proto.String("ünï→"), proto.String(" both "),
	// escapes at the boundaries of the help text
	proto.String("\\\\fileserver\\share"), proto.String("\nline feed first"), proto.String("ends with backslash\\"), proto.String("ends with line feed\n"),
	proto.String("\\"), proto.String("\n"), proto.String("\\\\"), proto.String("\"quoted\""), proto.String("\\n literal backslash n"), proto.String("\\\n\"")}

func c35Ex1(k int) *c35Ex {
	switch k {
	case 1:
		return &c35Ex{Lbl: []string{"trace_id", "abc"}, Val: 0.5, HasTS: true, TS: 1500}
	case 2:
		return &c35Ex{Lbl: []string{"trace_id", "a\\b\"c\nd", "span", "é"}, Val: -1, HasTS: false}
	case 3:
		return &c35Ex{Lbl: []string{"id", "\\x\n", "q", "\"y\""}, Val: math.Inf(1), HasTS: true, TS: 1700000000123}
	}
	return nil
}

type c35Facet struct {
	Name string
	N    int
	At   func(i int) []*c35Fam
}

func c35Tail() *c35Fam {
	return &c35Fam{Name: "zz_tail", Type: c35Gauge, Help: proto.String("tail"), Metrics: []c35Metric{{Val: 7}}}
}

func c35Facets(r *vx.Run) []c35Facet {
	var fs []c35Facet
	scalarTypes := []struct {
		T    int
		Name string
	}{{c35Counter, "m_total"}, {c35Counter, "m"}, {c35Gauge, "m"}, {c35Untyped, "m"}, {c35Gauge, "m.é"}, {c35Counter, "m.é_total"}}
	// F1a: scalar samples: type x label set x value x timestamp
	{
		dims := []int{len(scalarTypes), len(c35LabelSets), len(c35Values), len(c35TSs)}
		fs = append(fs, c35Facet{"scalar-values", int(vx.ProductSize(dims)), func(i int) []*c35Fam {
			d := vx.ProductAt(dims, int64(i), nil)
			st := scalarTypes[d[0]]
			ts := c35TSs[d[3]]
			return []*c35Fam{{Name: st.Name, Type: st.T, Help: proto.String("h"), Metrics: []c35Metric{{Lbl: c35LabelSets[d[1]], Val: c35Values[d[2]], HasTS: ts.Has, TS: ts.V}}}}
		}})
	}
	// F1b: metadata and carried data: type x help x unit x exemplar x start timestamp x second metric x tail family
	{
		dims := []int{len(scalarTypes), len(c35Helps), 2, 4, 2, 2, 2}
		fs = append(fs, c35Facet{"scalar-metadata", int(vx.ProductSize(dims)), func(i int) []*c35Fam {
			d := vx.ProductAt(dims, int64(i), nil)
			st := scalarTypes[d[0]]
			f := &c35Fam{Name: st.Name, Type: st.T, Help: c35Helps[d[1]]}
			if d[2] == 1 {
				// the unit must be a suffix of the (OpenMetrics) family name
				f.Unit = "seconds"
				if strings.HasSuffix(f.Name, "_total") {
					f.Name = strings.TrimSuffix(f.Name, "_total") + "_seconds_total"
				} else {
					f.Name += "_seconds"
				}
			}
			m := c35Metric{Lbl: []string{"l", "v"}, Val: 3}
			if st.T == c35Counter {
				m.Ex = c35Ex1(d[3])
				if d[4] == 1 {
					m.ST = 1600000000500
				}
			}
			f.Metrics = []c35Metric{m}
			if d[5] == 1 {
				m2 := c35Metric{Lbl: []string{"l", "w"}, Val: 4, HasTS: true, TS: 1234}
				if st.T == c35Counter && d[4] == 1 {
					m2.ST = 1600000001000
				}
				f.Metrics = append(f.Metrics, m2)
			}
			out := []*c35Fam{f}
			if d[6] == 1 {
				out = append(out, c35Tail())
			}
			return out
		}})
	}
	// F2: summaries
	{
		qsets := [][]float64{{}, {0.5}, {0, 0.99, 1}}
		sums := []float64{0, -2.5, math.NaN(), math.Inf(1)}
		counts := []float64{0, 3, 1 << 53}
		dims := []int{len(qsets), len(sums), len(counts), len(c35LabelSets), 4, 2, 2, 2}
		tss := []c35TSv{{false, 0}, {true, 1700000000123}, {true, -1}, {true, 0}}
		fs = append(fs, c35Facet{"summary", int(vx.ProductSize(dims)), func(i int) []*c35Fam {
			d := vx.ProductAt(dims, int64(i), nil)
			name := "s"
			if d[6] == 1 {
				name = "s.é"
			}
			m := c35Metric{Lbl: c35LabelSets[d[3]], Q: qsets[d[0]], Sum: sums[d[1]], Count: counts[d[2]], HasTS: tss[d[4]].Has, TS: tss[d[4]].V}
			for k := range m.Q {
				m.QV = append(m.QV, []float64{1.5, math.NaN(), -0.25}[k])
			}
			if d[5] == 1 {
				m.ST = 1600000000500
			}
			f := &c35Fam{Name: name, Type: c35Summary, Help: proto.String("a summary"), Metrics: []c35Metric{m}}
			out := []*c35Fam{f}
			if d[7] == 1 {
				m2 := m
				m2.Lbl = append(append([]string{}, m.Lbl...), "second", "yes")
				m2.ST = 0
				f.Metrics = append(f.Metrics, m2)
				out = append(out, c35Tail())
			}
			return out
		}})
	}
	// F3: classic histograms
	{
		type bs struct {
			B, Cum []float64
			Count  float64
			Float  bool
		}
		bsets := []bs{
			{nil, nil, 0, false},
			{nil, nil, 5, false},
			{[]float64{1}, []float64{2}, 5, false},
			{[]float64{-0.5, 0, 1e6}, []float64{0, 2, 2}, 7, false},
			{[]float64{0.25, math.Inf(1)}, []float64{1, 4}, 4, false},
			{[]float64{0.25, 2.5}, []float64{0.5, 1.5}, 3.25, true},
			{[]float64{math.Inf(1)}, []float64{2.5}, 2.5, true},
		}
		sums := []float64{0, -2.5, math.NaN()}
		tss := []c35TSv{{false, 0}, {true, 1700000000123}, {true, -1}}
		dims := []int{len(bsets), len(sums), len(c35LabelSets), len(tss), 3, 2, 2, 2}
		fs = append(fs, c35Facet{"classic-histogram", int(vx.ProductSize(dims)), func(i int) []*c35Fam {
			d := vx.ProductAt(dims, int64(i), nil)
			b := bsets[d[0]]
			name := "hs"
			if d[6] == 1 {
				name = "hs.é"
			}
			m := c35Metric{Lbl: c35LabelSets[d[2]], B: b.B, Cum: b.Cum, Count: b.Count, Float: b.Float, Sum: sums[d[1]], HasTS: tss[d[3]].Has, TS: tss[d[3]].V}
			switch d[4] {
			case 1:
				for k := range m.B {
					m.BEx = append(m.BEx, []*c35Ex{c35Ex1(1), nil, c35Ex1(2)}[k%3])
				}
			case 2:
				for k := range m.B {
					m.BEx = append(m.BEx, []*c35Ex{c35Ex1(3), c35Ex1(1), c35Ex1(1)}[k%3])
				}
			}
			if d[5] == 1 {
				m.ST = 1600000000500
			}
			f := &c35Fam{Name: name, Type: c35Histogram, Help: proto.String("a histogram"), Metrics: []c35Metric{m}}
			out := []*c35Fam{f}
			if d[7] == 1 {
				m2 := m
				m2.Lbl = append(append([]string{}, m.Lbl...), "second", "yes")
				m2.BEx = nil
				f.Metrics = append(f.Metrics, m2)
				out = append(out, c35Tail())
			}
			return out
		}})
	}
	// F4: native histograms (protobuf)
	{
		type nh struct {
			Schema     int32
			ZT, ZC     float64
			PS         [][2]int
			PB         []float64
			NS         [][2]int
			NB         []float64
			Count      float64
			Float      bool
		}
		nhs := []nh{
			{0, 0, 0, [][2]int{{0, 0}}, nil, nil, nil, 0, false},                                                 // empty, marked native by a no-op span
			{3, 0.001, 2, [][2]int{{0, 2}, {3, 1}}, []float64{1, 4, 2}, nil, nil, 9, false},                       // gap
			{-4, 0, 0, [][2]int{{-2, 1}}, []float64{3}, [][2]int{{5, 2}}, []float64{1, 1}, 5, false},              // both sides
			{8, 1e-128, 1, nil, nil, [][2]int{{-10, 1}}, []float64{2}, 3, false},                                  // negative only, zero bucket
			{2, 0.5, 1.5, [][2]int{{1, 2}}, []float64{0.5, 2.25}, [][2]int{{0, 1}}, []float64{1}, 5.25, true},     // float
			{0, 0, 0, [][2]int{{0, 3}}, []float64{1, 0, 2}, nil, nil, 3, false},                                   // zero bucket inside a span
		}
		classic := [][]float64{nil, {1, math.Inf(1)}}
		tss := []c35TSv{{false, 0}, {true, 1700000000123}}
		dims := []int{len(nhs), 2, len(classic), 3, len(tss), 2, 3, 2}
		fs = append(fs, c35Facet{"native-histogram", int(vx.ProductSize(dims)), func(i int) []*c35Fam {
			d := vx.ProductAt(dims, int64(i), nil)
			n := nhs[d[0]]
			m := c35Metric{Lbl: c35LabelSets[[]int{0, 1, 5}[d[6]]], Schema: n.Schema, ZeroThresh: n.ZT, ZeroCount: n.ZC, PosSpans: n.PS, PosBuckets: n.PB, NegSpans: n.NS, NegBuckets: n.NB,
				Count: n.Count, Float: n.Float, Sum: []float64{1.25, math.NaN()}[d[1]], HasTS: tss[d[4]].Has, TS: tss[d[4]].V, Gauge: d[5] == 1}
			if cb := classic[d[2]]; cb != nil {
				m.B = cb
				m.Cum = []float64{math.Min(1, n.Count), n.Count}
				if n.Float {
					m.Cum = []float64{0.5, n.Count}
				}
			}
			switch d[3] {
			case 1: // exemplars in the native list (one without timestamp)
				m.NEx = []*c35Ex{c35Ex1(1), c35Ex1(2), c35Ex1(3)}
			case 2: // exemplars only on the classic buckets
				for k := range m.B {
					m.BEx = append(m.BEx, []*c35Ex{c35Ex1(1), c35Ex1(2)}[k%2])
				}
			}
			m.ST = 1600000000500
			f := &c35Fam{Name: "nh", Type: c35Native, Help: proto.String("native"), Metrics: []c35Metric{m}}
			out := []*c35Fam{f}
			if d[7] == 1 {
				m2 := m
				m2.Lbl = append(append([]string{}, m.Lbl...), "second", "yes")
				f.Metrics = append(f.Metrics, m2)
				out = append(out, c35Tail())
			}
			return out
		}})
	}
	// F5: protobuf families mixing native and classic-only metrics
	{
		dims := []int{2, 2, 2, 2}
		fs = append(fs, c35Facet{"mixed-native-classic", int(vx.ProductSize(dims)), func(i int) []*c35Fam {
			d := vx.ProductAt(dims, int64(i), nil)
			nat := c35Metric{Lbl: []string{"k", "native"}, Schema: 3, ZeroThresh: 0.001, ZeroCount: 2, PosSpans: [][2]int{{0, 2}}, PosBuckets: []float64{1, 4}, Count: 7, Sum: 1.25}
			if d[1] == 1 {
				nat.B, nat.Cum = []float64{1, math.Inf(1)}, []float64{3, 7}
			}
			cl := c35Metric{Lbl: []string{"k", "classic"}, ClassicOnly: true, B: []float64{1}, Cum: []float64{2}, Count: 5, Sum: 2.5}
			if d[2] == 1 {
				cl.HasTS, cl.TS = true, 1700000000123
			}
			f := &c35Fam{Name: "mx", Type: c35Native, Help: proto.String("mixed"), Metrics: []c35Metric{nat, cl}}
			if d[0] == 1 {
				f.Metrics = []c35Metric{cl, nat}
			}
			out := []*c35Fam{f}
			if d[3] == 1 {
				out = append(out, c35Tail())
			}
			return out
		}})
	}
	return fs
}

// ---------------------------------------------------------------------------------------------
// part 2: totality
// ---------------------------------------------------------------------------------------------

var c35AlphaText = []byte("a{}\"=, \n#1\\e")
var c35AlphaProto = []byte{0x00, 0x01, 0x02, 0x08, 0x0a, 0x12, 0x18, 0x22, 0x3a, 0x7f, 0x80, 0xff}

// c35Total parses b with every option combination; violation on panic / non-termination.
func c35Total(r *vx.Run, fm int, b []byte, what string, outcomes *[3]atomic.Int64) {
	var plainErr error
	short := strings.HasPrefix(what, "short")
	for _, o := range c35OptsFor(fm) {
		if o.TypeUnit && (fm == c35Proto || short) {
			continue // label decoration only
		}
		if c35Leaked.Load() > 8 {
			r.NotExhaustive("more than 8 parses never returned; their goroutines keep spinning, remaining cases skipped")
			return
		}
		if fm == c35OM && o.SkipST && c35Leaked.Load() > 0 && plainErr != nil && c35HangProne(b) {
			// known finding om-start-timestamp-peek-hangs-on-invalid-exemplar: once observed, further
			// payloads with the same precondition are not executed (each would abandon a spinning goroutine)
			r.Count("st_peek_parses_skipped_after_known_hang", 1)
			continue
		}
		es, err, pnc, stack := c35Parse(fm, o, b)
		if !o.SkipST {
			plainErr = err
		}
		if err == errC35Hang {
			sig := "parser-does-not-terminate/" + c35FmtNames[fm]
			if fm == c35OM && o.SkipST && plainErr != nil && c35HangProne(b) {
				sig = "om-start-timestamp-peek-hangs-on-invalid-exemplar"
			}
			r.Violation(sig, fmt.Sprintf("parsing %s %q (options %s) did not return within 5s (Next/StartTimestamp never returns); the same bytes without StartTimestamp calls fail with: %v", what, b, o, plainErr), map[string]any{"facet": "bytes", "fmt": fm, "bytes": fmt.Sprintf("%x", b)})
			continue
		}
		r.Count("evaluations", 1)
		r.Count("totality_parses", 1)
		switch {
		case pnc != nil:
			r.Violation("arbitrary-bytes-panic/"+c35FmtNames[fm], fmt.Sprintf("panic %v parsing %s %q (options %s)\n%s", pnc, what, b, o, stack), map[string]any{"facet": "bytes", "fmt": fm, "bytes": fmt.Sprintf("%x", b)})
		case err != nil && strings.HasPrefix(err.Error(), "tpx:"):
			r.Violation("arbitrary-bytes-nontermination/"+c35FmtNames[fm], fmt.Sprintf("%v parsing %s %q (options %s)", err, what, b, o), map[string]any{"facet": "bytes", "fmt": fm, "bytes": fmt.Sprintf("%x", b)})
		case err != nil:
			outcomes[0].Add(1)
		case len(es) == 0:
			outcomes[1].Add(1)
		default:
			outcomes[2].Add(1)
			for i := range es {
				if es[i].Kind == "hist" && es[i].H == nil && es[i].FH == nil {
					r.Violation("histogram-entry-without-histogram/"+c35FmtNames[fm], fmt.Sprintf("Next returned a histogram entry but Histogram() returned neither an integer nor a float histogram, parsing %s %q (options %s)", what, b, o), map[string]any{"facet": "bytes", "fmt": fm, "bytes": fmt.Sprintf("%x", b)})
				}
				if es[i].Kind == "hist" {
					// structural consistency the parser promises (checkNativeHistogramConsistency)
					var np, nn, bp, bn int
					if h := es[i].H; h != nil {
						for _, sp := range h.PositiveSpans {
							np += int(sp.Length)
						}
						for _, sp := range h.NegativeSpans {
							nn += int(sp.Length)
						}
						bp, bn = len(h.PositiveBuckets), len(h.NegativeBuckets)
					} else if h := es[i].FH; h != nil {
						for _, sp := range h.PositiveSpans {
							np += int(sp.Length)
						}
						for _, sp := range h.NegativeSpans {
							nn += int(sp.Length)
						}
						bp, bn = len(h.PositiveBuckets), len(h.NegativeBuckets)
					}
					if np != bp || nn != bn {
						// precondition of the known finding: not the first metric of its family
						later := ""
						for k := i - 1; k >= 0 && es[k].Kind != "type"; k-- {
							if es[k].Kind == "hist" || es[k].Kind == "series" {
								later = "-later-metric"
							}
						}
						r.Violation("native-histogram-spans-buckets-inconsistent"+later+"/"+c35FmtNames[fm], fmt.Sprintf("histogram entry %s whose spans cover %d/%d buckets but %d/%d bucket values are present, parsing %s %q (options %s)", es[i].String(), np, nn, bp, bn, what, b, o), map[string]any{"facet": "bytes", "fmt": fm, "bytes": fmt.Sprintf("%x", b)})
					}
				}
				if es[i].Kind == "series" || es[i].Kind == "hist" {
					valid := true
					// label values are what the parsers themselves promise to validate (names are
					// validated by the caller under its validation scheme)
					es[i].LS.Range(func(l labels.Label) { valid = valid && (l.Name == "__name__" || utf8.ValidString(l.Value)) })
					if !valid {
						r.Violation("invalid-utf8-label-value-accepted/"+c35FmtNames[fm], fmt.Sprintf("sample with a label value that is not valid UTF-8 returned, parsing %s %q (options %s)", what, b, o), map[string]any{"facet": "bytes", "fmt": fm, "bytes": fmt.Sprintf("%x", b)})
					}
				}
			}
		}
	}
}

// c35HangProne (used together with "the plain parse of these bytes fails"): the payload has an exemplar.
func c35HangProne(payload []byte) bool {
	return bytes.Contains(payload, []byte(" # {"))
}

func TestVerifC35(t *testing.T) {
	r := vx.Start(t, "C35", "exploration")
	defer r.Finish()
	facets := c35Facets(r)
	var nontrivial atomic.Int64
	var outcomes [3]atomic.Int64

	if r.Replay != "" {
		var rp struct {
			Facet string `json:"facet"`
			Index int    `json:"index"`
			Fmt   int    `json:"fmt"`
			Bytes string `json:"bytes"`
		}
		r.LoadReplay(&rp)
		if rp.Facet == "bytes" {
			var b []byte
			fmt.Sscanf(rp.Bytes, "%x", &b)
			c35Total(r, rp.Fmt, b, "replayed bytes", &outcomes)
			return
		}
		for _, f := range facets {
			if f.Name == rp.Facet {
				c35RunFaith(r, c35Case{rp.Facet, rp.Index}, f.At(rp.Index), &nontrivial)
			}
		}
		return
	}

	// self-test: the reference must reject a wrong value, a lost exemplar, a wrong timestamp and
	// accept its own rendering.
	{
		f := &c35Fam{Name: "m_total", Type: c35Counter, Help: proto.String("h"), Metrics: []c35Metric{{Lbl: []string{"l", "v"}, Val: 3, HasTS: true, TS: 5, Ex: c35Ex1(1)}}}
		w := c35Expect(f, c35OM, c35Opts{})
		ok := []tpxEntry{{Kind: "series", LS: labels.FromStrings("__name__", "m_total", "l", "v"), Val: tpxBits(3), HasTS: true, TS: 5,
			Ex: []tpxEx{{Labels: labels.FromStrings("trace_id", "abc").String(), Val: tpxBits(0.5), HasTS: true, TS: 1500}}}}
		if g := c35Got(ok); !c35SortedEq(g.Samples, w.Samples) {
			t.Fatalf("self-test: reference rejects the correct parse: %v vs %v", g.Samples, w.Samples)
		}
		for name, mut := range map[string]func(e *tpxEntry){
			"sample-value-mismatch":     func(e *tpxEntry) { e.Val = tpxBits(4) },
			"sample-exemplar-mismatch":  func(e *tpxEntry) { e.Ex = nil },
			"sample-timestamp-mismatch": func(e *tpxEntry) { e.TS = 6 },
			"sample-labels-mismatch":    func(e *tpxEntry) { e.LS = labels.FromStrings("__name__", "m_total", "l", "w") },
		} {
			bad := []tpxEntry{ok[0]}
			mut(&bad[0])
			g := c35Got(bad)
			if c35SortedEq(g.Samples, w.Samples) || c35SampleSig(g.Samples, w.Samples) != name {
				t.Fatalf("self-test: wrong parse not classified as %s (got %s)", name, c35SampleSig(g.Samples, w.Samples))
			}
		}
	}

	// part 1
	var validPayloads sync.Map // representative valid payloads for the mutation sweep
	total := 0
	for _, f := range facets {
		total += f.N
	}
	r.Set("faithfulness_cases", total)
	for _, f := range facets {
		f := f
		r.ParallelN(int64(f.N), func(i int64) {
			fams := f.At(int(i))
			c35RunFaith(r, c35Case{f.Name, int(i)}, fams, &nontrivial)
			r.Count("faithfulness_families", 1)
			n := int64(f.N)
			rep := i == 0 || i == n/3 || i == n/2 || i == (2*n)/3 || i == n-1
			if i%vx.Pick(r, int64(997), int64(211)) == 0 || rep {
				for fm := c35Text; fm <= c35Proto; fm++ {
					ok := true
					for _, ff := range fams {
						ok = ok && c35Expressible(ff, fm)
					}
					if p, err := c35Encode(fm, fams); ok && err == nil {
						key := fmt.Sprintf("%d|%s", fm, p)
						if _, had := validPayloads.LoadOrStore(key, [3]any{fm, p, rep}); had && rep {
							validPayloads.Store(key, [3]any{fm, p, rep})
						}
					}
				}
			}
			r.SampleAt(i, func() any {
				p, _ := c35Encode(c35OM, fams)
				return map[string]any{"facet": f.Name, "index": i, "model": c35FamStr(fams), "openmetrics_payload": string(p)}
			})
		})
	}

	// known-hang probe (element of the mutation space, executed first): if the OpenMetrics
	// start-timestamp look-ahead still hangs on a malformed exemplar, exactly one goroutine is
	// abandoned here and later payloads with that precondition are skipped (see c35Total).
	c35Total(r, c35OM, []byte("# TYPE a counter\na_total 1\na_total{x=\"y\"} 2 # {!} 1\n# EOF\n"), "probe payload", &outcomes)

	// part 2a: all short byte strings
	maxLen := vx.Pick(r, 5, 6)
	for fm := c35Text; fm <= c35Proto; fm++ {
		alpha := c35AlphaText
		if fm == c35Proto {
			alpha = c35AlphaProto
		}
		n := vx.SeqCount(len(alpha), 0, maxLen)
		r.ParallelN(n, func(i int64) {
			seq := vx.SeqAt(len(alpha), 0, maxLen, i, nil)
			b := make([]byte, len(seq))
			for k, s := range seq {
				b[k] = alpha[s]
			}
			if fm == c35OM {
				c35Total(r, fm, append(append([]byte{}, b...), "\n# EOF\n"...), "short string + EOF marker", &outcomes)
				if len(b) >= 5 {
					r.Count("short_strings", 1)
					return // without the EOF marker every OpenMetrics string fails at the end anyway: lengths <= 4 only
				}
			}
			if fm == c35Proto && len(b) >= 5 {
				r.Count("short_strings_skipped_quick", 1)
				return
			}
			c35Total(r, fm, b, "short string", &outcomes)
			r.Count("short_strings", 1)
		})
	}
	// part 2b: single-byte substitutions and deletions of valid payloads
	type vp struct {
		fm  int
		p   []byte
		rep bool // representative payload: thorough substitutes all 256 byte values
	}
	var vps []vp
	validPayloads.Range(func(_, v any) bool {
		x := v.([3]any)
		vps = append(vps, vp{x[0].(int), x[1].([]byte), x[2].(bool)})
		return true
	})
	sort.Slice(vps, func(i, j int) bool {
		if vps[i].fm != vps[j].fm {
			return vps[i].fm < vps[j].fm
		}
		return bytes.Compare(vps[i].p, vps[j].p) < 0
	})
	r.Set("mutated_valid_payloads", len(vps))
	var subs [3][]byte
	var all256 []byte
	for b := 0; b < 256; b++ {
		all256 = append(all256, byte(b))
	}
	for fm := c35Text; fm <= c35Proto; fm++ {
		if fm == c35Proto {
			subs[fm] = append(append([]byte{}, c35AlphaProto...), 0x09, 0x2a, 0x42, 0x10)
		} else {
			subs[fm] = append(append([]byte{}, c35AlphaText...), 0x00, 0x80, 'x', '-')
		}
	}
	type job struct {
		v   int
		pos int
	}
	var jobs []job
	for vi, v := range vps {
		for pos := range v.p {
			jobs = append(jobs, job{vi, pos})
		}
	}
	r.ParallelN(int64(len(jobs)), func(i int64) {
		j := jobs[i]
		v := vps[j.v]
		del := append(append([]byte{}, v.p[:j.pos]...), v.p[j.pos+1:]...)
		c35Total(r, v.fm, del, "valid payload with one byte deleted", &outcomes)
		sl := subs[v.fm]
		if r.Thorough() && v.rep {
			sl = all256
		}
		for _, s := range sl {
			if s == v.p[j.pos] {
				continue
			}
			m := append([]byte{}, v.p...)
			m[j.pos] = s
			c35Total(r, v.fm, m, "valid payload with one byte substituted", &outcomes)
		}
		r.Count("mutation_positions", 1)
	})
	r.Count("totality_errors", int(outcomes[0].Load()))
	r.Count("totality_empty", int(outcomes[1].Load()))
	r.Count("totality_entries", int(outcomes[2].Load()))
	r.Set("max_short_string_len", maxLen)
	r.Set("rule", "part 1: every element of the facets scalar-values (6 type/name variants x 14 label sets with escapes (also at the value boundaries)/UTF-8 x 10 special values x 8 timestamps), scalar-metadata (16 help texts incl. escapes first/last/only x unit x exemplar x start timestamp x second metric x following family), summary, classic-histogram (incl. fractional counts, explicit/implicit +Inf, exemplars) and native-histogram (protobuf; gaps, both sides, float, gauge, with classic buckets), each encoded by expfmt in every format that can express it and parsed under every ParserOptions combination; non-trivial = at least one sample parsed (distinct_nontrivial counts distinct parsed sample sets). part 2: all byte strings up to max_short_string_len over 12 symbols per format (OpenMetrics also with an EOF marker appended) and every single-byte deletion/substitution of the sampled valid payloads.")
	r.Assume("expfmt/client_model encode the model faithfully (they are the reference encoder named by the property); timestamps beyond +-1e15 ms are not required to survive OpenMetrics' float seconds")
	if !r.Expired() {
		if nontrivial.Load() == 0 || outcomes[0].Load() == 0 || outcomes[2].Load() == 0 {
			t.Fatalf("vacuous run: nontrivial=%d totality errors=%d entries=%d", nontrivial.Load(), outcomes[0].Load(), outcomes[2].Load())
		}
	}
}
