package labels

// C39: label sets behave as canonical sorted maps (lookups, iteration, length, equality, ordering,
// string/byte forms and hashing mutually consistent) for any sequence of Builder, ScratchBuilder
// and constructor operations, and the three implementations selected by build tags
// (default = stringlabels, slicelabels, dedupelabels) produce identical observable results apart
// from process-local hash values / opaque byte encodings.
//
// Engine E1 (sequence mode): ALL operation sequences up to a depth over a fixed operation
// alphabet; after every sequence every observable is compared with a plain sorted-pair-list model
// (inside each variant), and a digest of every observable is written per group of sequences to
// $VERIF_DIGEST_FILE; the runner compares the digests of the three variants.

import (
	"bytes"
	"crypto/sha256"
	"encoding/hex"
	"encoding/json"
	"fmt"
	"os"
	"sort"
	"strconv"
	"strings"
	"sync"
	"sync/atomic"
	"testing"

	"github.com/prometheus/common/model"

	"github.com/prometheus/prometheus/internal/verif/vx"
)

// ---- model ----------------------------------------------------------------------------------------

type c39Pair struct{ N, V string }

// c39Set is the model of a label set: pairs in strictly increasing name order.
type c39Set []c39Pair

func c39FromMap(m map[string]string) c39Set {
	s := make(c39Set, 0, len(m))
	for n, v := range m {
		s = append(s, c39Pair{n, v})
	}
	sort.Slice(s, func(i, j int) bool { return s[i].N < s[j].N })
	return s
}

func (s c39Set) get(n string) (string, bool) {
	for _, p := range s {
		if p.N == n {
			return p.V, true
		}
	}
	return "", false
}

func (s c39Set) legal() bool { // strictly increasing names
	for i := 1; i < len(s); i++ {
		if s[i-1].N >= s[i].N {
			return false
		}
	}
	return true
}

func (s c39Set) equal(o c39Set) bool {
	if len(s) != len(o) {
		return false
	}
	for i := range s {
		if s[i] != o[i] {
			return false
		}
	}
	return true
}

// compare: lexicographic over (name, value) pairs; a proper prefix sorts first.
func (s c39Set) compare(o c39Set) int {
	for i := 0; i < len(s) && i < len(o); i++ {
		if c := strings.Compare(s[i].N, o[i].N); c != 0 {
			return c
		}
		if c := strings.Compare(s[i].V, o[i].V); c != 0 {
			return c
		}
	}
	return len(s) - len(o)
}

func (s c39Set) withoutEmpty() c39Set {
	var o c39Set
	for _, p := range s {
		if p.V != "" {
			o = append(o, p)
		}
	}
	return o
}

func (s c39Set) without(names ...string) c39Set {
	var o c39Set
outer:
	for _, p := range s {
		for _, n := range names {
			if p.N == n {
				continue outer
			}
		}
		o = append(o, p)
	}
	return o
}

var c39LegacyName = func(n string) bool { return model.LegacyValidation.IsValidLabelName(n) }

// text is the documented string form {a="x", b="y"} (names quoted only when not legacy-valid).
func (s c39Set) text() string {
	var b strings.Builder
	b.WriteByte('{')
	for i, p := range s {
		if i > 0 {
			b.WriteString(", ")
		}
		if c39LegacyName(p.N) {
			b.WriteString(p.N)
		} else {
			b.WriteString(strconv.Quote(p.N))
		}
		b.WriteByte('=')
		b.WriteString(strconv.Quote(p.V))
	}
	b.WriteByte('}')
	return b.String()
}

func (s c39Set) key(b []byte) []byte {
	for _, p := range s {
		b = strconv.AppendQuote(b, p.N)
		b = append(b, '=')
		b = c39AppendVal(b, p.V)
		b = append(b, ',')
	}
	return b
}

// long values are abbreviated in digests/messages
func c39AppendVal(b []byte, v string) []byte {
	if len(v) > 16 {
		b = append(b, '<')
		b = strconv.AppendInt(b, int64(len(v)), 10)
		b = append(b, ':')
		b = append(b, v[:2]...)
		b = append(b, v[len(v)-2:]...)
		return append(b, '>')
	}
	return strconv.AppendQuote(b, v)
}

// ---- operation alphabet ---------------------------------------------------------------------------

var (
	c39V254 = strings.Repeat("y", 253) + "z"  // 254 bytes: largest 1-byte length in the packed encoding
	c39V255 = strings.Repeat("y", 253) + "zz" // 255 bytes: first 4-byte length; c39V254 is a prefix
)

type c39Op struct {
	name string
	kind int
	n, v string
}

const (
	c39BReset = iota
	c39BSet
	c39BDel
	c39BKeepA
	c39BKeepNone
	c39BLabels
	c39BRangeMut
	c39BRangeSetLater
	c39BRangeSetEarlier
	c39BRangeDelLater
	c39SReset
	c39SAdd
	c39SSort
	c39SAssign
	c39SLabels
	c39SOverwrite
	c39Ctor
	c39WithoutEmpty
	c39Rebuild
	c39Copy
)

func c39Alphabet(level int) []c39Op {
	names := []string{"a", "b"}
	values := []string{"", "x", c39V254, c39V255}
	vn := []string{"empty", "x", "V254", "V255"}
	if level == 0 {
		values, vn = values[:3], vn[:3]
	}
	if level < 0 {
		values, vn = []string{"", c39V255}, []string{"empty", "V255"}
	}
	var ops []c39Op
	ops = append(ops, c39Op{name: "B.Reset(cur)", kind: c39BReset})
	for _, n := range names {
		for i, v := range values {
			ops = append(ops, c39Op{name: "B.Set(" + n + "," + vn[i] + ")", kind: c39BSet, n: n, v: v})
		}
	}
	for _, n := range names {
		ops = append(ops, c39Op{name: "B.Del(" + n + ")", kind: c39BDel, n: n})
	}
	if level >= 0 {
		ops = append(ops, c39Op{name: "B.Keep(a)", kind: c39BKeepA}, c39Op{name: "B.Keep()", kind: c39BKeepNone},
			c39Op{name: "B.Range(at b: Set(a,x))", kind: c39BRangeSetEarlier})
	}
	ops = append(ops, c39Op{name: "B.Range(at a: Set(b,x))", kind: c39BRangeSetLater}, c39Op{name: "B.Range(at a: Del(b))", kind: c39BRangeDelLater})
	ops = append(ops, c39Op{name: "cur=B.Labels()", kind: c39BLabels}, c39Op{name: "B.Range(mutating)", kind: c39BRangeMut},
		c39Op{name: "S.Reset()", kind: c39SReset})
	for _, n := range names {
		for i, v := range values {
			ops = append(ops, c39Op{name: "S.Add(" + n + "," + vn[i] + ")", kind: c39SAdd, n: n, v: v})
		}
	}
	ops = append(ops, c39Op{name: "S.Sort()", kind: c39SSort}, c39Op{name: "S.Assign(cur)", kind: c39SAssign},
		c39Op{name: "cur=S.Labels()", kind: c39SLabels}, c39Op{name: "S.Overwrite(&tmp);cur=tmp.Copy()", kind: c39SOverwrite})
	ctors := []c39Op{
		{name: "cur=FromStrings(b,x,a,V254)", kind: c39Ctor, n: "fs1"},
		{name: "cur=FromMap{a:x}", kind: c39Ctor, n: "fm"},
		{name: "cur=New({b,V255},{a,x})", kind: c39Ctor, n: "new"},
		{name: "cur=FromStrings(__name__,x,a,x,c,x)", kind: c39Ctor, n: "fs2"},
		{name: "cur=FromStrings(a,empty,b,x)", kind: c39Ctor, n: "fs3"},
		{name: "cur=EmptyLabels()", kind: c39Ctor, n: "empty"},
	}
	if level == 0 {
		ctors = ctors[:4]
	}
	if level < 0 {
		ctors = []c39Op{ctors[2]}
	}
	ops = append(ops, ctors...)
	ops = append(ops, c39Op{name: "cur=cur.WithoutEmpty()", kind: c39WithoutEmpty})
	if level >= 0 {
		ops = append(ops, c39Op{name: "cur=rebuildSymbolTable(cur)", kind: c39Rebuild}, c39Op{name: "cur=cur.Copy()", kind: c39Copy})
	}
	return ops
}

// ---- one system instance: real objects + model -----------------------------------------------

type c39Pool struct {
	l     Labels
	m     c39Set
	hash  uint64
	bytes []byte
	ready bool
}

func (p *c39Pool) prep() {
	if !p.ready {
		p.hash, p.bytes, p.ready = p.l.Hash(), p.l.Bytes(nil), true
	}
}

type c39Sys struct {
	st  *SymbolTable
	cur Labels
	b   *Builder
	s   ScratchBuilder

	mcur     c39Set
	mb       map[string]string // builder as a map
	mbAdded  bool              // a non-empty Set since the last Reset (Keep is then not exercised)
	ms       c39Set            // scratch builder: pairs added (any order)
	mout     c39Set            // scratch builder: assigned/cached output
	sstate   int               // scratch builder protocol state, see c39S*
	pool     []c39Pool
	skipped  int
	ranges   int // number of mutating Range operations so far
	tmp      c39Set
	findings []c39Finding
}

// The ScratchBuilder protocol every caller follows: Reset, then EITHER Add*/Sort OR one Assign,
// then Labels()/Overwrite() (repeatable), then Reset again. Outside of it (Add after Labels or
// after Assign, Assign after Add, Overwrite after Assign) the three implementations document and
// do different things, so such steps are not exercised.
const (
	c39SFresh = iota
	c39SAdding
	c39SAssigned
	c39SBuilt
)

type c39Finding struct{ sig, msg string }

func (y *c39Sys) fail(sig, format string, a ...any) {
	for _, f := range y.findings {
		if f.sig == sig {
			return
		}
	}
	y.findings = append(y.findings, c39Finding{sig, fmt.Sprintf(format, a...)})
}

// c39Tables recycles symbol tables between sequences (creating one is expensive in the
// dedupelabels build); a recycled table only carries the numbering of the few strings of the
// alphabet, which is not observable. Sequences with prefill always get a fresh table.
var c39Tables = sync.Pool{New: func() any { return NewSymbolTable() }}

func c39NewSys(prefill int) *c39Sys {
	var st *SymbolTable
	if prefill > 0 {
		st = NewSymbolTable()
		c39Prefill(st, prefill)
	} else {
		st = c39Tables.Get().(*SymbolTable)
	}
	y := &c39Sys{st: st, cur: EmptyLabels(), mb: map[string]string{}}
	y.b = NewBuilderWithSymbolTable(st)
	y.b.Reset(EmptyLabels())
	y.s = NewScratchBuilderWithSymbolTable(st, 0)
	return y
}

func (y *c39Sys) setCur(l Labels, m c39Set) {
	y.cur, y.mcur = l, m
	if len(y.pool) < 6 {
		y.pool = append(y.pool, c39Pool{l: l, m: m})
	}
}

func c39Rebuilt(l Labels) Labels {
	// what tsdb.Head.RebuildSymbolTable does for every series
	st := NewSymbolTable()
	sb := NewScratchBuilderWithSymbolTable(st, 0)
	sb.Reset()
	l.Range(func(x Label) { sb.Add(x.Name, x.Value) })
	return sb.Labels()
}

func (y *c39Sys) apply(op c39Op) {
	switch op.kind {
	case c39BReset:
		y.b.Reset(y.cur)
		y.mb = map[string]string{}
		for _, p := range y.mcur {
			if p.V != "" { // "Empty labels are the same as missing labels"
				y.mb[p.N] = p.V
			}
		}
		y.mbAdded = false
	case c39BSet:
		y.b.Set(op.n, op.v)
		if op.v == "" {
			delete(y.mb, op.n)
		} else {
			y.mb[op.n] = op.v
			y.mbAdded = true
		}
	case c39BDel:
		y.b.Del(op.n)
		delete(y.mb, op.n)
	case c39BKeepA, c39BKeepNone:
		// Keep "removes all labels from the base except those with the given names"; what happens
		// to labels Set since the Reset is not documented, so Keep is only exercised without them.
		if y.mbAdded {
			y.skipped++
			return
		}
		if op.kind == c39BKeepA {
			y.b.Keep("a")
			for n := range y.mb {
				if n != "a" {
					delete(y.mb, n)
				}
			}
		} else {
			y.b.Keep()
			y.mb = map[string]string{}
		}
	case c39BLabels:
		y.setCur(y.b.Labels(), c39FromMap(y.mb))
	case c39BRangeMut:
		// the k-th mutating Range renames every label n to n+"#k" (a Del and a Set per label, like a
		// labeldrop plus labelmap; the new names can never be names being visited, so the outcome
		// does not depend on the visiting order); Range must present the labels as they were at the call
		y.ranges++
		suffix := "#" + strconv.Itoa(y.ranges)
		want := c39FromMap(y.mb)
		var seen c39Set
		y.b.Range(func(l Label) {
			seen = append(seen, c39Pair{l.Name, l.Value})
			y.b.Del(l.Name)
			y.b.Set(l.Name+suffix, l.Value)
		})
		sort.Slice(seen, func(i, j int) bool { return seen[i].N < seen[j].N })
		if !seen.equal(want) {
			y.fail("builder-range-mismatch", "Builder.Range (callback mutating the builder) visited %s, builder holds %s", seen.key(nil), want.key(nil))
		}
		y.mb = map[string]string{}
		for _, p := range want {
			y.mb[p.N+suffix] = p.V
			y.mbAdded = true
		}
	case c39BRangeSetLater, c39BRangeSetEarlier, c39BRangeDelLater:
		// the callback touches ANOTHER label of the builder (a later one, an earlier one) while
		// the iteration is under way; Range must still call it for every label held at the call,
		// exactly once (the outcome does not depend on the visiting order)
		want := c39FromMap(y.mb)
		var seen c39Set
		y.b.Range(func(l Label) {
			seen = append(seen, c39Pair{l.Name, l.Value})
			switch {
			case op.kind == c39BRangeSetLater && l.Name == "a":
				y.b.Set("b", "x")
			case op.kind == c39BRangeSetEarlier && l.Name == "b":
				y.b.Set("a", "x")
			case op.kind == c39BRangeDelLater && l.Name == "a":
				y.b.Del("b")
			}
		})
		sort.Slice(seen, func(i, j int) bool { return seen[i].N < seen[j].N })
		if !seen.equal(want) {
			y.fail("builder-range-mismatch", "Builder.Range (callback of %s) visited %s, builder holds %s", op.name, seen.key(nil), want.key(nil))
		}
		_, hasA := want.get("a")
		_, hasB := want.get("b")
		switch {
		case op.kind == c39BRangeSetLater && hasA:
			y.mb["b"], y.mbAdded = "x", true
		case op.kind == c39BRangeSetEarlier && hasB:
			y.mb["a"], y.mbAdded = "x", true
		case op.kind == c39BRangeDelLater && hasA:
			delete(y.mb, "b")
		}
	case c39SReset:
		y.s.Reset()
		y.ms, y.mout, y.sstate = nil, nil, c39SFresh
	case c39SAdd:
		if y.sstate != c39SFresh && y.sstate != c39SAdding {
			y.skipped++
			return
		}
		y.s.Add(op.n, op.v)
		y.ms = append(y.ms, c39Pair{op.n, op.v})
		y.sstate = c39SAdding
	case c39SSort:
		if y.sstate != c39SFresh && y.sstate != c39SAdding {
			y.skipped++
			return
		}
		y.s.Sort()
		sort.SliceStable(y.ms, func(i, j int) bool { return y.ms[i].N < y.ms[j].N })
	case c39SAssign:
		if y.sstate != c39SFresh {
			y.skipped++
			return
		}
		y.s.Assign(y.cur)
		y.mout = y.mcur
		y.sstate = c39SAssigned
	case c39SLabels:
		// duplicates / unsorted input are the caller's fault, so such states are not turned into label sets
		if y.sstate != c39SAssigned && !y.ms.legal() {
			y.skipped++
			return
		}
		if y.sstate == c39SFresh || y.sstate == c39SAdding {
			y.mout = append(c39Set{}, y.ms...)
			y.sstate = c39SBuilt
		}
		y.setCur(y.s.Labels(), y.mout)
	case c39SOverwrite:
		if y.sstate == c39SAssigned || !y.ms.legal() {
			y.skipped++
			return
		}
		var tmp Labels
		y.s.Overwrite(&tmp)
		y.setCur(tmp.Copy(), append(c39Set{}, y.ms...))
	case c39Ctor:
		switch op.n {
		case "fs1":
			y.setCur(FromStrings("b", "x", "a", c39V254), c39Set{{"a", c39V254}, {"b", "x"}})
		case "fm":
			y.setCur(FromMap(map[string]string{"a": "x"}), c39Set{{"a", "x"}})
		case "new":
			y.setCur(New(Label{Name: "b", Value: c39V255}, Label{Name: "a", Value: "x"}), c39Set{{"a", "x"}, {"b", c39V255}})
		case "fs2":
			y.setCur(FromStrings("__name__", "x", "a", "x", "c", "x"), c39Set{{"__name__", "x"}, {"a", "x"}, {"c", "x"}})
		case "fs3":
			y.setCur(FromStrings("a", "", "b", "x"), c39Set{{"a", ""}, {"b", "x"}})
		case "empty":
			y.setCur(EmptyLabels(), nil)
		}
	case c39WithoutEmpty:
		y.setCur(y.cur.WithoutEmpty(), y.mcur.withoutEmpty())
	case c39Rebuild:
		y.setCur(c39Rebuilt(y.cur), y.mcur)
	case c39Copy:
		y.setCur(y.cur.Copy(), y.mcur)
	}
}

var c39Probe = []string{"a", "b", "a#1", "", "__name__", "aa", "b#1", "c"}

func c39List(l Labels) c39Set {
	var s c39Set
	l.Range(func(x Label) { s = append(s, c39Pair{x.Name, x.Value}) })
	return s
}

// observe checks every observable of l against the model m and appends a canonical rendering
// of the observables (without process-local hashes / opaque bytes) to out.
func (y *c39Sys) observe(what string, l Labels, m c39Set, level int, out []byte) []byte {
	y.tmp = y.tmp[:0]
	l.Range(func(x Label) { y.tmp = append(y.tmp, c39Pair{x.Name, x.Value}) })
	got := y.tmp
	out = append(out, what...)
	out = append(out, ':')
	out = got.key(out)
	if !got.equal(m) {
		y.fail("labels-range-mismatch", "%s: Range yields %s, model %s", what, got.key(nil), m.key(nil))
	}
	if n := l.Len(); n != len(m) {
		y.fail("labels-len-mismatch", "%s: Len()=%d, model has %d labels %s", what, n, len(m), m.key(nil))
	}
	out = strconv.AppendInt(out, int64(l.Len()), 10)
	if l.IsEmpty() != (len(m) == 0) {
		y.fail("labels-isempty-mismatch", "%s: IsEmpty()=%v, model %s", what, l.IsEmpty(), m.key(nil))
	}
	if level == 0 {
		return out
	}
	for _, n := range c39Probe {
		wv, wh := m.get(n)
		if n == "" {
			wv, wh = "", false // there is no label with an empty name
		}
		gv, gh := l.Get(n), l.Has(n)
		if gv != wv {
			y.fail("labels-get-mismatch", "%s: Get(%q)=%s, model %s", what, n, c39AppendVal(nil, gv), m.key(nil))
		}
		if gh != wh {
			y.fail("labels-has-mismatch", "%s: Has(%q)=%v, model %s", what, n, gh, m.key(nil))
		}
		out = c39AppendVal(out, gv)
		out = strconv.AppendBool(out, gh)
	}
	if level < 2 {
		return out
	}
	if s := l.String(); s != m.text() {
		y.fail("labels-string-mismatch", "%s: String()=%.80s..., model %.80s...", what, s, m.text())
	} else {
		out = strconv.AppendInt(out, int64(len(s)), 10)
	}
	// derived label sets
	chk := func(name string, g Labels, w c39Set) {
		gl := c39List(g)
		out = append(out, name...)
		out = gl.key(out)
		if !gl.equal(w) {
			y.fail("labels-"+name+"-mismatch", "%s: %s gives %s, model %s (from %s)", what, name, gl.key(nil), w.key(nil), m.key(nil))
		}
	}
	chk("WithoutEmpty", l.WithoutEmpty(), m.withoutEmpty())
	chk("DropMetricName", l.DropMetricName(), m.without("__name__"))
	chk("Copy", l.Copy(), m)
	// MatchLabels is only compared between the variants (digest), not with the model
	// (only for sets without empty values: a stored empty value is outside the "map to non-empty
	// values" domain, and slicelabels keeps such labels in MatchLabels while the others drop them)
	// (and not for the empty set: in dedupelabels every MatchLabels on it allocates a symbol table)
	if len(m) > 0 && len(m.withoutEmpty()) == len(m) {
		out = append(out, "MatchLabels"...)
		out = c39List(l.MatchLabels(true, "a")).key(out)
		out = c39List(l.MatchLabels(false, "a")).key(out)
	}
	gm := l.Map()
	if !c39FromMap(gm).equal(m) {
		y.fail("labels-map-mismatch", "%s: Map()=%v, model %s", what, gm, m.key(nil))
	}
	if _, dup := l.HasDuplicateLabelNames(); dup {
		y.fail("labels-duplicate-names", "%s: HasDuplicateLabelNames()=true for %s", what, m.key(nil))
	}
	if js, err := l.MarshalJSON(); err != nil {
		y.fail("labels-json-error", "%s: MarshalJSON: %v", what, err)
	} else {
		var back map[string]string
		if err := json.Unmarshal(js, &back); err != nil || !c39FromMap(back).equal(m) {
			y.fail("labels-json-mismatch", "%s: MarshalJSON=%.100s, model %s", what, js, m.key(nil))
		}
		out = strconv.AppendInt(out, int64(len(js)), 10)
	}
	return out
}

var c39Refs = []c39Set{
	nil,
	{{"a", "x"}},
	{{"a", "x"}, {"b", "x"}},
	{{"a", c39V254}},
	{{"a", c39V255}},
	{{"b", "x"}},
	{{"a", "x"}, {"b", c39V254}},
	{{"a", "x"}, {"b", c39V255}},
	{{"__name__", "x"}, {"a", "x"}, {"c", "x"}},
}

func c39Sign(i int) int {
	switch {
	case i < 0:
		return -1
	case i > 0:
		return 1
	}
	return 0
}

// relations checks Equal/Compare/Hash/Bytes between the label sets produced by this sequence and
// the fixed references; the comparison results against the references go into the digest.
func (y *c39Sys) relations(refs []c39Pool, out []byte) []byte {
	np := len(y.pool)
	all := append(y.pool[:np:np], refs...)
	for i := range all {
		all[i].prep()
	}
	for i := 0; i < np; i++ {
		if !Equal(all[i].l, all[i].l) || Compare(all[i].l, all[i].l) != 0 {
			y.fail("labels-equal-not-reflexive", "label set %s is not Equal/Compare==0 to itself", all[i].m.key(nil))
		}
		for j := i + 1; j < len(all); j++ {
			eq, weq := Equal(all[i].l, all[j].l), all[i].m.equal(all[j].m)
			if eq != weq || Equal(all[j].l, all[i].l) != weq {
				y.fail("labels-equal-mismatch", "Equal(%s, %s)=%v", all[i].m.key(nil), all[j].m.key(nil), eq)
			}
			c, c2, wc := c39Sign(Compare(all[i].l, all[j].l)), c39Sign(Compare(all[j].l, all[i].l)), c39Sign(all[i].m.compare(all[j].m))
			if c != wc || c2 != -wc {
				y.fail("labels-compare-mismatch", "Compare(%s, %s) sign %d (reverse %d), want %d", all[i].m.key(nil), all[j].m.key(nil), c, c2, wc)
			}
			if weq && all[i].hash != all[j].hash {
				y.fail("labels-hash-inconsistent", "equal label sets %s have different Hash() %d / %d", all[i].m.key(nil), all[i].hash, all[j].hash)
			}
			if be := bytes.Equal(all[i].bytes, all[j].bytes); be != weq {
				y.fail("labels-bytes-inconsistent", "Bytes() of %s and %s equal=%v but sets equal=%v", all[i].m.key(nil), all[j].m.key(nil), be, weq)
			}
			if i == np-1 && j >= np { // final cur vs references -> digest
				out = append(out, byte('1'+c))
				out = strconv.AppendBool(out, eq)
			}
		}
	}
	return out
}

// finish observes the final state of all three objects.
func (y *c39Sys) finish(refs []c39Pool, out []byte) []byte {
	out = y.observe("cur", y.cur, y.mcur, 2, out)
	if len(y.pool) > 1 {
		for _, p := range y.pool[:len(y.pool)-1] {
			out = y.observe("earlier", p.l, p.m, 0, out) // earlier results must not have been clobbered
		}
	}
	// builder
	mbs := c39FromMap(y.mb)
	for _, n := range c39Probe[:3] {
		wv, _ := mbs.get(n)
		if gv := y.b.Get(n); gv != wv {
			y.fail("builder-get-mismatch", "Builder.Get(%q)=%s, builder holds %s", n, c39AppendVal(nil, gv), mbs.key(nil))
		}
	}
	var seen c39Set
	y.b.Range(func(l Label) { seen = append(seen, c39Pair{l.Name, l.Value}) })
	sort.SliceStable(seen, func(i, j int) bool { return seen[i].N < seen[j].N })
	if !seen.equal(mbs) {
		y.fail("builder-range-mismatch", "Builder.Range visited %s, builder holds %s", seen.key(nil), mbs.key(nil))
	}
	bl := y.b.Labels()
	out = y.observe("B.Labels()", bl, mbs, 1, out)
	y.pool = append(y.pool, c39Pool{l: bl, m: mbs})
	// scratch builder
	if y.sstate == c39SAssigned || y.sstate == c39SBuilt || y.ms.legal() {
		want := y.mout
		if y.sstate == c39SFresh || y.sstate == c39SAdding {
			want = y.ms
		}
		sl := y.s.Labels()
		out = y.observe("S.Labels()", sl, want, 1, out)
		y.pool = append(y.pool, c39Pool{l: sl, m: want})
	}
	y.pool = append(y.pool, c39Pool{l: y.cur, m: y.mcur}) // last entry = cur (compared with the references)
	out = y.relations(refs, out)
	return out
}

// ---- driver ------------------------------------------------------------------------------------------

type c39Replay struct {
	Ops     []string `json:"ops"`
	Prefill int      `json:"prefill"`
	Item    string   `json:"item"` // variant-disagreement replays written by the runner
}

func c39RunSeq(r *vx.Run, alpha []c39Op, seq []int, prefill int, refs []c39Pool, out []byte) (res []byte, nontrivial bool) {
	var y *c39Sys
	p, stack := vx.Guard(func() {
		y = c39NewSys(prefill)
		for _, k := range seq {
			y.apply(alpha[k])
		}
		out = y.finish(refs, out)
	})
	names := func() []string {
		var s []string
		for _, k := range seq {
			s = append(s, alpha[k].name)
		}
		return s
	}
	if p != nil {
		r.Violation("labels-panic", fmt.Sprintf("panic %v after %v\n%s", p, names(), stack), c39Replay{Ops: names(), Prefill: prefill})
		return append(out, "PANIC"...), true
	}
	for _, f := range y.findings {
		r.Violation(f.sig, fmt.Sprintf("%s: after %v: %s", ImplementationName, names(), f.msg), c39Replay{Ops: names(), Prefill: prefill})
	}
	if y.skipped > 0 {
		r.Count("ops_skipped_precondition", y.skipped)
	}
	if prefill == 0 {
		c39Tables.Put(y.st)
	}
	return out, len(y.mcur) > 0
}

func c39MakeRefs() []c39Pool {
	var refs []c39Pool
	for _, m := range c39Refs {
		var ss []string
		for _, p := range m {
			ss = append(ss, p.N, p.V)
		}
		p := c39Pool{l: FromStrings(ss...), m: m}
		p.prep()
		refs = append(refs, p)
	}
	return refs
}

// c39RunGroup runs one digest group: g==0 = all sequences shorter than groupLen, else the
// (g-1)-th prefix of groupLen ops with all its extensions up to depth.
func c39RunGroup(r *vx.Run, sp c39Space, si int, alpha []c39Op, g int64, refs []c39Pool, each func(seq []int, out []byte)) (item, digest string, cnt int64) {
	A := len(alpha)
	h := sha256.New()
	var out []byte
	local := map[string]struct{}{}
	run := func(seq []int) {
		var nt bool
		out, nt = c39RunSeq(r, alpha, seq, sp.prefill, refs, out[:0])
		h.Write(out)
		h.Write([]byte{'\n'})
		cnt++
		if each != nil {
			each(seq, out)
		}
		if _, ok := local[string(out)]; !ok {
			local[string(out)] = struct{}{}
			if r.Distinct("distinct_outcomes", string(out)) {
				r.Count("outcome_classes", 1)
			}
			if nt {
				r.Distinct("distinct_nontrivial", string(out))
			}
		}
	}
	if g == 0 {
		item = fmt.Sprintf("%d|short", si)
		n := vx.SeqCount(A, 0, sp.groupLen-1)
		for i := int64(0); i < n; i++ {
			run(vx.SeqAt(A, 0, sp.groupLen-1, i, nil))
		}
	} else {
		prefix := vx.SeqAt(A, sp.groupLen, sp.groupLen, g-1, nil)
		var pn []string
		for _, k := range prefix {
			pn = append(pn, alpha[k].name)
		}
		item = fmt.Sprintf("%d|%s", si, strings.Join(pn, ";"))
		n := vx.SeqCount(A, 0, sp.depth-sp.groupLen)
		var ext []int
		for i := int64(0); i < n; i++ {
			ext = vx.SeqAt(A, 0, sp.depth-sp.groupLen, i, ext)
			run(append(append([]int{}, prefix...), ext...))
		}
	}
	return item, hex.EncodeToString(h.Sum(nil)[:12]), cnt
}

type c39Space struct {
	name     string
	level    int // alphabet level
	depth    int
	prefill  int // symbols put into the symbol table before the sequence (dedupelabels only)
	groupLen int
}

func c39Spaces(r *vx.Run) []c39Space {
	return vx.Pick(r,
		[]c39Space{{"full alphabet", 1, 3, 0, 1}, {"small alphabet", -1, 4, 0, 2}, {"symbol table at the 1024 growth boundary", -1, 3, 1021, 1}},
		[]c39Space{{"full alphabet", 1, 4, 0, 2}, {"small alphabet", -1, 5, 0, 2}, {"symbol table at the 1024 growth boundary", 0, 3, 1021, 1}})
}

func TestVerifC39(t *testing.T) {
	r := vx.Start(t, "C39", "exploration")
	defer r.Finish()
	var refs []c39Pool
	if p, stack := vx.Guard(func() { refs = c39MakeRefs() }); p != nil {
		r.Violation("labels-panic", fmt.Sprintf("%s: panic %v while building the reference label sets with FromStrings\n%s", ImplementationName, p, stack), c39Replay{})
		r.Count("evaluations", 1)
		r.Set("rule", "setup failed")
		r.Sample("setup failed")
		return
	}

	if r.Replay != "" {
		var rp c39Replay
		r.LoadReplay(&rp)
		alpha := c39Alphabet(1)
		idx := func(names []string) []int {
			var seq []int
			for _, n := range names {
				found := false
				for i, o := range alpha {
					if o.name == n {
						seq = append(seq, i)
						found = true
					}
				}
				if !found {
					t.Fatalf("replay: unknown op %q", n)
				}
			}
			return seq
		}
		if rp.Item != "" {
			// a variant disagreement: print the digest of every sequence of that group so that the
			// outputs of two variants (VERIF_VARIANT=...) can be diffed
			for si, sp := range c39Spaces(r) {
				al := c39Alphabet(sp.level)
				ng := vx.SeqCount(len(al), sp.groupLen, sp.groupLen) + 1
				for g := int64(0); g < ng; g++ {
					if g > 0 {
						// cheap pre-check of the item name before running the group
						prefix := vx.SeqAt(len(al), sp.groupLen, sp.groupLen, g-1, nil)
						var pn []string
						for _, k := range prefix {
							pn = append(pn, al[k].name)
						}
						if fmt.Sprintf("%d|%s", si, strings.Join(pn, ";")) != rp.Item {
							continue
						}
					} else if fmt.Sprintf("%d|short", si) != rp.Item {
						continue
					}
					c39RunGroup(r, sp, si, al, g, refs, func(seq []int, out []byte) {
						var on []string
						for _, k := range seq {
							on = append(on, al[k].name)
						}
						fmt.Printf("C39-SEQ %s %x %s\n", ImplementationName, sha256.Sum256(out), strings.Join(on, " ; "))
					})
				}
			}
			return
		}
		out, _ := c39RunSeq(r, alpha, idx(rp.Ops), rp.Prefill, refs, nil)
		fmt.Printf("C39-SEQ %s %x\n%s\n", ImplementationName, sha256.Sum256(out), out)
		return
	}

	// self-test: the model comparison rejects wrong observables
	{
		y := c39NewSys(0)
		l := FromStrings("a", "x", "b", "x")
		y.observe("selftest", l, c39Set{{"a", "x"}}, 2, nil)
		y.observe("selftest", l, c39Set{{"a", "x"}, {"b", "y"}}, 2, nil)
		if len(y.findings) < 3 {
			t.Fatalf("self-test: model comparison did not reject a wrong label set: %v", y.findings)
		}
		y = c39NewSys(0)
		y.pool = []c39Pool{{l: FromStrings("a", "x"), m: c39Set{{"a", "y"}}}, {l: FromStrings("a", "x"), m: c39Set{{"a", "x"}}}}
		y.relations(nil, nil)
		if len(y.findings) == 0 {
			t.Fatalf("self-test: relation check did not reject Equal on sets the model says differ")
		}
		if (c39Set{{"a", "x"}}).compare(c39Set{{"a", "x"}, {"b", "x"}}) >= 0 || (c39Set{{"a", "y"}}).compare(c39Set{{"a", "x"}, {"b", "x"}}) <= 0 {
			t.Fatal("self-test: model ordering wrong")
		}
	}

	spaces := c39Spaces(r)

	dgPath := os.Getenv("VERIF_DIGEST_FILE")
	var dgMu sync.Mutex
	var dg []string
	var nseq atomic.Int64
	sizes := map[string]int64{}
	for si, sp := range spaces {
		alpha := c39Alphabet(sp.level)
		A := len(alpha)
		_ = A
		// groups: every prefix of exactly groupLen ops owns all its extensions; group -1 owns the shorter sequences
		ngroups := vx.SeqCount(A, sp.groupLen, sp.groupLen) + 1
		var total int64
		r.ParallelN(ngroups, func(g int64) {
			item, digest, cnt := c39RunGroup(r, sp, si, alpha, g, refs, nil)
			k := nseq.Add(cnt)
			atomic.AddInt64(&total, cnt)
			dgMu.Lock()
			dg = append(dg, item+"\t"+digest)
			dgMu.Unlock()
			r.SampleAt(k/cnt, func() any {
				return map[string]any{"space": sp.name, "group": item, "sequences_in_group": cnt}
			})
		})
		sizes[sp.name] = total
	}
	if r.Expired() {
		// an incomplete digest file would look like a disagreement between the variants
		t.Fatalf("deadline reached before the enumeration completed: no verdict (tool failure)")
	}
	if dgPath != "" {
		sort.Strings(dg)
		if err := os.WriteFile(dgPath, []byte(strings.Join(dg, "\n")+"\n"), 0o644); err != nil {
			t.Fatalf("digest file: %v", err)
		}
	}
	r.Count("evaluations", int(nseq.Load()))
	if r.Get("outcome_classes") < 10 {
		t.Fatalf("vacuous: %d distinct outcomes", r.Get("outcome_classes"))
	}
	r.Set("implementation", ImplementationName)
	r.Set("space_sizes", sizes)
	r.Set("digest_items", len(dg))
	var an []string
	for _, o := range c39Alphabet(1) {
		an = append(an, o.name)
	}
	r.Set("alphabet", an)
	r.Set("rule", fmt.Sprintf("every operation sequence of length <= depth over the operation alphabet (%d ops; names a,b; values \"\", x, 254-byte and 255-byte strings; Builder Reset/Set/Del/Keep/Labels/Range with callbacks that rename every label, Set a later / an earlier label, Del a later label, ScratchBuilder Reset/Add/Sort/Assign/Labels/Overwrite, constructors, WithoutEmpty, symbol-table rebuild, Copy) on fresh objects, spaces %+v; after each sequence all observables of the current label set, of earlier results, of Builder.Labels() and ScratchBuilder.Labels() are compared with a sorted pair-list model, Equal/Compare/Hash/Bytes are cross-checked between all label sets of the sequence and 9 reference sets, and a digest of the observables (no hashes/opaque bytes) per group of sequences is compared between the three build variants by the runner. "+
		"distinct_outcomes = distinct observable renderings; distinct_nontrivial = the same (every rendering is a non-empty final state)", len(an), spaces))
	r.Assume("ScratchBuilder.Labels/Overwrite and the constructors are only used with unique, sorted names (their documented precondition); Builder.Keep only without labels Set since Reset")
	r.Assume("ScratchBuilder is only driven through its usage protocol Reset -> (Add*/Sort | Assign) -> Labels/Overwrite*; outside of it (Add after Labels or Assign, Assign after Add, Overwrite after Assign) the implementations are documented differently and do differ")
	r.Assume("model ordering: lexicographic over (name,value) pairs, a proper prefix sorts first")
}
