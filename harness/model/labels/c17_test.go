package labels

// C17: the optimised regex matcher (FastRegexMatcher, labels.Matcher) reports a match exactly
// when the fully anchored expression with '.' matching newlines matches, and when it exposes a
// finite set of matching values (SetMatches) a string matches exactly when it is in that set.
//
// Engine E1 (input enumeration): ALL regular expressions of several bounded families
// (concatenations / alternations / wrapped forms of a fixed item alphabet, long wildcard chains,
// large literal alternations around the 16 and 256 thresholds) x ALL strings up to a length over a
// small alphabet that contains the case-folding partners and a newline.
// Oracle: the standard library "regexp" package on "^(?s:" + re + ")$" (NOT the grafana fork the
// code under test uses).

import (
	"fmt"
	"hash/fnv"
	"os"
	stdregexp "regexp"
	"sort"
	"strings"
	"sync/atomic"
	"testing"

	"github.com/prometheus/prometheus/internal/verif/vx"
)

const (
	c17Kelvin = "\u212a" // KELVIN SIGN, simple-folds with k and K, 3 bytes
	c17LongS  = "\u017f" // LATIN SMALL LETTER LONG S, simple-folds with s and S, 2 bytes
	c17Ord    = "\u00aa" // FEMININE ORDINAL INDICATOR: compatibility-decomposes to "a" but does NOT case-fold with a/A
)

// ---- string universe -------------------------------------------------------------------

func c17AllStrings(sigma []string, minLen, maxLen int) []string {
	var out []string
	for l := minLen; l <= maxLen; l++ {
		n := vx.SeqCount(len(sigma), l, l)
		for i := int64(0); i < n; i++ {
			seq := vx.SeqAt(len(sigma), l, l, i, nil)
			var b strings.Builder
			for _, k := range seq {
				b.WriteString(sigma[k])
			}
			out = append(out, b.String())
		}
	}
	return out
}

func c17Dedupe(in []string) []string {
	seen := make(map[string]struct{}, len(in))
	out := in[:0:0]
	for _, s := range in {
		if _, ok := seen[s]; ok {
			continue
		}
		seen[s] = struct{}{}
		out = append(out, s)
	}
	return out
}

type c17Bounds struct {
	sigma      []string // full string alphabet
	sigmaLen   int      // all strings up to this length over sigma
	sigmaMid   []string // medium alphabet: all strings of length sigmaLen+1 .. midLen (midLen 0 = none)
	midLen     int
	sigmaSmall []string // smaller alphabet for longer strings
	smallLen   int      // ... up to this length
}

func c17Strings(b c17Bounds) []string {
	s := c17AllStrings(b.sigma, 0, b.sigmaLen)
	from := b.sigmaLen + 1
	if b.midLen >= from {
		s = append(s, c17AllStrings(b.sigmaMid, from, b.midLen)...)
	}
	s = append(s, c17AllStrings(b.sigmaSmall, from, b.smallLen)...)
	return c17Dedupe(s)
}

// ---- regex families ----------------------------------------------------------------------

// Items, simplest first. Every item is a complete, balanced sub-expression so that any
// concatenation of items is a syntactically valid expression on its own.
var (
	c17Lits    = []string{"a", "b", "A", c17LongS, c17Kelvin, "\n"}
	c17Wild    = []string{".*", ".+", ".?", ".", "(?-s:.*)", "(?-s:.+)", "(?-s:.?)", "(?-s:.)"}
	c17Classes = []string{"[ab]", "[^a]"}
	c17Anchors = []string{"^", "$"}
	c17Quants  = []string{"a*", "a?", "b+"}
	c17Groups  = []string{"(a)", "()", "(?i:a)", "(?i:" + c17LongS + ")", "(?i:" + c17Kelvin + ")", "(a|b)", "(?i:a|b)", "(a|)", "((a))"}
)

func c17Items() []string {
	var it []string
	for _, g := range [][]string{c17Lits, c17Wild, c17Classes, c17Anchors, c17Quants, c17Groups} {
		it = append(it, g...)
	}
	return it
}

// reduced item sets
var (
	c17ItemsMid   = []string{"a", "b", "A", c17LongS, c17Kelvin, "\n", ".*", ".+", ".?", ".", "(?-s:.*)", "[ab]", "^", "$", "a?", "(a)", "(?i:a)", "(?i:" + c17LongS + ")", "(a|b)", "(?i:a|b)"}
	c17ItemsAlt   = []string{"a", "b", "A", c17LongS, c17Kelvin, "\n", ".*", ".+", ".?", ".", "(?i:a)", "[ab]", "^", "$"}
	c17ItemsAltS  = []string{"a", "b", c17LongS, ".*", ".+", ".?", "(?i:a)", "[ab]"}
	c17ItemsChain = []string{"a", "b", "(a)", ".*", ".+", ".?", "(?i:a)"}
	c17Wrappers   = []string{"(%s)", "(?i:%s)", "(?i)%s", "^%s$", "^(?:%s)$", "(%s)?", "(?:%s)*", "((%s))", "(?i:(%s))", "(?:%s)+", "(?s:%s)", "(?-s:%s)"}
)

func c17Concats(items []string, minLen, maxLen int, out []string) []string {
	n := vx.SeqCount(len(items), minLen, maxLen)
	var seq []int
	for i := int64(0); i < n; i++ {
		seq = vx.SeqAt(len(items), minLen, maxLen, i, seq)
		var b strings.Builder
		for _, k := range seq {
			b.WriteString(items[k])
		}
		out = append(out, b.String())
	}
	return out
}

type c17Family struct {
	name    string
	regexes []string
	big     bool     // uses the extended string set derived from the literals
	strs    []string // own string set (overrides big)
}

type c17Sizes struct {
	concatFullLen  int // concatenations of <= this many items of the full item set
	concatMidLen   int // concatenations of <= this many items of the mid item set
	altBranchLen   int // two-branch alternations, each branch a concatenation of <= this many alt items
	alt3           bool
	chainLen       int // wildcard/literal chains of exactly 4..chainLen items of the chain set
	wrapConcatLen  int // wrappers applied to every concatenation of <= this many full items ...
	wrapAltBranch  int // ... and to every two-branch alternation with branches of <= this many alt items (negative: of the short alt item list)
	bigAltCounts   []int
	bigAltUniverse int
}

func c17BuildFamilies(sz c17Sizes) []c17Family {
	var fams []c17Family
	full := c17Items()
	fams = append(fams, c17Family{name: "concat-full", regexes: c17Concats(full, 0, sz.concatFullLen, nil)})
	if sz.concatMidLen > sz.concatFullLen {
		fams = append(fams, c17Family{name: "concat-mid", regexes: c17Concats(c17ItemsMid, sz.concatFullLen+1, sz.concatMidLen, nil)})
	}
	alt2 := func(branchLen int) []string {
		items := c17ItemsAlt
		if branchLen < 0 { // negative: the short alternation item list
			items, branchLen = c17ItemsAltS, -branchLen
		}
		br := c17Concats(items, 0, branchLen, nil)
		out := make([]string, 0, len(br)*len(br))
		for _, x := range br {
			for _, y := range br {
				out = append(out, x+"|"+y)
			}
		}
		return out
	}
	fams = append(fams, c17Family{name: "alt2", regexes: alt2(sz.altBranchLen)})
	if sz.alt3 {
		br := c17Concats(c17ItemsAlt, 0, 1, nil)
		var out []string
		for _, x := range br {
			for _, y := range br {
				for _, z := range br {
					out = append(out, x+"|"+y+"|"+z)
				}
			}
		}
		fams = append(fams, c17Family{name: "alt3", regexes: out})
	}
	fams = append(fams, c17Family{name: "chain", regexes: c17Concats(c17ItemsChain, 4, sz.chainLen, nil)})
	{
		base := c17Concats(full, 1, sz.wrapConcatLen, nil)
		base = append(base, alt2(sz.wrapAltBranch)...)
		out := make([]string, 0, len(base)*len(c17Wrappers))
		for _, w := range c17Wrappers {
			for _, b := range base {
				out = append(out, fmt.Sprintf(w, b))
			}
		}
		// wrapped expression inside a concatenation: literal/wildcard before and after
		for _, b := range base {
			out = append(out, "a(?i:"+b+")", "(?i:"+b+")a", ".*("+b+")", "("+b+").*", ".*("+b+").*", "(?i:"+b+").+")
		}
		fams = append(fams, c17Family{name: "wrapped", regexes: out})
	}
	fams = append(fams, c17Family{name: "big-alternation", regexes: c17BigAlternations(sz), big: true})
	fams = append(fams, c17Family{name: "distinct-first-letter-alternation", regexes: c17DistinctFirst(sz), big: true})
	lre, lstrs := c17LongMembers()
	fams = append(fams, c17Family{name: "long-member-sets", regexes: lre, strs: lstrs})
	return fams
}

// literal universes for the large alternations: all non-empty strings over a 3-letter alphabet,
// shortest first (3+9+27+81+243 = 363 >= 257 literals)
func c17LitUniverses() [][]string {
	return [][]string{
		c17AllStrings([]string{"a", "b", "A"}, 1, 5),
		c17AllStrings([]string{"a", c17LongS, c17Kelvin}, 1, 5),
		c17AllStrings([]string{"k", "S", "b"}, 1, 5),
	}
}

func c17BigAlternations(sz c17Sizes) []string {
	var out []string
	unis := c17LitUniverses()[:sz.bigAltUniverse]
	join := func(lits []string, f func(i int, l string) string) string {
		parts := make([]string, len(lits))
		for i, l := range lits {
			parts[i] = f(i, l)
		}
		return strings.Join(parts, "|")
	}
	for _, u := range unis {
		for _, n := range sz.bigAltCounts {
			lits := u[:n]
			// longest-first order as well: prefix factoring by the parser differs
			rev := make([]string, n)
			for i := range lits {
				rev[i] = lits[n-1-i]
			}
			for _, ls := range [][]string{lits, rev} {
				L := strings.Join(ls, "|")
				out = append(out,
					L, "("+L+")", "(?i:"+L+")", "(?i)"+L, "(?i:("+L+"))",
					".*("+L+")", "("+L+").*", ".*("+L+").*", ".+("+L+").+", ".?("+L+")", "("+L+").?",
					"(?-s:.*)("+L+")", "("+L+")(?-s:.+)",
					"(?i:("+L+").*)", "(?i:.*("+L+"))", "(?i:.*("+L+").*)",
					"a("+L+")", "("+L+")b", "(?i:a)("+L+")", "("+L+")(?i:b)",
					L+"|", "|"+L, L+`|a\.b`, "(?i:"+L+`|a\.b)`, L+"|.+a", L+"|a.+",
					"("+L+")("+"a|b"+")", "(a|"+c17LongS+")("+L+")",
				)
				out = append(out,
					join(ls, func(_ int, l string) string { return l + ".*" }),
					join(ls, func(_ int, l string) string { return l + ".+" }),
					join(ls, func(_ int, l string) string { return l + ".?" }),
					join(ls, func(_ int, l string) string { return l + "(?-s:.*)" }),
					join(ls, func(_ int, l string) string { return ".*" + l }),
					join(ls, func(_ int, l string) string { return ".*" + l + ".*" }),
					join(ls, func(_ int, l string) string { return ".+" + l + ".*" }),
					"(?i:"+join(ls, func(_ int, l string) string { return l + ".*" })+")",
					"(?i:"+join(ls, func(_ int, l string) string { return l + ".+" })+")",
					join(ls, func(_ int, l string) string { return "(?i:" + l + ")" }),
					join(ls, func(_ int, l string) string { return "(?i:" + l + ").*" }),
					join(ls, func(i int, l string) string {
						if i%2 == 0 {
							return l
						}
						return l + ".*"
					}),
					"(?i:"+join(ls, func(i int, l string) string {
						if i%2 == 0 {
							return l
						}
						return l + ".*"
					})+")",
					join(ls, func(i int, l string) string {
						if i%2 == 0 {
							return l
						}
						return "(?i:" + l + ")"
					}),
					join(ls, func(i int, l string) string {
						if i%3 == 0 {
							return l + ".*"
						}
						return "(?i:" + l + ").*"
					}),
				)
			}
		}
	}
	return out
}

// c17LongMembers: value sets whose members have byte lengths on the boundaries of the 64-bit
// length mask of the multi-string matchers (62..65) and at 127..129, as plain x...x literals with a
// distinguishing last byte, with a distinct first byte (no common prefix), and with multi-byte
// runes (byte length != rune count); in alternations of 2, of all lengths (< 16 values, slice
// matcher) and of >= 16 values (map matcher), case-sensitive and case-insensitive, bare, grouped
// and followed by a wildcard. Strings: every member and its near misses (last byte dropped, one
// byte appended, last byte changed, case swapped).
func c17LongMembers() (regexes, strs []string) {
	lens := []int{1, 62, 63, 64, 65, 127, 128, 129}
	type gen func(l int, last byte) string
	gens := []gen{
		func(l int, last byte) string { return strings.Repeat("x", l-1) + string(last) }, // common prefix
		nil,
	}
	gens[1] = func(l int, last byte) string { // distinct first byte per length, no common prefix
		if l == 1 {
			return string(last)
		}
		return string(rune('c'+l%23)) + strings.Repeat("x", l-2) + string(last)
	}
	gens = append(gens, func(l int, last byte) string { // 2-byte runes: byte length l, rune count about l/2
		if l == 1 {
			return string(last)
		}
		return strings.Repeat(c17LongS, (l-1)/2) + strings.Repeat("x", (l-1)%2) + string(last)
	})
	seenS := map[string]struct{}{}
	addS := func(v ...string) {
		for _, x := range v {
			if _, ok := seenS[x]; !ok {
				seenS[x] = struct{}{}
				strs = append(strs, x)
			}
		}
	}
	addS("", "x", "a")
	shapes := func(L string) []string {
		return []string{L, "(" + L + ")", "(?i:" + L + ")", "(?i)" + L, "(" + L + ").*", ".*(" + L + ")", "(?i:(" + L + ").*)", "(" + L + ")|", "^(?:" + L + ")$"}
	}
	for _, g := range gens {
		var members []string
		for _, l := range lens {
			for _, last := range []byte{'a', 'b', 'c'} {
				m := g(l, last)
				members = append(members, m)
				addS(m, m[:len(m)-1], m+"x", m+string(last), m[:len(m)-1]+"z", strings.ToUpper(m), strings.ToUpper(m)+"x",
					strings.ReplaceAll(m, c17LongS, "s"), strings.ReplaceAll(m, c17LongS, "S"))
			}
		}
		// pairs of lengths (last byte a): 2-value sets
		for i := range lens {
			for j := range lens {
				if i != j {
					for _, sh := range shapes(g(lens[i], 'a') + "|" + g(lens[j], 'a')) {
						regexes = append(regexes, sh)
					}
				}
			}
		}
		// all lengths, one value each (8 values: slice matcher), and all 24 values (map matcher)
		var one []string
		for _, l := range lens {
			one = append(one, g(l, 'a'))
		}
		for _, set := range [][]string{one, members, members[3:], members[:18]} {
			regexes = append(regexes, shapes(strings.Join(set, "|"))...)
		}
		// single long literal and literal with a one-letter class at the end: a[bc] style sets
		for _, l := range lens {
			m := g(l, 'a')
			regexes = append(regexes, m, "(?i:"+m+")", m[:len(m)-1]+"[abc]", "(?i:"+m[:len(m)-1]+"[abc])", m[:len(m)-1]+"(a|b)")
		}
	}
	return regexes, strs
}

// c17DistinctLits: n literals with pairwise distinct first letters (the parser cannot factor a
// common prefix, so the alternation stays flat) and tails of varying length, some with letters
// that have non-ASCII folding partners.
func c17DistinctLits(n int) []string {
	tails := []string{"", "a", "s", "k" + "b", c17LongS, "A"}
	first := "cdefghijlmnopqrtuvwxyzCDEFGHIJLMNOPQRTUVWXYZ"
	out := make([]string, n)
	for i := 0; i < n; i++ {
		out[i] = string(first[i]) + tails[i%len(tails)]
	}
	return out
}

var c17DistinctCounts = []int{15, 16, 17, 40}

func c17DistinctFirst(sz c17Sizes) []string {
	var out []string
	join := func(lits []string, f func(i int, l string) string) string {
		parts := make([]string, len(lits))
		for i, l := range lits {
			parts[i] = f(i, l)
		}
		return strings.Join(parts, "|")
	}
	tailsR := []string{".*", ".+", ".?", "(?-s:.*)", "a.*", ".*a", "(a|b)", "[ab]"}
	for _, n := range c17DistinctCounts {
		ls := c17DistinctLits(n)
		L := strings.Join(ls, "|")
		out = append(out, L, "(?i:"+L+")", "("+L+").*", "(?i:("+L+").*)", ".*("+L+")", "(?i:.*("+L+"))")
		for _, t := range tailsR {
			out = append(out,
				join(ls, func(_ int, l string) string { return l + t }),
				"(?i:"+join(ls, func(_ int, l string) string { return l + t })+")",
				join(ls, func(i int, l string) string {
					if i%2 == 0 {
						return l
					}
					return l + t
				}),
				"(?i:"+join(ls, func(i int, l string) string {
					if i%2 == 0 {
						return l
					}
					return l + t
				})+")",
				join(ls, func(i int, l string) string {
					if i%2 == 0 {
						return "(?i:" + l + ")" + t
					}
					return l + t
				}),
				join(ls, func(_ int, l string) string { return t + l }),
			)
		}
	}
	return out
}

// strings for the large alternations: the general set plus every literal of the universes and
// small mutations of them (extension, case swap to each folding partner, a compatibility
// look-alike that must NOT match).
func c17BigStrings(general []string, sz c17Sizes) []string {
	out := append([]string{}, general...)
	maxN := 0
	for _, n := range sz.bigAltCounts {
		if n > maxN {
			maxN = n
		}
	}
	swaps := [][2]string{{"a", "A"}, {"A", "a"}, {"b", "B"}, {c17LongS, "s"}, {c17LongS, "S"}, {"S", c17LongS}, {"S", "s"},
		{c17Kelvin, "k"}, {c17Kelvin, "K"}, {"k", c17Kelvin}, {"k", "K"}, {"a", c17Ord}, {"A", c17Ord}}
	for _, u := range c17LitUniverses()[:sz.bigAltUniverse] {
		lim := maxN + 3
		if lim > len(u) {
			lim = len(u)
		}
		for _, l := range u[:lim] {
			out = append(out, l, l+"a", l+"\n", "a"+l, "\n"+l, l+"b", "x"+l+"x", l+l)
			for _, sw := range swaps {
				if strings.Contains(l, sw[0]) {
					out = append(out, strings.ReplaceAll(l, sw[0], sw[1]), strings.Replace(l, sw[0], sw[1], 1), strings.ReplaceAll(l, sw[0], sw[1])+"a")
				}
			}
		}
	}
	for _, l := range c17DistinctLits(c17DistinctCounts[len(c17DistinctCounts)-1]) {
		out = append(out, l, l+"a", l+"b", l+"\n", l+"ab", l+"a\n", "a"+l, l[:1], l[:1]+"a", strings.ToUpper(l), strings.ToLower(l),
			strings.ToUpper(l)+"a", strings.ToLower(l)+"\n", l+"aa", l+"ba")
		for _, sw := range swaps {
			if strings.Contains(l, sw[0]) {
				out = append(out, strings.ReplaceAll(l, sw[0], sw[1]), strings.ReplaceAll(l, sw[0], sw[1])+"a")
			}
		}
	}
	out = append(out, "a.b", "aab", "A.B", "a.b\n")
	return c17Dedupe(out)
}

// ---- the comparison ------------------------------------------------------------------------

type c17Finding struct{ sig, msg, s string }

// c17Compare evaluates the property for one expression: match is the implementation's answer,
// set its exposed finite value set (nil/empty = none exposed), ref the anchored reference.
// Returns (findings, number of matching strings, hash of the match vector).
func c17Compare(re string, match func(string) bool, notMatch func(string) bool, set []string, ref *stdregexp.Regexp, strs []string) ([]c17Finding, int, uint64) {
	var f []c17Finding
	add := func(sig, s, format string, a ...any) {
		// the class also says whether non-ASCII text is involved (the folding/normalisation code
		// has separate ASCII and Unicode paths)
		if c17IsASCII(re) && c17IsASCII(s) {
			sig += "/ascii"
		} else {
			sig += "/unicode"
		}
		for _, x := range f {
			if x.sig == sig {
				return
			}
		}
		f = append(f, c17Finding{sig, fmt.Sprintf(format, a...), s})
	}
	inSet := map[string]struct{}{}
	for _, v := range set {
		inSet[v] = struct{}{}
	}
	h := fnv.New64a()
	nm := 0
	for _, s := range strs {
		want := ref.MatchString(s)
		got := match(s)
		if want {
			nm++
			h.Write([]byte{1})
		} else {
			h.Write([]byte{0})
		}
		if got && !want {
			add("match-false-positive", s, "regex %q: optimised matcher matches %q but ^(?s:%s)$ does not", re, s, re)
		}
		if !got && want {
			add("match-false-negative", s, "regex %q: optimised matcher rejects %q but ^(?s:%s)$ matches", re, s, re)
		}
		if notMatch != nil {
			// compared with the =~ answer (which itself is compared with the reference above), so
			// that one wrong optimisation is reported once
			if ng := notMatch(s); ng == got {
				add("not-regexp-matcher-not-negation", s, "regex %q: the !~ matcher returns %v and the =~ matcher returns %v for %q", re, ng, got, s)
			}
		}
		if len(set) > 0 {
			_, in := inSet[s]
			if want && !in {
				add("setmatches-missing-value", s, "regex %q: SetMatches()=%q does not contain %q which ^(?s:%s)$ matches", re, set, s, re)
			}
			if in && !want {
				add("setmatches-extra-value", s, "regex %q: SetMatches()=%q contains %q which ^(?s:%s)$ does not match", re, set, s, re)
			}
		}
	}
	// the exposed values themselves (they need not be in the string universe)
	for _, v := range set {
		if !ref.MatchString(v) {
			add("setmatches-extra-value", v, "regex %q: SetMatches()=%q contains %q which ^(?s:%s)$ does not match", re, set, v, re)
		}
		if !match(v) {
			add("setmatches-value-not-matched", v, "regex %q: SetMatches() contains %q but MatchString rejects it", re, v)
		}
	}
	return f, nm, h.Sum64()
}

func c17IsASCII(s string) bool {
	for i := 0; i < len(s); i++ {
		if s[i] >= 0x80 {
			return false
		}
	}
	return true
}

// c17Paths names the optimisations the matcher selected (white-box, for coverage evidence only).
func c17Paths(m *FastRegexMatcher) []string {
	var p []string
	if m.re == nil {
		p = append(p, "literal-alternation-fastpath")
	}
	if len(m.setMatches) > 0 {
		p = append(p, "setMatches")
	}
	if m.prefix != "" {
		if m.caseInsensitivePrefix {
			p = append(p, "prefix-case-insensitive")
		} else {
			p = append(p, "prefix")
		}
	}
	if m.suffix != "" {
		p = append(p, "suffix")
	}
	if len(m.contains) == 1 {
		p = append(p, "contains-1")
	} else if len(m.contains) > 1 {
		p = append(p, "contains-multi")
	}
	if m.stringMatcher != nil {
		name := fmt.Sprintf("%T", m.stringMatcher)
		name = strings.TrimPrefix(strings.TrimPrefix(name, "*"), "labels.")
		if mm, ok := m.stringMatcher.(*equalMultiStringMapMatcher); ok {
			if mm.caseSensitive {
				name += "-cs"
			} else {
				name += "-ci"
			}
			if len(mm.prefixes) > 0 {
				name += "-prefixes"
			}
		}
		if mm, ok := m.stringMatcher.(*equalMultiStringSliceMatcher); ok && !mm.caseSensitive {
			name += "-ci"
		}
		p = append(p, "sm:"+name)
	}
	if len(p) == 0 {
		p = append(p, "regexp-engine-only")
	}
	return p
}

type c17Replay struct {
	Re string `json:"re"`
	S  string `json:"s"`
}

// c17RunOne checks one expression against strs. Returns false when the expression is not
// accepted (outside the property's domain).
func c17RunOne(r *vx.Run, re string, strs []string) bool {
	var m, mNot *Matcher
	var err, err2 error
	if p, stack := vx.Guard(func() {
		m, err = NewMatcher(MatchRegexp, "l", re)
		if err == nil {
			mNot, err2 = m.Inverse()
		}
	}); p != nil {
		r.Violation("compile-panic", fmt.Sprintf("NewMatcher(=~ %q) panicked: %v\n%s", re, p, stack), c17Replay{Re: re})
		return true
	}
	ref, rerr := stdregexp.Compile("^(?s:" + re + ")$")
	if err != nil || err2 != nil || rerr != nil {
		r.Count("not_accepted", 1)
		if (err != nil) != (rerr != nil) {
			r.Count("acceptance_differs_from_stdlib", 1)
		}
		return false
	}
	var fs []c17Finding
	var nm int
	var vec uint64
	if p, stack := vx.Guard(func() {
		fs, nm, vec = c17Compare(re, m.Matches, mNot.Matches, m.SetMatches(), ref, strs)
	}); p != nil {
		r.Violation("match-panic", fmt.Sprintf("matching with regex %q panicked: %v\n%s", re, p, stack), c17Replay{Re: re})
		return true
	}
	paths := c17Paths(m.re)
	for _, f := range fs {
		// violation class = what is wrong + which optimisation produced the answer
		sig := f.sig + "@" + strings.Join(paths, "+")
		r.Violation(sig, f.msg+" [optimisations selected: "+strings.Join(paths, ", ")+"]", c17Replay{Re: re, S: f.s})
		if os.Getenv("C17_DEBUG") != "" {
			fmt.Printf("C17-DEBUG %s re=%q s=%q\n", sig, re, f.s)
		}
	}
	if len(fs) > 0 {
		r.Count("violating_expressions", 1)
	}
	for _, p := range paths {
		r.Count("path:"+p, 1)
	}
	r.Count("matches_compared", len(strs))
	if r.Distinct("distinct_outcomes", fmt.Sprint(vec)) {
		r.Count("outcome_classes", 1)
	}
	if m.IsRegexOptimized() && nm > 0 && nm < len(strs) {
		r.Distinct("distinct_nontrivial", re)
	}
	if len(m.SetMatches()) > 0 {
		r.Count("with_setmatches", 1)
	}
	return true
}

func TestVerifC17(t *testing.T) {
	r := vx.Start(t, "C17", "exploration")
	defer r.Finish()

	sz := vx.Pick(r,
		c17Sizes{concatFullLen: 2, concatMidLen: 3, altBranchLen: 2, alt3: true, chainLen: 5, wrapConcatLen: 2, wrapAltBranch: 1,
			bigAltCounts: []int{2, 15, 16, 17, 257}, bigAltUniverse: 2},
		c17Sizes{concatFullLen: 3, concatMidLen: 4, altBranchLen: 2, alt3: true, chainLen: 6, wrapConcatLen: 2, wrapAltBranch: -2,
			bigAltCounts: []int{2, 3, 15, 16, 17, 31, 255, 256, 257}, bigAltUniverse: 3})
	bounds := vx.Pick(r,
		c17Bounds{sigma: []string{"a", "b", "A", "B", "s", c17LongS, "k", c17Kelvin, "\n"}, sigmaLen: 3, sigmaSmall: []string{"a", "b", c17LongS, "\n"}, smallLen: 5},
		c17Bounds{sigma: []string{"a", "b", "A", "B", "s", c17LongS, "k", c17Kelvin, "\n", c17Ord}, sigmaLen: 3,
			sigmaMid: []string{"a", "b", "A", c17LongS, c17Kelvin, "\n", c17Ord}, midLen: 4, sigmaSmall: []string{"a", "b", c17LongS, "\n"}, smallLen: 6})
	general := c17Strings(bounds)
	big := c17BigStrings(general, sz)

	if r.Replay != "" {
		var rp c17Replay
		r.LoadReplay(&rp)
		strs := big
		if rp.S != "" {
			strs = []string{rp.S}
		}
		c17RunOne(r, rp.Re, strs)
		return
	}

	// self-test: the oracle rejects (a) an unanchored matcher, (b) '.' not matching newline,
	// (c) a wrong value set.
	{
		ref := stdregexp.MustCompile("^(?s:a.)$")
		unanch := stdregexp.MustCompile("a.")
		fs, _, _ := c17Compare("a.", unanch.MatchString, nil, nil, ref, general)
		noNL := stdregexp.MustCompile("^(?:a.)$")
		fs2, _, _ := c17Compare("a.", noNL.MatchString, nil, nil, ref, general)
		ref3 := stdregexp.MustCompile("^(?s:a|b)$")
		fs3, _, _ := c17Compare("a|b", ref3.MatchString, nil, []string{"a"}, ref3, general)
		fs4, _, _ := c17Compare("a|b", ref3.MatchString, nil, []string{"a", "b", "A"}, ref3, general)
		fs5, _, _ := c17Compare("a|b", ref3.MatchString, func(s string) bool { return s != "a" }, nil, ref3, general)
		has := func(fs []c17Finding, sig string) bool {
			for _, f := range fs {
				if strings.HasPrefix(f.sig, sig+"/") {
					return true
				}
			}
			return false
		}
		if !has(fs, "match-false-positive") || !has(fs2, "match-false-negative") || !has(fs3, "setmatches-missing-value") ||
			!has(fs4, "setmatches-extra-value") || !has(fs5, "not-regexp-matcher-not-negation") {
			t.Fatalf("self-test: oracle accepted a deliberately wrong matcher: %v %v %v %v %v", fs, fs2, fs3, fs4, fs5)
		}
		ok, _, _ := c17Compare("a|b", ref3.MatchString, func(s string) bool { return !ref3.MatchString(s) }, []string{"b", "a"}, ref3, general)
		if len(ok) != 0 {
			t.Fatalf("self-test: oracle rejects the reference itself: %v", ok)
		}
	}

	fams := c17BuildFamilies(sz)
	type job struct {
		re  string
		big bool
		fam int
	}
	var jobs []job
	seen := map[string]struct{}{}
	famSizes := map[string]int{}
	for fi, f := range fams {
		for _, re := range f.regexes {
			if _, ok := seen[re]; ok {
				continue
			}
			seen[re] = struct{}{}
			jobs = append(jobs, job{re, f.big, fi})
			famSizes[f.name]++
		}
	}
	seen = nil
	// big alternations are the slowest: spread them by sorting nothing; ParallelN takes indices in order.
	var n, accepted atomic.Int64
	r.ParallelN(int64(len(jobs)), func(i int64) {
		j := jobs[i]
		strs := general
		if j.big {
			strs = big
		}
		if fams[j.fam].strs != nil {
			strs = fams[j.fam].strs
		}
		if c17RunOne(r, j.re, strs) {
			accepted.Add(1)
		}
		k := n.Add(1)
		r.SampleAt(k, func() any {
			return map[string]any{"family": fams[j.fam].name, "regex": j.re, "strings_checked": len(strs)}
		})
	})
	r.Count("evaluations", int(accepted.Load()))
	r.Count("expressions_generated", len(jobs))
	r.Set("family_sizes", famSizes)
	r.Set("strings_general", len(general))
	r.Set("strings_big_alternation", len(big))
	r.Set("string_alphabet", fmt.Sprintf("%q len<=%d, %q len<=%d, %q len<=%d", bounds.sigma, bounds.sigmaLen, bounds.sigmaMid, bounds.midLen, bounds.sigmaSmall, bounds.smallLen))
	r.Set("bounds", fmt.Sprintf("%+v", sz))
	r.Set("rule", fmt.Sprintf("every distinct expression of the families %v (items %q; alternation items %q; chain items %q; wrappers %q; literal alternations of %v literals in 40+ shapes) "+
		"is compiled with labels.NewMatcher(=~ and !~) and compared on EVERY string of the universe (%d strings; %d for the big alternations) with stdlib regexp ^(?s:re)$; SetMatches (when non-empty) is compared with membership. "+
		"evaluations = expressions accepted by the matcher; distinct_nontrivial = distinct expressions for which IsOptimized() is true and that both match and reject some string of the universe; "+
		"distinct_outcomes = distinct match vectors over the universe; path:* = how often each optimisation was selected",
		func() []string {
			var s []string
			for _, f := range fams {
				s = append(s, f.name)
			}
			return s
		}(), c17Items(), c17ItemsAlt, c17ItemsChain, c17Wrappers, sz.bigAltCounts, len(general), len(big)))
	r.Assume("the standard library regexp package implements RE2 semantics correctly (it is the reference)")
	r.Assume("strings are limited to the stated alphabet and lengths; expressions to the stated families")

	if r.Replay == "" && !r.Expired() {
		// vacuity guards: every anchored mechanism must have been exercised
		need := []string{"path:literal-alternation-fastpath", "path:setMatches", "path:prefix", "path:prefix-case-insensitive", "path:suffix",
			"path:contains-1", "path:contains-multi", "path:sm:equalMultiStringMapMatcher-cs", "path:sm:equalMultiStringMapMatcher-ci",
			"path:sm:equalMultiStringMapMatcher-cs-prefixes", "path:sm:equalMultiStringMapMatcher-ci-prefixes", "path:sm:containsStringMatcher",
			"path:sm:literalPrefixSensitiveStringMatcher", "path:sm:literalPrefixInsensitiveStringMatcher", "path:sm:literalSuffixStringMatcher",
			"path:regexp-engine-only"}
		var missing []string
		for _, k := range need {
			if r.Get(k) == 0 {
				missing = append(missing, k)
			}
		}
		sort.Strings(missing)
		if len(missing) > 0 {
			t.Fatalf("vacuous run: optimisation paths never selected: %v", missing)
		}
		if r.Get("outcome_classes") < 10 {
			t.Fatalf("vacuous run: only %d distinct match vectors", r.Get("outcome_classes"))
		}
		if r.Get("acceptance_differs_from_stdlib") > 0 {
			t.Logf("note: %d expressions accepted by only one of matcher/stdlib", r.Get("acceptance_differs_from_stdlib"))
		}
	}
}
