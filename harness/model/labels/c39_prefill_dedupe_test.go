//go:build dedupelabels

package labels

import "strconv"

// c39Prefill puts n dummy symbols into the table so that the next few symbols cross the
// 1024-entry growth boundary of the name table.
func c39Prefill(st *SymbolTable, n int) {
	for i := 0; i < n; i++ {
		st.ToNum("\x01fill" + strconv.Itoa(i))
	}
}
