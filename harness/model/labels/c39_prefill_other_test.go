//go:build !dedupelabels

package labels

// c39Prefill: only the dedupelabels implementation has a real symbol table.
func c39Prefill(*SymbolTable, int) {}
