package relabel

// C38: relabeling keeps/drops a label set and rewrites labels exactly as a direct interpretation
// of the documented actions with fully anchored regular expressions; the result is a sorted label
// set without empty values or duplicate names.
//
// Engine E1 (input enumeration): ALL label sets over a small name/value alphabet x ALL valid
// rules of a generated rule alphabet (every action) and ALL chains of 2 (3) rules.
// Oracle: c38Apply, an interpreter over map[string]string written from
// docs/configuration/configuration.md (<relabel_config>) on the standard library regexp package.
// Where the documentation leaves the outcome open (two labels mapped to the same name by
// labelmap) the reference returns every admissible outcome.

import (
	"crypto/md5"
	"fmt"
	stdregexp "regexp"
	"sort"
	"strconv"
	"strings"
	"sync/atomic"
	"testing"
	"unicode/utf8"

	"github.com/prometheus/common/model"

	"github.com/prometheus/prometheus/internal/verif/vx"
	"github.com/prometheus/prometheus/model/labels"
)

// ---- rule description (JSON-serialisable, used for replay) ---------------------------------

type c38Rule struct {
	Action       string   `json:"action"`
	Src          []string `json:"source_labels,omitempty"`
	Sep          string   `json:"separator"`
	Regex        string   `json:"regex"`
	DefaultRegex bool     `json:"default_regex_object,omitempty"` // the very DefaultRelabelConfig.Regex object (as after YAML loading without regex)
	Repl         string   `json:"replacement"`
	Target       string   `json:"target_label,omitempty"`
	Mod          uint64   `json:"modulus,omitempty"`
	Legacy       bool     `json:"legacy_name_validation,omitempty"`

	cfg *Config
	re  *stdregexp.Regexp
}

func (r *c38Rule) String() string {
	s := r.Action
	if len(r.Src) > 0 {
		s += fmt.Sprintf(" src=%v sep=%q", r.Src, r.Sep)
	}
	if r.DefaultRegex {
		s += " regex=<default (.*)>"
	} else {
		s += fmt.Sprintf(" regex=%q", r.Regex)
	}
	s += fmt.Sprintf(" repl=%q target=%q", r.Repl, r.Target)
	if r.Mod != 0 {
		s += fmt.Sprintf(" mod=%d", r.Mod)
	}
	if r.Legacy {
		s += " legacy-names"
	}
	return s
}

// prepare builds the real Config (validated like a loaded configuration) and the reference regexp.
func (r *c38Rule) prepare() error {
	cfg := &Config{Action: Action(r.Action), Separator: r.Sep, Replacement: r.Repl, TargetLabel: r.Target, Modulus: r.Mod}
	for _, s := range r.Src {
		cfg.SourceLabels = append(cfg.SourceLabels, model.LabelName(s))
	}
	if r.DefaultRegex {
		cfg.Regex = DefaultRelabelConfig.Regex
		r.Regex = "(.*)"
	} else {
		re, err := NewRegexp(r.Regex)
		if err != nil {
			return err
		}
		cfg.Regex = re
	}
	scheme := model.UTF8Validation
	if r.Legacy {
		scheme = model.LegacyValidation
	}
	if err := cfg.Validate(scheme); err != nil {
		return err
	}
	ref, err := stdregexp.Compile("^(?:" + r.Regex + ")$")
	if err != nil {
		return err
	}
	r.cfg, r.re = cfg, ref
	return nil
}

// ---- the reference interpreter ---------------------------------------------------------------

var c38LegacyName = stdregexp.MustCompile(`^[a-zA-Z_][a-zA-Z0-9_]*$`)

func c38ValidName(s string, legacy bool) bool {
	if legacy {
		return c38LegacyName.MatchString(s)
	}
	return s != "" && utf8.ValidString(s)
}

func c38Copy(m map[string]string) map[string]string {
	o := make(map[string]string, len(m)+1)
	for k, v := range m {
		o[k] = v
	}
	return o
}

func c38Set(m map[string]string, n, v string) {
	if v == "" { // a label with an empty value is the same as no label
		delete(m, n)
	} else {
		m[n] = v
	}
}

// c38Apply interprets one rule on one label set. It returns keep=false when the target is
// dropped, else the list of admissible resulting label sets (more than one only where the
// documentation does not define the outcome).
func c38Apply(in map[string]string, r *c38Rule) (keep bool, outs []map[string]string) {
	// "Any labels which do not exist get a blank value. Their content is concatenated using the
	// configured separator"
	vals := make([]string, len(r.Src))
	for i, s := range r.Src {
		vals[i] = in[s]
	}
	val := strings.Join(vals, r.Sep)
	m := c38Copy(in)
	switch r.Action {
	case "keep": // Drop targets for which regex does not match the concatenated source_labels.
		return r.re.MatchString(val), []map[string]string{m}
	case "drop":
		return !r.re.MatchString(val), []map[string]string{m}
	case "keepequal": // Drop targets for which the concatenated source_labels do not match target_label.
		return in[r.Target] == val, []map[string]string{m}
	case "dropequal":
		return in[r.Target] != val, []map[string]string{m}
	case "replace":
		// Match regex against the concatenated source_labels. Then, set target_label to
		// replacement, with match group references substituted by their value. If regex does
		// not match, no replacement takes place.
		idx := r.re.FindStringSubmatchIndex(val)
		if idx == nil {
			break
		}
		target := string(r.re.ExpandString(nil, r.Target, val, idx))
		if !c38ValidName(target, r.Legacy) {
			break // not a label name: nothing can be set
		}
		c38Set(m, target, string(r.re.ExpandString(nil, r.Repl, val, idx)))
	case "lowercase":
		c38Set(m, r.Target, strings.ToLower(val))
	case "uppercase":
		c38Set(m, r.Target, strings.ToUpper(val))
	case "hashmod":
		// Set target_label to the modulus of a hash of the concatenated source_labels
		// (hash = the last 8 bytes of the MD5 sum, big endian).
		sum := md5.Sum([]byte(val))
		var h uint64
		for _, b := range sum[8:] {
			h = h<<8 | uint64(b)
		}
		c38Set(m, r.Target, strconv.FormatUint(h%r.Mod, 10))
	case "labelmap":
		// Match regex against all label names. Then copy the values of the matching labels to
		// label names given by replacement with match group references substituted.
		cand := map[string][]string{} // new name -> values copied to it
		var names []string
		for n := range in {
			names = append(names, n)
		}
		sort.Strings(names)
		for _, n := range names {
			idx := r.re.FindStringSubmatchIndex(n)
			if idx == nil {
				continue
			}
			nn := string(r.re.ExpandString(nil, r.Repl, n, idx))
			dup := false
			for _, v := range cand[nn] {
				dup = dup || v == in[n]
			}
			if !dup {
				cand[nn] = append(cand[nn], in[n])
			}
		}
		outs = []map[string]string{m}
		var targets []string
		for nn := range cand {
			targets = append(targets, nn)
		}
		sort.Strings(targets)
		for _, nn := range targets {
			var next []map[string]string
			for _, o := range outs {
				for _, v := range cand[nn] { // which of several sources wins is not documented
					o2 := c38Copy(o)
					c38Set(o2, nn, v)
					next = append(next, o2)
				}
			}
			outs = next
		}
		return true, outs
	case "labeldrop": // Any label that matches will be removed from the set of labels.
		for n := range in {
			if r.re.MatchString(n) {
				delete(m, n)
			}
		}
	case "labelkeep": // Any label that does not match will be removed from the set of labels.
		for n := range in {
			if !r.re.MatchString(n) {
				delete(m, n)
			}
		}
	default:
		panic("c38: unknown action " + r.Action)
	}
	return true, []map[string]string{m}
}

func c38Key(m map[string]string) string {
	ks := make([]string, 0, len(m))
	for k := range m {
		ks = append(ks, k)
	}
	sort.Strings(ks)
	b := make([]byte, 0, 64)
	for _, k := range ks {
		b = strconv.AppendQuote(b, k)
		b = append(b, '=')
		b = strconv.AppendQuote(b, m[k])
		b = append(b, ',')
	}
	return string(b)
}

// c38ApplyChain: rules are applied in order; a drop ends processing.
func c38ApplyChain(in map[string]string, rules []*c38Rule) (keep bool, outs map[string]map[string]string) {
	cur := map[string]map[string]string{c38Key(in): in}
	for _, r := range rules {
		next := map[string]map[string]string{}
		anyKeep, anyDrop := false, false
		for _, m := range cur {
			k, os := c38Apply(m, r)
			if !k {
				anyDrop = true
				continue
			}
			anyKeep = true
			for _, o := range os {
				next[c38Key(o)] = o
			}
		}
		if anyDrop && anyKeep {
			return false, nil // keep/drop itself ambiguous: signalled by nil outs with keep=false... see caller
		}
		if anyDrop {
			return false, map[string]map[string]string{}
		}
		cur = next
	}
	return true, cur
}

// ---- alphabets ---------------------------------------------------------------------------------

var (
	c38Names  = []string{"__name__", "a", "b"}                  // in label order
	c38Values = []string{"\x00absent", "", "x", "y", "xY", "1"} // per name: absent, empty, ...
)

type c38LabelSet [][2]string // as passed to the builder (may contain empty values)

func c38LabelSets(values []string) []c38LabelSet { return c38LabelSetsOver(c38Names, values) }

// c38LabelSetsOver: every assignment of values (values[0] = absent) to names (given in label order).
func c38LabelSetsOver(c38Names []string, values []string) []c38LabelSet {
	dims := make([]int, len(c38Names))
	for i := range dims {
		dims[i] = len(values)
	}
	var out []c38LabelSet
	n := vx.ProductSize(dims)
	for i := int64(0); i < n; i++ {
		t := vx.ProductAt(dims, i, nil)
		var ls c38LabelSet
		for k, vi := range t {
			if vi == 0 {
				continue
			}
			ls = append(ls, [2]string{c38Names[k], values[vi]})
		}
		out = append(out, ls)
	}
	sort.SliceStable(out, func(i, j int) bool { return len(out[i]) < len(out[j]) })
	return out
}

type c38SrcSep struct {
	src []string
	sep string
}

var c38Sources = []c38SrcSep{{[]string{"a"}, ";"}, {nil, ";"}, {[]string{"a", "b"}, ";"}, {[]string{"a", "b"}, ""}, {[]string{"c"}, ";"}}

// c38Rules generates the rule alphabet, simplest first. level 2 = full alphabet, 1 = reduced
// alphabet (second rule of chains), 0 = mini alphabet (chains of three).
func c38Rules(level int) (rules []*c38Rule, invalid int) {
	full, mini := level >= 2, level == 0
	add := func(r c38Rule) {
		rr := r
		if err := rr.prepare(); err != nil {
			invalid++
			return
		}
		rules = append(rules, &rr)
	}
	pick := func(all []string, n int) []string {
		if mini && n > 2 {
			n = 2
		}
		if full || n >= len(all) {
			return all
		}
		return all[:n]
	}
	srcs := c38Sources
	if !full {
		srcs = []c38SrcSep{c38Sources[0], c38Sources[2], c38Sources[4]}
	}
	if mini {
		srcs = []c38SrcSep{c38Sources[0], c38Sources[4]}
	}
	type rx struct {
		s   string
		def bool
	}
	regexes := []rx{{"", true}, {"(.*)", false}, {"x", false}, {"(x)(Y)?", false}, {".+", false}, {"^$", false}, {"x;(.*)", false}}
	if !full {
		regexes = []rx{{"", true}, {"(x)(Y)?", false}, {"^$", false}}
	}
	if mini {
		regexes = regexes[:2]
	}
	repls := pick([]string{"$1", "lit", "", "${1}-$2", "$1x"}, 3)
	type tg struct {
		s      string
		legacy bool
	}
	targets := []tg{{"c", false}, {"a", false}, {"${1}", false}, {"${1}", true}, {"l$1", false}, {"l$1", true}}
	if !full {
		targets = []tg{{"c", false}, {"a", false}, {"${1}", true}}
	}
	if mini {
		targets = []tg{{"c", false}, {"${1}", true}}
	}
	// replace
	for _, ss := range srcs {
		for _, re := range regexes {
			for _, rp := range repls {
				for _, t := range targets {
					add(c38Rule{Action: "replace", Src: ss.src, Sep: ss.sep, Regex: re.s, DefaultRegex: re.def, Repl: rp, Target: t.s, Legacy: t.legacy})
				}
			}
		}
	}
	// keep / drop
	for _, act := range []string{"keep", "drop"} {
		for _, ss := range srcs {
			for _, re := range regexes {
				add(c38Rule{Action: act, Src: ss.src, Sep: ss.sep, Regex: re.s, DefaultRegex: re.def, Repl: "$1"})
			}
		}
	}
	// keepequal / dropequal (only source_labels and target_label may be set)
	for _, act := range []string{"keepequal", "dropequal"} {
		for _, ss := range srcs {
			if ss.sep != ";" {
				continue
			}
			for _, t := range pick([]string{"a", "c", "b"}, 2) {
				add(c38Rule{Action: act, Src: ss.src, Sep: ";", DefaultRegex: true, Repl: "$1", Target: t})
			}
		}
	}
	// hashmod
	for _, ss := range srcs {
		for _, mod := range []uint64{1, 2, 3} {
			if !full && mod == 3 {
				continue
			}
			for _, t := range pick([]string{"c", "a"}, 1) {
				add(c38Rule{Action: "hashmod", Src: ss.src, Sep: ss.sep, DefaultRegex: true, Repl: "$1", Target: t, Mod: mod})
			}
		}
	}
	// lowercase / uppercase
	for _, act := range []string{"lowercase", "uppercase"} {
		for _, ss := range srcs {
			for _, t := range pick([]string{"c", "a"}, 1) {
				add(c38Rule{Action: act, Src: ss.src, Sep: ss.sep, DefaultRegex: true, Repl: "$1", Target: t})
			}
		}
	}
	// labelmap
	for _, re := range pick([]string{"(.*)", "(a)", "a|b", "__(.+)__", "(.)(.*)", "b|(c)", "(a)|(b)", "(a|c)"}, 4) {
		for _, rp := range pick([]string{"$1", "c", "${1}_c", "b", "$2", "x$1"}, 3) {
			add(c38Rule{Action: "labelmap", Sep: ";", Regex: re, Repl: rp})
		}
	}
	// labeldrop / labelkeep (only regex may be set)
	for _, act := range []string{"labeldrop", "labelkeep"} {
		for _, re := range pick([]string{"a", "a|c", "(.*)", "__.+__", "", ".+b", "c"}, 3) {
			add(c38Rule{Action: act, Sep: ";", Regex: re, Repl: "$1"})
		}
	}
	return rules, invalid
}

// c38LabelmapOnto: labelmap rules that map a matching label name onto ANOTHER label name of the
// set (a later one: a->ax->axx chains; constant targets; identity), to be run on label sets over
// the names a, ax, b, z where 2-3 names match.
func c38LabelmapOnto() (rules []*c38Rule) {
	for _, re := range []string{"(a.*)", "(a.*)|b", "a|b", "(a|ax)", "(.*)", "(a)", "(a|b|z)"} {
		for _, rp := range []string{"${1}x", "b", "ax", "$1", "z", "a", "axx", "${1}"} {
			rr := c38Rule{Action: "labelmap", Sep: ";", Regex: re, Repl: rp}
			if err := rr.prepare(); err == nil {
				rules = append(rules, &rr)
			}
		}
	}
	return rules
}

var c38OntoNames = []string{"a", "ax", "b", "z"} // in label order

// ---- running one case ------------------------------------------------------------------------------

type c38Replay struct {
	Labels c38LabelSet `json:"labels"`
	Rules  []*c38Rule  `json:"rules"`
}

type c38Finding struct{ sig, msg string }

// c38Observe runs the real code and returns keep and the resulting label list in Range order.
func c38Observe(lb *labels.Builder, ls c38LabelSet, rules []*c38Rule) (keep bool, got []labels.Label, pan any, stack string) {
	flat := make([]string, 0, 2*len(ls))
	for _, l := range ls {
		flat = append(flat, l[0], l[1])
	}
	cfgs := make([]*Config, len(rules))
	for i, r := range rules {
		cfgs[i] = r.cfg
	}
	pan, stack = vx.Guard(func() {
		lb.Reset(labels.FromStrings(flat...))
		keep = ProcessBuilder(lb, cfgs...)
		if keep {
			res := lb.Labels()
			res.Range(func(l labels.Label) {
				got = append(got, labels.Label{Name: strings.Clone(l.Name), Value: strings.Clone(l.Value)})
			})
			if res.Len() != len(got) {
				panic(fmt.Sprintf("Labels.Len()=%d but Range yields %d labels", res.Len(), len(got)))
			}
		}
	})
	return keep, got, pan, stack
}

func c38Judge(ls c38LabelSet, rules []*c38Rule, keep bool, got []labels.Label) *c38Finding {
	in := map[string]string{}
	for _, l := range ls {
		if l[1] != "" {
			in[l[0]] = l[1]
		}
	}
	wantKeep, outs := c38ApplyChain(in, rules)
	if !wantKeep && outs == nil {
		return nil // keep/drop not defined by the documentation for this case (after an ambiguous labelmap)
	}
	if keep == wantKeep && !keep {
		return nil
	}
	var acts []string
	for _, r := range rules {
		acts = append(acts, r.Action)
	}
	cls := strings.Join(acts, "+")
	desc := func() string {
		var rs []string
		for _, r := range rules {
			rs = append(rs, "{"+r.String()+"}")
		}
		return fmt.Sprintf("labels %q rules %s", [][2]string(ls), strings.Join(rs, " ; "))
	}
	if keep != wantKeep {
		return &c38Finding{"keep-drop-mismatch/" + cls, fmt.Sprintf("%s: ProcessBuilder keep=%v, documented semantics keep=%v", desc(), keep, wantKeep)}
	}
	if !keep {
		return nil
	}
	gm := map[string]string{}
	for i, l := range got {
		if l.Value == "" {
			return &c38Finding{"result-has-empty-value/" + cls, fmt.Sprintf("%s: result %v contains an empty value", desc(), got)}
		}
		if i > 0 && got[i-1].Name == l.Name {
			return &c38Finding{"result-has-duplicate-name/" + cls, fmt.Sprintf("%s: result %v contains a duplicate name", desc(), got)}
		}
		if i > 0 && got[i-1].Name > l.Name {
			return &c38Finding{"result-not-sorted/" + cls, fmt.Sprintf("%s: result %v is not sorted by name", desc(), got)}
		}
		gm[l.Name] = l.Value
	}
	if _, ok := outs[c38Key(gm)]; !ok {
		var want []string
		for k := range outs {
			want = append(want, "{"+k+"}")
		}
		sort.Strings(want)
		return &c38Finding{"result-mismatch/" + cls, fmt.Sprintf("%s: got {%s} want %s", desc(), c38Key(gm), strings.Join(want, " or "))}
	}
	return nil
}

type c38Worker struct {
	lb         *labels.Builder
	buf        []byte
	outcomes   map[string]struct{} // outcomes this worker already reported
	nontrivial int                 // cases of the current chain whose outcome differs from the input
}

func c38NewWorker() *c38Worker {
	return &c38Worker{lb: labels.NewBuilder(labels.EmptyLabels()), outcomes: map[string]struct{}{}}
}

func c38RunCase(r *vx.Run, w *c38Worker, ls c38LabelSet, rules []*c38Rule) {
	keep, got, pan, stack := c38Observe(w.lb, ls, rules)
	rp := c38Replay{Labels: ls, Rules: rules}
	if pan != nil {
		w.lb = labels.NewBuilder(labels.EmptyLabels())
		r.Violation("relabel-panic", fmt.Sprintf("panic %v for labels %q rules %v\n%s", pan, [][2]string(ls), rules, stack), rp)
		return
	}
	f := c38Judge(ls, rules, keep, got)
	if f != nil {
		// same case on a fresh builder: tells a relabeling fault from stale builder state
		k2, g2, p2, _ := c38Observe(labels.NewBuilder(labels.EmptyLabels()), ls, rules)
		if p2 == nil && c38Judge(ls, rules, k2, g2) == nil {
			f.sig = "only-with-reused-builder/" + f.sig
		}
		r.Violation(f.sig, f.msg, rp)
	}
	// accounting (aggregated per worker, flushed per rule chain)
	out := "DROP"
	if keep {
		w.buf = w.buf[:0]
		for _, l := range got {
			w.buf = strconv.AppendQuote(w.buf, l.Name)
			w.buf = append(w.buf, '=')
			w.buf = strconv.AppendQuote(w.buf, l.Value)
			w.buf = append(w.buf, ',')
		}
		out = string(w.buf)
	}
	if _, ok := w.outcomes[out]; !ok {
		w.outcomes[out] = struct{}{}
		if r.Distinct("distinct_outcomes", out) {
			r.Count("outcome_classes", 1)
		}
	}
	changed := !keep
	if !changed { // ls is in name order; empty input values do not count as labels
		i := 0
		for _, l := range ls {
			if l[1] == "" {
				continue
			}
			if i >= len(got) || got[i].Name != l[0] || got[i].Value != l[1] {
				changed = true
				break
			}
			i++
		}
		changed = changed || i != len(got)
	}
	if changed {
		w.nontrivial++
	}
}

func TestVerifC38(t *testing.T) {
	r := vx.Start(t, "C38", "exploration")
	defer r.Finish()

	if r.Replay != "" {
		var rp c38Replay
		r.LoadReplay(&rp)
		for _, ru := range rp.Rules {
			if err := ru.prepare(); err != nil {
				t.Fatalf("replay: %v", err)
			}
		}
		c38RunCase(r, c38NewWorker(), rp.Labels, rp.Rules)
		return
	}

	full, invalidFull := c38Rules(2)
	reduced, _ := c38Rules(1)
	mini, _ := c38Rules(0)
	sets := c38LabelSets(c38Values)
	setsSmall := c38LabelSets([]string{"\x00absent", "", "x", "xY"})
	setsTiny := c38LabelSets([]string{"\x00absent", "x", "xY"})

	// self-test (a): the reference reproduces the documented examples; (b) the judge rejects
	// wrong results.
	{
		mk := func(r c38Rule) *c38Rule {
			if err := r.prepare(); err != nil {
				t.Fatalf("self-test rule invalid: %v", err)
			}
			return &r
		}
		in := map[string]string{"a": "x", "b": "xY"}
		rep := mk(c38Rule{Action: "replace", Src: []string{"a", "b"}, Sep: ";", Regex: "(x);(x)(Y)", Repl: "${1}-$3", Target: "c"})
		k, o := c38ApplyChain(in, []*c38Rule{rep})
		if !k || len(o) != 1 || o[c38Key(map[string]string{"a": "x", "b": "xY", "c": "x-Y"})] == nil {
			t.Fatalf("self-test: reference replace wrong: %v %v", k, o)
		}
		lm := mk(c38Rule{Action: "labelmap", Sep: ";", Regex: "(a|b)", Repl: "c"})
		k, o = c38ApplyChain(in, []*c38Rule{lm})
		if !k || len(o) != 2 {
			t.Fatalf("self-test: labelmap collision must give two admissible outcomes: %v", o)
		}
		dr := mk(c38Rule{Action: "drop", Src: []string{"a"}, Sep: ";", Regex: "x", Repl: "$1"})
		if k, _ = c38ApplyChain(in, []*c38Rule{dr, rep}); k {
			t.Fatalf("self-test: reference does not drop")
		}
		ls := c38LabelSet{{"a", "x"}, {"b", "xY"}}
		if f := c38Judge(ls, []*c38Rule{rep}, true, []labels.Label{{Name: "a", Value: "x"}, {Name: "b", Value: "xY"}, {Name: "c", Value: "x-Y"}}); f != nil {
			t.Fatalf("self-test: judge rejects the correct result: %v", f)
		}
		bad := [][]labels.Label{
			{{Name: "a", Value: "x"}, {Name: "b", Value: "xY"}},                                                    // replacement missing
			{{Name: "a", Value: "x"}, {Name: "b", Value: "xY"}, {Name: "c", Value: "x-"}},                          // wrong value
			{{Name: "b", Value: "xY"}, {Name: "a", Value: "x"}, {Name: "c", Value: "x-Y"}},                         // unsorted
			{{Name: "a", Value: "x"}, {Name: "b", Value: "xY"}, {Name: "c", Value: "x-Y"}, {Name: "d", Value: ""}}, // empty value
		}
		for i, b := range bad {
			if c38Judge(ls, []*c38Rule{rep}, true, b) == nil {
				t.Fatalf("self-test: judge accepts wrong result #%d", i)
			}
		}
		if c38Judge(ls, []*c38Rule{rep}, false, nil) == nil {
			t.Fatalf("self-test: judge accepts a wrong drop")
		}
	}

	type space struct {
		name          string
		first, second []*c38Rule // second nil: single rules
		third         []*c38Rule
		sets          []c38LabelSet
	}
	var spaces []space
	spaces = append(spaces, space{name: "single", first: full, sets: sets})
	onto := c38LabelmapOnto()
	setsOnto := c38LabelSetsOver(c38OntoNames, []string{"\x00absent", "x", "y"})
	spaces = append(spaces,
		space{name: "labelmap onto other label names", first: onto, sets: setsOnto},
		space{name: "labelmap onto other label names, twice", first: onto, second: onto, sets: setsOnto},
		space{name: "reduced rule, then labelmap onto other label names", first: reduced, second: onto, sets: setsOnto},
		space{name: "labelmap onto other label names, then reduced rule", first: onto, second: reduced, sets: setsOnto})
	if r.Thorough() {
		spaces = append(spaces,
			space{name: "chain2 full x reduced", first: full, second: reduced, sets: sets},
			space{name: "chain2 reduced x full (small label sets)", first: reduced, second: full, sets: setsSmall},
			space{name: "chain3 mini", first: mini, second: mini, third: mini, sets: sets},
			space{name: "chain3 reduced x mini x mini (tiny label sets)", first: reduced, second: mini, third: mini, sets: setsTiny})
	} else {
		spaces = append(spaces,
			space{name: "chain2 reduced x reduced (small label sets)", first: reduced, second: reduced, sets: setsSmall},
			space{name: "chain3 mini (tiny label sets)", first: mini, second: mini, third: mini, sets: setsTiny},
			space{name: "chain2 full x reduced (tiny label sets)", first: full, second: reduced, sets: setsTiny})
	}
	var n atomic.Int64
	workers := make(chan *c38Worker, 256)
	for i := 0; i < 256; i++ {
		workers <- c38NewWorker()
	}
	sizes := map[string]int{}
	for _, sp := range spaces {
		dims := []int{len(sp.first)}
		if sp.second != nil {
			dims = append(dims, len(sp.second))
		}
		if sp.third != nil {
			dims = append(dims, len(sp.third))
		}
		total := vx.ProductSize(dims)
		sizes[sp.name] = int(total) * len(sp.sets)
		r.ParallelN(total, func(i int64) {
			t := vx.ProductAt(dims, i, nil)
			rules := []*c38Rule{sp.first[t[0]]}
			if sp.second != nil {
				rules = append(rules, sp.second[t[1]])
			}
			if sp.third != nil {
				rules = append(rules, sp.third[t[2]])
			}
			w := <-workers
			w.nontrivial = 0
			for _, ls := range sp.sets {
				c38RunCase(r, w, ls, rules)
			}
			if w.nontrivial > 0 {
				r.Count("nontrivial_cases", w.nontrivial)
				var b strings.Builder
				for _, ru := range rules {
					b.WriteString(ru.String())
					b.WriteByte('|')
				}
				r.Distinct("distinct_nontrivial", b.String())
			}
			workers <- w
			k := n.Add(int64(len(sp.sets)))
			r.SampleAt(k/int64(len(sp.sets)), func() any {
				var rs []string
				for _, ru := range rules {
					rs = append(rs, ru.String())
				}
				return map[string]any{"space": sp.name, "rules": rs, "label_sets_tried": len(sp.sets)}
			})
		})
	}
	r.Count("evaluations", int(n.Load()))
	r.Set("space_sizes", sizes)
	r.Set("rules_full", len(full))
	r.Set("rules_reduced", len(reduced))
	r.Set("rules_mini", len(mini))
	r.Set("rules_labelmap_onto", len(onto))
	r.Set("rules_rejected_by_validate", invalidFull)
	r.Set("label_sets", len(sets))
	perAction := map[string]int{}
	for _, ru := range full {
		perAction[ru.Action]++
	}
	r.Set("rules_per_action", perAction)
	r.Set("rule", fmt.Sprintf("label sets: every assignment of {absent,\"\",x,y,xY,1} to the names %q (%d sets, empty values included on input); rules: every VALID combination (Config.Validate) of action x source_labels/separator %v x regex {default object,(.*),x,(x)(Y)?,.+,^$,x;(.*)} x replacement {$1,lit,\"\",${1}-$2,$1x} x target {c,a,${1},l$1} x name validation {utf8,legacy} x modulus {1,2,3}, labelmap/labeldrop/labelkeep regexes over the names (%d rules; reduced alphabet %d rules); every single rule and the listed chain spaces, each on every label set; plus %d labelmap rules mapping a matching name onto another name of the set (regexes (a.*), (a.*)|b, a|b, (a|ax), (.*), (a), (a|b|z) x replacements ${1}x, b, ax, $1, z, a, axx) alone, twice, and before/after every reduced rule, on all 81 label sets over the names a,ax,b,z x values absent,x,y. "+
		"distinct_nontrivial = distinct rule chains that changed or dropped at least one label set (nontrivial_cases = number of (chain,label set) cases whose outcome differs from the input); distinct_outcomes = distinct resulting label sets (or DROP)", c38Names, len(sets), c38Sources, len(full), len(reduced), len(onto)))
	r.Assume("reference: docs/configuration/configuration.md <relabel_config> interpreted on map[string]string with stdlib regexp anchored as ^(?:re)$; hashmod = last 8 bytes (big endian) of MD5 mod modulus; a replace whose expanded target is not a valid label name does nothing; labelmap copies the values the labels had before the action, and when several labels are mapped to one name any of their values is admissible")
	r.Assume("values contain no newline, so '.' vs newline is not exercised")
	if !r.Expired() {
		if r.Get("outcome_classes") < 10 {
			t.Fatalf("vacuous: only %d distinct outcomes", r.Get("outcome_classes"))
		}
		for _, a := range []string{"replace", "keep", "drop", "keepequal", "dropequal", "hashmod", "labelmap", "labeldrop", "labelkeep", "lowercase", "uppercase"} {
			if perAction[a] == 0 {
				t.Fatalf("vacuous: no valid rule generated for action %s", a)
			}
		}
	}
}
