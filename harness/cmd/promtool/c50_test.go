package main

// C50: backfilled blocks contain exactly the input samples — bounded-exhaustive enumeration
// (engine E1, sequence mode) of OpenMetrics inputs through promtool's backfill(): <=3 series x
// subsets of the timestamps {-2R-1, -1, 0, R-1, R, R+1, 3R} ms (R = 2h, the default block
// duration), line orders, NaN/Inf values, a missing timestamp, --max-block-duration R/2R/3R.
// The produced blocks are opened with tsdb and read back block by block.

import (
	"context"
	"fmt"
	"math"
	"os"
	"path/filepath"
	"sort"
	"strings"
	"sync/atomic"
	"testing"
	"time"

	"github.com/prometheus/prometheus/internal/verif/vx"
	"github.com/prometheus/prometheus/model/labels"
	"github.com/prometheus/prometheus/model/value"
	"github.com/prometheus/prometheus/tsdb"
	"github.com/prometheus/prometheus/tsdb/chunkenc"
)

const c50R = int64(2 * 60 * 60 * 1000) // 2h in ms

var c50TS = []int64{-2*c50R - 1, -1, 0, c50R - 1, c50R, c50R + 1, 3 * c50R}

// series label sets (one metric family, as OpenMetrics requires a family to be contiguous)
var c50SeriesText = []string{`m{s="a"}`, `m{s="b"}`, `m{s="a",z="1"}`}
var c50SeriesLabels = []labels.Labels{
	labels.FromStrings("__name__", "m", "s", "a"),
	labels.FromStrings("__name__", "m", "s", "b"),
	labels.FromStrings("__name__", "m", "s", "a", "z", "1"),
}

var c50ValText = []string{"1", "NaN", "+Inf", "-Inf", "2.5"}
var c50Val = []float64{1, math.NaN(), math.Inf(1), math.Inf(-1), 2.5}

type c50Case struct {
	Series     [][]int `json:"series"`      // per series: indices into c50TS, ascending
	Order      []int   `json:"order"`       // permutation of the canonical (series-major) line list; nil = canonical
	MaxDur     int64   `json:"max_dur_ms"`  // --max-block-duration
	MaxSamples int     `json:"max_samples"` // samples per appender
	MissingTS  int     `json:"missing_ts"`  // canonical line index printed without timestamp, -1 = none
}

type c50Line struct {
	series, tsIdx int
}

func (c c50Case) lines() []c50Line {
	var ls []c50Line
	for si, tss := range c.Series {
		for _, ti := range tss {
			ls = append(ls, c50Line{si, ti})
		}
	}
	return ls
}

func c50FmtTS(ms int64) string {
	neg := ms < 0
	if neg {
		ms = -ms
	}
	s := fmt.Sprintf("%d.%03d", ms/1000, ms%1000)
	if neg {
		s = "-" + s
	}
	return s
}

func c50ValIdx(l c50Line) int { return (l.series*3 + l.tsIdx) % len(c50Val) }

func (c c50Case) input() string {
	ls := c.lines()
	var b strings.Builder
	b.WriteString("# TYPE m gauge\n")
	emit := func(i int) {
		l := ls[i]
		fmt.Fprintf(&b, "%s %s", c50SeriesText[l.series], c50ValText[c50ValIdx(l)])
		if i != c.MissingTS {
			fmt.Fprintf(&b, " %s", c50FmtTS(c50TS[l.tsIdx]))
		}
		b.WriteString("\n")
	}
	if c.Order == nil {
		for i := range ls {
			emit(i)
		}
	} else {
		for _, i := range c.Order {
			emit(i)
		}
	}
	b.WriteString("# EOF\n")
	return b.String()
}

// c50EffectiveDuration: "By default ... the default block duration (2h)"; with
// --max-block-duration "the backfilling tool will pick a suitable block duration no larger than
// this": the largest step of the TSDB's standard block ladder (2h x 3^k) that fits.
func c50EffectiveDuration(maxDur int64) int64 {
	d := c50R
	for d*3 <= maxDur {
		d *= 3
	}
	return d
}

func c50Floor(t, d int64) int64 {
	q := t / d
	if t%d != 0 && t < 0 {
		q--
	}
	return q
}

// c50Trunc is the start of the first window when the minimum timestamp is aligned by truncation
// toward zero instead of flooring (precondition of the known finding).
func c50TruncStart(mint, d int64) int64 { return d * (mint / d) }

type c50Sample struct {
	series string
	t      int64
}

func c50SameValue(a, b float64) bool {
	if math.IsNaN(a) || math.IsNaN(b) {
		return math.IsNaN(a) && math.IsNaN(b) && value.IsStaleNaN(a) == value.IsStaleNaN(b)
	}
	return a == b
}

// c50Run executes one case; dir is a scratch directory owned by the caller.
func c50Run(r *vx.Run, c c50Case, dir string) (outcome string) {
	return c50RunExpect(c, c, dir, func(sig, msg string) {
		r.Violation(sig, msg+fmt.Sprintf("\ninput:\n%s(max-block-duration %dms, %d samples per appender)", c.input(), c.MaxDur, c.MaxSamples), c)
	})
}

// c50RunExpect backfills c and compares the produced blocks with the samples of expect (which
// differs from c only in the self-test).
func c50RunExpect(c, expect c50Case, dir string, report func(sig, msg string)) (outcome string) {
	rep := func(sig, format string, a ...any) { report(sig, fmt.Sprintf(format, a...)) }
	out := filepath.Join(dir, "out")
	os.RemoveAll(out)
	if err := os.MkdirAll(out, 0o777); err != nil {
		panic(err)
	}
	input := []byte(c.input())
	var err error
	p, stack := vx.Guard(func() {
		err = backfill(c.MaxSamples, input, out, false, true, time.Duration(c.MaxDur)*time.Millisecond, nil)
	})
	if p != nil {
		rep("backfill-panic", "backfill panicked: %v\n%s", p, stack)
		return "panic"
	}
	d := c50EffectiveDuration(c.MaxDur)
	ls := c.lines()
	order := c.Order
	if order == nil {
		for i := range ls {
			order = append(order, i)
		}
	}

	// open whatever was produced
	db, oerr := tsdb.OpenDBReadOnly(out, "", nil)
	if oerr != nil {
		panic(oerr)
	}
	defer db.Close()
	blocks, berr := db.Blocks()
	if berr != nil {
		rep("backfill-blocks-unreadable", "opening the produced blocks failed: %v", berr)
		return "unreadable"
	}

	if c.MissingTS >= 0 {
		// "the input is rejected as a whole if a sample has no timestamp"
		switch {
		case err == nil:
			rep("backfill-missing-timestamp-accepted", "input with a sample without timestamp was accepted (%d blocks written)", len(blocks))
		case len(blocks) > 0:
			rep("backfill-missing-timestamp-partial-output", "input with a sample without timestamp was rejected (%v) but %d block(s) were written", err, len(blocks))
		}
		return "rejected-missing-timestamp"
	}

	// An input whose lines of one series are not in timestamp order is not valid OpenMetrics
	// ("MetricPoints MUST have monotonically increasing timestamps"), so the statement does not
	// cover it. When the disorder falls inside one block window the tool may reject the input or
	// drop the late lines; the blocks it does write must still be aligned and contain nothing but
	// input samples.
	disorder := false
	{
		type sw struct {
			series int
			window int64
		}
		last := map[sw]int64{} // newest timestamp seen so far per series and block window
		for _, i := range order {
			l := ls[i]
			t := c50TS[l.tsIdx]
			k := sw{l.series, c50Floor(t, d)}
			if prev, ok := last[k]; ok && t < prev {
				disorder = true
			}
			if prev, ok := last[k]; !ok || t > prev {
				last[k] = t
			}
		}
	}
	if err != nil {
		if disorder {
			return "rejected-unordered-series"
		}
		rep("backfill-unexpected-error", "valid input rejected: %v", err)
		return "error"
	}

	// expected samples
	want := map[c50Sample]float64{}
	minT := int64(math.MaxInt64)
	for _, l := range expect.lines() {
		t := c50TS[l.tsIdx]
		want[c50Sample{c50SeriesLabels[l.series].String(), t}] = c50Val[c50ValIdx(l)]
		if t < minT {
			minT = t
		}
	}
	got := map[c50Sample]int{}
	var layout []string
	for _, b := range blocks {
		meta := b.Meta()
		// "blocks, aligned to the chosen block duration": a block lies inside one aligned window
		if meta.MaxTime <= meta.MinTime || c50Floor(meta.MinTime, d) != c50Floor(meta.MaxTime-1, d) {
			rep("backfill-block-not-aligned", "block %s spans [%d,%d) which is not inside one window of the block duration %dms", meta.ULID, meta.MinTime, meta.MaxTime, d)
		}
		layout = append(layout, fmt.Sprintf("w%d:%d", c50Floor(meta.MinTime, d), meta.Stats.NumSamples))
		q, err := tsdb.NewBlockQuerier(b, math.MinInt64, math.MaxInt64)
		if err != nil {
			panic(err)
		}
		ss := q.Select(context.Background(), true, nil, labels.MustNewMatcher(labels.MatchNotEqual, "__name__", ""))
		n := 0
		for ss.Next() {
			sr := ss.At()
			it := sr.Iterator(nil)
			for vt := it.Next(); vt != chunkenc.ValNone; vt = it.Next() {
				if vt != chunkenc.ValFloat {
					rep("backfill-sample-type-wrong", "series %s has a non-float sample", sr.Labels())
					continue
				}
				t, v := it.At()
				n++
				k := c50Sample{sr.Labels().String(), t}
				got[k]++
				w, ok := want[k]
				switch {
				case !ok:
					rep("backfill-sample-unexpected", "block %s contains %s @%d = %v which is not in the input", meta.ULID, k.series, t, v)
				case !c50SameValue(v, w):
					rep("backfill-value-wrong", "%s @%d = %v, input has %v", k.series, t, v, w)
				case got[k] > 1:
					rep("backfill-sample-duplicated", "%s @%d appears %d times in the produced blocks", k.series, t, got[k])
				}
				if t < meta.MinTime || t >= meta.MaxTime {
					rep("backfill-sample-outside-block-range", "block %s [%d,%d) contains a sample at %d", meta.ULID, meta.MinTime, meta.MaxTime, t)
				}
			}
			if it.Err() != nil {
				panic(it.Err())
			}
		}
		if ss.Err() != nil {
			panic(ss.Err())
		}
		q.Close()
		if n == 0 {
			rep("backfill-empty-block", "block %s contains no samples", meta.ULID)
		}
	}
	ks := make([]c50Sample, 0, len(want))
	for k := range want {
		ks = append(ks, k)
	}
	sort.Slice(ks, func(i, j int) bool {
		if ks[i].t != ks[j].t {
			return ks[i].t < ks[j].t
		}
		return ks[i].series < ks[j].series
	})
	for _, k := range ks {
		if got[k] > 0 || disorder {
			continue
		}
		if k.t < c50TruncStart(minT, d) {
			// known finding: precondition = the sample lies before (min timestamp / duration)
			// truncated toward zero x duration, i.e. negative timestamps in the first window
			rep("backfill-sample-before-truncated-start-missing", "%s @%d is missing from the produced blocks: the smallest input timestamp %d is aligned to %d (truncation toward zero) instead of %d, and samples before it are skipped", k.series, k.t, minT, c50TruncStart(minT, d), c50Floor(minT, d)*d)
		} else {
			rep("backfill-sample-missing", "%s @%d is missing from the produced blocks (blocks: %v)", k.series, k.t, layout)
		}
	}
	sort.Strings(layout)
	if disorder {
		return fmt.Sprintf("ok-unordered-series d=%dh %v", d/3600000, layout)
	}
	return fmt.Sprintf("ok d=%dh %v", d/3600000, layout)
}

// ---------------------------------------------------------------------------------------------
// enumeration
// ---------------------------------------------------------------------------------------------

func c50Subsets(alpha []int) [][]int {
	var out [][]int
	for mask := 0; mask < 1<<len(alpha); mask++ {
		var s []int
		for i, a := range alpha {
			if mask&(1<<i) != 0 {
				s = append(s, a)
			}
		}
		out = append(out, s)
	}
	sort.SliceStable(out, func(i, j int) bool { return len(out[i]) < len(out[j]) }) // simplest first
	return out
}

// c50Cases builds the case list. One block costs tens of milliseconds (the index writer allocates
// several large buffers per block), so the families are sized by measured cost: about 330 cases in
// the quick tier, about 2800 in the thorough tier.
func c50Cases(r *vx.Run) (cases []c50Case, desc []string) {
	all := []int{0, 1, 2, 3, 4, 5, 6} // indices into c50TS
	th := r.Thorough()
	add := func(c c50Case) {
		if c.MaxSamples == 0 {
			c.MaxSamples = 5000
		}
		cases = append(cases, c)
	}
	note := func(format string, a ...any) {
		desc = append(desc, fmt.Sprintf(format, a...)+fmt.Sprintf(" (cases so far %d)", len(cases)))
	}
	tsOf := func(idx []int) []int64 {
		var o []int64
		for _, i := range idx {
			o = append(o, c50TS[i])
		}
		return o
	}
	// E1: one series, every subset of the 7 timestamps
	for _, s := range c50Subsets(all) {
		add(c50Case{Series: [][]int{s}, MaxDur: c50R, MissingTS: -1})
		if th || len(s) <= 1 {
			add(c50Case{Series: [][]int{s}, MaxDur: c50R, MaxSamples: 1, MissingTS: -1})
			add(c50Case{Series: [][]int{s}, MaxDur: 2 * c50R, MissingTS: -1})
			add(c50Case{Series: [][]int{s}, MaxDur: 3 * c50R, MissingTS: -1})
		}
	}
	note("E1 one series x all 128 subsets of the 7 timestamps at max-block-duration R; subsets of size <=1 (thorough: all) also with 1 sample per appender and with max-block-duration 2R, 3R")
	// E2: one series, every non-identity line order
	for _, s := range c50Subsets(all) {
		if len(s) < 2 || len(s) > 3 {
			continue
		}
		if !th && len(s) == 3 && (s[0] < 2 || s[2] > 4) {
			continue // quick: size-3 subsets only over {0,R-1,R}
		}
		vx.Perms(len(s), func(p []int) bool {
			ident := true
			for i := range p {
				if p[i] != i {
					ident = false
				}
			}
			if !ident {
				add(c50Case{Series: [][]int{s}, Order: append([]int(nil), p...), MaxDur: c50R, MissingTS: -1})
				if th && len(s) == 2 {
					add(c50Case{Series: [][]int{s}, Order: append([]int(nil), p...), MaxDur: 3 * c50R, MissingTS: -1})
				}
			}
			return true
		})
	}
	note("E2 one series x subsets of size 2 and 3 (quick: size 3 only over {0,R-1,R}) x every other line order (thorough: size 2 also at 3R)")
	// E3: two series, series-major and interleaved line order
	two := func(alpha []int, dur int64) {
		for _, s1 := range c50Subsets(alpha) {
			for _, s2 := range c50Subsets(alpha) {
				add(c50Case{Series: [][]int{s1, s2}, MaxDur: dur, MissingTS: -1})
				if len(s1) > 0 && len(s2) > 0 && len(s1)+len(s2) > 2 {
					var o []int // round-robin interleaving of the two series' lines
					for i := 0; i < len(s1) || i < len(s2); i++ {
						if i < len(s2) {
							o = append(o, len(s1)+i)
						}
						if i < len(s1) {
							o = append(o, i)
						}
					}
					add(c50Case{Series: [][]int{s1, s2}, Order: o, MaxDur: dur, MissingTS: -1})
				}
			}
		}
		note("E3 two series x subsets of %v each at max-block-duration %dh, series-major and interleaved", tsOf(alpha), dur/3600000)
	}
	if th {
		two([]int{0, 1, 2, 4}, c50R)
		two([]int{2, 3, 4, 6}, 3*c50R)
	} else {
		two([]int{1, 4}, c50R)
	}
	// E4: three series
	a3 := vx.Pick(r, []int{2, 4}, []int{1, 2, 4})
	for _, s1 := range c50Subsets(a3) {
		for _, s2 := range c50Subsets(a3) {
			for _, s3 := range c50Subsets(a3) {
				add(c50Case{Series: [][]int{s1, s2, s3}, MaxDur: c50R, MissingTS: -1})
			}
		}
	}
	note("E4 three series x subsets of %v each", tsOf(a3))
	// E5: two series, 2..4 lines, every line order
	a5 := vx.Pick(r, []int{2, 4}, []int{1, 2, 4})
	for _, s1 := range c50Subsets(a5) {
		for _, s2 := range c50Subsets(a5) {
			n := len(s1) + len(s2)
			if n < 2 || n > vx.Pick(r, 3, 4) || len(s1) == 0 || len(s2) == 0 {
				continue
			}
			vx.Perms(n, func(p []int) bool {
				add(c50Case{Series: [][]int{s1, s2}, Order: append([]int(nil), p...), MaxDur: c50R, MissingTS: -1})
				return true
			})
		}
	}
	note("E5 two series over %v, 2..%d lines in total, every line order", tsOf(a5), vx.Pick(r, 3, 4))
	// E6: each line in turn without timestamp
	a6 := vx.Pick(r, []int{1, 2, 4}, []int{1, 2, 4, 6})
	for _, s1 := range c50Subsets(a6) {
		for _, s2 := range c50Subsets([]int{2, 4})[:vx.Pick(r, 2, 4)] {
			n := len(s1) + len(s2)
			for miss := 0; miss < n; miss++ {
				add(c50Case{Series: [][]int{s1, s2}, MaxDur: c50R, MissingTS: miss})
			}
		}
	}
	note("E6 two series (first over %v), each line in turn printed without timestamp", tsOf(a6))
	// simplest first over all families: fewest lines first (stable)
	sort.SliceStable(cases, func(i, j int) bool { return len(cases[i].lines()) < len(cases[j].lines()) })
	return cases, desc
}

func TestVerifC50(t *testing.T) {
	r := vx.Start(t, "C50", "exploration")
	defer r.Finish()
	if r.Replay != "" {
		var c c50Case
		r.LoadReplay(&c)
		dir, _ := os.MkdirTemp("", "c50")
		defer os.RemoveAll(dir)
		t.Logf("outcome: %s", c50Run(r, c, dir))
		return
	}
	// self-test: the oracle notices wrong blocks. Backfill a simple input and compare the blocks
	// with the expectation of a DIFFERENT input (one sample more / fewer / another value).
	{
		dir, _ := os.MkdirTemp("", "c50self")
		good := c50Case{Series: [][]int{{2, 4}}, MaxDur: c50R, MaxSamples: 5000, MissingTS: -1}
		sigs := func(expect c50Case) map[string]bool {
			m := map[string]bool{}
			c50RunExpect(good, expect, dir, func(sig, _ string) { m[sig] = true })
			return m
		}
		if base := sigs(good); len(base) == 0 { // otherwise the exploration below reports the problem
			if m := sigs(c50Case{Series: [][]int{{2, 4, 6}}, MaxDur: c50R, MissingTS: -1}); !m["backfill-sample-missing"] {
				t.Fatalf("self-test: a missing sample was not reported (%v)", m)
			}
			if m := sigs(c50Case{Series: [][]int{{2}}, MaxDur: c50R, MissingTS: -1}); !m["backfill-sample-unexpected"] {
				t.Fatalf("self-test: an extra sample was not reported (%v)", m)
			}
			if m := sigs(c50Case{Series: [][]int{{}, {2, 4}}, MaxDur: c50R, MissingTS: -1}); !m["backfill-sample-unexpected"] || !m["backfill-sample-missing"] {
				t.Fatalf("self-test: samples under wrong labels were not reported (%v)", m)
			}
		}
		if c50SameValue(1, 2.5) || !c50SameValue(math.NaN(), math.NaN()) || c50SameValue(math.NaN(), math.Float64frombits(value.StaleNaN)) {
			t.Fatal("self-test: value comparison broken")
		}
		if c50Floor(-1, c50R) != -1 || c50Floor(-c50R, c50R) != -1 || c50Floor(-c50R-1, c50R) != -2 || c50Floor(c50R, c50R) != 1 {
			t.Fatal("self-test: window arithmetic broken")
		}
		if c50EffectiveDuration(2*c50R) != c50R || c50EffectiveDuration(3*c50R) != 3*c50R || c50EffectiveDuration(c50R/2) != c50R {
			t.Fatal("self-test: effective duration broken")
		}
		os.RemoveAll(dir)
	}
	cases, desc := c50Cases(r)
	nw := r.Workers()
	dirs := make(chan string, nw+1)
	for i := 0; i < nw+1; i++ {
		d, err := os.MkdirTemp("", "c50")
		if err != nil {
			t.Fatal(err)
		}
		dirs <- d
	}
	var n atomic.Int64
	r.ParallelN(int64(len(cases)), func(i int64) {
		c := cases[i]
		d := <-dirs
		out := c50Run(r, c, d)
		dirs <- d
		r.Distinct("distinct_outcomes", out)
		if strings.HasPrefix(out, "ok") && strings.Contains(out, "w") {
			r.Distinct("distinct_nontrivial", out+fmt.Sprint(c.Series))
		}
		r.Count("outcome_"+strings.SplitN(out, " ", 2)[0], 1)
		k := n.Add(1)
		r.SampleAt(k, func() any { return map[string]any{"input": c.input(), "max_block_duration_ms": c.MaxDur, "outcome": out} })
	})
	close(dirs)
	for d := range dirs {
		os.RemoveAll(d)
	}
	r.Count("evaluations", int(n.Load()))
	r.Set("rule", "every generated OpenMetrics input is backfilled into a fresh directory, the produced blocks are opened read-only and every block is read back completely; distinct_nontrivial = distinct (series timestamp sets, block layout) of accepted inputs that produced at least one block; families: "+strings.Join(desc, "; "))
	r.Set("timestamps_ms", c50TS)
	r.Assume("the chosen block duration is the largest step of the ladder 2h x 3^k not exceeding --max-block-duration (at least 2h)")
	r.Assume("an input in which the lines of one series are not in timestamp order is invalid OpenMetrics: when the disorder falls inside one block window the tool may reject it or drop the late lines (observed: dropped silently when both lines are in one appender batch), only alignment and 'nothing but input samples' are checked; disorder across windows must be backfilled exactly")
	if !r.Expired() && r.Violations() == 0 {
		if r.Get("outcome_ok") == 0 || r.Get("outcome_rejected-missing-timestamp") == 0 {
			t.Fatal("vacuous run: no accepted or no rejected input")
		}
	}
}
