package h_promqlx

// C29: aggregations and binary operators follow the documented semantics.
//
// Engine E1 (input enumeration). Every case is one instant query evaluated by the real engine
// (promql.NewEngine / NewInstantQuery / Exec) over a real TSDB (util/teststorage) that holds the
// input vectors, compared with the reference evaluator of c29_ref_test.go.
//
// Input vectors live in "slots": slot k of a storage block is the instant t=(k+1)*10min, further
// apart than the lookback delta, so that a selector evaluated at that instant sees exactly the
// samples of the slot. Aggregation inputs use the metric names m/n, left operands l/k, right
// operands r/q.

import (
	"context"
	"fmt"
	"math"
	"sort"
	"strconv"
	"sync/atomic"
	"testing"
	"time"

	"github.com/prometheus/prometheus/internal/verif/vx"
	"github.com/prometheus/prometheus/model/labels"
	"github.com/prometheus/prometheus/promql"
)

const c29SlotMs = 600000

var c29Vals = []float64{1, 2, 0, math.NaN(), math.Inf(1), math.Inf(-1)}

// c29Series is one series identity: name + optional a, b.
type c29Series struct {
	name, a, b string
	more       [][2]string // further labels (any names)
}

func (s c29Series) labels() map[string]string {
	m := map[string]string{c29Name: s.name}
	if s.a != "" {
		m["a"] = s.a
	}
	if s.b != "" {
		m["b"] = s.b
	}
	for _, kv := range s.more {
		m[kv[0]] = kv[1]
	}
	return m
}

// c29OddPool: series whose label names lie on both sides of "__name__" in byte order: upper-case
// (A, Zone) and a quoted UTF-8 name starting with a digit ("0x") sort before it, _a and a after it.
// Implementations that keep sorted name lists must treat all of them alike.
func c29OddPool(name string) []c29Series {
	kv := func(p ...string) [][2]string {
		var o [][2]string
		for i := 0; i < len(p); i += 2 {
			o = append(o, [2]string{p[i], p[i+1]})
		}
		return o
	}
	return []c29Series{
		{name: name}, {name: name, more: kv("A", "1")}, {name: name, more: kv("A", "2")}, {name: name, more: kv("Zone", "1")},
		{name: name, more: kv("_a", "1")}, {name: name, a: "1"}, {name: name, more: kv("0x", "1")},
		{name: name, a: "1", more: kv("A", "1")}, {name: name, more: kv("Zone", "1", "_a", "1")}, {name: name, more: kv("0x", "1", "A", "2")},
		{name: name, more: kv("Zone", "2", "~z", "1")},
	}
}

// c29Combos: {a,b} in {absent,"1","2"}, simplest first.
func c29Combos(name string) []c29Series {
	var out []c29Series
	for _, ab := range [][2]string{{"", ""}, {"1", ""}, {"", "1"}, {"1", "1"}, {"2", ""}, {"1", "2"}, {"2", "1"}, {"", "2"}, {"2", "2"}} {
		out = append(out, c29Series{name, ab[0], ab[1], nil})
	}
	return out
}

// c29Sets lists all subsets of pool with minSize..maxSize elements, smallest first; with
// mustTouch >= 0 only subsets containing an index >= mustTouch.
func c29Sets(n, minSize, maxSize, mustTouch int) [][]int {
	var out [][]int
	vx.Subsets(n, maxSize, func(idx []int) bool {
		if len(idx) < minSize {
			return true
		}
		if mustTouch >= 0 {
			ok := false
			for _, i := range idx {
				if i >= mustTouch {
					ok = true
				}
			}
			if !ok {
				return true
			}
		}
		out = append(out, append([]int{}, idx...))
		return true
	})
	return out
}

// c29Tier is one enumerated family of (slot, expression) cases.
type c29Tier struct {
	Name    string
	NSlots  int
	Slot    func(i int) []ag_Sample // all samples of slot i
	Exprs   []*c29Expr
	ASel    string
	LSel    string
	RSel    string
	Block   int // slots per storage
	Delayed bool
	Desc    string
}

func c29Pick(samples []ag_Sample, names ...string) []ag_Sample {
	var out []ag_Sample
	for _, s := range samples {
		for _, n := range names {
			if s.L[c29Name] == n {
				out = append(out, s)
			}
		}
	}
	return out
}

// ---------------------------------------------------------------------------------------------
// expression generators
// ---------------------------------------------------------------------------------------------

func c29Groupings(full bool) []*c29Grouping {
	g := []*c29Grouping{
		nil,
		{false, []string{}}, {false, []string{"a"}}, {false, []string{"b"}}, {false, []string{"a", "b"}},
		{false, []string{c29Name}}, {false, []string{"a", c29Name}},
		{true, []string{}}, {true, []string{"a"}}, {true, []string{"b"}}, {true, []string{"a", "b"}},
	}
	if full {
		g = append(g, &c29Grouping{false, []string{"b", "a"}}, &c29Grouping{true, []string{c29Name}},
			&c29Grouping{false, []string{"c"}})
	}
	return g
}

func c29AggExprs(full bool) []*c29Expr {
	var out []*c29Expr
	num := func(op string, texts ...string) [][2]string {
		var o [][2]string
		for _, t := range texts {
			o = append(o, [2]string{op, t})
		}
		return o
	}
	var forms [][2]string
	for _, op := range []string{"sum", "avg", "min", "max", "count", "group", "stddev", "stdvar"} {
		forms = append(forms, [2]string{op, ""})
	}
	if full {
		forms = append(forms, num("quantile", "0.5", "0", "1", "0.25", "-0.5", "1.5", "NaN", "0.75", "0.1")...)
	} else {
		forms = append(forms, num("quantile", "0.5", "0", "1.5", "NaN", "0.25")...)
	}
	ks := []string{"1", "2", "0", "3"}
	if full {
		ks = append(ks, "-1", "4")
	}
	forms = append(forms, num("topk", ks...)...)
	forms = append(forms, num("bottomk", ks...)...)
	if full {
		forms = append(forms, num("limitk", ks...)...)
	} else {
		forms = append(forms, num("limitk", "1", "2")...)
	}
	forms = append(forms, [2]string{"count_values", "v"})
	for _, f := range forms {
		for _, g := range c29Groupings(full) {
			e := &c29Expr{Kind: "agg", Op: f[0], Grp: g}
			if f[0] == "count_values" {
				e.HasParam, e.ParamS, e.ParamText = true, f[1], strconv.Quote(f[1])
			} else if f[1] != "" {
				e.HasParam, e.ParamText = true, f[1]
				e.ParamF = c29ParseF(f[1])
			}
			out = append(out, e)
		}
	}
	return out
}

func c29ParseF(s string) float64 {
	switch s {
	case "NaN":
		return math.NaN()
	case "Inf", "+Inf":
		return math.Inf(1)
	case "-Inf":
		return math.Inf(-1)
	}
	f, err := strconv.ParseFloat(s, 64)
	if err != nil {
		panic(err)
	}
	return f
}

type c29OpForm struct {
	op string
	b  bool
}

func c29OpForms(ops []string, withBool bool) []c29OpForm {
	var out []c29OpForm
	for _, o := range ops {
		out = append(out, c29OpForm{o, false})
		if withBool && c29IsCmp(o) {
			out = append(out, c29OpForm{o, true})
		}
	}
	return out
}

var (
	c29ArithOps = []string{"+", "-", "*", "/", "%", "^", "atan2"}
	c29CmpOps   = []string{"==", "!=", ">", "<", ">=", "<="}
	c29SetOps   = []string{"and", "or", "unless"}
)

type c29Clause struct {
	has    bool
	on     bool
	labels []string
}

type c29Group struct {
	card  int
	inc   []string
	paren bool
}

type c29Fill struct {
	text string
	l, r *float64
}

func c29F(f float64) *float64 { return &f }

func c29If(c bool, q, th int) int {
	if c {
		return th
	}
	return q
}

func c29Fills(n int) []c29Fill {
	all := []c29Fill{
		{"", nil, nil},
		{"fill(0)", c29F(0), c29F(0)},
		{"fill_left(1)", c29F(1), nil},
		{"fill_right(2)", nil, c29F(2)},
		{"fill_right(0) fill_left(2)", c29F(2), c29F(0)},
		{"fill_left(NaN) fill_right(Inf)", c29F(math.NaN()), c29F(math.Inf(1))},
	}
	return all[:n]
}

func c29Clauses(withName, full bool) []c29Clause {
	c := []c29Clause{
		{false, false, nil},
		{true, true, []string{}}, {true, true, []string{"a"}}, {true, true, []string{"b"}}, {true, true, []string{"a", "b"}},
		{true, false, []string{"a"}}, {true, false, []string{"b"}}, {true, false, []string{"a", "b"}},
	}
	if full {
		c = append(c, c29Clause{true, false, []string{}}, c29Clause{true, true, []string{"b", "a"}}, c29Clause{true, true, []string{"c"}})
	}
	if withName {
		c = append(c, c29Clause{true, true, []string{c29Name}}, c29Clause{true, true, []string{c29Name, "a"}}, c29Clause{true, false, []string{c29Name}})
	}
	return c
}

func c29Groups(full bool) []c29Group {
	g := []c29Group{{0, nil, false}, {1, nil, false}, {1, []string{"a"}, false}, {1, []string{"b"}, false}, {2, nil, false}, {2, []string{"a"}, false}, {2, []string{"b"}, false}}
	if full {
		g = append(g, c29Group{1, nil, true}, c29Group{1, []string{"a", "b"}, false}, c29Group{2, []string{"c"}, false})
	}
	return g
}

// c29VVExprs: the product of operator forms, matching clauses, group modifiers and fill modifiers,
// leaving out only what the grammar rejects (set operators take no group/fill/bool modifiers; a
// label cannot be in on() and in the group modifier).
func c29VVExprs(forms []c29OpForm, clauses []c29Clause, groups []c29Group, fills []c29Fill) []*c29Expr {
	var out []*c29Expr
	for _, f := range forms {
		for _, c := range clauses {
			for _, g := range groups {
				if g.card != 0 && (c29IsSet(f.op) || !c.has) {
					continue // grammar: group modifiers follow on()/ignoring() and never a set operator
				}
				bad := false
				if c.has && c.on {
					for _, x := range g.inc {
						if c29HasLabel(c.labels, x) {
							bad = true
						}
					}
				}
				if bad {
					continue
				}
				for _, fl := range fills {
					if c29IsSet(f.op) && fl.text != "" {
						continue
					}
					out = append(out, &c29Expr{Kind: "vv", Op: f.op, Bool: f.b, HasMatch: c.has, On: c.on, MLabels: c.labels,
						Card: g.card, Include: g.inc, IncParen: g.paren, FillL: fl.l, FillR: fl.r, FillText: fl.text})
				}
			}
		}
	}
	return out
}

func c29ScalarText(f float64) string {
	switch {
	case math.IsNaN(f):
		return "NaN"
	case math.IsInf(f, 1):
		return "Inf"
	case math.IsInf(f, -1):
		return "(-Inf)" // parenthesised: ^ binds tighter than unary minus
	}
	return strconv.FormatFloat(f, 'g', -1, 64)
}

// c29ScalarExprs: vector/scalar, scalar/vector and scalar/scalar forms for every operator and
// every scalar of the value alphabet.
func c29ScalarExprs() []*c29Expr {
	var out []*c29Expr
	forms := c29OpForms(append(append([]string{}, c29ArithOps...), c29CmpOps...), true)
	for _, f := range forms {
		for _, s := range c29Vals {
			out = append(out, &c29Expr{Kind: "vs", Op: f.op, Bool: f.b, SR: s, SRText: c29ScalarText(s)})
			out = append(out, &c29Expr{Kind: "sv", Op: f.op, Bool: f.b, SL: s, SLText: c29ScalarText(s)})
			if c29IsCmp(f.op) && !f.b {
				continue // scalar/scalar comparisons require bool
			}
			for _, s2 := range c29Vals {
				out = append(out, &c29Expr{Kind: "ss", Op: f.op, Bool: f.b, SL: s, SLText: c29ScalarText(s), SR: s2, SRText: c29ScalarText(s2)})
			}
		}
	}
	return out
}

// ---------------------------------------------------------------------------------------------
// slot generators
// ---------------------------------------------------------------------------------------------

// c29VecSlots: every vector made of one of the series sets with every assignment of vals.
func c29VecSlots(pool []c29Series, sets [][]int, vals []float64) (int, func(i int) []ag_Sample) {
	// offsets per set
	offs := make([]int, len(sets)+1)
	for i, s := range sets {
		n := 1
		for range s {
			n *= len(vals)
		}
		offs[i+1] = offs[i] + n
	}
	return offs[len(sets)], func(i int) []ag_Sample {
		lo, hi := 0, len(sets)
		for lo+1 < hi {
			mid := (lo + hi) / 2
			if offs[mid] <= i {
				lo = mid
			} else {
				hi = mid
			}
		}
		set := sets[lo]
		rem := i - offs[lo]
		out := make([]ag_Sample, len(set))
		for k := len(set) - 1; k >= 0; k-- {
			out[k] = ag_Sample{L: pool[set[k]].labels(), V: vals[rem%len(vals)]}
			rem /= len(vals)
		}
		return out
	}
}

// c29PairSlots: every (left set, right set) pair with values from a fixed per-position pattern.
// Patterns are chosen so that equal, smaller, larger and NaN operands all occur.
var c29Patterns = [][2][]float64{
	{{1, 2, 0}, {1, 1, math.NaN()}},
	{{2, math.NaN(), 1}, {0, 2, math.Inf(1)}},
}

func c29PairSlots(lpool, rpool []c29Series, pairs [][2][]int, npat int) (int, func(i int) []ag_Sample) {
	return len(pairs) * npat, func(i int) []ag_Sample {
		p := pairs[i/npat]
		pat := c29Patterns[i%npat]
		var out []ag_Sample
		for k, si := range p[0] {
			out = append(out, ag_Sample{L: lpool[si].labels(), V: pat[0][k]})
		}
		for k, si := range p[1] {
			out = append(out, ag_Sample{L: rpool[si].labels(), V: pat[1][k]})
		}
		return out
	}
}

// c29Pairs: all (L,R) with L from lsets and R from rsets satisfying keep.
func c29Pairs(lsets, rsets [][]int, keep func(l, r []int) bool) [][2][]int {
	var out [][2][]int
	for _, l := range lsets {
		for _, r := range rsets {
			if keep == nil || keep(l, r) {
				out = append(out, [2][]int{l, r})
			}
		}
	}
	return out
}

// ---------------------------------------------------------------------------------------------
// tiers
// ---------------------------------------------------------------------------------------------

func c29Tiers(thorough bool) []*c29Tier {
	var tiers []*c29Tier
	add := func(t *c29Tier) { tiers = append(tiers, t) }
	vecTier := func(name, desc, sel string, pool []c29Series, sets [][]int, vals []float64, exprs []*c29Expr) {
		n, f := c29VecSlots(pool, sets, vals)
		add(&c29Tier{Name: name, NSlots: n, Slot: f, Exprs: exprs, ASel: sel, Block: 64, Desc: desc})
	}
	pairTier := func(name, desc string, lp, rp []c29Series, lsel, rsel string, pairs [][2][]int, pattern int, exprs []*c29Expr, block int) {
		_, f := c29PairSlots(lp, rp, pairs, len(c29Patterns))
		np := len(c29Patterns)
		add(&c29Tier{Name: name, NSlots: len(pairs), Slot: func(i int) []ag_Sample { return f(np*i + pattern) }, Exprs: exprs, LSel: lsel, RSel: rsel, Block: block, Desc: desc})
	}
	small := func(k int) func(l, r []int) bool { // at least one side has <= k series
		return func(l, r []int) bool { return len(l) <= k || len(r) <= k }
	}
	mPool := c29Combos("m")
	nExtra := []c29Series{{"n", "", "", nil}, {"n", "1", "", nil}, {"n", "1", "1", nil}}
	aggPool := append(append([]c29Series{}, mPool...), nExtra...)
	aggExprs := c29AggExprs(thorough)
	const aggSel = `{__name__=~"m|n"}`
	nan, inf := math.NaN(), math.Inf(1)

	// A: aggregations
	vecTier("agg-le2", "every vector of 0..2 samples over 12 series (m x {a,b} in {absent,1,2}, n{}, n{a=1}, n{a=1,b=1}) x 6 values",
		aggSel, aggPool, c29Sets(len(aggPool), 0, 2, -1), c29Vals, aggExprs)
	if thorough {
		vecTier("agg-3m9-v3", "every vector of 3 samples over the 9 series of metric m x values {1,2,NaN}",
			"m", mPool, c29Sets(9, 3, 3, -1), []float64{1, 2, nan}, aggExprs)
		vecTier("agg-3m6-v6", "every vector of 3 samples over 6 series of metric m ({a,b} in {absent,1} plus a=2, a=1/b=2) x all 6 values",
			"m", mPool[:6], c29Sets(6, 3, 3, -1), c29Vals, aggExprs)
		mixPool := append(append([]c29Series{}, mPool[:4]...), nExtra...)
		vecTier("agg-3mixed-v3", "every vector of 3 samples over m{}, m{a=1}, m{b=1}, m{a=1,b=1}, n{}, n{a=1}, n{a=1,b=1} with at least one n series x values {1,2,NaN}",
			aggSel, mixPool, c29Sets(len(mixPool), 3, 3, 4), []float64{1, 2, nan}, aggExprs)
	} else {
		vecTier("agg-3m6-v3", "every vector of 3 samples over 6 series of metric m x values {1,2,NaN}",
			"m", mPool[:6], c29Sets(6, 3, 3, -1), []float64{1, 2, nan}, aggExprs)
	}
	_ = inf

	lPool, rPool := c29Combos("l"), c29Combos("r")
	allForms := c29OpForms(append(append(append([]string{}, c29ArithOps...), c29CmpOps...), c29SetOps...), true)
	repForms := []c29OpForm{{"+", false}, {"==", false}, {"<", true}, {">=", false}, {"and", false}, {"or", false}, {"unless", false}}
	const repDesc = "7 representative operator forms (+, ==, < bool, >=, and, or, unless)"

	// B1: operator x value: single matching pair l{a="1"} / r{a="1"} with all 36 value pairs, and the
	// scalar forms over all values.
	{
		one := c29Series{"l", "1", "", nil}
		oner := c29Series{"r", "1", "", nil}
		exprs := c29VVExprs(allForms, []c29Clause{{false, false, nil}, {true, true, []string{"a"}}, {true, false, []string{"b"}}},
			[]c29Group{{0, nil, false}, {1, nil, false}, {2, nil, false}}, c29Fills(1))
		exprs = append(exprs, c29ScalarExprs()...)
		nv := len(c29Vals)
		add(&c29Tier{Name: "op-values", NSlots: nv * nv, Exprs: exprs, LSel: "l", RSel: "r", Block: 36,
			Slot: func(i int) []ag_Sample {
				return []ag_Sample{{L: one.labels(), V: c29Vals[i/nv]}, {L: oner.labels(), V: c29Vals[i%nv]}}
			},
			Desc: "every operator (bool and filter forms) on l{a=1} op r{a=1}, l op scalar, scalar op r, scalar op scalar x all 36 value pairs"})
	}

	sets2 := c29Sets(9, 0, 2, -1)
	sets1 := c29Sets(9, 0, 1, -1)
	sets3 := c29Sets(9, 3, 3, -1)
	stdAll := c29VVExprs(allForms, c29Clauses(false, false), c29Groups(false), c29Fills(4))
	stdRep := c29VVExprs(repForms, c29Clauses(false, false), c29Groups(false), c29Fills(4))
	if thorough {
		pairTier("match-2x1-allops", "every operator form (22) x 8 matching clauses x 7 group modifiers x 4 fill modifiers on every pair of vectors of 0..2 series (9 label sets per side) in which one side has at most 1 series",
			lPool, rPool, "l", "r", c29Pairs(sets2, sets2, small(1)), 0, stdAll, 8)
		pairTier("match-2x2-rep", repDesc+" x 8 clauses x 7 group modifiers x 4 fills on every pair of vectors of 0..2 series",
			lPool, rPool, "l", "r", c29Pairs(sets2, sets2, nil), 0, stdRep, 32)
		s6two := c29Sets(6, 2, 2, -1)
		s6three := c29Sets(6, 3, 3, -1)
		p3 := append(c29Pairs(sets3, sets1, nil), c29Pairs(sets1, sets3, nil)...)
		p3 = append(p3, c29Pairs(s6three, s6two, nil)...)
		p3 = append(p3, c29Pairs(s6two, s6three, nil)...)
		pairTier("match-3xN-rep", repDesc+" x 8 clauses x 7 group modifiers x 4 fills on every pair of a 3-series vector (9 label sets) with a 0..1-series vector, and of a 3-series with a 2-series vector (6 label sets)",
			lPool, rPool, "l", "r", p3, 0, stdRep, 32)
		minExprs := c29VVExprs([]c29OpForm{{"+", false}, {"==", false}, {"or", false}}, c29Clauses(false, false), []c29Group{{0, nil, false}, {1, nil, false}, {2, []string{"b"}, false}}, c29Fills(2))
		pairTier("match-3x3-min", "+, == and or x 8 clauses x {none, group_left, group_right(b)} x {none, fill(0)} on every pair of 3-series vectors",
			lPool, rPool, "l", "r", c29Pairs(sets3, sets3, nil), 0, minExprs, 128)
		pairTier("match-2x1-rep-pattern2", repDesc+" x std modifier product on every pair of 0..2-series vectors with a 0..1-series side, second value pattern (NaN/Inf operands)",
			lPool, rPool, "l", "r", c29Pairs(sets2, sets2, small(1)), 1, stdRep, 32)
		// unusual spellings
		xExprs := c29VVExprs(repForms, c29Clauses(false, true), c29Groups(true), c29Fills(6))
		s6 := c29Sets(6, 0, 2, -1)
		pairTier("match-extras", repDesc+" x 11 clauses (adds ignoring(), on(b,a), on(c)) x 10 group modifiers (adds group_left(), group_left(a,b), group_right(c)) x 6 fills (adds two-sided and NaN/Inf fills) on pairs of 0..2-series vectors (6 label sets) with a 0..1-series side",
			lPool, rPool, "l", "r", c29Pairs(s6, s6, small(1)), 0, xExprs, 16)
	} else {
		qExprs := c29VVExprs(allForms, c29Clauses(false, false), c29Groups(false)[:5], c29Fills(3))
		pairTier("match-1x1-allops", "every operator form (22) x 8 matching clauses x 5 group modifiers x 3 fill modifiers on every pair of vectors of 0..1 series",
			lPool, rPool, "l", "r", c29Pairs(sets1, sets1, nil), 0, qExprs, 8)
		s5 := c29Sets(5, 0, 2, -1)
		pairTier("match-2x2s-rep", repDesc+" x 8 clauses x 7 group modifiers x 4 fills on every pair of 0..2-series vectors (5 label sets per side) with a 2-series side",
			lPool, rPool, "l", "r", c29Pairs(s5, s5, func(l, r []int) bool { return len(l) == 2 || len(r) == 2 }), 0, stdRep, 32)
	}
	// B6: label names on both sides of "__name__" in byte order (A, Zone, "0x" < __name__ < _a, a, "~z")
	// in by/without lists, on/ignoring lists and group modifier include lists.
	{
		oddAgg := append(c29OddPool("m"), c29Series{name: "n", more: [][2]string{{"A", "1"}}})
		var oddGroupings []*c29Grouping
		for _, ls := range [][]string{{"A"}, {"Zone"}, {"_a"}, {"0x"}, {"~z"}, {"A", "a"}, {"Zone", "_a"}, {"a", "A", "0x"}, {c29Name, "A"}, {"Zone", c29Name, "~z"}} {
			oddGroupings = append(oddGroupings, &c29Grouping{false, ls}, &c29Grouping{true, ls})
		}
		var oddAggExprs []*c29Expr
		for _, f := range [][2]string{{"sum", ""}, {"count", ""}, {"min", ""}, {"group", ""}, {"quantile", "0.5"}, {"topk", "1"}, {"limitk", "1"}, {"count_values", "v"}, {"count_values", "A"}} {
			for _, g := range oddGroupings {
				e := &c29Expr{Kind: "agg", Op: f[0], Grp: g}
				switch {
				case f[0] == "count_values":
					if f[1] == "A" && (g.Without || !c29HasLabel(g.Labels, "A")) && !(g.Without && !c29HasLabel(g.Labels, "A")) {
						// keep only the unambiguous collisions: by(...A...) or without(... not A ...)
					}
					if f[1] == "A" {
						continue // value label colliding with an input label: undocumented
					}
					e.HasParam, e.ParamS, e.ParamText = true, f[1], strconv.Quote(f[1])
				case f[1] != "":
					e.HasParam, e.ParamText, e.ParamF = true, f[1], c29ParseF(f[1])
				}
				oddAggExprs = append(oddAggExprs, e)
			}
		}
		vecTier("agg-odd-names", "every vector of 0..2 samples over 12 series whose label names are A, Zone, \"0x\", _a, a, \"~z\" (both sides of __name__ in byte order; two metric names) x values {1,2} x 8 aggregations x by/without over 10 label lists",
			`{__name__=~"m|n"}`, oddAgg, c29Sets(len(oddAgg), 0, 2, -1), []float64{1, 2}, oddAggExprs)

		oddClauses := []c29Clause{{false, false, nil}}
		for _, ls := range [][]string{{"A"}, {"Zone"}, {"_a"}, {"0x"}, {"~z"}, {"A", "a"}, {"Zone", "_a"}, {"a", "0x", "A"}} {
			oddClauses = append(oddClauses, c29Clause{true, false, ls}, c29Clause{true, true, ls})
		}
		oddClauses = append(oddClauses, c29Clause{true, true, []string{c29Name, "A"}}, c29Clause{true, true, []string{"_a", c29Name}}, c29Clause{true, false, []string{c29Name, "Zone"}})
		oddGroups := []c29Group{{0, nil, false}, {1, nil, false}, {1, []string{"A"}, false}, {1, []string{"_a"}, false}, {2, []string{"Zone"}, false}, {2, []string{"0x", "a"}, false}}
		oddExprs := c29VVExprs(repForms, oddClauses, oddGroups, c29Fills(2))
		lp, rp := c29OddPool("l"), c29OddPool("r")
		os2 := c29Sets(len(lp), 0, 2, -1)
		keep := func(l, r []int) bool { return len(l) <= 1 && len(r) <= 1 }
		if thorough {
			keep = func(l, r []int) bool {
				if len(l) > 1 && len(r) > 1 {
					return false
				}
				for _, i := range append(append([]int{}, l...), r...) {
					if (len(l) > 1 || len(r) > 1) && i >= 8 {
						return false
					}
				}
				return true
			}
		}
		pairTier("match-odd-names", repDesc+" x 20 matching clauses (on/ignoring over A, Zone, _a, \"0x\", \"~z\", mixed lists, with __name__) x 6 group modifiers with include lists over the same names x {none, fill(0)} on pairs of vectors over 11 series with those label names (quick: 0..1 series per side; thorough: additionally 2-series operands over the first 8 series against 0..1-series operands)",
			lp, rp, "l", "r", c29Pairs(os2, os2, keep), 0, oddExprs, 32)
	}
	// B4: metric-name handling: operands that mix two metric names (duplicate label sets once the
	// name is dropped), on(__name__) / ignoring(__name__).
	{
		np := c29If(thorough, 3, 4)
		lp := append(append([]c29Series{}, lPool[:np]...), c29Series{"k", "", "", nil}, c29Series{"k", "1", "", nil}, c29Series{"k", "1", "1", nil})
		rp := append(append([]c29Series{}, rPool[:np]...), c29Series{"q", "", "", nil}, c29Series{"q", "1", "", nil}, c29Series{"q", "1", "1", nil})
		ls := c29Sets(len(lp), 0, 2, -1)
		touch := func(s []int) bool {
			for _, i := range s {
				if i >= np {
					return true
				}
			}
			return false
		}
		forms := []c29OpForm{{"+", false}, {"==", false}, {"!=", true}, {">=", false}, {"and", false}, {"or", false}, {"unless", false}}
		groups := c29Groups(false)
		if !thorough {
			groups = groups[:5]
		}
		exprs := c29VVExprs(forms, c29Clauses(true, false), groups, c29Fills(c29If(thorough, 2, 3)))
		for _, e := range c29ScalarExprs() {
			if e.Kind != "ss" && (e.SLText == "1" || e.SRText == "1") && (e.Op == "*" || e.Op == ">=" || e.Op == "==") {
				exprs = append(exprs, e)
			}
		}
		pairTier(fmt.Sprintf("names%d", np+3), fmt.Sprintf("operands mixing metric names (l,k | r,q; %d series per side, 0..2 per operand, at least one second-name series) x 7 operator forms x 11 matching clauses incl. on(__name__), on(__name__,a), ignoring(__name__) x %d group modifiers x fills, plus vector/scalar forms", np+3, len(groups)),
			lp, rp, `{__name__=~"l|k"}`, `{__name__=~"r|q"}`, c29Pairs(ls, ls, func(l, r []int) bool { return touch(l) || touch(r) }), 0, exprs, 32)
	}
	if thorough {
		// the delayed-name-removal engine must produce the same documented results
		for _, t := range append([]*c29Tier{}, tiers...) {
			if t.Name == "agg-3mixed-v3" || t.Name == "op-values" || t.Name == "names7" {
				c := *t
				c.Name += "/delayed-name-removal"
				c.Delayed = true
				c.Desc += " (engine option EnableDelayedNameRemoval)"
				add(&c)
			}
		}
	}
	return tiers
}

// ---------------------------------------------------------------------------------------------
// driver
// ---------------------------------------------------------------------------------------------

type c29Replay struct {
	Tier  string `json:"tier"`
	Slot  int    `json:"slot"`
	Expr  int    `json:"expr"`
	Query string `json:"query"`
	Input string `json:"input"`
}

type c29Ctx struct {
	r       *vx.Run
	engines [2]*promql.Engine
	n       atomic.Int64
}

func (c *c29Ctx) engine(delayed bool) *promql.Engine {
	if delayed {
		return c.engines[1]
	}
	return c.engines[0]
}

// runBlock stores slots [from,to) of the tier in a fresh storage and evaluates every expression
// of the tier on every slot. onlyExpr >= 0 restricts to one expression (replay).
func (c *c29Ctx) runBlock(t *c29Tier, from, to, onlyExpr int) error {
	stor, err := ag_NewStorage()
	if err != nil {
		return err
	}
	defer stor.Close()
	app := stor.Appender(context.Background())
	slots := make([][]ag_Sample, 0, to-from)
	for i := from; i < to; i++ {
		ss := t.Slot(i)
		slots = append(slots, ss)
		ts := int64(i-from+1) * c29SlotMs
		for _, s := range ss {
			if _, err := app.Append(0, labels.FromMap(s.L), ts, s.V); err != nil {
				return fmt.Errorf("append %v: %w", s.L, err)
			}
		}
	}
	if err := app.Commit(); err != nil {
		return err
	}
	eng := c.engine(t.Delayed)
	r := c.r
	for k, ss := range slots {
		if r.Expired() {
			return nil
		}
		ts := int64(k+1) * c29SlotMs
		agg := c29Pick(ss, "m", "n")
		lhs := c29Pick(ss, "l", "k")
		rhs := c29Pick(ss, "r", "q")
		for ei, e := range t.Exprs {
			if onlyExpr >= 0 && ei != onlyExpr {
				continue
			}
			q := e.Text(t.ASel, t.LSel, t.RSel)
			got := ag_Instant(eng, stor, q, ts)
			exp := c29Ref(e, agg, lhs, rhs)
			sig, msg := c29Check(e, exp, got)
			cnt := c.n.Add(1)
			if sig != "" {
				sig, msg = c29Classify(e, exp, got, agg, lhs, rhs, sig, msg)
				r.Violation(sig, fmt.Sprintf("%s over %s: %s", q, ag_VecString(ss), msg),
					c29Replay{Tier: t.Name, Slot: from + k, Expr: ei, Query: q, Input: ag_VecString(ss)})
			}
			// coverage accounting
			outcome := "empty"
			switch {
			case got.Err != nil:
				outcome = "error"
			case exp.IsScalar:
				outcome = "scalar " + ag_F(got.Scalar)
			case len(got.Vector) > 0:
				// canonical order: the engine's order of groups/count_values series is unspecified
				sv := append([]ag_Sample{}, got.Vector...)
				sort.Slice(sv, func(i, j int) bool { return ag_LKey(sv[i].L) < ag_LKey(sv[j].L) })
				outcome = ag_VecString(sv)
			}
			if outcome != "empty" {
				r.Distinct("distinct_nontrivial", e.Form()+"|"+outcome)
			}
			r.Distinct("distinct_outcomes", outcome)
			r.Distinct("expression_forms", e.Form())
			if got.Err != nil {
				r.Count("matching_errors_predicted", 1)
			}
			r.SampleAt(cnt, func() any {
				return map[string]any{"tier": t.Name, "query": q, "input": ag_VecString(ss), "result": got.ag_Canon()}
			})
		}
	}
	return nil
}

// c29Classify gives known, precondition-based classes of divergence their own narrow signature.
func c29Classify(e *c29Expr, exp *c29Expect, got *ag_Outcome, agg, lhs, rhs []ag_Sample, sig, msg string) (string, string) {
	// group_right combined with a one-sided fill: does the engine's answer equal the documented
	// answer of the same expression with fill_left and fill_right exchanged?
	if e.Kind == "vv" && e.Card == 2 && (e.FillL != nil || e.FillR != nil) {
		sw := *e
		sw.FillL, sw.FillR = e.FillR, e.FillL
		if s2, _ := c29Check(&sw, c29RefVV(&sw, lhs, rhs), got); s2 == "" {
			return "binop-group-right-fill-sides-swapped", msg + " [the result is the documented result of the expression with fill_left and fill_right exchanged]"
		}
	}
	// quantile whose rank falls exactly on a sample next to (or on) an infinite sample
	if e.Kind == "agg" && e.Op == "quantile" && sig == "agg-wrong-value" {
		alt := c29RefAggAlt(e, agg, true)
		if s2, _ := c29Check(e, alt, got); s2 == "" {
			return "agg-quantile-nan-at-infinite-sample", msg + " [the result is 0*Inf=NaN from interpolating with weight 0 towards an infinite neighbour]"
		}
	}
	return sig, msg
}

func TestVerifC29(t *testing.T) {
	r := vx.Start(t, "C29", "exploration")
	defer r.Finish()
	ag_StartWatchdog(r, 90*time.Second)
	ctx := &c29Ctx{r: r}
	ctx.engines[0] = ag_NewEngine(false, 50000000)
	ctx.engines[1] = ag_NewEngine(true, 50000000)
	defer ctx.engines[0].Close()
	defer ctx.engines[1].Close()
	r.Set("rule", "one case = one generated expression evaluated as an instant query on one stored input vector (pair); the tiers list the enumerated products. distinct_nontrivial = distinct (expression form, non-empty result or error) combinations; distinct_outcomes = distinct result vectors/scalars/errors; an empty result is trivial")
	for _, a := range c29Assumptions {
		r.Assume(a)
	}
	r.Assume("trusted: util/teststorage (a real TSDB head) returns the stored samples; slots are 10 minutes apart (lookback 5m) so each instant sees one input vector")

	if r.Replay != "" {
		var rp c29Replay
		r.LoadReplay(&rp)
		for _, th := range []bool{false, true} {
			for _, tr := range c29Tiers(th) {
				if tr.Name == rp.Tier && rp.Slot < tr.NSlots && rp.Expr < len(tr.Exprs) && tr.Exprs[rp.Expr].Text(tr.ASel, tr.LSel, tr.RSel) == rp.Query {
					if err := ctx.runBlock(tr, rp.Slot, rp.Slot+1, rp.Expr); err != nil {
						t.Fatal(err)
					}
					return
				}
			}
		}
		t.Fatalf("replay: tier %q / query %q not found", rp.Tier, rp.Query)
	}

	c29SelfTest(t)

	tiers := c29Tiers(r.Thorough())
	type block struct {
		t        *c29Tier
		from, to int
	}
	var blocks []block
	tierInfo := map[string]any{}
	var total int64
	for _, tr := range tiers {
		for from := 0; from < tr.NSlots; from += tr.Block {
			to := from + tr.Block
			if to > tr.NSlots {
				to = tr.NSlots
			}
			blocks = append(blocks, block{tr, from, to})
		}
		tierInfo[tr.Name] = map[string]any{"input_slots": tr.NSlots, "expressions": len(tr.Exprs), "cases": tr.NSlots * len(tr.Exprs), "what": tr.Desc}
		total += int64(tr.NSlots) * int64(len(tr.Exprs))
	}
	r.Set("tiers", tierInfo)
	r.Set("cases_planned", total)
	var failed atomic.Value
	r.ParallelN(int64(len(blocks)), func(i int64) {
		b := blocks[i]
		if err := ctx.runBlock(b.t, b.from, b.to, -1); err != nil {
			failed.Store(err)
		}
	})
	if err, _ := failed.Load().(error); err != nil {
		t.Fatalf("harness failure: %v", err)
	}
	r.Count("evaluations", int(ctx.n.Load()))
	r.Set("values", "1 2 0 NaN +Inf -Inf")
	if !r.Expired() && r.Get("evaluations") != total {
		t.Fatalf("enumeration incomplete: %d of %d cases", r.Get("evaluations"), total)
	}
	if ctx.n.Load() > 1000 && r.Get("matching_errors_predicted") == 0 {
		t.Fatal("vacuous: no matching error was ever produced")
	}
}

// c29SelfTest shows that the comparison is not vacuous: deliberately wrong engine answers are rejected.
func c29SelfTest(t *testing.T) {
	in := []ag_Sample{
		{L: map[string]string{c29Name: "m", "a": "1"}, V: 1},
		{L: map[string]string{c29Name: "m", "a": "2"}, V: math.NaN()},
		{L: map[string]string{c29Name: "m", "a": "2", "b": "1"}, V: 2},
	}
	vec := func(s ...ag_Sample) *ag_Outcome { return &ag_Outcome{Type: "vector", Vector: s} }
	sum := &c29Expr{Kind: "agg", Op: "sum", Grp: &c29Grouping{false, []string{"a"}}}
	good := vec(ag_Sample{L: map[string]string{"a": "1"}, V: 1}, ag_Sample{L: map[string]string{"a": "2"}, V: math.NaN()})
	if sig, msg := c29Check(sum, c29RefAgg(sum, in), good); sig != "" {
		t.Fatalf("self-test: correct sum rejected: %s %s", sig, msg)
	}
	bad := vec(ag_Sample{L: map[string]string{"a": "1"}, V: 1}, ag_Sample{L: map[string]string{"a": "2"}, V: 2})
	if sig, _ := c29Check(sum, c29RefAgg(sum, in), bad); sig != "agg-wrong-value" {
		t.Fatalf("self-test: NaN-ignoring sum accepted (%q)", sig)
	}
	badl := vec(ag_Sample{L: map[string]string{"a": "1", c29Name: "m"}, V: 1}, ag_Sample{L: map[string]string{"a": "2"}, V: math.NaN()})
	if sig, _ := c29Check(sum, c29RefAgg(sum, in), badl); sig != "agg-wrong-result-labels" {
		t.Fatalf("self-test: kept metric name accepted (%q)", sig)
	}
	topk := &c29Expr{Kind: "agg", Op: "topk", HasParam: true, ParamText: "1", ParamF: 1}
	if sig, _ := c29Check(topk, c29RefAgg(topk, in), vec(in[1])); sig != "agg-k-wrong-selection" {
		t.Fatalf("self-test: topk returning NaN over 2 accepted (%q)", sig)
	}
	if sig, msg := c29Check(topk, c29RefAgg(topk, in), vec(in[2])); sig != "" {
		t.Fatalf("self-test: correct topk rejected: %s %s", sig, msg)
	}
	q := &c29Expr{Kind: "agg", Op: "quantile", HasParam: true, ParamText: "0.5", ParamF: 0.5}
	if v := c29RefAgg(q, in).Exact[0].V; v != 1 {
		t.Fatalf("self-test: reference median of {1,NaN,2} with NaN smallest = %v", v)
	}
	lhs := []ag_Sample{{L: map[string]string{c29Name: "l", "a": "1", "b": "1"}, V: 1}, {L: map[string]string{c29Name: "l", "a": "1", "b": "2"}, V: 2}}
	rhs := []ag_Sample{{L: map[string]string{c29Name: "r", "a": "1"}, V: 2}}
	add := &c29Expr{Kind: "vv", Op: "+", HasMatch: true, On: true, MLabels: []string{"a"}}
	if exp := c29RefVV(add, lhs, rhs); !exp.MustErr {
		t.Fatal("self-test: many-to-one without group_left not predicted as error")
	}
	if sig, _ := c29Check(add, c29RefVV(add, lhs, rhs), vec()); sig != "binop-missing-matching-error" {
		t.Fatalf("self-test: missing matching error accepted (%q)", sig)
	}
	add.Card = 1
	exp := c29RefVV(add, lhs, rhs)
	if exp.MustErr || len(exp.Exact) != 2 || exp.Exact[0].V != 3 || exp.Exact[1].V != 4 || exp.Exact[0].L[c29Name] != "" {
		t.Fatalf("self-test: group_left reference wrong: %+v", exp)
	}
	fr := &c29Expr{Kind: "vv", Op: "-", Card: 2, HasMatch: true, On: true, MLabels: []string{"a"}, FillL: c29F(5)}
	exp = c29RefVV(fr, nil, rhs)
	if len(exp.Exact) != 1 || exp.Exact[0].V != 3 {
		t.Fatalf("self-test: fill_left with group_right must fill the LEFT operand: %+v", exp)
	}
}
