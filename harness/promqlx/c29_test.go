package h_promqlx

import (
	"context"
	"fmt"
	"testing"
	"time"

	"github.com/prometheus/prometheus/model/labels"
)

func TestVerifC29(t *testing.T) {
	stor, err := ag_NewStorage()
	if err != nil {
		t.Fatal(err)
	}
	defer stor.Close()
	eng := ag_NewEngine(false, 1000000)
	defer eng.Close()
	app := stor.Appender(context.Background())
	N := 200
	for i := 0; i < N; i++ {
		for _, a := range []string{"", "1", "2"} {
			for _, b := range []string{"", "1"} {
				if _, err := app.Append(0, labels.FromStrings("__name__", "l", "a", a, "b", b), int64(i)*600000, float64(i%3)); err != nil {
					t.Fatal(err)
				}
				if _, err := app.Append(0, labels.FromStrings("__name__", "r", "a", a, "b", b), int64(i)*600000, float64(i%3)); err != nil {
					t.Fatal(err)
				}
			}
		}
	}
	if err := app.Commit(); err != nil {
		t.Fatal(err)
	}
	for _, q := range []string{"sum by (a) (l)", "l + on(a) group_left r", "topk(2, l)", "l"} {
		t0 := time.Now()
		n := 20000
		for i := 0; i < n; i++ {
			o := ag_Instant(eng, stor, q, int64(i%100*2)*600000)
			if i == 7 {
				fmt.Println(o.ag_Canon())
			}
		}
		fmt.Printf("%s: %v/query\n", q, time.Since(t0)/time.Duration(n))
	}
}
