package h_promqlx

// C30: rate, increase, delta, irate, idelta, resets and changes follow the documented algorithms
// (counter-reset correction, start-timestamp resets, extrapolation towards the window boundaries
// limited by 1.1 x the average sample interval and by the counter's zero point); for non-negative
// counters rate/increase are never negative and increase = rate x range.
//
// Engine E1 (input enumeration). EVERY series of <= 4 samples over candidate timestamps x a value
// alphabet (thorough: also NaN, +Inf, negative, staleness markers and native histograms) is stored
// once in a real TSDB-backed storage; every window (start, end] of a grid whose edges sit on and
// 1 ms next to (a) the sample timestamps and (b) the 1.1 x average-interval limits of the stored
// spacings is queried with all seven functions through promql.Engine and compared per series with
// promref (relative tolerance 1e-9; counts exactly). Inputs that lie EXACTLY on the 1.1 limit may
// take either side (the statement does not say whether the limit is inclusive).
// Part 2: series with start timestamps (absent / constant / previous sample's time / after the
// previous sample / equal to own time / invalid) in a storage with ST enabled: resets() and
// irate() against the start-timestamp reset rule, rate/increase non-negativity and
// increase = rate x range; an engine with start timestamps disabled must ignore them.

import (
	"fmt"
	"math"
	"strconv"
	"sync/atomic"
	"testing"

	"github.com/prometheus/prometheus/internal/verif/vx"
)

const c30Metric = "c30s"
const c30Tol = 1e-9

var c30Funcs = []string{"rate", "increase", "delta", "irate", "idelta", "resets", "changes"}

// c30Sym is one symbol of the per-sample alphabet.
type c30Sym struct {
	K int
	F float64
}

// c30Datasets: every series of 1..maxN samples over the times; series of more than fullN samples
// use only the first nShort symbols of the alphabet.
func c30Datasets(times []int64, syms []c30Sym, fullN, nShort, maxN int) []pr_Series {
	var out []pr_Series
	all := syms
	vx.Subsets(len(times), maxN, func(idx []int) bool {
		if len(idx) == 0 {
			return true
		}
		syms := all
		if len(idx) > fullN {
			syms = all[:nShort]
		}
		dims := make([]int, len(idx))
		for i := range dims {
			dims[i] = len(syms)
		}
		n := vx.ProductSize(dims)
		for k := int64(0); k < n; k++ {
			ks := vx.ProductAt(dims, k, nil)
			se := pr_Series{ID: strconv.Itoa(len(out))}
			for i, ti := range idx {
				se.Samples = append(se.Samples, pr_Sample{T: times[ti], K: syms[ks[i]].K, F: syms[ks[i]].F})
			}
			out = append(out, se)
		}
		return true
	})
	return out
}

// c30Expect is the reference verdict of fn over the window (ws, we] of series s.
// For resets/changes V..V2 is the acceptable (inclusive) range of counts.
type c30Exp struct {
	pr_Outcome
	Lo, Hi int
	Count  bool
}

func c30Expect(fn string, s []pr_Sample, ws, we int64) c30Exp {
	w := pr_Window(s, we, we-ws)
	switch fn {
	case "rate":
		return c30Exp{pr_Outcome: pr_Rate(w, ws, we, true, true)}
	case "increase":
		return c30Exp{pr_Outcome: pr_Rate(w, ws, we, true, false)}
	case "delta":
		return c30Exp{pr_Outcome: pr_Rate(w, ws, we, false, false)}
	case "irate":
		return c30Exp{pr_Outcome: pr_Instantaneous(w, true)}
	case "idelta":
		return c30Exp{pr_Outcome: pr_Instantaneous(w, false)}
	case "resets":
		n, ok := pr_Resets(w)
		return c30Exp{pr_Outcome: pr_Outcome{Present: ok}, Lo: n, Hi: n, Count: true}
	case "changes":
		lo, hi, ok := pr_Changes(w)
		return c30Exp{pr_Outcome: pr_Outcome{Present: ok}, Lo: lo, Hi: hi, Count: true}
	}
	panic(fn)
}

func (e c30Exp) String() string {
	switch {
	case !e.Present:
		return "absent"
	case e.Hist:
		return "histogram"
	case e.Count && e.Lo == e.Hi:
		return strconv.Itoa(e.Lo)
	case e.Count:
		return fmt.Sprintf("%d..%d", e.Lo, e.Hi)
	}
	s := pr_Fmt(e.V)
	for _, a := range e.Alts {
		s += " or " + pr_Fmt(a)
	}
	return s
}

// c30Check compares one result with the reference; "" = accepted.
func c30Check(e c30Exp, got []pr_Point) string {
	if !e.Present {
		if len(got) != 0 {
			return "unexpected-result"
		}
		return ""
	}
	if len(got) != 1 {
		return "missing-result"
	}
	g := got[0]
	if e.Hist != g.H {
		return "float-histogram-type-mismatch"
	}
	if e.Hist {
		return ""
	}
	if e.Count {
		if g.F != math.Trunc(g.F) || int(g.F) < e.Lo || int(g.F) > e.Hi {
			return "wrong-count"
		}
		return ""
	}
	if !e.Accepts(g.F, c30Tol) {
		return "wrong-value"
	}
	return ""
}

func c30NonNegative(w []pr_Sample) bool {
	for _, x := range w {
		if x.K != pr_F || !(x.F >= 0) || math.IsInf(x.F, 0) {
			return false
		}
	}
	return true
}

type c30Window struct {
	Ws int64 `json:"window_start_excl"`
	We int64 `json:"window_end_incl"`
}

func (w c30Window) query(fn string) string {
	return fmt.Sprintf("%s(%s[%s])", fn, c30Metric, pr_Dur(w.We-w.Ws))
}

type c30Replay struct {
	Part   string    `json:"part"` // "plain" or "st"
	Fn     string    `json:"fn"`
	Win    c30Window `json:"window"`
	UseST  bool      `json:"engine_use_start_timestamps"`
	Query  string    `json:"query"`
	EvalT  int64     `json:"eval_time"`
	Wide   bool      `json:"storage_ignores_time_bounds"`
	Series pr_Series `json:"series"`
}

// c30Results runs all functions for one window: fn -> series -> points.
func c30Results(eng pr_Eng, stor pr_Stor, w c30Window) (map[string]pr_Result, error) {
	out := map[string]pr_Result{}
	for _, fn := range c30Funcs {
		res := pr_QueryInstant(eng, stor, w.query(fn), w.We, 0)
		if res.Err != nil {
			return nil, fmt.Errorf("%s at %d: %w", w.query(fn), w.We, res.Err)
		}
		out[fn] = res
	}
	return out, nil
}

// c30Invariants checks, on the engine's own results, non-negativity and increase = rate x range.
func c30Invariants(w c30Window, win []pr_Sample, rate, incr []pr_Point) (string, string) {
	if !c30NonNegative(win) || len(rate) != 1 || len(incr) != 1 || rate[0].H || incr[0].H {
		return "", ""
	}
	rv, iv := rate[0].F, incr[0].F
	if rv < 0 || math.IsNaN(rv) {
		return "rate-negative-for-nonnegative-counter", fmt.Sprintf("rate = %s", pr_Fmt(rv))
	}
	if iv < 0 || math.IsNaN(iv) {
		return "increase-negative-for-nonnegative-counter", fmt.Sprintf("increase = %s", pr_Fmt(iv))
	}
	secs := float64(w.We-w.Ws) / 1000
	if !pr_CloseFloat(iv, rv*secs, c30Tol) {
		return "increase-differs-from-rate-times-range", fmt.Sprintf("increase = %s, rate = %s, range = %ss", pr_Fmt(iv), pr_Fmt(rv), pr_Fmt(secs))
	}
	return "", ""
}

// ---- start timestamps -------------------------------------------------------------------------

// c30STReset: is there a start-timestamp reset between prev and curr? The current sample's start
// timestamp is usable when it is known (non-zero) and lies before the sample itself. It signals a
// reset when it is later than the previous sample, or when it equals the previous sample's time and
// the previous sample itself carries a usable start timestamp (a delta stream; with an unknown
// previous start this is a cumulative stream whose start was unknown).
func c30STReset(prev, curr pr_Sample) bool {
	if curr.ST == 0 || curr.ST >= curr.T {
		return false
	}
	if curr.ST > prev.T {
		return true
	}
	if curr.ST < prev.T {
		return false
	}
	return prev.ST != 0 && prev.ST < prev.T
}

var c30STOnlyResets atomic.Int64 // resets signalled by the start timestamp alone (evidence)

func c30ExpectST(fn string, s []pr_Sample, ws, we int64) (c30Exp, bool) {
	w := pr_Window(s, we, we-ws)
	switch fn {
	case "resets":
		if len(w) == 0 {
			return c30Exp{Count: true}, true
		}
		n := 0
		for i := 1; i < len(w); i++ {
			if w[i].F < w[i-1].F || c30STReset(w[i-1], w[i]) {
				n++
			}
			if !(w[i].F < w[i-1].F) && c30STReset(w[i-1], w[i]) {
				c30STOnlyResets.Add(1)
			}
		}
		return c30Exp{pr_Outcome: pr_Outcome{Present: true}, Lo: n, Hi: n, Count: true}, true
	case "irate":
		if len(w) < 2 {
			return c30Exp{}, true
		}
		prev, last := w[len(w)-2], w[len(w)-1]
		v := last.F - prev.F
		if last.F < prev.F || c30STReset(prev, last) {
			v = last.F
		}
		return c30Exp{pr_Outcome: pr_Outcome{Present: true, V: v / (float64(last.T-prev.T) / 1000)}}, true
	case "delta", "idelta", "changes":
		// gauge functions: start timestamps play no role
		return c30Expect(fn, s, ws, we), true
	}
	return c30Exp{}, false // rate / increase with start timestamps: only the invariants are checked
}

func c30STDatasets(times []int64, vals []float64, maxN int) []pr_Series {
	// ST choices per sample, relative to the sample at index i (time t, previous sample time p):
	// 0 absent; 1 constant (1); 2 = p (previous sample's time; first sample: t-500);
	// 3 = p+1 (just after the previous sample); 4 = t-1; 5 = t (own time); 6 = t+1 (invalid);
	// 7 = p-1 (before the previous sample)
	const nST = 8
	var out []pr_Series
	vx.Subsets(len(times), maxN, func(idx []int) bool {
		if len(idx) == 0 {
			return true
		}
		dims := make([]int, 0, 2*len(idx))
		for range idx {
			dims = append(dims, len(vals), nST)
		}
		n := vx.ProductSize(dims)
		for k := int64(0); k < n; k++ {
			ks := vx.ProductAt(dims, k, nil)
			se := pr_Series{ID: strconv.Itoa(len(out))}
			for i, ti := range idx {
				t := times[ti]
				p := t - 500
				if i > 0 {
					p = times[idx[i-1]]
				}
				var st int64
				switch ks[2*i+1] {
				case 1:
					st = 1
				case 2:
					st = p
				case 3:
					st = p + 1
				case 4:
					st = t - 1
				case 5:
					st = t
				case 6:
					st = t + 1
				case 7:
					st = p - 1
				}
				se.Samples = append(se.Samples, pr_Sample{T: t, K: pr_F, F: vals[ks[2*i]], ST: st})
			}
			out = append(out, se)
		}
		return true
	})
	return out
}

func TestVerifC30(t *testing.T) {
	r := vx.Start(t, "C30", "exploration")
	defer r.Finish()
	engPlain := pr_NewEngine(0, 60000, false)
	defer engPlain.Close()
	engST := pr_NewEngine(0, 60000, true)
	defer engST.Close()

	if r.Replay != "" {
		var rp c30Replay
		r.LoadReplay(&rp)
		stor, err := pr_NewStorage(c30Metric, []pr_Series{rp.Series}, rp.Part == "st")
		if err != nil {
			t.Fatal(err)
		}
		defer stor.Close()
		eng := engPlain
		if rp.UseST {
			eng = engST
		}
		var q pr_Stor = stor
		if rp.Wide {
			q = pr_Wide(stor)
		}
		res, err := c30Results(eng, q, rp.Win)
		if err != nil {
			r.Violation("query-error", err.Error(), rp)
			return
		}
		for _, fn := range c30Funcs {
			e := c30Expect(fn, rp.Series.Samples, rp.Win.Ws, rp.Win.We)
			ok := true
			if rp.Part == "st" && rp.UseST {
				e, ok = c30ExpectST(fn, rp.Series.Samples, rp.Win.Ws, rp.Win.We)
			}
			got := res[fn].Series[rp.Series.ID]
			fmt.Printf("replay %s at %d: expected %s (modelled=%v) got %s\n", rp.Win.query(fn), rp.Win.We, e, ok, pr_PointsString(got))
			if ok {
				if d := c30Check(e, got); d != "" {
					r.Violation(fn+"-"+d, fmt.Sprintf("%s: expected %s got %s", rp.Win.query(fn), e, pr_PointsString(got)), rp)
				}
			}
		}
		win := pr_Window(rp.Series.Samples, rp.Win.We, rp.Win.We-rp.Win.Ws)
		if sig, msg := c30Invariants(rp.Win, win, res["rate"].Series[rp.Series.ID], res["increase"].Series[rp.Series.ID]); sig != "" {
			r.Violation(sig, msg, rp)
		}
		return
	}

	// ---- self-test: the reference reproduces hand-computed values and rejects wrong ones -------
	{
		s := []pr_Sample{{T: 2000, F: 1}, {T: 3000, F: 5}}
		// window (1000, 4000]: both ends within 1.1 s -> full extrapolation, but the zero point of
		// the counter is 0.25 s before the first sample: factor (1+0.25+1)/1
		e := c30Expect("increase", s, 1000, 4000)
		if !e.Present || !pr_CloseFloat(e.V, 4*2.25, 1e-12) || e.Flags&pr_FlZeroClamp == 0 {
			t.Fatalf("self-test: increase reference wrong: %+v", e)
		}
		// delta has no zero point: factor 3
		if d := c30Expect("delta", s, 1000, 4000); !pr_CloseFloat(d.V, 12, 1e-12) {
			t.Fatalf("self-test: delta reference wrong: %+v", d)
		}
		// window (899, 4101]: both ends 1.101 s away -> half an interval each; zero point still nearer
		if e2 := c30Expect("rate", s, 899, 4101); !pr_CloseFloat(e2.V, 4*(1+0.25+0.5)/3.202, 1e-12) || e2.Flags&pr_FlEndLimited == 0 {
			t.Fatalf("self-test: rate reference wrong: %+v", e2)
		}
		// exactly on the limit: two acceptable values
		if e3 := c30Expect("delta", s, 900, 4000); len(e3.Alts) != 1 || e3.Flags&pr_FlOnLimit == 0 {
			t.Fatalf("self-test: on-limit case not recognised: %+v", e3)
		}
		if c30Check(e, []pr_Point{{T: 4000, F: 12}}) != "wrong-value" || c30Check(e, nil) != "missing-result" ||
			c30Check(e, []pr_Point{{T: 4000, F: 9 * (1 + 1e-8)}}) != "wrong-value" || c30Check(e, []pr_Point{{T: 4000, F: 9 * (1 + 1e-11)}}) != "" {
			t.Fatal("self-test: comparator wrong")
		}
		rs := []pr_Sample{{T: 1, F: 5}, {T: 2, F: 1}, {T: 3, F: 1}, {T: 4, F: 0}}
		if x := c30Expect("resets", rs, 0, 10); x.Lo != 2 {
			t.Fatalf("self-test: resets reference wrong: %+v", x)
		}
		if x := c30Expect("changes", rs, 0, 10); x.Lo != 2 || x.Hi != 2 {
			t.Fatalf("self-test: changes reference wrong: %+v", x)
		}
		if x := c30Expect("irate", rs, 0, 3); !pr_CloseFloat(x.V, 0, 0) {
			t.Fatalf("self-test: irate reference wrong: %+v", x)
		}
		if x := c30Expect("irate", rs, 0, 2); !pr_CloseFloat(x.V, 1000, 1e-12) {
			t.Fatalf("self-test: irate reset reference wrong: %+v", x)
		}
		if sig, _ := c30Invariants(c30Window{0, 2000}, s[:0], []pr_Point{{F: 1}}, []pr_Point{{F: 2.1}}); sig == "" {
			t.Fatal("self-test: increase != rate x range accepted")
		}
		if !c30STReset(pr_Sample{T: 1000}, pr_Sample{T: 2000, ST: 1500}) || c30STReset(pr_Sample{T: 1000}, pr_Sample{T: 2000, ST: 1000}) ||
			!c30STReset(pr_Sample{T: 1000, ST: 500}, pr_Sample{T: 2000, ST: 1000}) || c30STReset(pr_Sample{T: 1000, ST: 500}, pr_Sample{T: 2000, ST: 500}) {
			t.Fatal("self-test: start-timestamp reset rule wrong")
		}
	}

	// ---- part 1: no start timestamps ----------------------------------------------------------
	times := []int64{1000, 2000, 2400, 2500, 3000}
	syms := []c30Sym{{pr_F, 0}, {pr_F, 1}, {pr_F, 2}, {pr_F, 5}}
	nShort := 4
	if r.Thorough() {
		syms = append(syms, c30Sym{pr_F, -1}, c30Sym{pr_S, 0}, c30Sym{pr_F, math.NaN()}, c30Sym{pr_F, math.Inf(1)}, c30Sym{pr_H, 1}, c30Sym{pr_H, 3})
		nShort = 6
	}
	data := c30Datasets(times, syms, 3, nShort, 4)
	// window edges: on / next to sample times and on / next to the 1.1 x average-interval limits
	// of the spacings 1000 (1100), 500 (550), 400 (440), 2000/3 (733.3: not hit exactly), 2000 (2200)
	starts := []int64{-100, 899, 900, 901, 999, 1000, 1449, 1450, 1451, 1560, 1950, 1999, 2000, 2399}
	ends := []int64{2500, 2840, 2999, 3000, 3001, 3050, 3549, 3550, 3551, 4099, 4100, 4101, 5200}
	if r.Quick() {
		starts = []int64{-100, 899, 900, 901, 1000, 1449, 1450, 1451, 1999, 2000}
		ends = []int64{2999, 3000, 3001, 3549, 3550, 3551, 4099, 4100, 4101}
	}
	var wins []c30Window
	for _, ws := range starts {
		for _, we := range ends {
			wins = append(wins, c30Window{ws, we})
		}
	}
	stor, err := pr_NewStorage(c30Metric, data, false)
	if err != nil {
		t.Fatal(err)
	}
	var evals, present, invChecked atomic.Int64
	var flagCount [7]atomic.Int64
	runPart := func(part string, stor pr_Stor, data []pr_Series, wins []c30Window) {
		// work item = (window, engine, storage as is / storage returning all samples)
		wideStor := pr_Wide(stor)
		r.ParallelN(int64(4*len(wins)), func(i int64) {
			w := wins[i/4]
			useST := i%2 == 1
			wide := i%4 >= 2
			eng := engPlain
			if useST {
				eng = engST
			}
			q := stor
			if wide {
				q = wideStor
			}
			res, err := c30Results(eng, q, w)
			if err != nil {
				r.Violation("query-error", err.Error(), c30Replay{Part: part, Win: w, UseST: useST, Wide: wide, Series: data[0]})
				return
			}
			var fl [7]int64
			np, ni := 0, 0
			for k := range data {
				se := &data[k]
				rp := func(fn string) c30Replay {
					return c30Replay{Part: part, Fn: fn, Win: w, UseST: useST, Wide: wide, Query: w.query(fn), EvalT: w.We, Series: *se}
				}
				for _, fn := range c30Funcs {
					e := c30Expect(fn, se.Samples, w.Ws, w.We)
					modelled := true
					if part == "st" && useST {
						e, modelled = c30ExpectST(fn, se.Samples, w.Ws, w.We)
					}
					if !modelled {
						continue
					}
					got := res[fn].Series[se.ID]
					if d := c30Check(e, got); d != "" {
						sig := fn + "-" + d
						if part == "st" {
							sig = "st-" + sig
							if !useST {
								sig = "st-disabled-" + fn + "-" + d
							}
						}
						r.Violation(sig, fmt.Sprintf("%s at %d (engine UseStartTimestamps=%v) over %s: expected %s got %s", w.query(fn), w.We, useST, vx.J(se.Samples), e, pr_PointsString(got)), rp(fn))
					}
					if e.Present {
						np++
						for b := 0; b < 7; b++ {
							if e.Flags&(1<<b) != 0 {
								fl[b]++
							}
						}
						if !useST && !wide {
							r.Distinct("distinct_nontrivial", fmt.Sprintf("%s|%s|%d|%s", part, fn, e.Flags, e))
							r.Distinct("distinct_outcomes", e.String())
						}
					}
				}
				win := pr_Window(se.Samples, w.We, w.We-w.Ws)
				if sig, msg := c30Invariants(w, win, res["rate"].Series[se.ID], res["increase"].Series[se.ID]); sig != "" {
					if part == "st" {
						sig = "st-" + sig
					}
					r.Violation(sig, fmt.Sprintf("window (%d,%d] (engine UseStartTimestamps=%v) over %s: %s", w.Ws, w.We, useST, vx.J(se.Samples), msg), rp("increase"))
				} else if c30NonNegative(win) && len(win) >= 2 {
					ni++
				}
			}
			for _, fn := range c30Funcs {
				known := 0
				for k := range data {
					if _, ok := res[fn].Series[data[k].ID]; ok {
						known++
					}
				}
				if known != len(res[fn].Series) || res[fn].Dup != "" {
					r.Violation("unknown-or-duplicate-series-in-result", w.query(fn), c30Replay{Part: part, Fn: fn, Win: w, UseST: useST, Series: data[0]})
				}
			}
			evals.Add(int64(len(data) * len(c30Funcs)))
			present.Add(int64(np))
			invChecked.Add(int64(ni))
			for b := range fl {
				flagCount[b].Add(fl[b])
			}
			r.SampleAt(i, func() any {
				se := data[len(data)*2/3]
				m := map[string]any{"part": part, "window": w, "engine_use_start_timestamps": useST, "series_in_storage": len(data), "example_series": se}
				for _, fn := range c30Funcs {
					m[w.query(fn)] = fmt.Sprintf("expected %s got %s", c30Expect(fn, se.Samples, w.Ws, w.We), pr_PointsString(res[fn].Series[se.ID]))
				}
				return m
			})
		})
	}
	runPart("plain", stor, data, wins)
	stor.Close()

	// ---- part 2: start timestamps -------------------------------------------------------------
	stTimes := []int64{1000, 2000, 2500, 3000}
	stVals := vx.Pick(r, []float64{1, 2}, []float64{0, 1, 2})
	stData := c30STDatasets(stTimes, stVals, vx.Pick(r, 2, 3))
	stStor, err := pr_NewStorage(c30Metric, stData, true)
	if err != nil {
		t.Fatal(err)
	}
	var stWins []c30Window
	for _, ws := range []int64{0, 999, 1000, 1450, 1999, 2000} {
		for _, we := range []int64{2500, 3000, 3001, 3550, 4101} {
			stWins = append(stWins, c30Window{ws, we})
		}
	}
	before := evals.Load()
	runPart("st", stStor, stData, stWins)

	// ---- part 3: the same functions inside RANGE queries ---------------------------------------
	// A range query re-uses the sample (and start-timestamp) buffers of a series from step to step.
	// With step >= range consecutive windows share no sample, with step < range they overlap: every
	// step must equal the instant query at that time, with start timestamps stored, engine option on/off.
	type rs struct{ rng, step int64 }
	var rangeEvals atomic.Int64
	rsList := []rs{{500, 500}, {500, 1000}, {1000, 1000}, {400, 500}, {1000, 500}, {1500, 500}}
	type item struct {
		fn    string
		x     rs
		useST bool
	}
	var items []item
	for _, fn := range c30Funcs {
		for _, x := range rsList {
			for _, u := range []bool{true, false} {
				items = append(items, item{fn, x, u})
			}
		}
	}
	r.ParallelN(int64(len(items)), func(i int64) {
		it := items[i]
		eng := engPlain
		if it.useST {
			eng = engST
		}
		q := fmt.Sprintf("%s(%s[%s])", it.fn, c30Metric, pr_Dur(it.x.rng))
		const start, end = 1000, 3500
		rres := pr_QueryRange(eng, stStor, q, start, end, it.x.step, 0)
		if rres.Err != nil {
			r.Violation("query-error", fmt.Sprintf("%s range [%d,%d] step %d: %v", q, start, end, it.x.step, rres.Err), c30Replay{Part: "st-range", Fn: it.fn, Query: q, UseST: it.useST, Series: stData[0]})
			return
		}
		for t := int64(start); t <= end; t += it.x.step {
			ires := pr_QueryInstant(eng, stStor, q, t, 0)
			if ires.Err != nil {
				r.Violation("query-error", fmt.Sprintf("%s at %d: %v", q, t, ires.Err), c30Replay{Part: "st-range", Fn: it.fn, Query: q, EvalT: t, UseST: it.useST, Series: stData[0]})
				return
			}
			rangeEvals.Add(1)
			for k := range stData {
				id := stData[k].ID
				var at []pr_Point
				for _, p := range rres.Series[id] {
					if p.T == t {
						at = append(at, p)
					}
				}
				if !pr_SamePoints(at, ires.Series[id]) {
					r.Violation("st-range-step-differs-from-instant/"+it.fn, fmt.Sprintf("%s over [%d,%d] step %d (engine UseStartTimestamps=%v), series %s: at step time %d the range query gives %s, the instant query %s", q, start, end, it.x.step, it.useST, vx.J(stData[k].Samples), t, pr_PointsString(at), pr_PointsString(ires.Series[id])),
						c30Replay{Part: "st-range", Fn: it.fn, Query: q, EvalT: t, UseST: it.useST, Win: c30Window{t - it.x.rng, t}, Series: stData[k]})
					return
				}
			}
		}
	})
	r.Count("range_vs_instant_steps_start_timestamp_part", int(rangeEvals.Load()))
	stStor.Close()

	r.Count("evaluations", int(evals.Load()))
	r.Count("evaluations_start_timestamp_part", int(evals.Load()-before))
	r.Count("results_present", int(present.Load()))
	r.Count("invariant_checks_nonnegative_counter", int(invChecked.Load()))
	r.Count("resets_signalled_by_start_timestamp_only", int(c30STOnlyResets.Load()))
	for b, name := range []string{"start_limited_to_half_interval", "end_limited_to_half_interval", "zero_point_clamp", "counter_reset_corrected", "exactly_on_1.1_limit", "extrapolated_to_window_start", "extrapolated_to_window_end"} {
		r.Count("branch_"+name, int(flagCount[b].Load()))
	}
	r.Set("series_plain", len(data))
	r.Set("series_with_start_timestamps", len(stData))
	r.Set("windows_plain", len(wins))
	r.Set("windows_st", len(stWins))
	r.Set("sample_times_ms", times)
	r.Set("alphabet_size_per_sample", len(syms))
	r.Set("rule", fmt.Sprintf("part 1: every series of 1..4 samples over timestamps %v x %d symbols per sample (4-sample series: the first %d symbols), every window (start,end] with start in %v and end in %v, each of %v evaluated by two engines (start timestamps off/on) against the storage as is and against a wrapper that ignores time bounds (returns all samples); part 2: every series of <=%d samples over %v x values %v x 8 start-timestamp choices in an ST-enabled storage; symbols: 0 1 2 5 [thorough: -1 stale NaN +Inf hist(1) hist(3)]; evaluations = (window, engine, storage mode, function, series) comparisons; distinct_nontrivial = distinct (function, reference branches taken, expected value) with a result present; distinct_outcomes = distinct expected values", times, len(syms), nShort, starts, ends, c30Funcs, vx.Pick(r, 2, 3), stTimes, stVals))
	r.Assume("inputs whose distance to a window boundary equals 1.1 x the average interval exactly may take either side of the limit")
	r.Assume("NaN followed by NaN may or may not count as a change")
	r.Assume("rate/increase WITH usable start timestamps: only non-negativity and increase = rate x range are checked (their use of the first sample's start timestamp as zero point is not documented)")
	if !r.Expired() && r.Violations() == 0 {
		for b := 0; b < 7; b++ {
			if flagCount[b].Load() == 0 {
				t.Fatalf("vacuous run: reference branch %d never taken", b)
			}
		}
		if invChecked.Load() == 0 || present.Load() == 0 || c30STOnlyResets.Load() == 0 {
			t.Fatal("vacuous run")
		}
	}
}
