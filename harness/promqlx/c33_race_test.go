package h_promqlx

// C33, concurrent half: free-running concurrent evaluation under the race detector.
// This is SAMPLING, not model checking (see c33_test.go).

import (
	"fmt"
	"os"
	"strconv"
	"strings"
	"sync"
	"sync/atomic"
	"testing"
	"time"

	"github.com/prometheus/prometheus/internal/verif/vx"
)

// ---------------------------------------------------------------------------------------------
// race part: free-running concurrent evaluation (SAMPLING, not model checking)
// ---------------------------------------------------------------------------------------------

func TestVerifC33Race(t *testing.T) {
	r := vx.Start(t, "C33", "exploration")
	defer r.Finish()
	ag_StartWatchdog(r, 90*time.Second)
	if r.Replay != "" {
		return
	}
	stor, err := c33BuildStorage(nil)
	if err != nil {
		t.Fatal(err)
	}
	defer stor.Close()
	items := c33PairPool(r.Thorough())
	base := make([]string, len(items))
	for i, it := range items {
		eng := ag_NewEngine(false, 50000000)
		base[i] = c33CanonSorted(c33Run(eng, stor, it.Q, it.M))
		eng.Close()
	}
	eng := ag_NewEngine(false, 50000000)
	defer eng.Close()
	workers := 4
	rounds := vx.Pick(r, 2, 8)
	var wg sync.WaitGroup
	var n atomic.Int64
	for w := 0; w < workers; w++ {
		wg.Add(1)
		go func(w int) {
			defer wg.Done()
			for round := 0; round < rounds; round++ {
				for k := range items {
					if r.Expired() {
						return
					}
					// every worker walks the pool with its own stride so that different queries overlap
					i := (k*(2*w+1) + w*7 + round) % len(items)
					o := c33Run(eng, stor, items[i].Q, items[i].M)
					n.Add(1)
					c33CheckOne(r, items[i].Q, items[i].M, 0, o)
					if got := c33CanonSorted(o); got != base[i] {
						r.Violation("result-depends-on-concurrent-queries", fmt.Sprintf("%s (%s) evaluated concurrently with other queries differs from its serial result:\n concurrent: %s\n serial:     %s", items[i].Q, items[i].M, c33Trunc(got), c33Trunc(base[i])),
							c33Replay{Kind: "single", Query: items[i].Q, Mode: &items[i].M})
					}
				}
			}
		}(w)
	}
	wg.Wait()
	r.Count("concurrent_sampled_evaluations", int(n.Load()))
	r.Count("evaluations", int(n.Load()))
	r.Set("concurrent_pass", fmt.Sprintf("SAMPLING ONLY: %d goroutines x %d rounds over the %d-item independence pool in one engine, free-running under the Go race detector; no schedule is enumerated", workers, rounds, len(items)))
	// race reports go to the file named by GORACE log_path (set by the check spec)
	if lp := c33RaceLogPath(); lp != "" {
		p := lp + "." + strconv.Itoa(os.Getpid())
		if b, err := os.ReadFile(p); err == nil && len(b) > 0 {
			rep := string(b)
			if len(rep) > 3000 {
				rep = rep[:3000]
			}
			if strings.Contains(rep, "DATA RACE") {
				r.Violation("data-race-during-concurrent-evaluation", rep, c33Replay{Kind: "single"})
			}
			os.Remove(p)
		}
	}
}

func c33RaceLogPath() string {
	for _, kv := range strings.Fields(os.Getenv("GORACE")) {
		if strings.HasPrefix(kv, "log_path=") {
			return strings.TrimPrefix(kv, "log_path=")
		}
	}
	return ""
}
