package h_promqlx

// C33: query evaluation never fails internally; results are independent of other queries
// evaluated in the same engine.
//
// Part 1 (totality, E1 input enumeration): a pool of queries generated from a small grammar --
// every function of parser.Functions applied to plausible and implausible arguments, every
// aggregation and binary operator over float / histogram / mixed operands, selectors with offset
// and @, subqueries, duration expressions, two-level compositions, type-incorrect forms -- is
// evaluated through the public engine API as instant queries at several instants and as range
// queries with several (start, end, step), on two engine configurations, over stored data that
// mixes floats (NaN, +-Inf, extremes), native histograms (exponential, custom buckets, gauge,
// resets, NaN sums), staleness markers and type changes. No call may panic and no error may be
// of the internal / runtime-fault class.
//
// Part 2 (independence, sequential composition decided exhaustively): for EVERY ordered pair
// (A;B) of a pool of about 60 (query, mode) items, A then B are run in one engine with the
// engine's package-level sync.Pools forced into their most re-use-happy regime (one P, no GC
// between A and B, pools emptied before A), and B's complete outcome must equal B's outcome in a
// fresh engine with empty pools.
//
// Truly concurrent evaluation is only sampled (TestVerifC33Race, free-running goroutines under
// the race detector); that half of the statement is NOT model checked.

import (
	"context"
	"fmt"
	"math"
	"regexp"
	"runtime"
	"runtime/debug"
	"sort"
	"strings"
	"sync"
	"sync/atomic"
	"testing"
	"time"

	"github.com/prometheus/prometheus/internal/verif/histmodel"
	"github.com/prometheus/prometheus/internal/verif/vx"
	"github.com/prometheus/prometheus/model/histogram"
	"github.com/prometheus/prometheus/model/labels"
	"github.com/prometheus/prometheus/model/value"
	"github.com/prometheus/prometheus/promql"
	"github.com/prometheus/prometheus/promql/parser"
	"github.com/prometheus/prometheus/util/teststorage"
)

// ---------------------------------------------------------------------------------------------
// stored data
// ---------------------------------------------------------------------------------------------

const (
	c33StepMs = 30000
	c33Points = 21 // t = 0 .. 600s
)

func c33BuildStorage(r *vx.Run) (*teststorage.TestStorage, error) {
	stor, err := ag_NewStorage()
	if err != nil {
		return nil, err
	}
	app := stor.Appender(context.Background())
	rejected := 0
	addF := func(l labels.Labels, t int64, v float64) {
		if _, err := app.Append(0, l, t, v); err != nil {
			rejected++
		}
	}
	addH := func(l labels.Labels, t int64, h *histogram.FloatHistogram) {
		if _, err := app.AppendHistogram(0, l, t, nil, h.Copy()); err != nil {
			rejected++
		}
	}
	ls := labels.FromStrings
	stale := math.Float64frombits(value.StaleNaN)
	shapes := histmodel.Shapes()
	var exp, cus []histmodel.Shape
	byName := map[string]histmodel.Shape{}
	for _, s := range shapes {
		if s.Model.Custom {
			cus = append(cus, s)
		} else {
			exp = append(exp, s)
		}
		byName[strings.SplitN(s.Name, "/", 2)[0]] = s
	}
	// a series whose only sample is one hour before the window
	addF(ls("__name__", "old", "a", "1"), -3600000, 1)
	// series whose chunk spans the whole window but that have NO sample in the (lookback-extended)
	// range of a selector evaluated late in the window: only a staleness marker / nothing at all
	addF(ls("__name__", "gone", "a", "1"), 0, 1)
	addF(ls("__name__", "gone", "a", "1"), 30000, stale)
	addF(ls("__name__", "gone", "a", "1"), 630000, 5)
	addF(ls("__name__", "gone", "a", "2"), 0, 1)
	addF(ls("__name__", "gone", "a", "2"), 1200000, 2)
	specials := []float64{0, -1, math.NaN(), math.Inf(1), math.Inf(-1), 1e308, math.Copysign(0, -1), 5e-324, 1, 1, -1e308}
	counter := []string{"e01b-s0-one", "e02-s0-two", "e03-s0-grown", "e03b-s0-grown-more"}
	for i := 0; i < c33Points; i++ {
		t := int64(i) * c33StepMs
		fi := float64(i)
		// floats
		v := fi * 10
		if i >= 10 {
			v = (fi - 10) * 7 // counter reset
		}
		addF(ls("__name__", "f", "a", "1"), t, v)
		addF(ls("__name__", "f", "a", "2"), t, specials[i%len(specials)])
		switch {
		case i == 8 || i == 9:
			addF(ls("__name__", "f", "a", "3"), t, stale)
		case i == 10 || i == 11:
		default:
			addF(ls("__name__", "f", "a", "3"), t, 1+fi/4)
		}
		addF(ls("__name__", "g", "a", "1"), t, 2)
		addF(ls("__name__", "g", "a", "2", "b", "x"), t, float64(i%3))
		addF(ls("__name__", "metric.dot", "a", "1"), t, fi)
		// native histograms
		addH(ls("__name__", "h", "a", "1"), t, byName[counter[i%len(counter)]].Float)
		addH(ls("__name__", "h", "a", "2"), t, exp[i%len(exp)].Float)
		addH(ls("__name__", "h", "a", "3"), t, exp[(i+c33Points)%len(exp)].Float)
		addH(ls("__name__", "h", "a", "4"), t, cus[i%len(cus)].Float)
		if i == 12 {
			addH(ls("__name__", "h", "a", "5"), t, &histogram.FloatHistogram{Sum: stale})
		} else {
			addH(ls("__name__", "h", "a", "5"), t, byName["e30-gauge"].Float)
		}
		// mixed float / histogram series
		if i < 7 || i >= 14 {
			addF(ls("__name__", "mx", "a", "1"), t, fi)
		} else {
			addH(ls("__name__", "mx", "a", "1"), t, byName["e02-s0-two"].Float)
		}
		if i%2 == 0 {
			addH(ls("__name__", "mx", "a", "2"), t, byName["e08-s1"].Float)
		} else {
			addH(ls("__name__", "mx", "a", "2"), t, byName["c01"].Float)
		}
		addF(ls("__name__", "mx", "a", "3"), t, fi-5)
		// classic buckets, well formed and malformed
		addF(ls("__name__", "b", "le", "1"), t, fi)
		addF(ls("__name__", "b", "le", "2"), t, 2*fi)
		addF(ls("__name__", "b", "le", "+Inf"), t, 3*fi)
		addH(ls("__name__", "b", "a", "1"), t, byName["e03-s0-grown"].Float) // native and classic under one name
		addF(ls("__name__", "b2", "le", "1"), t, 5)
		addF(ls("__name__", "b2", "le", "1.0"), t, 4)
		addF(ls("__name__", "b2", "le", "abc"), t, 1)
		addF(ls("__name__", "b2", "le", "2"), t, math.NaN())
		addF(ls("__name__", "b2", "le", "+Inf"), t, 3)
		addF(ls("__name__", "b3", "le", "1"), t, 1) // no +Inf bucket
		// info metrics
		addF(ls("__name__", "target_info", "job", "j", "instance", "i", "ver", "1"), t, 1)
		if i > 10 {
			addF(ls("__name__", "target_info", "job", "j", "instance", "i", "ver", "2"), t, 1)
		}
		addF(ls("__name__", "m", "job", "j", "instance", "i"), t, fi)
		addF(ls("__name__", "m", "job", "j", "instance", "k"), t, -fi)
	}
	if err := app.Commit(); err != nil {
		stor.Close()
		return nil, err
	}
	if r != nil {
		r.Count("samples_rejected_by_storage", rejected)
	}
	return stor, nil
}

// ---------------------------------------------------------------------------------------------
// query pool
// ---------------------------------------------------------------------------------------------

type c33Gen struct {
	seen map[string]bool
	out  []string
	fn   map[string]string // query -> function it was generated for ("" otherwise)
}

func (g *c33Gen) add(q string) { g.addFn(q, "") }

func (g *c33Gen) addFn(q, fn string) {
	if g.seen[q] {
		if fn != "" && g.fn[q] == "" {
			g.fn[q] = fn
		}
		return
	}
	g.seen[q] = true
	g.out = append(g.out, q)
	if fn != "" {
		g.fn[q] = fn
	}
}

func c33Candidates(t parser.ValueType, thorough bool) []string {
	switch t {
	case parser.ValueTypeVector:
		c := []string{"f", "h", "mx", "b"}
		if thorough {
			c = append(c, `{__name__=~".+"}`, "none", "vector(1)", "-h", "f offset 1m", "sum by (a) (h)", "b2", "m", `{"metric.dot"}`, "old")
		} else {
			c = append(c, `{__name__=~".+"}`, "none")
		}
		return c
	case parser.ValueTypeMatrix:
		c := []string{"f[2m]", "h[2m]", "mx[5m]"}
		if thorough {
			c = append(c, "f[10m]", "h[10m]", "h[10m:1m]", "none[1m]", "f[1s]", `{__name__=~".+"}[5m]`, "mx[10m:30s]", "b[2m]", "f[2m] offset 1m", "h[31s]")
		} else {
			c = append(c, "h[10m:1m]", `{__name__=~".+"}[5m]`, "none[1m]")
		}
		return c
	case parser.ValueTypeScalar:
		c := []string{"1", "0.5", "NaN"}
		if thorough {
			c = append(c, "0", "-1", "Inf", "-Inf", "1e308", "2", "scalar(f)", "time()", "scalar(h)", "1e-320")
		} else {
			c = append(c, "-1", "Inf", "scalar(f)")
		}
		return c
	case parser.ValueTypeString:
		c := []string{`"a"`, `"le"`, `"("`}
		if thorough {
			c = append(c, `""`, `"__name__"`, `"(.*)"`, `"$1"`, `"1a"`, `"\xff"`, `"x$1y"`, `"(?P<a>.)"`)
		} else {
			c = append(c, `""`, `"(.*)"`, `"$1"`)
		}
		return c
	}
	return nil
}

// c33Wrong returns an argument of a type other than t.
func c33Wrong(t parser.ValueType) []string {
	switch t {
	case parser.ValueTypeVector:
		return []string{"1", `"s"`, "f[1m]"}
	case parser.ValueTypeMatrix:
		return []string{"f", "1", `"s"`}
	case parser.ValueTypeScalar:
		return []string{"f", `"s"`, "f[1m]"}
	case parser.ValueTypeString:
		return []string{"f", "1"}
	}
	return nil
}

func c33FuncNames() []string {
	var names []string
	for n := range parser.Functions {
		names = append(names, n)
	}
	sort.Strings(names)
	return names
}

func (g *c33Gen) functions(thorough bool) {
	capProduct := 400
	if thorough {
		capProduct = 3000
	}
	for _, name := range c33FuncNames() {
		f := parser.Functions[name]
		var arities []int
		n := len(f.ArgTypes)
		switch {
		case f.Variadic == 0:
			arities = []int{n}
		case f.Variadic > 0:
			for k := n - f.Variadic; k <= n; k++ {
				arities = append(arities, k)
			}
		default:
			arities = []int{n - 1, n, n + 1, n + 2}
		}
		typeAt := func(i int) parser.ValueType {
			if i < n {
				return f.ArgTypes[i]
			}
			return f.ArgTypes[n-1]
		}
		for _, ar := range arities {
			if ar < 0 {
				continue
			}
			cands := make([][]string, ar)
			dims := make([]int, ar)
			for i := 0; i < ar; i++ {
				cands[i] = c33Candidates(typeAt(i), thorough)
				dims[i] = len(cands[i])
			}
			build := func(args []string) string { return name + "(" + strings.Join(args, ", ") + ")" }
			if ar == 0 {
				g.addFn(build(nil), name)
				continue
			}
			if vx.ProductSize(dims) <= int64(capProduct) {
				var idx []int
				for i := int64(0); i < vx.ProductSize(dims); i++ {
					idx = vx.ProductAt(dims, i, idx)
					args := make([]string, ar)
					for k, j := range idx {
						args[k] = cands[k][j]
					}
					g.addFn(build(args), name)
				}
			} else {
				// one argument at a time around the first candidates, plus the diagonals
				for k := 0; k < ar; k++ {
					for j := range cands[k] {
						args := make([]string, ar)
						for m := range args {
							args[m] = cands[m][0]
						}
						args[k] = cands[k][j]
						g.addFn(build(args), name)
					}
				}
				for j := 0; j < 12; j++ {
					args := make([]string, ar)
					for m := range args {
						args[m] = cands[m][(j+m)%len(cands[m])]
					}
					g.addFn(build(args), name)
				}
			}
			// implausible: one argument of a wrong type
			for k := 0; k < ar; k++ {
				for _, w := range c33Wrong(typeAt(k)) {
					args := make([]string, ar)
					for m := range args {
						args[m] = cands[m][0]
					}
					args[k] = w
					g.addFn(build(args), name)
				}
			}
		}
		// wrong arity
		first := func(k int) []string {
			var a []string
			for i := 0; i < k; i++ {
				a = append(a, c33Candidates(typeAt(i), thorough)[0])
			}
			return a
		}
		if n > 0 && f.Variadic == 0 {
			g.addFn(name+"("+strings.Join(first(n-1), ", ")+")", name)
		}
		if f.Variadic >= 0 && n > 0 {
			g.addFn(name+"("+strings.Join(first(n+1), ", ")+")", name)
		}
		if n == 0 {
			g.addFn(name+"(1)", name)
			g.addFn(name+"(f)", name)
		}
	}
}

var c33AggOps = []string{"sum", "avg", "min", "max", "count", "group", "stddev", "stdvar", "quantile", "topk", "bottomk", "limitk", "limit_ratio", "count_values"}

func (g *c33Gen) aggregations(thorough bool) {
	inputs := []string{"f", "h", "mx", `{__name__=~".+"}`, "none", "b"}
	if thorough {
		inputs = append(inputs, "-h", "rate(h[2m])", "h * 2", "f[2m]", "1", `"s"`)
	} else {
		inputs = append(inputs, "f[2m]", "1")
	}
	groupings := []string{"", " by (a)", " without (a)"}
	if thorough {
		groupings = append(groupings, " by (__name__)", " without (le, a)", " by ()")
	}
	params := []string{"1", "0", "-1", "0.5", "NaN", "Inf", "1e100", "-1e100", "scalar(f)", "time()", "2.5", `"x"`, "f"}
	strs := []string{`"v"`, `"a"`, `""`, `"1x"`, `"__name__"`, "1", `"le"`}
	for _, op := range c33AggOps {
		for _, in := range inputs {
			for _, grp := range groupings {
				switch op {
				case "quantile", "topk", "bottomk", "limitk", "limit_ratio":
					for _, p := range params {
						g.add(fmt.Sprintf("%s%s (%s, %s)", op, grp, p, in))
					}
					g.add(fmt.Sprintf("%s%s (%s)", op, grp, in)) // parameter missing
				case "count_values":
					for _, p := range strs {
						g.add(fmt.Sprintf("%s%s (%s, %s)", op, grp, p, in))
					}
				default:
					g.add(fmt.Sprintf("%s%s (%s)", op, grp, in))
					if in == "f" {
						g.add(fmt.Sprintf("%s%s (1, %s)", op, grp, in)) // spurious parameter
					}
				}
			}
		}
	}
}

var c33BinOps = []string{"+", "-", "*", "/", "%", "^", "atan2", "==", "!=", ">", "<", ">=", "<=", "and", "or", "unless", "</", ">/"}

func (g *c33Gen) binops(thorough bool) {
	operands := []string{"f", "h", "mx", "1", "NaN", "scalar(f)", `h{a="4"}`, "b"}
	if thorough {
		operands = append(operands, "none", "-1", "0", "Inf", `h{a="2"}`, `h{a="5"}`, `mx{a="2"}`, "g", `"s"`, "f[1m]", "rate(h[2m])", "sum(h)")
	}
	mods := []string{"", " bool", " on (a)", " ignoring (a) group_left", " on (a) group_right (b) fill(0)", " on (a) fill_left(NaN) fill_right(Inf)", " on () group_left"}
	if thorough {
		mods = append(mods, " ignoring (a)", " bool on (a) group_left (b)", " on (a) group_left (a)", " fill(1)", " on (__name__)", " ignoring (le) group_right")
	}
	for _, op := range c33BinOps {
		for _, l := range operands {
			for _, r := range operands {
				for _, m := range mods {
					g.add(fmt.Sprintf("%s %s%s %s", l, op, m, r))
				}
			}
		}
	}
	for _, u := range []string{"-f", "-h", "-mx", "+h", "-(1)", "-scalar(h)", `-"s"`, "-f[1m]", "--h", "-(-h)"} {
		g.add(u)
	}
}

func (g *c33Gen) selectors(thorough bool) {
	for _, q := range []string{
		"f", "h", "mx", "none", "old", `{__name__=~".+"}`, `{__name__=~"f|h", a!="1"}`, `{a=~".*"}`, `{}`, `f{a=~"("}`, `{"metric.dot"}`,
		"f offset 5m", "f offset -5m", "h offset 1m", "f offset 100y", "f offset -100y", "mx offset 3m30s",
		"f @ 100", "h @ 300", "f @ start()", "h @ end()", "f @ 1e18", "f @ -1e18", "f @ 9223372036854775", "f @ NaN", "f @ Inf", "mx @ 210 offset -1m",
		"f[2m]", "h[2m]", "mx[5m]", "f[0s]", "f[1ms]", "f[100y]", "h[5m] offset 2m", "h[5m] @ 400",
		"f[5m:1m]", "h[5m:1m]", "mx[5m:]", "f[1m:5m]", "f[10s:1ms]", "h[5m:1m] offset 1m", "h[5m:1m] @ 300", "f[5m:0s]", "f[5m:-1m]",
		"rate(f[2m])[5m:30s]", "max_over_time(rate(f[1m])[3m:30s])[5m:1m]", "sum_over_time(sum_over_time(h[1m])[3m:30s])", "avg_over_time((h + h)[5m:1m])",
		"count_over_time((-h)[5m:1m])", "last_over_time(mx[5m:1m])", "histogram_quantile(0.5, rate(h[2m])[5m:1m])",
		"f[1m*2]", "f offset (1m+30s)", "f[step()]", "f[max(step(),1m)]", "f[range()]", "f[1m^100]", "f[1m/0]", "f[-1m]", "f offset (0s/0)", "h[min(step(),1m):step()]",
		"gone[30s] anchored", "gone[30s] smoothed", "gone[30s]", "rate(gone[30s] anchored)", "increase(gone[30s] smoothed)", "gone smoothed", "delta(gone[1m] anchored)",
		"rate(f[2m] anchored)", "rate(h[2m] anchored)", "increase(f[2m] smoothed)", "rate(mx[5m] smoothed)", "delta(f[2m] anchored)", "f[2m] anchored", "f smoothed", "sum_over_time(f[2m] smoothed)",
		`"abc"`, `""`, "1", "NaN", "-Inf", "1 + 1", "1 / 0", "time()", "pi()", "scalar(f) + 1", "scalar(h)", "vector(NaN)", "vector(time())", "1 == bool 1", "1 == 1", `"a" + "b"`, `"a" + 1`,
		"(f)", "((h))", "(f[1m])", "(1)", `("s")`,
		"start()", "end()", "step()", "range()", "f @ step()",
		"f and on () vector(1)", "h or f", "f unless h", "mx or on (a) h", "absent(none)", "absent(h)", "absent_over_time(none[1m])", "absent(f{a=\"9\", b=~\"x|y\"})",
		"timestamp(f)", "timestamp(h)", "timestamp(f offset 1m)", "timestamp(f @ 100)", "timestamp(sum(f))", "start_timestamp(f)", "start_timestamp(h)",
		"info(m)", "info(m, {ver=~\".+\"})", "info(h)", "info(mx, {__name__=\"target_info\"})", "info(m, {ver=\"3\"})", "info(target_info)", "info(m, {__name__=~\".+\"})", "info(sum by (job, instance) (m))",
		"sort(h)", "sort_desc(mx)", "sort_by_label(h, \"a\")", "sort_by_label_desc(mx, \"a\", \"le\")",
		"histogram_quantile(0.5, b)", "histogram_quantile(0.5, b2)", "histogram_quantile(0.5, b3)", "histogram_quantile(NaN, h)", "histogram_quantile(2, mx)", "histogram_fraction(0, 1, b2)", "histogram_fraction(-Inf, Inf, h)", "histogram_fraction(1, 0, h)", "histogram_fraction(NaN, 1, mx)",
		"histogram_quantile(0.5, b{le=\"+Inf\"})", "histogram_fraction(0, 1, b{le=\"+Inf\"})", "histogram_quantile(0.5, b{le=\"1\"})", "histogram_quantile(0.5, b2{le=~\"abc|.Inf\"})", "histogram_quantiles(b{le=\"+Inf\"}, \"q\", 0.5)",
		"topk(scalar(f{a=\"1\"}) - 50, f)", "bottomk(scalar(f{a=\"1\"}) - 50, h)", "limitk(scalar(f{a=\"1\"}) - 50, mx)", "limit_ratio(scalar(f{a=\"1\"}) / 50 - 1, mx)", "quantile(scalar(f{a=\"1\"}) / 50 - 1, f)",
		"histogram_quantile(0.5, sum by (le) (b))", "histogram_quantile(0.5, sum by (le) (b2))", "histogram_quantile(scalar(f), h)", "histogram_quantiles(h, \"q\", 0.5, 0.9)", "histogram_quantiles(b, \"le\", 0.5)", "histogram_quantiles(mx, \"a\", NaN, 2, -1)",
		"label_replace(h, \"a\", \"$1\", \"a\", \"(.*)\")", "label_replace(f, \"__name__\", \"x\", \"a\", \".*\")", "label_replace(f, \"a\", \"same\", \"\", \"\")", "label_join(mx, \"a\", \"-\", \"a\", \"__name__\")", "label_join(f, \"a\", \"\")", "label_replace(f, \"a\", \"\", \"a\", \".*\")",
		"h </ 2", "h >/ 2", "h </ NaN", "h >/ -Inf", "h </ f", "f </ 1", "mx >/ 1", "h </ h", "h{a=\"4\"} </ 2", "h </ bool 1", "1 </ h", "h </ on (a) g", "h >/ on (a) group_left g",
	} {
		g.add(q)
	}
}

// compositions: every function with a vector (resp. matrix) first argument applied to compound
// expressions.
func (g *c33Gen) compositions(thorough bool) {
	inner := []string{"rate(h[2m])", "sum by (a) (mx)", "h + h", "f > 1", "histogram_quantile(0.5, h)", `label_replace(f, "a", "x", "a", ".*")`, "-h", "h * NaN", "avg(h)"}
	if thorough {
		inner = append(inner, "rate(mx[5m])", "delta(h[2m])", "h / 0", "h - h", "sum(h) + on () group_right h", "topk(1, h)", "count_values(\"v\", h)", "histogram_count(h)", "mx or h", "h </ 2", "increase(h[10m])", "avg_over_time(h[5m])", "sum_over_time(mx[10m])", "irate(h[2m])", "histogram_fraction(0, 2, h)")
	}
	for _, name := range c33FuncNames() {
		f := parser.Functions[name]
		if len(f.ArgTypes) == 0 {
			continue
		}
		rest := ""
		ok := true
		for i, t := range f.ArgTypes {
			if i == 0 {
				continue
			}
			if f.Variadic != 0 && i >= len(f.ArgTypes)-max(f.Variadic, 1) && f.Variadic > 0 {
				continue
			}
			c := c33Candidates(t, false)
			if len(c) == 0 {
				ok = false
				break
			}
			rest += ", " + c[0]
		}
		if !ok {
			continue
		}
		switch f.ArgTypes[0] {
		case parser.ValueTypeVector:
			for _, in := range inner {
				g.addFn(name+"("+in+rest+")", name)
			}
		case parser.ValueTypeMatrix:
			for _, in := range inner {
				g.addFn(name+"(("+in+")[5m:1m]"+rest+")", name)
			}
		case parser.ValueTypeScalar:
			if len(f.ArgTypes) >= 2 {
				// scalar first (histogram_quantile, quantile_over_time, histogram_fraction, ...)
				for _, in := range inner {
					var args []string
					for i, t := range f.ArgTypes {
						switch {
						case t == parser.ValueTypeVector:
							args = append(args, in)
						case t == parser.ValueTypeMatrix:
							args = append(args, "("+in+")[5m:1m]")
						default:
							args = append(args, c33Candidates(t, false)[i%2])
						}
					}
					g.addFn(name+"("+strings.Join(args, ", ")+")", name)
				}
			}
		}
	}
	for _, op := range c33AggOps {
		for _, in := range inner {
			switch op {
			case "quantile", "topk", "bottomk", "limitk", "limit_ratio":
				g.add(fmt.Sprintf("%s by (a) (0.5, %s)", op, in))
				g.add(fmt.Sprintf("%s (2, %s)", op, in))
			case "count_values":
				g.add(fmt.Sprintf("count_values (\"v\", %s)", in))
			default:
				g.add(fmt.Sprintf("%s without (a) (%s)", op, in))
			}
		}
	}
	for _, op := range []string{"+", "-", "*", "/", "==", "and", "or", "unless", "</", "atan2", "<"} {
		for i, l := range inner {
			rr := inner[(i+1)%len(inner)]
			g.add(fmt.Sprintf("(%s) %s (%s)", l, op, rr))
			g.add(fmt.Sprintf("(%s) %s on (a) (%s)", l, op, l))
			g.add(fmt.Sprintf("(%s) %s 2", l, op))
		}
	}
}

func c33Pool(thorough bool) ([]string, map[string]string) {
	g := &c33Gen{seen: map[string]bool{}, fn: map[string]string{}}
	g.selectors(thorough)
	g.functions(thorough)
	g.aggregations(thorough)
	g.binops(thorough)
	g.compositions(thorough)
	return g.out, g.fn
}

// ---------------------------------------------------------------------------------------------
// evaluation modes and engines
// ---------------------------------------------------------------------------------------------

type c33Mode struct {
	Range            bool
	At               int64 // instant, ms
	Start, End, Step int64 // range, ms
}

func (m c33Mode) String() string {
	if m.Range {
		return fmt.Sprintf("range[%d,%d]/%d", m.Start, m.End, m.Step)
	}
	return fmt.Sprintf("instant@%d", m.At)
}

func c33Modes(thorough bool) []c33Mode {
	m := []c33Mode{
		{At: 285000}, {At: 0}, {At: 600000},
		{Range: true, Start: 0, End: 600000, Step: 60000},
		{Range: true, Start: 270000, End: 330000, Step: 15000},
	}
	if thorough {
		m = append(m, c33Mode{At: 100000000}, c33Mode{At: -1000}, c33Mode{At: 255000},
			c33Mode{Range: true, Start: 0, End: 0, Step: 60000},
			c33Mode{Range: true, Start: 600000, End: 0, Step: 60000},
			c33Mode{Range: true, Start: 0, End: 600000, Step: 7001},
			c33Mode{Range: true, Start: 200000, End: 1200000, Step: 500000})
	}
	return m
}

func c33Run(eng *promql.Engine, stor *teststorage.TestStorage, q string, m c33Mode) *ag_Outcome {
	if m.Range {
		return ag_Range(eng, stor, q, m.Start, m.End, m.Step)
	}
	return ag_Instant(eng, stor, q, m.At)
}

// c33Engines: [0] the default feature set, [1] delayed name removal with a small sample budget
// (the "too many samples" error is user facing and is raised from inside most evaluation loops).
func c33Engines() []*promql.Engine {
	return []*promql.Engine{ag_NewEngine(false, 50000000), ag_NewEngine(true, 60)}
}

// ---------------------------------------------------------------------------------------------
// oracle: internal errors
// ---------------------------------------------------------------------------------------------

// c33InternalPatterns: messages that only a programming error inside the evaluator can produce:
// the "unexpected error" wrapper of evaluator.recover for runtime faults, Go runtime fault texts,
// and the texts of the panic() statements in promql/*.go that guard "cannot happen" branches.
var c33InternalPatterns = []string{
	"unexpected error", "runtime error", "nil pointer", "index out of range", "slice bounds out of range",
	"invalid memory address", "interface conversion", "integer divide by zero", "makeslice", "out of memory",
	"unhandled", "unexpected nil implementation", "unexpected result in", "unexpected number of samples",
	"promql.engine.exec:", "unknown value type", "found unexpected node",
	"set operations must only use many-to-many", "many-to-many only allowed for set operators",
	"not allowed for scalar operations", "not allowed for operations between vectors",
	"expected aggregation operator", "cannot do range evaluation of matrix selector",
	"not supported", "must never be called", "have no zero bucket", "failed to pick value type", "expected type", "panic",
}

func c33InternalError(o *ag_Outcome) string {
	if o.Err == nil {
		return ""
	}
	if o.AtCreate {
		var pe parser.ParseErrors
		if asParseErrors(o.Err, &pe) {
			return "" // the parser's verdict on the text: user facing by construction
		}
	}
	msg := strings.ToLower(o.Err.Error())
	for _, p := range c33InternalPatterns {
		if strings.Contains(msg, p) {
			return p
		}
	}
	return ""
}

func asParseErrors(err error, pe *parser.ParseErrors) bool {
	for err != nil {
		if x, ok := err.(parser.ParseErrors); ok {
			*pe = x
			return true
		}
		u, ok := err.(interface{ Unwrap() error })
		if !ok {
			return false
		}
		err = u.Unwrap()
	}
	return false
}

var c33NumRe = regexp.MustCompile(`[0-9]+(\.[0-9]+)?(e[+-]?[0-9]+)?`)
var c33QuotedRe = regexp.MustCompile(`"[^"]*"|\{[^}]*\}`)

// c33ErrClass normalises an error text (positions, numbers, label sets removed) so that the
// evidence can list every distinct kind of error that was accepted as user facing.
func c33ErrClass(o *ag_Outcome) string {
	s := o.Err.Error()
	if o.AtCreate {
		if i := strings.Index(s, "parse error: "); i >= 0 {
			s = s[i:]
		}
	}
	s = c33QuotedRe.ReplaceAllString(s, `_`)
	s = c33NumRe.ReplaceAllString(s, "N")
	if len(s) > 110 {
		s = s[:110]
	}
	if o.AtCreate {
		return "create: " + s
	}
	return "exec: " + s
}

// c33CanonSorted: complete outcome with vectors/matrices in label order (result order of map-based
// operators is unspecified) -- used to compare executions of the same query.
func c33CanonSorted(o *ag_Outcome) string {
	c := *o
	if len(c.Vector) > 1 {
		v := append([]ag_Sample{}, c.Vector...)
		sort.SliceStable(v, func(i, j int) bool { return ag_LKey(v[i].L) < ag_LKey(v[j].L) })
		c.Vector = v
	}
	return c.ag_Canon()
}

// ---------------------------------------------------------------------------------------------
// part 1: totality
// ---------------------------------------------------------------------------------------------

type c33Replay struct {
	Kind   string   `json:"kind"` // "single" or "pair"
	Query  string   `json:"query,omitempty"`
	Mode   *c33Mode `json:"mode,omitempty"`
	Engine int      `json:"engine"`
	A      *c33Item `json:"a,omitempty"`
	B      *c33Item `json:"b,omitempty"`
}

type c33Item struct {
	Q string  `json:"q"`
	M c33Mode `json:"m"`
}

// c33CheckOne applies the totality oracle to one outcome; returns true if a violation was reported.
func c33CheckOne(r *vx.Run, q string, m c33Mode, ei int, o *ag_Outcome) bool {
	rp := c33Replay{Kind: "single", Query: q, Mode: &m, Engine: ei}
	if o.Panic != "" {
		r.Violation("engine-api-panicked/"+c33PanicClass(o.Panic), fmt.Sprintf("%s (%s, engine %d): panic escaped the engine API: %s", q, m, ei, o.Panic), rp)
		return true
	}
	if p := c33InternalError(o); p != "" {
		r.Violation("internal-error/"+c33Slug(p)+c33Where(o), fmt.Sprintf("%s (%s, engine %d): internal error returned: %s", q, m, ei, o.Err.Error()), rp)
		return true
	}
	return false
}

func c33Slug(s string) string { return strings.ReplaceAll(strings.TrimSpace(s), " ", "-") }

// c33Where refines an internal-error signature by the runtime fault text, if any.
func c33Where(o *ag_Outcome) string {
	msg := o.Err.Error()
	if i := strings.Index(msg, "runtime error: "); i >= 0 {
		rest := c33NumRe.ReplaceAllString(msg[i+len("runtime error: "):], "N")
		if len(rest) > 50 {
			rest = rest[:50]
		}
		return "/" + c33Slug(rest)
	}
	return ""
}

func c33PanicClass(p string) string {
	first := strings.SplitN(p, "\n", 2)[0]
	first = c33NumRe.ReplaceAllString(first, "N")
	if len(first) > 60 {
		first = first[:60]
	}
	return c33Slug(first)
}

func TestVerifC33(t *testing.T) {
	r := vx.Start(t, "C33", "exploration")
	defer r.Finish()
	ag_StartWatchdog(r, 90*time.Second)
	stor, err := c33BuildStorage(r)
	if err != nil {
		t.Fatal(err)
	}
	defer stor.Close()
	engines := c33Engines()
	defer func() {
		for _, e := range engines {
			e.Close()
		}
	}()
	r.Set("rule", "part 1 (totality): one evaluation = one generated query text x one evaluation mode (instant time or range start/end/step) x one engine configuration; distinct_nontrivial = distinct (query, outcome class) that got past query construction. part 2 (TestVerifC33Pairs): every ordered pair (A;B) of the independence pool run in one engine with maximal pool reuse, B compared with its fresh-engine outcome (pairs_checked, pair_pool_size). part 3 (TestVerifC33Race): concurrent evaluation, sampled only.")
	r.Assume("range queries use a positive step (the HTTP API rejects step <= 0 before reaching the engine)")
	r.Assume("an error is internal iff its text matches the runtime-fault wrapper of evaluator.recover, a Go runtime fault, or one of the 'cannot happen' panic texts of promql/*.go; every other error class that was accepted is listed in coverage.accepted_error_classes")
	r.Assume("sequential independence is decided with the engine's sync.Pools emptied (two GC cycles) before each pair and forced to LIFO reuse (GOMAXPROCS=1, GC off during the pair); concurrent evaluation is only sampled by the race part")

	if r.Replay != "" {
		var rp c33Replay
		r.LoadReplay(&rp)
		switch rp.Kind {
		case "single":
			o := c33Run(engines[rp.Engine], stor, rp.Query, *rp.Mode)
			c33CheckOne(r, rp.Query, *rp.Mode, rp.Engine, o)
		}
		return
	}

	c33SelfTest(t)

	// ---- part 1
	pool, fnOf := c33Pool(r.Thorough())
	modes := c33Modes(r.Thorough())
	var evals, created, nonEmpty atomic.Int64
	var mu sync.Mutex
	errClasses := map[string]int{}
	fnAccepted := map[string]bool{}
	r.ParallelN(int64(len(pool)), func(i int64) {
		q := pool[i]
		accepted := false
		for _, m := range modes {
			for ei, eng := range engines {
				if ei == 1 && r.Quick() && m.Range && m.Step == 15000 {
					continue
				}
				o := c33Run(eng, stor, q, m)
				n := evals.Add(1)
				c33CheckOne(r, q, m, ei, o)
				class := ""
				switch {
				case o.Panic != "":
					class = "panic"
				case o.Err != nil:
					class = c33ErrClass(o)
					mu.Lock()
					errClasses[class]++
					mu.Unlock()
				default:
					class = string(o.Type)
					if len(o.Warn) > 0 {
						class += "+warn"
					}
					if len(o.Info) > 0 {
						class += "+info"
					}
					if len(o.Vector) > 0 || len(o.Matrix) > 0 || o.Type == parser.ValueTypeScalar || o.Type == parser.ValueTypeString {
						nonEmpty.Add(1)
						class += "+nonempty"
					}
				}
				if !(o.Err != nil && o.AtCreate) {
					created.Add(1)
					accepted = true
					r.Distinct("distinct_nontrivial", q+"|"+class)
				}
				r.Distinct("distinct_outcomes", class)
				r.SampleAt(n, func() any {
					res := o.ag_Canon()
					if len(res) > 300 {
						res = res[:300] + "..."
					}
					return map[string]any{"query": q, "mode": m.String(), "engine": ei, "outcome": res}
				})
			}
		}
		if fn := fnOf[q]; fn != "" && accepted {
			mu.Lock()
			fnAccepted[fn] = true
			mu.Unlock()
		}
	})
	r.Count("evaluations", int(evals.Load()))
	r.Count("evaluations_past_query_construction", int(created.Load()))
	r.Count("evaluations_with_nonempty_result", int(nonEmpty.Load()))
	r.Set("query_pool_size", len(pool))
	r.Set("modes", fmt.Sprint(modes))
	var classes []string
	for c, n := range errClasses {
		classes = append(classes, fmt.Sprintf("%s  (x%d)", c, n))
	}
	sort.Strings(classes)
	r.Set("accepted_error_classes", classes)
	var never []string
	for _, fn := range c33FuncNames() {
		if !fnAccepted[fn] {
			never = append(never, fn)
		}
	}
	r.Set("functions_total", len(parser.Functions))
	r.Set("functions_without_any_accepted_call", never)
	if !r.Expired() {
		if created.Load()*4 < evals.Load() || nonEmpty.Load()*20 < evals.Load() {
			t.Fatalf("vacuous: %d evaluations, %d past construction, %d non-empty", evals.Load(), created.Load(), nonEmpty.Load())
		}
		for _, fn := range never {
			switch fn {
			case "start", "end", "step", "range": // only meaningful inside @ / duration expressions
			default:
				t.Fatalf("function %s: no generated call was accepted by the parser", fn)
			}
		}
	}

}

// TestVerifC33Pairs is part 2; it runs in its own process so that the two GC cycles that empty the
// engine's pools before every pair work on a small heap.
func TestVerifC33Pairs(t *testing.T) {
	r := vx.Start(t, "C33", "exploration")
	defer r.Finish()
	ag_StartWatchdog(r, 90*time.Second)
	stor, err := c33BuildStorage(nil)
	if err != nil {
		t.Fatal(err)
	}
	defer stor.Close()
	if r.Replay != "" {
		var rp c33Replay
		r.LoadReplay(&rp)
		if rp.Kind == "pair" {
			c33PairSetup()
			base := c33Baseline(stor, *rp.B)
			c33RunPair(r, stor, *rp.A, *rp.B, base)
		}
		return
	}
	c33Pairs(t, r, stor)
}

// ---------------------------------------------------------------------------------------------
// part 2: sequential independence, all ordered pairs
// ---------------------------------------------------------------------------------------------

func c33PairPool(thorough bool) []c33Item {
	inst := c33Mode{At: 285000}
	inst2 := c33Mode{At: 600000}
	rng := c33Mode{Range: true, Start: 0, End: 600000, Step: 60000}
	rng2 := c33Mode{Range: true, Start: 240000, End: 420000, Step: 30000}
	items := []c33Item{
		{"h", inst}, {"mx", inst}, {"f", rng}, {"h", rng}, {"mx", rng},
		{"rate(f[2m])", rng}, {"rate(h[2m])", inst}, {"rate(h[2m])", rng}, {"increase(h[5m])", rng2}, {"delta(h{a=\"5\"}[3m])", rng},
		{"sum_over_time(h[5m])", rng}, {"avg_over_time(h[5m])", inst2}, {"avg_over_time(mx[10m])", inst2}, {"last_over_time(mx[5m])", rng},
		{"histogram_quantile(0.5, rate(h[2m]))", rng}, {"histogram_quantile(0.9, h)", inst}, {"histogram_fraction(0, 2, h)", rng}, {"histogram_count(rate(h[5m]))", rng2},
		{"sum(h)", rng}, {"sum by (a) (rate(h[2m]))", rng}, {"avg(h)", inst}, {"avg without (a) (mx)", rng}, {"count_values(\"v\", h)", inst}, {"topk(2, f)", rng}, {"quantile(0.5, f)", rng}, {"limitk(2, h)", rng},
		{"h + h", rng}, {"h - h{a=\"1\"}", inst}, {"h * 2", rng}, {"h / 0", inst}, {"-h", rng}, {"h </ 2", rng}, {"h >/ 1.5", inst}, {"h == h", rng}, {"h + on (a) group_left mx", rng},
		{"h[5m:1m]", inst2}, {"rate(h[2m])[5m:30s]", inst2}, {"max_over_time(rate(f[1m])[3m:30s])", rng}, {"sum_over_time((h + h)[5m:1m])", rng2}, {"avg_over_time(rate(h[90s])[4m:20s])", rng2},
		{"h[10m]", inst2}, {"mx[10m]", inst2}, {"f[10m]", inst2}, {"{__name__=~\".+\"}[3m]", inst},
		{"h @ 300", rng}, {"rate(h[3m] @ end())", rng}, {"h offset 2m", rng}, {"sum_over_time(h[3m] @ 400)", rng2},
		{"label_replace(h, \"x\", \"$1\", \"a\", \"(.*)\")", rng}, {"sort_desc(f)", inst}, {"timestamp(h)", rng}, {"info(m)", rng}, {"absent(none)", rng}, {"scalar(f{a=\"1\"})", rng},
		{"histogram_quantile(0.5, b)", rng}, {"histogram_quantile(0.5, b2)", inst}, {"histogram_quantiles(h, \"q\", 0.1, 0.9)", inst},
		{"rate(f[2m] anchored)", rng}, {"increase(h[2m] smoothed)", rng}, {"double_exponential_smoothing(f[5m], 0.5, 0.5)", rng}, {"predict_linear(f[5m], 60)", rng}, {"quantile_over_time(0.5, f[5m])", rng},
		{"h + f", rng}, {"f / on (a) h", inst}, {"sum(mx)", rng}, {"1 + 1", inst}, {"f @ 1e18", inst}, {"topk(NaN, f)", inst},
	}
	if !thorough {
		return items
	}
	return append(items,
		c33Item{"resets(h[5m])", rng}, c33Item{"changes(mx[5m])", rng}, c33Item{"first_over_time(h[5m])", rng}, c33Item{"mad_over_time(f[5m])", rng2},
		c33Item{"stddev(h)", inst}, c33Item{"histogram_stddev(h)", rng}, c33Item{"irate(h[2m])", rng}, c33Item{"idelta(mx[2m])", rng},
		c33Item{"h or mx", rng}, c33Item{"h unless on (a) f", rng}, c33Item{"bottomk(1, mx)", rng}, c33Item{"limit_ratio(0.5, h)", rng},
		c33Item{"sum(rate(h[2m])) + on () group_right h", rng2}, c33Item{"histogram_avg(sum(h))", rng}, c33Item{"ts_of_max_over_time(f[5m])", rng}, c33Item{"count_over_time(mx[10m:10s])", inst2},
	)
}

func c33PairSetup() {
	runtime.GOMAXPROCS(1)
}

// c33Clean empties the engine's package-level pools: a sync.Pool survives at most one GC cycle
// in its victim cache.
func c33Clean() {
	runtime.GC()
	runtime.GC()
}

func c33Baseline(stor *teststorage.TestStorage, it c33Item) string {
	c33Clean()
	eng := ag_NewEngine(false, 50000000)
	defer eng.Close()
	return c33CanonSorted(c33Run(eng, stor, it.Q, it.M))
}

func c33RunPair(r *vx.Run, stor *teststorage.TestStorage, a, b c33Item, base string) {
	c33Clean()
	old := debug.SetGCPercent(-1)
	eng := ag_NewEngine(false, 50000000)
	oa := c33Run(eng, stor, a.Q, a.M)
	ob := c33Run(eng, stor, b.Q, b.M)
	eng.Close()
	debug.SetGCPercent(old)
	rp := c33Replay{Kind: "pair", A: &a, B: &b}
	c33CheckOne(r, a.Q, a.M, 0, oa)
	c33CheckOne(r, b.Q, b.M, 0, ob)
	if got := c33CanonSorted(ob); got != base {
		r.Violation("result-depends-on-previous-query", fmt.Sprintf("B = %s (%s) evaluated after A = %s (%s) in the same engine differs from B in a fresh engine:\n after A: %s\n fresh:   %s", b.Q, b.M, a.Q, a.M, c33Trunc(got), c33Trunc(base)), rp)
	}
}

func c33Trunc(s string) string {
	if len(s) > 1500 {
		return s[:1500] + "..."
	}
	return s
}

func c33Pairs(t *testing.T, r *vx.Run, stor *teststorage.TestStorage) {
	items := c33PairPool(r.Thorough())
	prev := runtime.GOMAXPROCS(0)
	c33PairSetup()
	defer runtime.GOMAXPROCS(prev)
	base := make([]string, len(items))
	usable := 0
	for i, it := range items {
		base[i] = c33Baseline(stor, it)
		if again := c33Baseline(stor, it); again != base[i] {
			r.Violation("result-not-reproducible-in-fresh-engine", fmt.Sprintf("%s (%s): two evaluations in fresh engines differ:\n %s\n %s", it.Q, it.M, c33Trunc(base[i]), c33Trunc(again)), c33Replay{Kind: "pair", A: &items[i], B: &items[i]})
		}
		if !strings.HasPrefix(base[i], "ERR") {
			usable++
		}
		r.Distinct("pair_pool_distinct_outcomes", base[i])
	}
	if usable < len(items)*3/4 {
		t.Fatalf("independence pool is mostly failing queries: %d of %d succeed", usable, len(items))
	}
	pairs := 0
	complete := true
outer:
	for ai := range items {
		for bi := range items {
			if r.Expired() {
				complete = false
				break outer
			}
			c33RunPair(r, stor, items[ai], items[bi], base[bi])
			pairs++
		}
	}
	r.Count("pairs_checked", pairs)
	r.Count("evaluations", 2*pairs)
	r.Set("pair_pool_size", len(items))
	r.Set("pairs_all_ordered_pairs_completed", complete)
	var qs []string
	for _, it := range items {
		qs = append(qs, it.Q+" "+it.M.String())
	}
	r.Set("pair_pool", qs)
}

// ---------------------------------------------------------------------------------------------
// self test
// ---------------------------------------------------------------------------------------------

func c33SelfTest(t *testing.T) {
	bad := &ag_Outcome{Err: fmt.Errorf("unexpected error: %w", fmt.Errorf("runtime error: index out of range [3] with length 3"))}
	if c33InternalError(bad) == "" {
		t.Fatal("self-test: the runtime-fault wrapper is not recognised as internal")
	}
	if c33InternalError(&ag_Outcome{Err: fmt.Errorf("operator \"and\" not allowed for Scalar operations")}) == "" {
		t.Fatal("self-test: a cannot-happen panic text is not recognised as internal")
	}
	ok := &ag_Outcome{Err: fmt.Errorf("found duplicate series for the match group {a=\"1\"} on the right hand-side of the operation")}
	if c33InternalError(ok) != "" {
		t.Fatal("self-test: a matching error is classified as internal")
	}
	pe := &ag_Outcome{AtCreate: true, Err: parser.ParseErrors{{Err: fmt.Errorf("unexpected <group_left>")}}}
	if c33InternalError(pe) != "" {
		t.Fatal("self-test: a parse error is classified as internal")
	}
	a := &ag_Outcome{Type: parser.ValueTypeVector, Vector: []ag_Sample{{L: map[string]string{"a": "1"}, V: 1}, {L: map[string]string{"a": "2"}, V: math.NaN()}}}
	b := &ag_Outcome{Type: parser.ValueTypeVector, Vector: []ag_Sample{{L: map[string]string{"a": "2"}, V: math.NaN()}, {L: map[string]string{"a": "1"}, V: 1}}}
	c := &ag_Outcome{Type: parser.ValueTypeVector, Vector: []ag_Sample{{L: map[string]string{"a": "2"}, V: math.NaN()}, {L: map[string]string{"a": "1"}, V: 1.0000000000000002}}}
	if c33CanonSorted(a) != c33CanonSorted(b) || c33CanonSorted(a) == c33CanonSorted(c) {
		t.Fatal("self-test: outcome comparison must ignore order and see a 1-ulp difference")
	}
}

