package h_promqlx

// C28: selectors implement lookback, staleness and range windows; offset and @ move the windows;
// subqueries evaluate at the multiples of their step inside their window.
//
// Engine E1 (input enumeration). EVERY series of <= k samples over a set of candidate timestamps
// that sit on and next to the window edges, every sample being a float, a native histogram or a
// staleness marker, is loaded into one real TSDB-backed storage. Every query of a small set of
// forms (instant selector, timestamp() of it, range selector, count/last_over_time of it,
// subquery of a selector, subquery of a range function, range function of a subquery) x grids of
// evaluation time, lookback delta, range, subquery range/step, offset (+/-), @ (fixed, start(),
// end(), both orders) is run through promql.Engine (instant queries, and range queries over a
// start/end/step grid) and compared per series with the promref reference computation.

import (
	"fmt"
	"strconv"
	"sync/atomic"
	"testing"
	"time"

	"github.com/prometheus/prometheus/internal/verif/vx"
)

const c28Metric = "c28s"
const c28DefStep = 1500 // default subquery resolution of the engine under test (ms)

// c28Mods are the modifiers of one selector or subquery.
type c28Mods struct {
	Off     int64 `json:"off"`      // offset in ms (0 = none)
	At      int   `json:"at"`       // 0 none, 1 fixed time, 2 start(), 3 end()
	AtT     int64 `json:"at_t"`     // fixed @ time in ms
	AtFirst bool  `json:"at_first"` // "@ x offset y" instead of "offset y @ x"
}

func (m c28Mods) text() string {
	off, at := "", ""
	if m.Off != 0 {
		off = " offset " + pr_Dur(m.Off)
	}
	switch m.At {
	case 1:
		at = " @ " + pr_AtText(m.AtT)
	case 2:
		at = " @ start()"
	case 3:
		at = " @ end()"
	}
	if m.AtFirst {
		return at + off
	}
	return off + at
}

// time the modified selector looks at when evaluated at evalT inside a query spanning [start,end].
func (m c28Mods) time(evalT, start, end int64) int64 {
	switch m.At {
	case 1:
		return pr_SelTime(evalT, true, m.AtT, m.Off)
	case 2:
		return pr_SelTime(evalT, true, start, m.Off)
	case 3:
		return pr_SelTime(evalT, true, end, m.Off)
	}
	return pr_SelTime(evalT, false, 0, m.Off)
}

// c28Case is one query. Range == false: instant query at T. Otherwise range query Start/End/Step.
type c28Case struct {
	Form  string  `json:"form"` // inst ts range cot lot subq subqp subq_cot cot_subq
	M1    c28Mods `json:"m1"`   // modifiers of the selector
	M2    c28Mods `json:"m2"`   // modifiers of the subquery
	R1    int64   `json:"r1"`   // range of the range selector
	R2    int64   `json:"r2"`   // subquery range
	S2    int64   `json:"s2"`   // subquery step, 0 = default
	L     int64   `json:"lookback"`
	Range bool    `json:"range_query"`
	T     int64   `json:"t"`
	Start int64   `json:"start"`
	End   int64   `json:"end"`
	Step  int64   `json:"step"`
	Wide  bool    `json:"storage_ignores_time_bounds"`
}

func (c c28Case) expr() string {
	sel := c28Metric
	rng := sel + "[" + pr_Dur(c.R1) + "]" + c.M1.text()
	sq := func(inner string) string {
		s := ""
		if c.S2 != 0 {
			s = pr_Dur(c.S2)
		}
		return inner + "[" + pr_Dur(c.R2) + ":" + s + "]" + c.M2.text()
	}
	switch c.Form {
	case "inst":
		return sel + c.M1.text()
	case "ts":
		return "timestamp(" + sel + c.M1.text() + ")"
	case "range":
		return rng
	case "cot":
		return "count_over_time(" + rng + ")"
	case "lot":
		return "last_over_time(" + rng + ")"
	case "subq":
		return sq(sel) // only with empty M1
	case "subqp":
		return sq("(" + sel + c.M1.text() + ")")
	case "subq_cot":
		return sq("count_over_time(" + rng + ")")
	case "cot_subq":
		return "count_over_time(" + sq("("+sel+c.M1.text()+")") + ")"
	}
	panic("form " + c.Form)
}

type c28Stats struct {
	leftEdge, rightEdge, staleIn, staleNewest, shifted int
}

// expect is the reference result for one series.
func (c c28Case) expect(s []pr_Sample, st *c28Stats) []pr_Point {
	var evalTs []int64
	start, end := c.T, c.T
	if c.Range {
		start, end = c.Start, c.End
		for t := c.Start; t <= c.End; t += c.Step {
			evalTs = append(evalTs, t)
		}
	} else {
		evalTs = []int64{c.T}
	}
	note := func(at, width int64) {
		for _, x := range s {
			if x.T == at-width {
				st.leftEdge++
			}
			if x.T == at {
				st.rightEdge++
			}
			if x.K == pr_S && x.T > at-width && x.T <= at {
				st.staleIn++
			}
		}
	}
	inst := func(t int64) (pr_Sample, bool) {
		tau := c.M1.time(t, start, end)
		if tau != t {
			st.shifted++
		}
		note(tau, c.L)
		return pr_Instant(s, tau, c.L)
	}
	window := func(t int64) []pr_Sample {
		tau := c.M1.time(t, start, end)
		if tau != t {
			st.shifted++
		}
		note(tau, c.R1)
		return pr_Window(s, tau, c.R1)
	}
	subTimes := func(t int64) []int64 {
		step := c.S2
		if step == 0 {
			step = c28DefStep
		}
		return pr_SubqueryTimes(c.M2.time(t, start, end), c.R2, step)
	}
	var out []pr_Point
	for _, t := range evalTs {
		switch c.Form {
		case "inst":
			if x, ok := inst(t); ok {
				out = append(out, pr_SampleToPoint(t, x))
			}
		case "ts":
			if x, ok := inst(t); ok {
				out = append(out, pr_Point{T: t, F: float64(x.T) / 1000})
			}
		case "range":
			for _, x := range window(t) {
				out = append(out, pr_SampleToPoint(x.T, x))
			}
		case "cot":
			if w := window(t); len(w) > 0 {
				out = append(out, pr_Point{T: t, F: float64(len(w))})
			}
		case "lot":
			if w := window(t); len(w) > 0 {
				out = append(out, pr_SampleToPoint(t, w[len(w)-1]))
			}
		case "subq", "subqp":
			for _, u := range subTimes(t) {
				if x, ok := inst(u); ok {
					out = append(out, pr_SampleToPoint(u, x))
				}
			}
		case "subq_cot":
			for _, u := range subTimes(t) {
				if w := window(u); len(w) > 0 {
					out = append(out, pr_Point{T: u, F: float64(len(w))})
				}
			}
		case "cot_subq":
			n := 0
			for _, u := range subTimes(t) {
				if _, ok := inst(u); ok {
					n++
				}
			}
			if n > 0 {
				out = append(out, pr_Point{T: t, F: float64(n)})
			}
		}
	}
	return out
}

func (c c28Case) class() string {
	p := ""
	if c.Wide {
		p = "unboundedstorage-"
	}
	if c.Range {
		p += "rangequery-"
	}
	switch c.Form {
	case "inst":
		return p + "instant-selector"
	case "ts":
		return p + "timestamp-of-selector"
	case "range":
		return p + "range-selector"
	case "cot", "lot":
		return p + "range-function-window"
	}
	return p + "subquery"
}

// knownDefect returns the narrow, precondition-based signature of the two defects found on the
// pinned tree ("" = none applies), so that any other disagreement keeps its generic signature.
func (c c28Case) knownDefect() string {
	if c.Form == "ts" && c.M1.At != 0 && c.M1.Off != 0 {
		// rangeEvalTimestampFunctionOverVectorSelector recomputes the offset from @ alone.
		return "timestamp-of-selector-with-at-ignores-offset"
	}
	switch c.Form {
	case "subq", "subqp", "subq_cot", "cot_subq":
		if c.M1.At != 0 && (c.M2.Off != 0 || c.M2.At != 0) {
			start, end := c.T, c.T
			if c.Range {
				start, end = c.Start, c.End
			}
			step := c.S2
			if step == 0 {
				step = c28DefStep
			}
			ts := pr_SubqueryTimes(c.M2.time(start, start, end), c.R2, step)
			if len(ts) > 0 && ts[0] == start {
				// runSubquery skips re-basing the inner @ offsets when the first subquery step
				// equals the outer evaluation time although they still contain the subquery's
				// own offset/@.
				return "subquery-starting-at-eval-time-misplaces-inner-at"
			}
		}
	}
	return ""
}

// c28Compare classifies the difference between expected and got points ("" = equal).
func c28Compare(exp, got []pr_Point) string {
	if pr_SamePoints(exp, got) {
		return ""
	}
	switch {
	case len(exp) == 0:
		return "unexpected-series"
	case len(got) == 0:
		return "missing-series"
	case len(got) > len(exp):
		return "extra-points"
	case len(got) < len(exp):
		return "missing-points"
	}
	for i := range exp {
		if exp[i].T != got[i].T {
			return "wrong-timestamps"
		}
	}
	return "wrong-values"
}

// c28Datasets enumerates every series of <= maxN samples over the candidate times, every sample
// float / histogram / stale (sizes above fullN: float / stale only), simplest first.
func c28Datasets(times []int64, fullN, maxN int) []pr_Series {
	var out []pr_Series
	vx.Subsets(len(times), maxN, func(idx []int) bool {
		kinds := 3
		if len(idx) > fullN {
			kinds = 2
		}
		dims := make([]int, len(idx))
		for i := range dims {
			dims[i] = kinds
		}
		n := vx.ProductSize(dims)
		for k := int64(0); k < n; k++ {
			ks := vx.ProductAt(dims, k, nil)
			se := pr_Series{ID: strconv.Itoa(len(out))}
			for i, ti := range idx {
				kind := ks[i]
				if kinds == 2 && kind == 1 {
					kind = pr_S
				}
				// the value identifies the sample (derived from its timestamp)
				se.Samples = append(se.Samples, pr_Sample{T: times[ti], K: kind, F: float64(times[ti]/10 + 1)})
			}
			if len(se.Samples) > 0 {
				out = append(out, se)
			}
		}
		return true
	})
	return out
}

func c28ModGrid(offs []int64, ats []c28Mods) []c28Mods {
	var out []c28Mods
	for _, a := range ats {
		for _, o := range offs {
			m := a
			m.Off = o
			out = append(out, m)
			if o != 0 && a.At != 0 {
				m.AtFirst = true
				out = append(out, m)
			}
		}
	}
	return out
}

func c28Cases(r *vx.Run) []c28Case {
	th := r.Thorough()
	evalT := []int64{0, 999, 1000, 1001, 1999, 2000, 2001, 2999, 3000, 3001, 4000, 5000}
	lookbacks := vx.Pick(r, []int64{1000, 2000}, []int64{1000, 2000, 1001})
	ranges := vx.Pick(r, []int64{1000, 1001, 2000}, []int64{1000, 1001, 2000, 999})
	offs := vx.Pick(r, []int64{0, 1000, -1000, 1}, []int64{0, 1000, -1000, 1, -1, 2000, -2001})
	ats := vx.Pick(r,
		[]c28Mods{{}, {At: 1, AtT: 1000}, {At: 1, AtT: 2001}, {At: 2}},
		[]c28Mods{{}, {At: 1, AtT: 1000}, {At: 1, AtT: 2001}, {At: 1, AtT: 0}, {At: 2}, {At: 3}})
	mods := c28ModGrid(offs, ats)
	var cs []c28Case
	// instant queries: selector, timestamp(selector)
	for _, form := range []string{"inst", "ts"} {
		for _, m := range mods {
			for _, l := range lookbacks {
				for _, t := range evalT {
					cs = append(cs, c28Case{Form: form, M1: m, L: l, T: t})
				}
			}
		}
	}
	// instant queries: range selector and range functions
	for _, form := range []string{"range", "cot", "lot"} {
		for _, m := range mods {
			for _, rg := range ranges {
				for _, t := range evalT {
					if form != "range" && !th && t%1000 != 0 {
						continue
					}
					cs = append(cs, c28Case{Form: form, M1: m, R1: rg, L: 1000, T: t})
				}
			}
		}
	}
	// subqueries
	m1s := []c28Mods{{}, {Off: 1000}, {Off: -1}, {At: 1, AtT: 1000}, {At: 1, AtT: 2001, Off: 1}}
	m2s := []c28Mods{{}, {Off: 1000}, {Off: -1000}, {Off: 1}, {At: 1, AtT: 2000}, {At: 1, AtT: 2001, Off: 1000}, {At: 1, AtT: 3000, Off: -1, AtFirst: true}}
	if th {
		m1s = append(m1s, c28Mods{Off: -1000}, c28Mods{At: 2}, c28Mods{At: 1, AtT: 0, Off: -1000, AtFirst: true})
		m2s = append(m2s, c28Mods{Off: -1}, c28Mods{At: 3, Off: 1000}, c28Mods{At: 1, AtT: 999})
	}
	sqR := vx.Pick(r, []int64{1000, 2000, 2500}, []int64{1000, 2000, 2500, 1001})
	sqS := vx.Pick(r, []int64{1000, 500, 0}, []int64{1000, 500, 0, 1001, 2000})
	sqT := vx.Pick(r, []int64{0, 1000, 2001, 3000}, []int64{0, 1000, 1999, 2001, 3000, 4001})
	for _, form := range []string{"subq", "subqp", "subq_cot", "cot_subq"} {
		for _, m1 := range m1s {
			if form == "subq" && m1 != (c28Mods{}) {
				continue
			}
			for _, m2 := range m2s {
				for _, r2 := range sqR {
					for _, s2 := range sqS {
						for _, l := range lookbacks[:2] {
							for _, t := range sqT {
								c := c28Case{Form: form, M1: m1, M2: m2, R2: r2, S2: s2, L: l, T: t}
								if form == "subq_cot" {
									if l != lookbacks[0] {
										continue
									}
									for _, r1 := range ranges[:2] {
										c.R1 = r1
										cs = append(cs, c)
									}
									continue
								}
								cs = append(cs, c)
							}
						}
					}
				}
			}
		}
	}
	// range queries
	type grid struct{ start, end, step int64 }
	var grids []grid
	for _, st := range vx.Pick(r, []int64{0, 999}, []int64{0, 999, 1000, 2001}) {
		for _, span := range vx.Pick(r, []int64{2000, 4001}, []int64{0, 2000, 3000, 4001}) {
			for _, step := range vx.Pick(r, []int64{500, 1000, 1001, 3000}, []int64{250, 500, 999, 1000, 1001, 2000, 3000}) {
				grids = append(grids, grid{st, st + span, step})
			}
		}
	}
	rqMods := c28ModGrid(vx.Pick(r, []int64{0, 1000, -1}, []int64{0, 1000, -1000, 1, -1}),
		[]c28Mods{{}, {At: 1, AtT: 2000}, {At: 2}, {At: 3}})
	for _, form := range []string{"inst", "ts", "cot", "lot", "cot_subq"} {
		for _, m := range rqMods {
			for _, g := range grids {
				c := c28Case{Form: form, M1: m, Range: true, Start: g.start, End: g.end, Step: g.step}
				switch form {
				case "inst", "ts":
					for _, l := range lookbacks[:2] {
						c.L = l
						cs = append(cs, c)
					}
				case "cot", "lot":
					c.L = 1000
					for _, rg := range ranges[:3] {
						c.R1 = rg
						cs = append(cs, c)
					}
				case "cot_subq":
					c.L = 1000
					if m.AtFirst {
						continue
					}
					for _, m2 := range []c28Mods{{}, {Off: 1000}, {At: 2}, {At: 1, AtT: 2001, Off: -1}} {
						for _, s2 := range []int64{500, 1000, 0} {
							c.M2, c.R2, c.S2 = m2, 2000, s2
							cs = append(cs, c)
						}
					}
				}
			}
		}
	}
	return cs
}

func c28Run(c c28Case, eng pr_Eng, stor pr_Stor) pr_Result {
	lb := time.Duration(c.L) * time.Millisecond
	if c.Range {
		return pr_QueryRange(eng, stor, c.expr(), c.Start, c.End, c.Step, lb)
	}
	return pr_QueryInstant(eng, stor, c.expr(), c.T, lb)
}

type c28Replay struct {
	Case   c28Case   `json:"case"`
	Query  string    `json:"query"`
	Series pr_Series `json:"series"`
}

func TestVerifC28(t *testing.T) {
	r := vx.Start(t, "C28", "exploration")
	defer r.Finish()
	eng := pr_NewEngine(5*time.Minute, c28DefStep, false)
	defer eng.Close()

	if r.Replay != "" {
		var rp c28Replay
		r.LoadReplay(&rp)
		stor, err := pr_NewStorage(c28Metric, []pr_Series{rp.Series}, false)
		if err != nil {
			t.Fatal(err)
		}
		defer stor.Close()
		var q pr_Stor = stor
		if rp.Case.Wide {
			q = pr_Wide(stor)
		}
		res := c28Run(rp.Case, eng, q)
		var st c28Stats
		exp := rp.Case.expect(rp.Series.Samples, &st)
		got := res.Series[rp.Series.ID]
		fmt.Printf("replay %s: err=%v expected %s got %s\n", rp.Case.expr(), res.Err, pr_PointsString(exp), pr_PointsString(got))
		if res.Err != nil {
			r.Violation("query-error", res.Err.Error(), rp)
		} else if d := c28Compare(exp, got); d != "" {
			sig := rp.Case.class() + "-" + d
			if k := rp.Case.knownDefect(); k != "" {
				sig = k
			}
			r.Violation(sig, fmt.Sprintf("%s: expected %s got %s", rp.Case.expr(), pr_PointsString(exp), pr_PointsString(got)), rp)
		}
		return
	}

	// ---- self-test of the oracle (must reject wrong answers) --------------------------------
	{
		s := []pr_Sample{{T: 1000, K: pr_F, F: 1}, {T: 2000, K: pr_F, F: 2}, {T: 2500, K: pr_S}}
		var st c28Stats
		c := c28Case{Form: "range", R1: 1000, L: 1000, T: 2000}
		exp := c.expect(s, &st)
		if len(exp) != 1 || exp[0].T != 2000 || st.leftEdge != 1 || st.rightEdge != 1 {
			t.Fatalf("self-test: reference window wrong: %v %+v", exp, st)
		}
		closedLeft := []pr_Point{{T: 1000, F: 1}, {T: 2000, F: 2}}
		if c28Compare(exp, closedLeft) != "extra-points" || c28Compare(exp, nil) != "missing-series" ||
			c28Compare(exp, []pr_Point{{T: 2000, F: 1}}) != "wrong-values" || c28Compare(exp, []pr_Point{{T: 1999, F: 2}}) != "wrong-timestamps" {
			t.Fatal("self-test: comparator accepts a wrong window")
		}
		ci := c28Case{Form: "inst", L: 1000, T: 3000}
		if e := ci.expect(s, &st); len(e) != 0 {
			t.Fatalf("self-test: reference ignores the staleness marker: %v", e)
		}
		ci.T = 3499 // marker still the newest sample in (2499, 3499]
		if e := ci.expect(s, &st); len(e) != 0 {
			t.Fatalf("self-test: reference ignores the staleness marker: %v", e)
		}
		ci.T = 2499
		if e := ci.expect(s, &st); len(e) != 1 || e[0].F != 2 || e[0].T != 2499 {
			t.Fatalf("self-test: reference instant selector wrong: %v", e)
		}
		ci.T = 3000
		ci.M1 = c28Mods{Off: 1000}
		if e := ci.expect(s, &st); len(e) != 1 || e[0].F != 2 || e[0].T != 3000 {
			t.Fatalf("self-test: reference offset wrong: %v", e)
		}
		if g := fmt.Sprint(pr_SubqueryTimes(2000, 2000, 1000), pr_SubqueryTimes(-500, 2000, 1000), pr_SubqueryTimes(2001, 1001, 500)); g != "[1000 2000] [-2000 -1000] [1500 2000]" {
			t.Fatalf("self-test: subquery times wrong: %s", g)
		}
	}

	times := []int64{0, 999, 1000, 1001, 1999, 2000, 2001, 3000}
	fullN, maxN := 2, 2
	if r.Thorough() {
		fullN, maxN = 2, 3
	}
	data := c28Datasets(times, fullN, maxN)
	if r.Quick() {
		// plus every 3-sample float/stale series over the whole-second timestamps
		for _, se := range c28Datasets([]int64{0, 1000, 2000, 3000}, 0, 3) {
			if len(se.Samples) == 3 {
				se.ID = strconv.Itoa(len(data))
				data = append(data, se)
			}
		}
	}
	stor, err := pr_NewStorage(c28Metric, data, false)
	if err != nil {
		t.Fatal(err)
	}
	defer stor.Close()
	cases := c28Cases(r)

	var evals, queries, nonEmpty atomic.Int64
	var agg [5]atomic.Int64
	wide := pr_Wide(stor)
	r.ParallelN(int64(len(cases)), func(i int64) {
		c := cases[i]
		// the same query against the storage as is and against the wrapper that returns all samples
		var ress [2]pr_Result
		var cs [2]c28Case
		for m := 0; m < 2; m++ {
			cs[m] = c
			cs[m].Wide = m == 1
			if m == 1 {
				ress[m] = c28Run(c, eng, wide)
			} else {
				ress[m] = c28Run(c, eng, stor)
			}
			queries.Add(1)
			if ress[m].Err != nil {
				r.Violation("query-error", fmt.Sprintf("%s: %v", c.expr(), ress[m].Err), c28Replay{Case: cs[m], Query: c.expr(), Series: data[0]})
				return
			}
			if ress[m].Dup != "" {
				r.Violation("duplicate-series-in-result", fmt.Sprintf("%s: series %s twice", c.expr(), ress[m].Dup), c28Replay{Case: cs[m], Query: c.expr(), Series: data[0]})
			}
		}
		var st c28Stats
		var seen [2]int
		ne := 0
		outcomes := map[uint64]struct{}{}
		for k := range data {
			se := &data[k]
			exp := c.expect(se.Samples, &st)
			for m := 0; m < 2; m++ {
				got, present := ress[m].Series[se.ID]
				if present {
					seen[m]++
				}
				if d := c28Compare(exp, got); d != "" {
					sig := cs[m].class() + "-" + d
					if k := c.knownDefect(); k != "" {
						sig = k
					}
					r.Violation(sig, fmt.Sprintf("%s (lookback %s, storage ignores bounds: %v) over %s: expected %s got %s", c.expr(), pr_Dur(c.L), cs[m].Wide, vx.J(se.Samples), pr_PointsString(exp), pr_PointsString(got)),
						c28Replay{Case: cs[m], Query: c.expr(), Series: *se})
				}
			}
			if len(exp) > 0 {
				ne++
				h := pr_HashPoints(exp)
				if _, ok := outcomes[h]; !ok {
					outcomes[h] = struct{}{}
					r.Distinct("distinct_outcomes", strconv.FormatUint(h, 16))
				}
			}
		}
		nonEmpty.Add(int64(2 * ne))
		for m := 0; m < 2; m++ {
			if seen[m] != len(ress[m].Series) {
				r.Violation("unknown-series-in-result", fmt.Sprintf("%s: %d result series, %d known", c.expr(), len(ress[m].Series), seen[m]), c28Replay{Case: cs[m], Query: c.expr(), Series: data[0]})
			}
			if len(ress[m].Series) > 0 {
				r.Distinct("distinct_nontrivial", c.expr()+"|"+fmt.Sprint(c.L, c.T, c.Start, c.End, c.Step, m))
			}
		}
		evals.Add(int64(2 * len(data)))
		agg[0].Add(int64(st.leftEdge))
		agg[1].Add(int64(st.rightEdge))
		agg[2].Add(int64(st.staleIn))
		agg[4].Add(int64(st.shifted))
		r.SampleAt(i, func() any {
			se := data[len(data)/2]
			var s2 c28Stats
			return map[string]any{"query": c.expr(), "case": c, "series_in_storage": len(data), "example_series": se,
				"example_expected": pr_PointsString(c.expect(se.Samples, &s2)), "example_got": pr_PointsString(ress[0].Series[se.ID]),
				"example_got_storage_ignoring_bounds": pr_PointsString(ress[1].Series[se.ID])}
		})
	})
	r.Count("evaluations", int(evals.Load()))
	r.Count("queries_executed", int(queries.Load()))
	r.Count("comparisons_with_nonempty_result", int(nonEmpty.Load()))
	r.Count("sample_on_left_window_edge", int(agg[0].Load()))
	r.Count("sample_on_right_window_edge", int(agg[1].Load()))
	r.Count("stale_marker_inside_window", int(agg[2].Load()))
	r.Count("window_shifted_by_offset_or_at", int(agg[4].Load()))
	r.Set("series", len(data))
	r.Set("queries_total", 2*len(cases))
	r.Set("candidate_sample_times_ms", times)
	r.Set("max_samples_per_series", maxN)
	r.Set("rule", fmt.Sprintf("every series of <=%d samples over timestamps %v (each sample float/histogram/stale up to %d samples, float/stale beyond) is stored once; every query of the forms selector, timestamp(selector), selector[r], count/last_over_time(selector[r]), selector[r:s], (selector mods)[r:s] mods, count_over_time(selector[r])[r:s], count_over_time((selector)[r:s]) x grids of eval time, lookback, range, subquery range/step (incl. default), offset(+/-) and @ (fixed/start()/end(), both orders) is run (once against the storage as is, once against a wrapper that ignores the time bounds/hints and returns all samples) as instant query, and selector/timestamp/count/last/count-of-subquery forms also as range queries over a start/end/step grid; evaluations = (query, series) comparisons with the reference; distinct_nontrivial = distinct queries with a non-empty result; distinct_outcomes = distinct non-empty expected per-series results", maxN, times, fullN))
	if !r.Expired() && r.Violations() == 0 {
		if agg[0].Load() == 0 || agg[1].Load() == 0 || agg[2].Load() == 0 || agg[4].Load() == 0 || nonEmpty.Load() == 0 {
			t.Fatal("vacuous run: no edge-coincident samples / stale markers / shifted windows were exercised")
		}
	}
}
