package h_promqlx

// C29 reference evaluator ("promref", aggregation/operator half). Written from
// docs/querying/operators.md: plain maps and slices, no hashing, no incremental or compensated
// arithmetic, no sharing with promql/engine.go. Only float samples (the C29 alphabet).
//
// Where the documentation leaves a choice open the reference accepts every documented-compatible
// answer (ties in topk/bottomk, the subset chosen by limitk, order of groups) and the open points
// that had to be fixed are listed in c29Assumptions.

import (
	"fmt"
	"math"
	"sort"
	"strconv"
	"strings"

	"github.com/prometheus/prometheus/promql/parser"
)

var c29Assumptions = []string{
	"the metric name takes no part in vector matching unless listed in on(); aggregations drop it unless it is listed in by() (topk/bottomk/limitk return the input elements unchanged)",
	"count_values renders the alphabet values as 0, 1, 2, NaN, +Inf, -Inf",
	"quantile(phi, v) for 0<=phi<=1 is the documented rank phi*(N-1) over the ascending values (NaN smallest) with linear interpolation lower*(1-w)+upper*w between neighbouring ranks and the sample itself when the rank is integral",
	"group_left/group_right results carry all labels of the many side; a label listed in the group modifier is copied from the one side (removed when the one side lacks it); a filled-in sample carries exactly the matching labels",
	"a comparison without bool keeps the metric name of the operand whose labels form the result (left; right for group_right); the documented exception 'if on is used the metric name is dropped' is read as a consequence of on() restricting the result labels of a one-to-one match to the listed labels (so on(__name__) keeps it), and is not applied to group_left/group_right results, which carry all labels of the many side",
	"duplicate series inside a match group on the one side with no partner on the other side may or may not be reported as a matching error (both accepted)",
	"float64 arithmetic of the Go math package (Mod, Pow, Atan2, Sqrt) is trusted",
}

const c29Name = "__name__"

type c29Grouping struct {
	Without bool
	Labels  []string
}

// c29Expr describes one generated expression; Kind selects which fields are meaningful.
type c29Expr struct {
	Kind string // "agg", "vv", "vs" (vector op scalar), "sv" (scalar op vector), "ss"
	Op   string

	// aggregation
	Grp       *c29Grouping
	HasParam  bool
	ParamText string
	ParamF    float64
	ParamS    string

	// binary operator
	Bool     bool
	HasMatch bool
	On       bool
	MLabels  []string
	Card     int // 0 one-to-one, 1 group_left, 2 group_right
	Include  []string
	IncParen bool
	FillL    *float64
	FillR    *float64
	FillText string
	SL, SR   float64 // scalar operands of vs/sv/ss
	SLText   string
	SRText   string
}

// c29LabelText quotes label names that are not plain identifiers (UTF-8 label names).
func c29LabelText(l string) string {
	for i, c := range l {
		if c == '_' || (c >= 'a' && c <= 'z') || (c >= 'A' && c <= 'Z') || (i > 0 && c >= '0' && c <= '9') {
			continue
		}
		return strconv.Quote(l)
	}
	return l
}

func c29Paren(ls []string) string {
	q := make([]string, len(ls))
	for i, l := range ls {
		q[i] = c29LabelText(l)
	}
	return "(" + strings.Join(q, ", ") + ")"
}

// Text renders the expression; asel/lsel/rsel are the vector selectors.
func (e *c29Expr) Text(asel, lsel, rsel string) string {
	var sb strings.Builder
	switch e.Kind {
	case "agg":
		sb.WriteString(e.Op)
		if e.Grp != nil {
			if e.Grp.Without {
				sb.WriteString(" without ")
			} else {
				sb.WriteString(" by ")
			}
			sb.WriteString(c29Paren(e.Grp.Labels))
		}
		sb.WriteString(" (")
		if e.HasParam {
			sb.WriteString(e.ParamText)
			sb.WriteString(", ")
		}
		sb.WriteString(asel)
		sb.WriteString(")")
	case "vv", "vs", "sv", "ss":
		switch e.Kind {
		case "vv", "vs":
			sb.WriteString(lsel)
		default:
			sb.WriteString(e.SLText)
		}
		sb.WriteString(" " + e.Op)
		if e.Bool {
			sb.WriteString(" bool")
		}
		if e.HasMatch {
			if e.On {
				sb.WriteString(" on ")
			} else {
				sb.WriteString(" ignoring ")
			}
			sb.WriteString(c29Paren(e.MLabels))
		}
		switch e.Card {
		case 1:
			sb.WriteString(" group_left")
		case 2:
			sb.WriteString(" group_right")
		}
		if e.Card != 0 && (len(e.Include) > 0 || e.IncParen) {
			sb.WriteString(" " + c29Paren(e.Include))
		}
		if e.FillText != "" {
			sb.WriteString(" " + e.FillText)
		}
		sb.WriteString(" ")
		switch e.Kind {
		case "vv", "sv":
			sb.WriteString(rsel)
		default:
			sb.WriteString(e.SRText)
		}
	}
	return sb.String()
}

// Form is the expression shape without label lists and parameters (for coverage accounting).
func (e *c29Expr) Form() string {
	s := e.Kind + ":" + e.Op
	if e.Kind == "agg" {
		if e.Grp != nil {
			if e.Grp.Without {
				s += ":without"
			} else {
				s += ":by"
			}
		}
		return s
	}
	if e.Bool {
		s += ":bool"
	}
	if e.HasMatch {
		if e.On {
			s += ":on"
		} else {
			s += ":ignoring"
		}
	}
	s += fmt.Sprintf(":card%d", e.Card)
	if e.FillL != nil {
		s += ":fillL"
	}
	if e.FillR != nil {
		s += ":fillR"
	}
	return s
}

// c29Expect is what the documentation allows as the outcome.
type c29Expect struct {
	MustErr bool // a documented matching / uniqueness error is required
	MayErr  bool // such an error is acceptable but not required
	Why     string

	IsScalar bool
	Scalar   float64

	Kind   string      // "exact" or "k"
	Exact  []ag_Sample // unordered expected vector
	Counts bool        // values are counts: compare exactly
	KMode  string      // "top", "bottom", "any"
	K      int
	Groups [][]ag_Sample // candidate members per group (k kinds)
}

func c29HasLabel(ls []string, l string) bool {
	for _, x := range ls {
		if x == l {
			return true
		}
	}
	return false
}

func c29CopyL(m map[string]string) map[string]string {
	o := make(map[string]string, len(m))
	for k, v := range m {
		o[k] = v
	}
	return o
}

// ---------------------------------------------------------------------------------------------
// aggregations
// ---------------------------------------------------------------------------------------------

// c29GroupLabels: "by drops labels that are not listed", "without removes the listed labels ...
// all other labels are preserved" (and the metric name goes with them).
func c29GroupLabels(g *c29Grouping, l map[string]string) map[string]string {
	out := map[string]string{}
	if g == nil {
		return out
	}
	if g.Without {
		for k, v := range l {
			if k != c29Name && !c29HasLabel(g.Labels, k) {
				out[k] = v
			}
		}
		return out
	}
	for _, k := range g.Labels {
		if v, ok := l[k]; ok {
			out[k] = v
		}
	}
	return out
}

// c29Less orders ascending with NaN smallest (the documented order of quantile).
func c29LessNaNFirst(a, b float64) bool {
	if math.IsNaN(a) {
		return !math.IsNaN(b)
	}
	if math.IsNaN(b) {
		return false
	}
	return a < b
}

func c29CountValueString(v float64) string {
	switch {
	case math.IsNaN(v):
		return "NaN"
	case math.IsInf(v, 1):
		return "+Inf"
	case math.IsInf(v, -1):
		return "-Inf"
	case v == math.Trunc(v) && math.Abs(v) < 1e15:
		return fmt.Sprintf("%d", int64(v))
	}
	return fmt.Sprint(v)
}

// c29RefQuantile: alwaysInterpolate=false is the oracle. alwaysInterpolate=true ("interpolate even
// when the rank is integral") is used only to recognise one known class of divergence.
func c29RefQuantile(phi float64, vals []float64, alwaysInterpolate bool) float64 {
	if len(vals) == 0 || math.IsNaN(phi) {
		return math.NaN()
	}
	if phi < 0 {
		return math.Inf(-1)
	}
	if phi > 1 {
		return math.Inf(1)
	}
	s := append([]float64{}, vals...)
	sort.SliceStable(s, func(i, j int) bool { return c29LessNaNFirst(s[i], s[j]) })
	rank := phi * float64(len(s)-1)
	lo := math.Floor(rank)
	w := rank - lo
	if w == 0 && !alwaysInterpolate {
		return s[int(lo)]
	}
	if int(lo)+1 >= len(s) {
		return s[int(lo)]*(1-w) + s[int(lo)]*w
	}
	return s[int(lo)]*(1-w) + s[int(lo)+1]*w
}

func c29RefAggValue(e *c29Expr, vals []float64, altQuantile bool) float64 {
	n := float64(len(vals))
	switch e.Op {
	case "sum", "avg":
		s := 0.0
		for _, v := range vals {
			s += v
		}
		if e.Op == "avg" {
			return s / n
		}
		return s
	case "min", "max":
		res := math.NaN()
		for _, v := range vals {
			if math.IsNaN(v) {
				continue
			}
			if math.IsNaN(res) || (e.Op == "min" && v < res) || (e.Op == "max" && v > res) {
				res = v
			}
		}
		return res
	case "count":
		return n
	case "group":
		return 1
	case "stddev", "stdvar":
		mean := 0.0
		for _, v := range vals {
			mean += v
		}
		mean /= n
		sq := 0.0
		for _, v := range vals {
			sq += (v - mean) * (v - mean)
		}
		if e.Op == "stdvar" {
			return sq / n
		}
		return math.Sqrt(sq / n)
	case "quantile":
		return c29RefQuantile(e.ParamF, vals, altQuantile)
	}
	panic("c29RefAggValue: " + e.Op)
}

func c29RefAgg(e *c29Expr, in []ag_Sample) *c29Expect { return c29RefAggAlt(e, in, false) }

func c29RefAggAlt(e *c29Expr, in []ag_Sample, altQuantile bool) *c29Expect {
	type grp struct {
		labels  map[string]string
		members []ag_Sample
	}
	var order []string
	groups := map[string]*grp{}
	for _, s := range in {
		gl := c29GroupLabels(e.Grp, s.L)
		k := ag_LKey(gl)
		g := groups[k]
		if g == nil {
			g = &grp{labels: gl}
			groups[k] = g
			order = append(order, k)
		}
		g.members = append(g.members, s)
	}
	exp := &c29Expect{Kind: "exact"}
	switch e.Op {
	case "topk", "bottomk", "limitk":
		exp.Kind = "k"
		exp.K = int(e.ParamF)
		exp.KMode = map[string]string{"topk": "top", "bottomk": "bottom", "limitk": "any"}[e.Op]
		for _, k := range order {
			exp.Groups = append(exp.Groups, groups[k].members)
		}
		return exp
	case "count_values":
		exp.Counts = true
		for _, k := range order {
			g := groups[k]
			cnt := map[string]int{}
			var vorder []string
			for _, m := range g.members {
				vs := c29CountValueString(m.V)
				if cnt[vs] == 0 {
					vorder = append(vorder, vs)
				}
				cnt[vs]++
			}
			for _, vs := range vorder {
				l := c29CopyL(g.labels)
				l[e.ParamS] = vs
				exp.Exact = append(exp.Exact, ag_Sample{L: l, V: float64(cnt[vs])})
			}
		}
	default:
		exp.Counts = e.Op == "count" || e.Op == "group"
		for _, k := range order {
			g := groups[k]
			vals := make([]float64, len(g.members))
			for i, m := range g.members {
				vals[i] = m.V
			}
			exp.Exact = append(exp.Exact, ag_Sample{L: g.labels, V: c29RefAggValue(e, vals, altQuantile)})
		}
	}
	c29MarkDuplicates(exp)
	return exp
}

// c29MarkDuplicates: "Every time series of the result vector must be uniquely identifiable".
func c29MarkDuplicates(exp *c29Expect) {
	seen := map[string]bool{}
	for _, s := range exp.Exact {
		k := ag_LKey(s.L)
		if seen[k] {
			exp.MustErr = true
			exp.Why = "result would contain label set " + k + " twice"
			return
		}
		seen[k] = true
	}
}

// ---------------------------------------------------------------------------------------------
// binary operators
// ---------------------------------------------------------------------------------------------

func c29IsArith(op string) bool {
	switch op {
	case "+", "-", "*", "/", "%", "^", "atan2":
		return true
	}
	return false
}

func c29IsCmp(op string) bool {
	switch op {
	case "==", "!=", ">", "<", ">=", "<=":
		return true
	}
	return false
}

func c29IsSet(op string) bool { return op == "and" || op == "or" || op == "unless" }

// c29Apply returns the value and, for comparisons, whether the comparison holds.
func c29Apply(op string, l, r float64) (float64, bool) {
	switch op {
	case "+":
		return l + r, true
	case "-":
		return l - r, true
	case "*":
		return l * r, true
	case "/":
		return l / r, true
	case "%":
		return math.Mod(l, r), true
	case "^":
		return math.Pow(l, r), true
	case "atan2":
		return math.Atan2(l, r), true
	case "==":
		return l, l == r
	case "!=":
		return l, l != r
	case ">":
		return l, l > r
	case "<":
		return l, l < r
	case ">=":
		return l, l >= r
	case "<=":
		return l, l <= r
	}
	panic("c29Apply: " + op)
}

// c29Sig: the labels two elements must agree on to match.
func c29Sig(e *c29Expr, l map[string]string) map[string]string {
	out := map[string]string{}
	if e.HasMatch && e.On {
		for _, k := range e.MLabels {
			if v, ok := l[k]; ok {
				out[k] = v
			}
		}
		return out
	}
	for k, v := range l {
		if k == c29Name {
			continue
		}
		if e.HasMatch && c29HasLabel(e.MLabels, k) {
			continue
		}
		out[k] = v
	}
	return out
}

func c29RefSet(e *c29Expr, lhs, rhs []ag_Sample) *c29Expect {
	exp := &c29Expect{Kind: "exact"}
	lsig := map[string]bool{}
	rsig := map[string]bool{}
	for _, s := range lhs {
		lsig[ag_LKey(c29Sig(e, s.L))] = true
	}
	for _, s := range rhs {
		rsig[ag_LKey(c29Sig(e, s.L))] = true
	}
	switch e.Op {
	case "and":
		for _, s := range lhs {
			if rsig[ag_LKey(c29Sig(e, s.L))] {
				exp.Exact = append(exp.Exact, s)
			}
		}
	case "unless":
		for _, s := range lhs {
			if !rsig[ag_LKey(c29Sig(e, s.L))] {
				exp.Exact = append(exp.Exact, s)
			}
		}
	case "or":
		exp.Exact = append(exp.Exact, lhs...)
		for _, s := range rhs {
			if !lsig[ag_LKey(c29Sig(e, s.L))] {
				exp.Exact = append(exp.Exact, s)
			}
		}
	}
	c29MarkDuplicates(exp)
	return exp
}

// c29NameRuleLiteral = true would apply "If on is used, then the metric name is dropped" also to
// group_left/group_right comparisons (the engine keeps the name there); see c29Assumptions.
const c29NameRuleLiteral = false

func c29RefVV(e *c29Expr, lhs, rhs []ag_Sample) *c29Expect {
	if c29IsSet(e.Op) {
		return c29RefSet(e, lhs, rhs)
	}
	exp := &c29Expect{Kind: "exact"}
	dropName := c29IsArith(e.Op) || e.Bool

	type grp struct {
		sig  map[string]string
		l, r []ag_Sample
	}
	var order []string
	groups := map[string]*grp{}
	get := func(s ag_Sample) *grp {
		sig := c29Sig(e, s.L)
		k := ag_LKey(sig)
		g := groups[k]
		if g == nil {
			g = &grp{sig: sig}
			groups[k] = g
			order = append(order, k)
		}
		return g
	}
	for _, s := range lhs {
		g := get(s)
		g.l = append(g.l, s)
	}
	for _, s := range rhs {
		g := get(s)
		g.r = append(g.r, s)
	}
	type outT struct {
		s    ag_Sample
		kept bool
		grp  string
	}
	var outs []outT
	for _, k := range order {
		g := groups[k]
		l, r := g.l, g.r
		// fill modifiers: "fill in missing series on either side ... with a provided default
		// sample value"; one series per match group, identified by the matching labels.
		if len(l) == 0 && len(r) > 0 && e.FillL != nil {
			l = []ag_Sample{{L: c29CopyL(g.sig), V: *e.FillL}}
		}
		if len(r) == 0 && len(l) > 0 && e.FillR != nil {
			r = []ag_Sample{{L: c29CopyL(g.sig), V: *e.FillR}}
		}
		many, one := l, r // group_left and one-to-one: the right side is the "one" side
		if e.Card == 2 {
			many, one = r, l
		}
		if len(one) > 1 {
			if len(many) > 0 {
				exp.MustErr = true
				exp.Why = fmt.Sprintf("match group %s has %d series on the one side", k, len(one))
			} else {
				exp.MayErr = true
			}
			continue
		}
		if len(one) == 0 || len(many) == 0 {
			continue
		}
		if e.Card == 0 && len(many) > 1 {
			exp.MustErr = true
			exp.Why = fmt.Sprintf("match group %s is many-to-one without group modifier", k)
			continue
		}
		for _, m := range many {
			ls, rs := m, one[0]
			if e.Card == 2 {
				ls, rs = one[0], m
			}
			v, holds := c29Apply(e.Op, ls.V, rs.V)
			var ol map[string]string
			switch e.Card {
			case 0:
				if e.HasMatch && e.On {
					ol = c29Sig(e, ls.L)
				} else {
					ol = c29CopyL(ls.L)
					if e.HasMatch {
						for _, x := range e.MLabels {
							delete(ol, x)
						}
					}
				}
				if dropName {
					delete(ol, c29Name)
				}
			default:
				ol = c29CopyL(m.L)
				if dropName || (c29NameRuleLiteral && e.HasMatch && e.On) {
					delete(ol, c29Name)
				}
				for _, x := range e.Include {
					if val, ok := one[0].L[x]; ok {
						ol[x] = val
					} else {
						delete(ol, x)
					}
				}
			}
			kept := true
			if c29IsCmp(e.Op) {
				if e.Bool {
					if holds {
						v = 1
					} else {
						v = 0
					}
				} else {
					kept = holds
				}
			}
			outs = append(outs, outT{ag_Sample{L: ol, V: v}, kept, k})
		}
	}
	// uniqueness of the result series
	seenKept := map[string]bool{}
	seenAny := map[string]bool{}
	for _, o := range outs {
		k := ag_LKey(o.s.L)
		if o.kept {
			if seenKept[k] {
				exp.MustErr = true
				exp.Why = "result would contain label set " + k + " twice"
			}
			seenKept[k] = true
			exp.Exact = append(exp.Exact, o.s)
		}
		// a duplicate that involves an element removed by the comparison filter: undocumented
		if seenAny[k] {
			exp.MayErr = true
		}
		seenAny[k] = true
	}
	return exp
}

// c29RefVS: vector op scalar (swap=false) or scalar op vector (swap=true).
func c29RefVS(e *c29Expr, vec []ag_Sample, scalar float64, swap bool) *c29Expect {
	exp := &c29Expect{Kind: "exact"}
	for _, s := range vec {
		l, r := s.V, scalar
		if swap {
			l, r = scalar, s.V
		}
		v, holds := c29Apply(e.Op, l, r)
		ol := c29CopyL(s.L)
		if c29IsCmp(e.Op) {
			if e.Bool {
				v = 0
				if holds {
					v = 1
				}
				delete(ol, c29Name)
			} else {
				if !holds {
					continue
				}
				v = s.V // the vector element is what is filtered
			}
		} else {
			delete(ol, c29Name)
		}
		exp.Exact = append(exp.Exact, ag_Sample{L: ol, V: v})
	}
	c29MarkDuplicates(exp)
	return exp
}

func c29RefSS(e *c29Expr) *c29Expect {
	v, holds := c29Apply(e.Op, e.SL, e.SR)
	if c29IsCmp(e.Op) {
		v = 0
		if holds {
			v = 1
		}
	}
	return &c29Expect{IsScalar: true, Scalar: v}
}

// c29Ref dispatches on the expression kind; agg/lhs/rhs are the instant vectors selected.
func c29Ref(e *c29Expr, agg, lhs, rhs []ag_Sample) *c29Expect {
	switch e.Kind {
	case "agg":
		return c29RefAgg(e, agg)
	case "vv":
		return c29RefVV(e, lhs, rhs)
	case "vs":
		return c29RefVS(e, lhs, e.SR, false)
	case "sv":
		return c29RefVS(e, rhs, e.SL, true)
	case "ss":
		return c29RefSS(e)
	}
	panic("c29Ref: " + e.Kind)
}

// ---------------------------------------------------------------------------------------------
// comparison of the engine's outcome with the expectation
// ---------------------------------------------------------------------------------------------

func c29Close(got, want float64) bool {
	if math.IsNaN(got) || math.IsNaN(want) {
		return math.IsNaN(got) && math.IsNaN(want)
	}
	if math.IsInf(got, 0) || math.IsInf(want, 0) {
		return got == want
	}
	if got == want {
		return true
	}
	return math.Abs(got-want) <= 1e-9*math.Max(math.Abs(got), math.Abs(want))
}

func c29SameBits(a, b float64) bool { return a == b || (math.IsNaN(a) && math.IsNaN(b)) }

func c29MatchingError(msg string) bool {
	return strings.Contains(msg, "many-to-many matching not allowed") ||
		strings.Contains(msg, "many-to-one matching must be explicit") ||
		strings.Contains(msg, "grouping labels must ensure unique matches") ||
		strings.Contains(msg, "vector cannot contain metrics with the same labelset")
}

// c29Check returns ("","") when got is allowed by exp, else a violation signature and message.
func c29Check(e *c29Expr, exp *c29Expect, got *ag_Outcome) (string, string) {
	fam := "binop"
	if e.Kind == "agg" {
		fam = "agg"
	}
	if got.Panic != "" {
		return fam + "-engine-panic", got.Panic
	}
	if got.Err != nil {
		if got.AtCreate {
			return fam + "-valid-expression-rejected", got.Err.Error()
		}
		if !c29MatchingError(got.Err.Error()) {
			return fam + "-unexpected-error", got.Err.Error()
		}
		if exp.MustErr || exp.MayErr {
			return "", ""
		}
		return fam + "-unexpected-matching-error", got.Err.Error()
	}
	if exp.MustErr {
		return fam + "-missing-matching-error", "expected a matching/uniqueness error (" + exp.Why + "), got " + got.ag_Canon()
	}
	if exp.IsScalar {
		if got.Type != parser.ValueTypeScalar {
			return fam + "-wrong-result-type", "expected scalar, got " + string(got.Type)
		}
		if !c29Close(got.Scalar, exp.Scalar) {
			return fam + "-wrong-scalar", fmt.Sprintf("got %s want %s", ag_F(got.Scalar), ag_F(exp.Scalar))
		}
		return "", ""
	}
	if got.Type != parser.ValueTypeVector {
		return fam + "-wrong-result-type", "expected vector, got " + string(got.Type)
	}
	for _, s := range got.Vector {
		if s.H != nil {
			return fam + "-histogram-from-floats", ag_VecString(got.Vector)
		}
	}
	seen := map[string]int{}
	for i, s := range got.Vector {
		k := ag_LKey(s.L)
		if _, dup := seen[k]; dup {
			return fam + "-duplicate-labelset-in-result", ag_VecString(got.Vector)
		}
		seen[k] = i
	}
	if exp.Kind == "exact" {
		if len(got.Vector) != len(exp.Exact) {
			return fam + "-wrong-result-elements", fmt.Sprintf("got %s want %s", ag_VecString(got.Vector), ag_VecString(exp.Exact))
		}
		for _, w := range exp.Exact {
			i, ok := seen[ag_LKey(w.L)]
			if !ok {
				return fam + "-wrong-result-labels", fmt.Sprintf("got %s want %s", ag_VecString(got.Vector), ag_VecString(exp.Exact))
			}
			g := got.Vector[i].V
			if exp.Counts {
				if g != w.V {
					return fam + "-wrong-count", fmt.Sprintf("got %s want %s", ag_VecString(got.Vector), ag_VecString(exp.Exact))
				}
			} else if !c29Close(g, w.V) {
				return fam + "-wrong-value", fmt.Sprintf("got %s want %s", ag_VecString(got.Vector), ag_VecString(exp.Exact))
			}
		}
		return "", ""
	}
	// k kinds: topk / bottomk / limitk
	describe := func() string {
		var gs []string
		for _, g := range exp.Groups {
			gs = append(gs, ag_VecString(g))
		}
		return fmt.Sprintf("k=%d mode=%s groups=%v got %s", exp.K, exp.KMode, gs, ag_VecString(got.Vector))
	}
	if exp.K < 1 {
		if len(got.Vector) != 0 {
			return "agg-k-wrong-selection", describe()
		}
		return "", ""
	}
	groupOf := map[string]int{}
	valueOf := map[string]float64{}
	for gi, g := range exp.Groups {
		for _, m := range g {
			groupOf[ag_LKey(m.L)] = gi
			valueOf[ag_LKey(m.L)] = m.V
		}
	}
	sel := make([][]float64, len(exp.Groups))
	closed := map[int]bool{}
	last := -1
	for _, s := range got.Vector {
		k := ag_LKey(s.L)
		gi, ok := groupOf[k]
		if !ok || !c29SameBits(valueOf[k], s.V) {
			return "agg-k-foreign-element", describe()
		}
		if gi != last {
			if closed[gi] {
				return "agg-k-group-not-consecutive", describe()
			}
			if last >= 0 {
				closed[last] = true
			}
			last = gi
		}
		sel[gi] = append(sel[gi], s.V)
	}
	// farthest-from-the-top order: descending with NaN last (top), ascending with NaN last (bottom)
	before := func(a, b float64) bool {
		if math.IsNaN(a) {
			return false
		}
		if math.IsNaN(b) {
			return true
		}
		if exp.KMode == "bottom" {
			return a < b
		}
		return a > b
	}
	for gi, g := range exp.Groups {
		want := exp.K
		if len(g) < want {
			want = len(g)
		}
		if len(sel[gi]) != want {
			return "agg-k-wrong-selection-size", describe()
		}
		if exp.KMode == "any" {
			continue
		}
		vals := make([]float64, len(g))
		for i, m := range g {
			vals[i] = m.V
		}
		sort.SliceStable(vals, func(i, j int) bool { return before(vals[i], vals[j]) })
		for i := 0; i < want; i++ {
			// returned in order, so position i must hold the i-th best value
			if !c29SameBits(sel[gi][i], vals[i]) {
				// distinguish a wrong set from a wrong order
				s2 := append([]float64{}, sel[gi]...)
				sort.SliceStable(s2, func(a, b int) bool { return before(s2[a], s2[b]) })
				for j := 0; j < want; j++ {
					if !c29SameBits(s2[j], vals[j]) {
						return "agg-k-wrong-selection", describe()
					}
				}
				return "agg-k-wrong-order", describe()
			}
		}
	}
	return "", ""
}
