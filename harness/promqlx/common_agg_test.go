package h_promqlx

// Shared helpers of the C29 / C33 harnesses (identifiers prefixed ag_): engine and storage
// construction through the public API only, execution of one query with panic capture, and a
// canonical rendering of query results.

import (
	"context"
	"fmt"
	"log/slog"
	"math"
	"os"
	"sort"
	"strconv"
	"strings"
	"sync"
	"time"

	"github.com/prometheus/prometheus/internal/verif/vx"
	"github.com/prometheus/prometheus/model/histogram"
	"github.com/prometheus/prometheus/model/labels"
	"github.com/prometheus/prometheus/promql"
	"github.com/prometheus/prometheus/promql/parser"
	"github.com/prometheus/prometheus/storage"
	"github.com/prometheus/prometheus/tsdb"
	"github.com/prometheus/prometheus/util/teststorage"
)

// ag_ParserOpts enables every optional syntax so that every spelling of the language is reachable.
var ag_ParserOpts = parser.Options{
	EnableExperimentalFunctions:  true,
	ExperimentalDurationExpr:     true,
	EnableExtendedRangeSelectors: true,
	EnableBinopFillModifiers:     true,
}

// ag_NewEngine builds a real engine. delayedName selects --enable-feature=promql-delayed-name-removal.
func ag_NewEngine(delayedName bool, maxSamples int) *promql.Engine {
	var lg *slog.Logger
	if os.Getenv("VERIF_REPLAY") != "" {
		// replay: let the engine log the stack trace of a recovered runtime panic
		lg = slog.New(slog.NewTextHandler(os.Stdout, nil))
	}
	return promql.NewEngine(promql.EngineOpts{
		Logger:                   lg,
		MaxSamples:               maxSamples,
		Timeout:                  10 * time.Minute,
		NoStepSubqueryIntervalFn: func(int64) int64 { return 60000 },
		EnableAtModifier:         true,
		EnableNegativeOffset:     true,
		EnableDelayedNameRemoval: delayedName,
		UseStartTimestamps:       true,
		Parser:                   parser.NewParser(ag_ParserOpts),
	})
}

// ag_NewStorage opens a throw-away TSDB (under TMPDIR) without background compaction.
func ag_NewStorage() (*teststorage.TestStorage, error) {
	// A small head (few stripes, no exemplar ring) keeps opening, closing and garbage-collecting
	// the many throw-away storages cheap; it does not change what queries return.
	s, err := teststorage.NewWithError(func(o *tsdb.Options) {
		o.StripeSize = 16
		o.EnableExemplarStorage = false
		o.MaxExemplars = 0
	})
	if err != nil {
		return nil, err
	}
	s.DisableCompactions()
	return s, nil
}

// ag_Sample is one element of an instant vector in harness terms.
type ag_Sample struct {
	L map[string]string // label set including __name__ (absent = no metric name)
	V float64
	H *histogram.FloatHistogram
}

func ag_LabelsOf(l labels.Labels) map[string]string {
	m := map[string]string{}
	l.Range(func(x labels.Label) { m[x.Name] = x.Value })
	return m
}

// ag_LKey renders a label map canonically.
func ag_LKey(m map[string]string) string {
	ks := make([]string, 0, len(m))
	for k := range m {
		ks = append(ks, k)
	}
	sort.Strings(ks)
	var sb strings.Builder
	sb.WriteByte('{')
	for i, k := range ks {
		if i > 0 {
			sb.WriteByte(',')
		}
		sb.WriteString(k)
		sb.WriteByte('=')
		sb.WriteString(strconv.Quote(m[k]))
	}
	sb.WriteByte('}')
	return sb.String()
}

// ag_F renders a float exactly (bit pattern for NaN payloads is ignored: every NaN is "NaN").
func ag_F(f float64) string {
	switch {
	case math.IsNaN(f):
		return "NaN"
	case math.IsInf(f, 1):
		return "+Inf"
	case math.IsInf(f, -1):
		return "-Inf"
	}
	return strconv.FormatFloat(f, 'g', -1, 64)
}

// ag_HString renders a histogram; FloatHistogram.String itself may panic on a malformed
// histogram, which must not take the harness down.
func ag_HString(h *histogram.FloatHistogram) (s string) {
	defer func() {
		if x := recover(); x != nil {
			s = fmt.Sprintf("!FloatHistogram.String panicked: %v", x)
		}
	}()
	return h.String()
}

func ag_VecString(v []ag_Sample) string {
	var sb strings.Builder
	sb.WriteByte('[')
	for i, s := range v {
		if i > 0 {
			sb.WriteByte(' ')
		}
		sb.WriteString(ag_LKey(s.L))
		sb.WriteByte(' ')
		if s.H != nil {
			sb.WriteString(ag_HString(s.H))
		} else {
			sb.WriteString(ag_F(s.V))
		}
	}
	sb.WriteByte(']')
	return sb.String()
}

// ag_Outcome is everything observable of one query execution.
type ag_Outcome struct {
	Panic    string // non-empty: the engine API panicked (never acceptable)
	Err      error  // error of NewXQuery or Result.Err
	AtCreate bool   // Err came from query construction (parse / option validation)
	Type     parser.ValueType
	Vector   []ag_Sample // ValueTypeVector, in the order returned
	Scalar   float64
	Matrix   promql.Matrix
	Str      string
	Warn     []string
	Info     []string
}

// ag_Canon renders the complete outcome bit-exactly and order-preserving (used to compare two
// executions of the same query, which must be identical).
func (o *ag_Outcome) ag_Canon() string {
	var sb strings.Builder
	if o.Panic != "" {
		return "PANIC " + o.Panic
	}
	if o.Err != nil {
		fmt.Fprintf(&sb, "ERR(create=%v) %s", o.AtCreate, o.Err.Error())
		return sb.String()
	}
	sb.WriteString(string(o.Type))
	sb.WriteByte(' ')
	switch o.Type {
	case parser.ValueTypeVector:
		sb.WriteString(ag_VecString(o.Vector))
	case parser.ValueTypeScalar:
		sb.WriteString(ag_F(o.Scalar))
	case parser.ValueTypeString:
		sb.WriteString(strconv.Quote(o.Str))
	case parser.ValueTypeMatrix:
		for _, s := range o.Matrix {
			sb.WriteString(ag_LKey(ag_LabelsOf(s.Metric)))
			for _, p := range s.Floats {
				fmt.Fprintf(&sb, " %d:%s", p.T, ag_F(p.F))
			}
			for _, p := range s.Histograms {
				fmt.Fprintf(&sb, " %d:%s", p.T, ag_HString(p.H))
			}
			sb.WriteByte(';')
		}
	}
	fmt.Fprintf(&sb, " W%v I%v", o.Warn, o.Info)
	return sb.String()
}

func ag_fill(o *ag_Outcome, q string, res *promql.Result) {
	if res.Err != nil {
		o.Err = res.Err
	}
	w, i := res.Warnings.AsStrings(q, 0, 0)
	sort.Strings(w)
	sort.Strings(i)
	o.Warn, o.Info = w, i
	if res.Err != nil || res.Value == nil {
		return
	}
	o.Type = res.Value.Type()
	switch v := res.Value.(type) {
	case promql.Vector:
		for _, s := range v {
			x := ag_Sample{L: ag_LabelsOf(s.Metric), V: s.F}
			if s.H != nil {
				x.H = s.H.Copy()
			}
			o.Vector = append(o.Vector, x)
		}
	case promql.Scalar:
		o.Scalar = v.V
	case promql.String:
		o.Str = v.V
	case promql.Matrix:
		// deep copy: point slices go back to the engine's pools on Close.
		for _, s := range v {
			c := promql.Series{Metric: s.Metric.Copy()}
			c.Floats = append(c.Floats, s.Floats...)
			for _, p := range s.Histograms {
				c.Histograms = append(c.Histograms, promql.HPoint{T: p.T, H: p.H.Copy()})
			}
			o.Matrix = append(o.Matrix, c)
		}
		sort.Sort(o.Matrix)
	}
}

// ---------------------------------------------------------------------------------------------
// watchdog: an evaluation that does not return cannot be interrupted from outside, so a stuck
// query is reported as a violation and the process ends (evidence written) instead of hanging
// the whole check. The limit is four orders of magnitude above the normal evaluation time.
// ---------------------------------------------------------------------------------------------

type ag_inflight struct {
	what  string
	start time.Time
}

var (
	ag_watchMu   sync.Mutex
	ag_watchSeq  int64
	ag_watchRuns = map[int64]ag_inflight{}
)

func ag_enter(what string) int64 {
	ag_watchMu.Lock()
	ag_watchSeq++
	id := ag_watchSeq
	ag_watchRuns[id] = ag_inflight{what, time.Now()}
	ag_watchMu.Unlock()
	return id
}

func ag_leave(id int64) {
	ag_watchMu.Lock()
	delete(ag_watchRuns, id)
	ag_watchMu.Unlock()
}

// ag_StartWatchdog reports any evaluation running longer than limit as a violation, writes the
// evidence and exits the process.
func ag_StartWatchdog(r *vx.Run, limit time.Duration) {
	go func() {
		for {
			time.Sleep(time.Second)
			ag_watchMu.Lock()
			stuck := ""
			for _, f := range ag_watchRuns {
				if time.Since(f.start) > limit {
					stuck = f.what
				}
			}
			ag_watchMu.Unlock()
			if stuck != "" {
				r.NotExhaustive("an evaluation did not return within " + limit.String())
				r.Violation("evaluation-did-not-return", fmt.Sprintf("%s: the engine did not return within %s (normal: milliseconds); the check stops here", stuck, limit), map[string]any{"kind": "stuck", "what": stuck})
				r.Finish()
				os.Exit(0)
			}
		}
	}()
}

// ag_Instant evaluates q at ts (milliseconds) through Engine.NewInstantQuery / Exec / Close.
func ag_Instant(eng *promql.Engine, stor storage.Queryable, q string, tsMs int64) *ag_Outcome {
	o := &ag_Outcome{}
	defer ag_leave(ag_enter(fmt.Sprintf("instant query %s at %d", q, tsMs)))
	p, stack := vx.Guard(func() {
		qry, err := eng.NewInstantQuery(context.Background(), stor, nil, q, time.UnixMilli(tsMs))
		if err != nil {
			o.Err, o.AtCreate = err, true
			return
		}
		res := qry.Exec(context.Background())
		ag_fill(o, q, res)
		qry.Close()
	})
	if p != nil {
		o.Panic = fmt.Sprintf("%v\n%s", p, ag_trimStack(stack))
	}
	return o
}

// ag_Range evaluates q over [start,end] step (milliseconds) through Engine.NewRangeQuery.
func ag_Range(eng *promql.Engine, stor storage.Queryable, q string, startMs, endMs, stepMs int64) *ag_Outcome {
	o := &ag_Outcome{}
	defer ag_leave(ag_enter(fmt.Sprintf("range query %s [%d,%d] step %d", q, startMs, endMs, stepMs)))
	p, stack := vx.Guard(func() {
		qry, err := eng.NewRangeQuery(context.Background(), stor, nil, q, time.UnixMilli(startMs), time.UnixMilli(endMs), time.Duration(stepMs)*time.Millisecond)
		if err != nil {
			o.Err, o.AtCreate = err, true
			return
		}
		res := qry.Exec(context.Background())
		ag_fill(o, q, res)
		qry.Close()
	})
	if p != nil {
		o.Panic = fmt.Sprintf("%v\n%s", p, ag_trimStack(stack))
	}
	return o
}

func ag_trimStack(s string) string {
	lines := strings.Split(s, "\n")
	var keep []string
	for _, l := range lines {
		if strings.Contains(l, "/promql/") || strings.Contains(l, "/model/") || strings.Contains(l, "/tsdb/") || strings.Contains(l, "/storage/") {
			keep = append(keep, strings.TrimSpace(l))
			if len(keep) >= 12 {
				break
			}
		}
	}
	return strings.Join(keep, " | ")
}
