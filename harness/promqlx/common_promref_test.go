package h_promqlx

// promref: a deliberately naive reference evaluator for the PromQL subset used by the C27 / C28 /
// C30 harnesses (identifiers prefixed pr_). It is written from docs/querying/basics.md (instant
// selectors + lookback + staleness, left-open/right-closed range windows, offset and @ modifiers,
// subqueries) and docs/querying/functions.md, plus the property statements - NOT from
// promql/engine.go or promql/functions.go. Also here: the tiny data model, storage loading through
// the public appender, and execution of queries through promql.NewEngine / NewInstantQuery /
// NewRangeQuery with results copied into plain structs.

import (
	"context"
	"encoding/json"
	"fmt"
	"math"
	"sort"
	"strconv"
	"strings"
	"time"

	"github.com/prometheus/prometheus/model/histogram"
	"github.com/prometheus/prometheus/model/labels"
	"github.com/prometheus/prometheus/model/value"
	"github.com/prometheus/prometheus/promql"
	"github.com/prometheus/prometheus/storage"
	"github.com/prometheus/prometheus/tsdb"
	"github.com/prometheus/prometheus/tsdb/chunkenc"
	"github.com/prometheus/prometheus/util/teststorage"
)

// ---------------------------------------------------------------------------------------------
// Data model
// ---------------------------------------------------------------------------------------------

const (
	pr_F = 0 // float sample
	pr_H = 1 // native histogram sample (count = F, sum = 2*F, one positive bucket)
	pr_S = 2 // staleness marker
)

// pr_Sample is one stored sample. Times are milliseconds.
type pr_Sample struct {
	T  int64
	K  int
	F  float64 // float value; for histograms the observation count
	ST int64   // start timestamp, 0 = none
}

type pr_SampleJSON struct {
	T  int64  `json:"t"`
	K  string `json:"k"`
	F  string `json:"v,omitempty"`
	ST int64  `json:"st,omitempty"`
}

func (s pr_Sample) MarshalJSON() ([]byte, error) {
	j := pr_SampleJSON{T: s.T, K: [...]string{"float", "hist", "stale"}[s.K], ST: s.ST}
	if s.K != pr_S {
		j.F = pr_Fmt(s.F)
	}
	return json.Marshal(j)
}

func (s *pr_Sample) UnmarshalJSON(b []byte) error {
	var j pr_SampleJSON
	if err := json.Unmarshal(b, &j); err != nil {
		return err
	}
	s.T, s.ST = j.T, j.ST
	switch j.K {
	case "float":
		s.K = pr_F
	case "hist":
		s.K = pr_H
	case "stale":
		s.K = pr_S
	default:
		return fmt.Errorf("bad kind %q", j.K)
	}
	if j.F != "" {
		f, err := strconv.ParseFloat(j.F, 64)
		if err != nil {
			return err
		}
		s.F = f
	}
	return nil
}

// pr_Series is one stored series; it is stored as <metric>{d="<ID>"}.
type pr_Series struct {
	ID      string      `json:"id"`
	Samples []pr_Sample `json:"samples"` // strictly increasing T
}

// pr_Fmt renders a float exactly and readably (NaN, +Inf, -0 survive a ParseFloat round trip).
func pr_Fmt(f float64) string { return strconv.FormatFloat(f, 'g', -1, 64) }

// pr_SameFloat is bitwise equality except that every NaN equals every NaN.
func pr_SameFloat(a, b float64) bool {
	if math.IsNaN(a) || math.IsNaN(b) {
		return math.IsNaN(a) && math.IsNaN(b)
	}
	return math.Float64bits(a) == math.Float64bits(b)
}

// pr_CloseFloat: equal, or within relative tolerance tol (absolute tol next to zero).
func pr_CloseFloat(a, b, tol float64) bool {
	if pr_SameFloat(a, b) || a == b {
		return true
	}
	if math.IsNaN(a) || math.IsNaN(b) || math.IsInf(a, 0) || math.IsInf(b, 0) {
		return false
	}
	d := math.Abs(a - b)
	m := math.Max(math.Abs(a), math.Abs(b))
	return d <= tol*m || d <= tol*1e-300
}

// ---------------------------------------------------------------------------------------------
// Reference semantics of selectors (basics.md: "Staleness", "Range Vector Selectors",
// "Offset modifier", "@ modifier", "Subquery"; migration.md: left-open windows)
// ---------------------------------------------------------------------------------------------

// pr_SelTime is the time a selector with modifiers looks at: the @ time if present, otherwise the
// evaluation time, moved back by the offset (a negative offset looks ahead).
func pr_SelTime(evalT int64, hasAt bool, at, offset int64) int64 {
	t := evalT
	if hasAt {
		t = at
	}
	return t - offset
}

// pr_Instant: the newest sample with timestamp in (t-lookback, t]; absent when there is none or
// when that newest sample is a staleness marker.
func pr_Instant(s []pr_Sample, t, lookback int64) (pr_Sample, bool) {
	var best pr_Sample
	found := false
	for _, x := range s {
		if x.T > t-lookback && x.T <= t {
			if !found || x.T > best.T {
				best, found = x, true
			}
		}
	}
	if !found || best.K == pr_S {
		return pr_Sample{}, false
	}
	return best, true
}

// pr_Window: the non-stale samples with timestamp in (t-r, t], oldest first.
func pr_Window(s []pr_Sample, t, r int64) []pr_Sample {
	var out []pr_Sample
	for _, x := range s {
		if x.T > t-r && x.T <= t && x.K != pr_S {
			out = append(out, x)
		}
	}
	sort.Slice(out, func(i, j int) bool { return out[i].T < out[j].T })
	return out
}

// pr_FloorDiv is mathematical floor division (Go's / truncates toward zero).
func pr_FloorDiv(a, b int64) int64 {
	q := a / b
	if (a%b != 0) && ((a < 0) != (b < 0)) {
		q--
	}
	return q
}

// pr_SubqueryTimes: the multiples of step inside the window (t-r, t], ascending.
func pr_SubqueryTimes(t, r, step int64) []int64 {
	var out []int64
	for k := pr_FloorDiv(t-r, step) + 1; k*step <= t; k++ {
		if k*step > t-r {
			out = append(out, k*step)
		}
	}
	return out
}

// ---------------------------------------------------------------------------------------------
// Storage and engine plumbing (public API only)
// ---------------------------------------------------------------------------------------------

func pr_Hist(count float64) *histogram.Histogram {
	c := uint64(count)
	return &histogram.Histogram{
		Schema: 0, Count: c, Sum: 2 * count,
		PositiveSpans:   []histogram.Span{{Offset: 0, Length: 1}},
		PositiveBuckets: []int64{int64(c)},
	}
}

// pr_NewStorage opens a throw-away TSDB holding the given series as metric{d="<ID>"}.
// Start timestamps are stored when withST is set (XOR2 float chunks).
func pr_NewStorage(metric string, series []pr_Series, withST bool) (*teststorage.TestStorage, error) {
	var opts []teststorage.Option
	if withST {
		opts = append(opts, func(o *tsdb.Options) {
			o.EnableSTStorage = true
			o.FloatChunkEncoding = chunkenc.EncXOR2
			o.EnableHistogramSTEncoding = true
		})
	}
	st, err := teststorage.NewWithError(opts...)
	if err != nil {
		return nil, err
	}
	st.DisableCompactions()
	if err := pr_Load(st, metric, series); err != nil {
		st.Close()
		return nil, err
	}
	return st, nil
}

// pr_LSeries is a stored series with an explicit label set (alternating name, value).
type pr_LSeries struct {
	Labels  []string    `json:"labels"`
	Samples []pr_Sample `json:"samples"`
}

func pr_Load(st *teststorage.TestStorage, metric string, series []pr_Series) error {
	ls := make([]pr_LSeries, len(series))
	for i, se := range series {
		ls[i] = pr_LSeries{Labels: []string{"__name__", metric, "d", se.ID}, Samples: se.Samples}
	}
	return pr_LoadLabeled(st, ls)
}

// pr_NewLabeledStorage opens a throw-away TSDB holding the given labelled series.
func pr_NewLabeledStorage(series []pr_LSeries) (*teststorage.TestStorage, error) {
	st, err := teststorage.NewWithError()
	if err != nil {
		return nil, err
	}
	st.DisableCompactions()
	if err := pr_LoadLabeled(st, series); err != nil {
		st.Close()
		return nil, err
	}
	return st, nil
}

func pr_LoadLabeled(st *teststorage.TestStorage, series []pr_LSeries) error {
	app := st.AppenderV2(context.Background())
	n := 0
	for _, se := range series {
		l := labels.FromStrings(se.Labels...)
		for _, x := range se.Samples {
			var err error
			switch x.K {
			case pr_F:
				_, err = app.Append(0, l, x.ST, x.T, x.F, nil, nil, storage.AppendV2Options{})
			case pr_H:
				_, err = app.Append(0, l, x.ST, x.T, 0, pr_Hist(x.F), nil, storage.AppendV2Options{})
			case pr_S:
				_, err = app.Append(0, l, x.ST, x.T, math.Float64frombits(value.StaleNaN), nil, nil, storage.AppendV2Options{})
			}
			if err != nil {
				app.Rollback()
				return fmt.Errorf("append %v %+v: %w", se.Labels, x, err)
			}
			n++
		}
		if n > 5000 {
			if err := app.Commit(); err != nil {
				return err
			}
			app = st.AppenderV2(context.Background())
			n = 0
		}
	}
	return app.Commit()
}

// pr_Wide wraps a Queryable so that it ignores the time bounds and select hints it is given and
// returns every stored sample of the matching series. Storage may legitimately do that (the hints
// are "up to implementation ... if used at all", DisableTrimming documents that results "may
// contain samples outside the queried time range", block storage works at chunk granularity), so
// the engine itself has to enforce lookback and window edges.
func pr_Wide(q storage.Queryable) storage.Queryable { return pr_wideQ{q} }

type pr_wideQ struct{ q storage.Queryable }

func (w pr_wideQ) Querier(_, _ int64) (storage.Querier, error) {
	q, err := w.q.Querier(math.MinInt64, math.MaxInt64)
	if err != nil {
		return nil, err
	}
	return pr_wideQuerier{q}, nil
}

type pr_wideQuerier struct{ storage.Querier }

func (w pr_wideQuerier) Select(ctx context.Context, sortSeries bool, _ *storage.SelectHints, ms ...*labels.Matcher) storage.SeriesSet {
	return w.Querier.Select(ctx, sortSeries, nil, ms...)
}

type pr_Eng = *promql.Engine
type pr_Stor = storage.Queryable

// pr_NewEngine builds a real engine. defStep is the default subquery resolution in ms.
func pr_NewEngine(lookback time.Duration, defStep int64, useST bool) *promql.Engine {
	return promql.NewEngine(promql.EngineOpts{
		MaxSamples:               50000000,
		Timeout:                  10 * time.Minute,
		LookbackDelta:            lookback,
		NoStepSubqueryIntervalFn: func(int64) int64 { return defStep },
		EnableAtModifier:         true,
		EnableNegativeOffset:     true,
		UseStartTimestamps:       useST,
	})
}

// pr_Point is one point of a result series.
type pr_Point struct {
	T int64
	H bool    // histogram
	F float64 // float value, or histogram count
	S float64 // histogram sum
}

func (p pr_Point) String() string {
	if p.H {
		return fmt.Sprintf("%d:hist(count=%s,sum=%s)", p.T, pr_Fmt(p.F), pr_Fmt(p.S))
	}
	return fmt.Sprintf("%d:%s", p.T, pr_Fmt(p.F))
}

func pr_PointsString(ps []pr_Point) string {
	var sb strings.Builder
	sb.WriteByte('[')
	for i, p := range ps {
		if i > 0 {
			sb.WriteByte(' ')
		}
		sb.WriteString(p.String())
	}
	sb.WriteByte(']')
	return sb.String()
}

// pr_Result is a query result in plain data: series key -> points sorted by time.
// The key is the value of label d when present, otherwise the label set (without __name__).
type pr_Result struct {
	Type   string // "vector", "matrix", "scalar"
	Series map[string][]pr_Point
	Dup    string // non-empty: a series key occurred twice
	Warn   []string
	Err    error
}

func pr_Key(l labels.Labels) string {
	if d := l.Get("d"); d != "" {
		return d
	}
	return l.DropMetricName().String()
}

func pr_hpoint(t int64, h *histogram.FloatHistogram) pr_Point {
	return pr_Point{T: t, H: true, F: h.Count, S: h.Sum}
}

// pr_Convert copies an engine result (must be called before Query.Close).
func pr_Convert(res *promql.Result) pr_Result {
	out := pr_Result{Series: map[string][]pr_Point{}}
	for _, w := range res.Warnings.AsErrors() {
		out.Warn = append(out.Warn, w.Error())
	}
	sort.Strings(out.Warn)
	if res.Err != nil {
		out.Err = res.Err
		return out
	}
	add := func(k string, ps []pr_Point) {
		if _, dup := out.Series[k]; dup {
			out.Dup = k
		}
		out.Series[k] = ps
	}
	switch v := res.Value.(type) {
	case promql.Vector:
		out.Type = "vector"
		for _, s := range v {
			if s.H != nil {
				add(pr_Key(s.Metric), []pr_Point{pr_hpoint(s.T, s.H)})
			} else {
				add(pr_Key(s.Metric), []pr_Point{{T: s.T, F: s.F}})
			}
		}
	case promql.Matrix:
		out.Type = "matrix"
		for _, s := range v {
			var ps []pr_Point
			for _, p := range s.Floats {
				ps = append(ps, pr_Point{T: p.T, F: p.F})
			}
			for _, p := range s.Histograms {
				ps = append(ps, pr_hpoint(p.T, p.H))
			}
			sort.SliceStable(ps, func(i, j int) bool { return ps[i].T < ps[j].T })
			add(pr_Key(s.Metric), ps)
		}
	case promql.Scalar:
		out.Type = "scalar"
		add("", []pr_Point{{T: v.T, F: v.V}})
	default:
		out.Err = fmt.Errorf("unexpected result type %T", res.Value)
	}
	return out
}

// pr_QueryInstant runs one instant query at tms (ms) with the given lookback (0 = engine default).
func pr_QueryInstant(eng *promql.Engine, q storage.Queryable, expr string, tms int64, lookback time.Duration) pr_Result {
	qry, err := eng.NewInstantQuery(context.Background(), q, promql.NewPrometheusQueryOpts(false, lookback), expr, time.UnixMilli(tms))
	if err != nil {
		return pr_Result{Err: fmt.Errorf("parse: %w", err)}
	}
	defer qry.Close()
	return pr_Convert(qry.Exec(context.Background()))
}

// pr_QueryRange runs one range query (all times ms).
func pr_QueryRange(eng *promql.Engine, q storage.Queryable, expr string, start, end, step int64, lookback time.Duration) pr_Result {
	qry, err := eng.NewRangeQuery(context.Background(), q, promql.NewPrometheusQueryOpts(false, lookback), expr,
		time.UnixMilli(start), time.UnixMilli(end), time.Duration(step)*time.Millisecond)
	if err != nil {
		return pr_Result{Err: fmt.Errorf("parse: %w", err)}
	}
	defer qry.Close()
	return pr_Convert(qry.Exec(context.Background()))
}

// pr_Dur renders a duration in ms as PromQL duration text ("1s", "1001ms", "-2s", "0s").
func pr_Dur(ms int64) string {
	neg := ""
	if ms < 0 {
		neg, ms = "-", -ms
	}
	if ms%1000 == 0 {
		return fmt.Sprintf("%s%ds", neg, ms/1000)
	}
	return fmt.Sprintf("%s%dms", neg, ms)
}

// pr_AtText renders an @ time in ms as a float literal of seconds with ms precision.
func pr_AtText(ms int64) string {
	neg := ""
	if ms < 0 {
		neg, ms = "-", -ms
	}
	return fmt.Sprintf("%s%d.%03d", neg, ms/1000, ms%1000)
}

// pr_SamePoints compares two point lists bitwise (NaN-aware).
func pr_SamePoints(a, b []pr_Point) bool {
	if len(a) != len(b) {
		return false
	}
	for i := range a {
		if a[i].T != b[i].T || a[i].H != b[i].H || !pr_SameFloat(a[i].F, b[i].F) || !pr_SameFloat(a[i].S, b[i].S) {
			return false
		}
	}
	return true
}

// pr_HashPoints is a cheap order-sensitive hash of a point list (for distinct-outcome counting).
func pr_HashPoints(ps []pr_Point) uint64 {
	h := uint64(14695981039346656037)
	mix := func(x uint64) {
		h ^= x
		h *= 1099511628211
		h ^= h >> 29
	}
	for _, p := range ps {
		mix(uint64(p.T))
		mix(math.Float64bits(p.F))
		if p.H {
			mix(1)
		}
	}
	return h
}

func pr_SampleToPoint(t int64, x pr_Sample) pr_Point {
	if x.K == pr_H {
		return pr_Point{T: t, H: true, F: x.F, S: 2 * x.F}
	}
	return pr_Point{T: t, F: x.F}
}

// ---------------------------------------------------------------------------------------------
// Reference semantics of the counter / delta functions (functions.md: rate, increase, delta,
// irate, idelta, resets, changes; property C30: extrapolation towards the window boundaries
// limited by 1.1 x the average sample interval and by the counter's zero point)
// ---------------------------------------------------------------------------------------------

// pr_Outcome is a reference verdict for one float result: the value is V; where the statement
// leaves a choice (input exactly on a documented limit) Alts lists the other acceptable values.
type pr_Outcome struct {
	Flags   int // pr_Fl* bits: which documented branches the reference took
	Present bool
	Hist    bool // a histogram result is expected (value not modelled)
	V       float64
	Alts    []float64 // further acceptable values (inputs exactly on a documented limit)
}

// Accepts reports whether got is (within relative tolerance tol) one of the acceptable values.
func (o pr_Outcome) Accepts(got, tol float64) bool {
	if pr_CloseFloat(o.V, got, tol) {
		return true
	}
	for _, a := range o.Alts {
		if pr_CloseFloat(a, got, tol) {
			return true
		}
	}
	return false
}

const (
	pr_FlStartLimited = 1  // first sample too far from the window start: half an interval
	pr_FlEndLimited   = 2  // last sample too far from the window end: half an interval
	pr_FlZeroClamp    = 4  // extrapolation stopped at the counter's zero point
	pr_FlReset        = 8  // counter reset corrected
	pr_FlOnLimit      = 16 // a distance equals 1.1 x average interval exactly
	pr_FlToStart      = 32 // extrapolated all the way to the window start
	pr_FlToEnd        = 64 // extrapolated all the way to the window end
)

// pr_onlyFloats reports whether every sample of the window is a float.
func pr_onlyFloats(w []pr_Sample) bool {
	for _, x := range w {
		if x.K != pr_F {
			return false
		}
	}
	return true
}

func pr_onlyHists(w []pr_Sample) bool {
	for _, x := range w {
		if x.K != pr_H {
			return false
		}
	}
	return len(w) > 0
}

// pr_extrapolate applies the documented extrapolation to the raw difference `delta` of the window
// w (>= 2 float samples) of the range (start, end]. inclStart/inclEnd choose, for "distance to
// the boundary equals the limit exactly", which side of the limit is taken at either boundary.
func pr_extrapolate(w []pr_Sample, start, end int64, delta float64, isCounter, isRate, inclStart, inclEnd bool) (float64, int) {
	flags := 0
	n := len(w)
	first, last := w[0], w[n-1]
	toStart := float64(first.T-start) / 1000
	toEnd := float64(end-last.T) / 1000
	sampled := float64(last.T-first.T) / 1000
	avg := sampled / float64(n-1)
	// "close enough to the boundary" = at most 1.1 x the average interval away; exact comparison
	// in integers: d vs 1.1*(last-first)/(n-1)  <=>  10*(n-1)*d vs 11*(last-first)
	beyond := func(dms int64, inclusive bool) bool {
		l, r := 10*int64(n-1)*dms, 11*(last.T-first.T)
		if l == r {
			flags |= pr_FlOnLimit
			return inclusive
		}
		return l > r
	}
	// Too far from the boundary: extrapolate only half an average interval.
	if beyond(first.T-start, inclStart) {
		toStart = avg / 2
		flags |= pr_FlStartLimited
	} else {
		flags |= pr_FlToStart
	}
	// A counter cannot be negative: never extrapolate before its zero point.
	if isCounter && delta > 0 && first.F >= 0 {
		toZero := sampled * (first.F / delta)
		if toZero < toStart {
			toStart = toZero
			flags |= pr_FlZeroClamp
		}
	}
	if beyond(end-last.T, inclEnd) {
		toEnd = avg / 2
		flags |= pr_FlEndLimited
	} else {
		flags |= pr_FlToEnd
	}
	factor := (sampled + toStart + toEnd) / sampled
	if isRate {
		factor /= float64(end-start) / 1000
	}
	return delta * factor, flags
}

// pr_Rate is rate (isCounter,isRate), increase (isCounter,!isRate) or delta (!isCounter,!isRate)
// over the window w = non-stale samples in (start, end].
func pr_Rate(w []pr_Sample, start, end int64, isCounter, isRate bool) pr_Outcome {
	if len(w) < 2 {
		return pr_Outcome{}
	}
	if !pr_onlyFloats(w) {
		if pr_onlyHists(w) {
			return pr_Outcome{Present: true, Hist: true}
		}
		return pr_Outcome{} // float/histogram mix: omitted
	}
	delta := w[len(w)-1].F - w[0].F
	fl := 0
	if isCounter {
		// breaks in monotonicity are counter resets: the counter restarted from zero
		for i := 1; i < len(w); i++ {
			if w[i].F < w[i-1].F {
				delta += w[i-1].F
				fl |= pr_FlReset
			}
		}
	}
	out := pr_Outcome{Present: true}
	for i := 0; i < 4; i++ {
		v, f := pr_extrapolate(w, start, end, delta, isCounter, isRate, i&1 == 0, i&2 == 0)
		out.Flags |= f
		if i == 0 {
			out.V = v
		} else if f&pr_FlOnLimit != 0 && !pr_SameFloat(v, out.V) {
			dup := false
			for _, a := range out.Alts {
				dup = dup || pr_SameFloat(a, v)
			}
			if !dup {
				out.Alts = append(out.Alts, v)
			}
		}
	}
	out.Flags |= fl
	return out
}

// pr_Instantaneous is irate (isRate) or idelta: based on the last two samples of the window.
func pr_Instantaneous(w []pr_Sample, isRate bool) pr_Outcome {
	if len(w) < 2 {
		return pr_Outcome{}
	}
	prev, last := w[len(w)-2], w[len(w)-1]
	if prev.K != last.K {
		return pr_Outcome{} // float/histogram mix in the last two samples: omitted
	}
	if last.K == pr_H {
		return pr_Outcome{Present: true, Hist: true}
	}
	var v float64
	if isRate && last.F < prev.F {
		v = last.F // counter reset: the counter restarted from zero
	} else {
		v = last.F - prev.F
	}
	if isRate {
		v /= float64(last.T-prev.T) / 1000
	}
	return pr_Outcome{Present: true, V: v}
}

// pr_Resets counts counter resets between consecutive samples of the window; pr_Changes counts
// value changes. A float next to a histogram counts as both. NaN followed by NaN is left open for
// changes (lo..hi): the documentation does not say whether that is a change.
func pr_Resets(w []pr_Sample) (int, bool) {
	if len(w) == 0 {
		return 0, false
	}
	n := 0
	for i := 1; i < len(w); i++ {
		a, b := w[i-1], w[i]
		if a.K != b.K || b.F < a.F {
			n++
		}
	}
	return n, true
}

func pr_Changes(w []pr_Sample) (lo, hi int, ok bool) {
	if len(w) == 0 {
		return 0, 0, false
	}
	for i := 1; i < len(w); i++ {
		a, b := w[i-1], w[i]
		switch {
		case a.K != b.K:
			lo++
			hi++
		case math.IsNaN(a.F) && math.IsNaN(b.F):
			hi++
		case a.F != b.F:
			lo++
			hi++
		}
	}
	return lo, hi, true
}
