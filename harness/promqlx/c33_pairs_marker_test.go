package h_promqlx

// This file only gives the "pairs" part of check C33 a file list of its own, so that the runner
// builds a separate test binary for it (binaries are cached per file list). The test itself,
// TestVerifC33Pairs, lives in c33_test.go.
