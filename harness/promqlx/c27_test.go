package h_promqlx

// C27: the value of a range query at each step equals the instant query at that step's time (same
// series, same floats bitwise/NaN-aware, same histograms), for every query that does not refer to
// the query range itself; and the offset law: an instant query whose selectors carry "offset d"
// evaluated at t equals the query without that offset at t-d (no @, no function of the evaluation
// time).
//
// Engine E1 (input enumeration), purely differential - no reference evaluator is involved. Small
// datasets (irregular spacing, gaps, staleness markers, float + native histogram series, float /
// histogram mixes) x EVERY query of a grammar of depth <= 2 (selectors with offset/@, range
// functions over range selectors, instant functions, aggregations with by/without, vector/vector
// and vector/scalar binary operators with matching clauses, range functions over subqueries) that
// does not use start()/end()/range()/step() x a (start, end, step) grid with steps below / at /
// above the sample spacing and above the ranges. Each range query is compared step by step with
// instant queries at the step times (one fresh instant query per distinct time).

import (
	"context"
	"fmt"
	"math"
	"sort"
	"strings"
	"sync/atomic"
	"testing"
	"time"

	"github.com/prometheus/prometheus/internal/verif/vx"
	"github.com/prometheus/prometheus/model/histogram"
	"github.com/prometheus/prometheus/promql"
	"github.com/prometheus/prometheus/storage"
)

// ---- expressions --------------------------------------------------------------------------------

// c27Expr is a query template: text(d) renders it with every outermost time-shifting construct
// (selector outside a subquery, or outermost subquery) moved back by an additional offset d.
type c27Expr struct {
	text     func(d int64) string
	kind     string // selector rangefn instfn agg binop scalarop subquery
	hasAt    bool
	usesTime bool
}

func (e c27Expr) T() string { return e.text(0) }

func c27Off(o int64) string {
	if o == 0 {
		return ""
	}
	return " offset " + pr_Dur(o)
}

func c27At(at int64) string {
	if at < 0 {
		return ""
	}
	return " @ " + pr_AtText(at)
}

// c27Sel: instant selector; at < 0 = no @.
func c27Sel(name string, off, at int64) c27Expr {
	return c27Expr{kind: "selector", hasAt: at >= 0, text: func(d int64) string { return name + c27Off(off+d) + c27At(at) }}
}

func c27MSel(name string, r, off, at int64) c27Expr {
	return c27Expr{kind: "selector", hasAt: at >= 0, text: func(d int64) string {
		return name + "[" + pr_Dur(r) + "]" + c27Off(off+d) + c27At(at)
	}}
}

// c27Subq: (inner)[r:s]; s == 0 uses the default resolution. The additional offset d moves the
// subquery, its inside stays as it is.
func c27Subq(inner c27Expr, r, s, off, at int64) c27Expr {
	st := ""
	if s != 0 {
		st = pr_Dur(s)
	}
	return c27Expr{kind: "subquery", hasAt: inner.hasAt || at >= 0, usesTime: inner.usesTime, text: func(d int64) string {
		return "(" + inner.text(0) + ")[" + pr_Dur(r) + ":" + st + "]" + c27Off(off+d) + c27At(at)
	}}
}

// c27Call: fn(pre ARG post).
func c27Call(kind, fn, pre string, arg c27Expr, post string) c27Expr {
	// predict_linear extrapolates from the evaluation time, and timestamp() of anything but a
	// plain selector returns the evaluation time: both are functions of the evaluation time.
	usesTime := arg.usesTime || fn == "predict_linear" || (fn == "timestamp" && arg.kind != "selector")
	return c27Expr{kind: kind, hasAt: arg.hasAt, usesTime: usesTime, text: func(d int64) string {
		return fn + "(" + pre + arg.text(d) + post + ")"
	}}
}

func c27Agg(op, grouping, param string, arg c27Expr) c27Expr {
	return c27Expr{kind: "agg", hasAt: arg.hasAt, usesTime: arg.usesTime, text: func(d int64) string {
		return op + grouping + "(" + param + arg.text(d) + ")"
	}}
}

func c27Bin(kind string, l c27Expr, op string, r c27Expr) c27Expr {
	return c27Expr{kind: kind, hasAt: l.hasAt || r.hasAt, usesTime: l.usesTime || r.usesTime, text: func(d int64) string {
		return "(" + l.text(d) + ") " + op + " (" + r.text(d) + ")"
	}}
}

func c27Lit(s string, usesTime bool) c27Expr {
	return c27Expr{kind: "scalar", usesTime: usesTime, text: func(int64) string { return s }}
}

type c27Mod struct{ off, at int64 }

// c27Grammar enumerates every query of the grammar, simplest first.
func c27Grammar(thorough bool) []c27Expr {
	var out []c27Expr
	names := []string{"c27a", `c27a{g="x"}`, "c27b", "c27h"}
	mods := []c27Mod{{0, -1}, {1000, -1}, {0, 2000}}
	if thorough {
		mods = append(mods, c27Mod{-500, -1}, c27Mod{500, 1500})
	}
	rangeFns := []struct{ fn, pre, post string }{
		{"rate", "", ""}, {"increase", "", ""}, {"delta", "", ""}, {"irate", "", ""}, {"idelta", "", ""},
		{"resets", "", ""}, {"changes", "", ""}, {"sum_over_time", "", ""}, {"avg_over_time", "", ""},
		{"max_over_time", "", ""}, {"count_over_time", "", ""}, {"last_over_time", "", ""},
		{"stddev_over_time", "", ""}, {"quantile_over_time", "0.5, ", ""}, {"deriv", "", ""},
		{"predict_linear", "", ", 2"}, {"present_over_time", "", ""}, {"min_over_time", "", ""},
	}
	ranges := []int64{1000, 2500}
	// depth 1: selectors
	for _, n := range names {
		for _, m := range mods {
			out = append(out, c27Sel(n, m.off, m.at))
		}
	}
	// depth 1: range functions over range selectors
	for _, f := range rangeFns {
		for _, n := range names {
			if !thorough && n == `c27a{g="x"}` {
				continue
			}
			for _, rg := range ranges {
				for _, m := range mods {
					out = append(out, c27Call("rangefn", f.fn, f.pre, c27MSel(n, rg, m.off, m.at), f.post))
				}
			}
		}
	}
	// scalars and functions of the evaluation time
	out = append(out, c27Lit("time()", true), c27Lit("1 + 2", false), c27Lit("vector(time())", true),
		c27Call("instfn", "scalar", "", c27Sel(`c27a{g="y"}`, 0, -1), ""),
		c27Call("instfn", "absent", "", c27Sel(`c27a{g="y"}`, 0, -1), ""),
		c27Call("rangefn", "absent_over_time", "", c27MSel(`c27a{g="y"}`, 1000, 0, -1), ""))

	// the composable depth-1 pool
	var pool []c27Expr
	for _, n := range []string{"c27a", "c27b", "c27h"} {
		for _, m := range mods[:3] {
			pool = append(pool, c27Sel(n, m.off, m.at))
		}
	}
	for _, f := range []int{0, 7, 11, 10, 2} { // rate sum_over_time last_over_time count_over_time delta
		fn := rangeFns[f]
		pool = append(pool,
			c27Call("rangefn", fn.fn, "", c27MSel("c27a", 2500, 0, -1), ""),
			c27Call("rangefn", fn.fn, "", c27MSel("c27a", 1000, 1000, -1), ""),
			c27Call("rangefn", fn.fn, "", c27MSel("c27h", 2500, 0, -1), ""),
			c27Call("rangefn", fn.fn, "", c27MSel("c27b", 2000, 0, 3000), ""))
	}
	// depth 2: instant functions
	instFns := []struct{ fn, pre, post string }{
		{"abs", "", ""}, {"ceil", "", ""}, {"timestamp", "", ""}, {"histogram_count", "", ""}, {"histogram_sum", "", ""},
		{"sgn", "", ""}, {"clamp_min", "", ", 1"}, {"histogram_quantile", "0.5, ", ""}, {"sort", "", ""},
		{"label_replace", "", `, "k", "$1", "g", "(.*)"`}, {"-", "", ""},
	}
	for _, f := range instFns {
		for _, p := range pool {
			if f.fn == "-" {
				p := p
				out = append(out, c27Expr{kind: "instfn", hasAt: p.hasAt, text: func(d int64) string { return "-(" + p.text(d) + ")" }})
				continue
			}
			out = append(out, c27Call("instfn", f.fn, f.pre, p, f.post))
		}
	}
	// depth 2: aggregations
	aggs := []struct{ op, param string }{
		{"sum", ""}, {"avg", ""}, {"min", ""}, {"max", ""}, {"count", ""}, {"group", ""}, {"stddev", ""},
		{"quantile", "0.5, "}, {"topk", "1, "}, {"bottomk", "2, "}, {"count_values", `"v", `},
	}
	for _, a := range aggs {
		for _, g := range []string{"", " by (g) ", " without (i) "} {
			for _, p := range pool {
				out = append(out, c27Agg(a.op, g, a.param, p))
			}
		}
	}
	// aggregation parameters that are themselves evaluated at every step (not literals), over
	// operands that are pinned with @ as well as ones that are not
	for _, a := range []struct{ op, param string }{
		{"topk", `scalar(c27a{g="y"}), `}, {"bottomk", `scalar(c27a{g="y"}) - 1, `}, {"quantile", `scalar(c27a{g="y"}) / 4, `},
	} {
		for _, p := range pool {
			e := c27Agg(a.op, "", a.param, p)
			e.hasAt = true // the parameter's selector does not take part in the offset law
			out = append(out, e)
		}
	}
	// depth 2: vector <op> scalar
	for _, op := range []string{"+ 1", "* 0", "> 1", "== bool 2", "^ 2", "% 2", "+ time()"} {
		for _, p := range pool {
			p, op := p, op
			out = append(out, c27Expr{kind: "scalarop", hasAt: p.hasAt, usesTime: p.usesTime || strings.Contains(op, "time"),
				text: func(d int64) string { return "(" + p.text(d) + ") " + op }})
		}
	}
	// depth 2: vector <op> vector
	binPool := []c27Expr{pool[0], pool[1], pool[2], pool[3], pool[6], pool[9], pool[13], pool[17]}
	if !thorough {
		binPool = []c27Expr{pool[0], pool[1], pool[3], pool[6], pool[9], pool[13]}
	}
	ops := []string{"+", "/", ">", ">= bool", "and", "or", "unless", "* on (g, i)", "- ignoring (i) group_left ()", "== on (g) group_right ()"}
	for _, op := range ops {
		for _, l := range binPool {
			for _, r := range binPool {
				out = append(out, c27Bin("binop", l, op, r))
			}
		}
	}
	// depth 2: range functions over subqueries
	sqFns := []int{0, 9, 7, 10, 11, 14} // rate max sum count last deriv
	type rs struct{ r, s int64 }
	sqRS := []rs{{2000, 500}, {3000, 1000}, {2500, 1001}, {3000, 0}}
	sqMods := []c27Mod{{0, -1}, {1000, -1}, {0, 3000}}
	if !thorough {
		sqFns = sqFns[:5]
		sqRS = sqRS[:3]
	}
	for _, fi := range sqFns {
		fn := rangeFns[fi]
		for _, p := range pool {
			for _, x := range sqRS {
				for _, m := range sqMods {
					out = append(out, c27Call("subquery", fn.fn, "", c27Subq(p, x.r, x.s, m.off, m.at), ""))
				}
			}
		}
	}
	// a few deeper hand-picked shapes (aggregation inside a subquery, nested subquery)
	out = append(out,
		c27Call("subquery", "rate", "", c27Subq(c27Agg("sum", " by (g) ", "", c27Sel("c27a", 0, -1)), 3000, 1000, 0, -1), ""),
		c27Call("subquery", "max_over_time", "", c27Subq(c27Call("rangefn", "rate", "", c27MSel("c27a", 2500, 0, -1), ""), 2000, 500, 500, -1), ""),
		c27Agg("sum", " by (g) ", "", c27Call("subquery", "max_over_time", "", c27Subq(c27Call("rangefn", "rate", "", c27MSel("c27a", 1000, 0, -1), ""), 2000, 500, 0, -1), "")),
		c27Call("subquery", "sum_over_time", "", c27Subq(c27Call("subquery", "count_over_time", "", c27Subq(c27Sel("c27a", 0, -1), 1000, 250, 0, -1), ""), 2000, 500, 0, -1), ""),
	)
	return out
}

// ---- datasets -----------------------------------------------------------------------------------

func c27Series(name, g, i string, kinds string, times []int64, vals []float64) pr_LSeries {
	se := pr_LSeries{Labels: []string{"__name__", name, "g", g, "i", i}}
	for k, t := range times {
		x := pr_Sample{T: t, F: vals[k]}
		switch kinds[k] {
		case 'h':
			x.K = pr_H
		case 's':
			x.K = pr_S
		}
		se.Samples = append(se.Samples, x)
	}
	return se
}

func c27Datasets() [][]pr_LSeries {
	nan := float64frombitsNaN()
	return [][]pr_LSeries{
		{ // 0: irregular spacing, gaps, a counter reset, staleness markers, a float/histogram mix
			c27Series("c27a", "x", "1", "ffffffff", []int64{0, 400, 1000, 1300, 2600, 3000, 3100, 4500}, []float64{1, 2, 4, 7, 3, 5, 5, 9}),
			c27Series("c27a", "x", "2", "ffsfff", []int64{0, 500, 1000, 2500, 3000, 3500}, []float64{10, 11, 0, 12, 12, 13}),
			c27Series("c27a", "y", "1", "ff", []int64{1000, 4000}, []float64{2, 4}),
			c27Series("c27b", "x", "1", "fffff", []int64{0, 1000, 2000, 3000, 4000}, []float64{2, 0, -1, 2, nan}),
			c27Series("c27b", "y", "1", "ffff", []int64{250, 1250, 2250, 3250}, []float64{4, 4, 1, 0.5}),
			c27Series("c27b", "y", "2", "fsf", []int64{1000, 2000, 3500}, []float64{4, 0, 8}),
			c27Series("c27h", "x", "1", "hhshh", []int64{0, 1000, 2000, 3000, 3500}, []float64{1, 3, 0, 2, 6}),
			c27Series("c27h", "y", "1", "fhhf", []int64{500, 1500, 2500, 3500}, []float64{1, 2, 5, 7}),
		},
		{ // 1: regular 1 s spacing with holes and stale markers on the step grid
			c27Series("c27a", "x", "1", "ffffff", []int64{0, 1000, 2000, 3000, 4000, 5000}, []float64{0, 1, 2, 3, 1, 2}),
			c27Series("c27a", "x", "2", "ffsff", []int64{0, 1000, 2000, 4000, 5000}, []float64{5, 5, 0, 6, 7}),
			c27Series("c27a", "y", "1", "ffff", []int64{1000, 2000, 3000, 5000}, []float64{1, 1, 1, 2}),
			c27Series("c27b", "x", "1", "ffffff", []int64{0, 1000, 2000, 3000, 4000, 5000}, []float64{1, 2, 3, 4, 5, 6}),
			c27Series("c27b", "x", "2", "fff", []int64{2000, 3000, 4000}, []float64{0, 0, 0}),
			c27Series("c27b", "y", "1", "fsff", []int64{0, 1000, 3000, 4000}, []float64{7, 0, 7, 7}),
			c27Series("c27h", "x", "1", "hhhhh", []int64{0, 1000, 2000, 3000, 4000}, []float64{1, 2, 4, 1, 3}),
			c27Series("c27h", "y", "1", "hhsh", []int64{1000, 2000, 3000, 4000}, []float64{2, 2, 0, 5}),
		},
		{ // 2: samples on and 1 ms next to the step times and window edges
			c27Series("c27a", "x", "1", "fffffff", []int64{1, 999, 1000, 1001, 1999, 2001, 3000}, []float64{1, 2, 3, 4, 5, 6, 7}),
			c27Series("c27a", "x", "2", "fsfsf", []int64{500, 1499, 1500, 2999, 3001}, []float64{3, 0, 2, 0, 1}),
			c27Series("c27a", "y", "1", "fff", []int64{0, 2500, 2501}, []float64{8, 9, 9}),
			c27Series("c27b", "x", "1", "ffff", []int64{999, 1999, 2999, 3999}, []float64{1, 1, 2, 3}),
			c27Series("c27b", "y", "1", "fff", []int64{1001, 2001, 3001}, []float64{2, 3, 5}),
			c27Series("c27h", "x", "1", "hhhh", []int64{999, 1000, 2001, 3000}, []float64{1, 2, 3, 4}),
			c27Series("c27h", "y", "1", "hfh", []int64{0, 1500, 3000}, []float64{4, 1, 6}),
		},
	}
}

func float64frombitsNaN() float64 {
	var z float64
	return z / z
}

// ---- results ------------------------------------------------------------------------------------

type c27Val struct {
	T int64
	F float64
	H *histogram.FloatHistogram
}

func (v c27Val) String() string {
	if v.H != nil {
		return fmt.Sprintf("%d:%s", v.T, v.H.String())
	}
	return fmt.Sprintf("%d:%s", v.T, pr_Fmt(v.F))
}

type c27Res struct {
	Err    string
	Series map[string][]c27Val // full label set -> points by time
	Dup    bool
}

func c27Convert(res *promql.Result) c27Res {
	out := c27Res{Series: map[string][]c27Val{}}
	if res.Err != nil {
		out.Err = res.Err.Error()
		return out
	}
	add := func(k string, v []c27Val) {
		if _, ok := out.Series[k]; ok {
			out.Dup = true
		}
		out.Series[k] = v
	}
	switch v := res.Value.(type) {
	case promql.Vector:
		for _, s := range v {
			x := c27Val{T: s.T, F: s.F}
			if s.H != nil {
				x.H = s.H.Copy()
			}
			add(s.Metric.String(), []c27Val{x})
		}
	case promql.Matrix:
		for _, s := range v {
			var ps []c27Val
			for _, p := range s.Floats {
				ps = append(ps, c27Val{T: p.T, F: p.F})
			}
			for _, p := range s.Histograms {
				ps = append(ps, c27Val{T: p.T, H: p.H.Copy()})
			}
			sort.SliceStable(ps, func(i, j int) bool { return ps[i].T < ps[j].T })
			add(s.Metric.String(), ps)
		}
	case promql.Scalar:
		add("{}", []c27Val{{T: v.T, F: v.V}})
	case promql.String:
		out.Err = "string result"
	default:
		out.Err = fmt.Sprintf("unexpected result type %T", res.Value)
	}
	return out
}

func c27Instant(eng pr_Eng, q storage.Queryable, expr string, t int64) (res c27Res) {
	p, stack := vx.Guard(func() {
		qry, err := eng.NewInstantQuery(context.Background(), q, nil, expr, time.UnixMilli(t))
		if err != nil {
			res = c27Res{Err: "parse: " + err.Error()}
			return
		}
		defer qry.Close()
		res = c27Convert(qry.Exec(context.Background()))
	})
	if p != nil {
		res = c27Res{Err: fmt.Sprintf("PANIC %v\n%s", p, stack)}
	}
	return res
}

func c27Range(eng pr_Eng, q storage.Queryable, expr string, start, end, step int64) (res c27Res) {
	p, stack := vx.Guard(func() {
		qry, err := eng.NewRangeQuery(context.Background(), q, nil, expr, time.UnixMilli(start), time.UnixMilli(end), time.Duration(step)*time.Millisecond)
		if err != nil {
			res = c27Res{Err: "parse: " + err.Error()}
			return
		}
		defer qry.Close()
		res = c27Convert(qry.Exec(context.Background()))
	})
	if p != nil {
		res = c27Res{Err: fmt.Sprintf("PANIC %v\n%s", p, stack)}
	}
	return res
}

func c27SameVal(a, b c27Val) string {
	if (a.H == nil) != (b.H == nil) {
		return "float-vs-histogram"
	}
	if a.H != nil {
		if !a.H.Equals(b.H) {
			return "histogram-differs"
		}
		return ""
	}
	if !pr_SameFloat(a.F, b.F) {
		return "float-differs"
	}
	return ""
}

// c27At extracts the step-t slice of a range result: series -> value.
func c27AtStep(r c27Res, t int64) map[string]c27Val {
	out := map[string]c27Val{}
	for k, ps := range r.Series {
		i := sort.Search(len(ps), func(i int) bool { return ps[i].T >= t })
		if i < len(ps) && ps[i].T == t {
			out[k] = ps[i]
		}
	}
	return out
}

// c27CompareStep compares the range result's slice at t with the instant result; "" = equal.
// shift is added to the instant result's timestamps before comparing (offset law: -d).
func c27CompareStep(rng map[string]c27Val, inst c27Res, t int64) (string, string) {
	for k, ps := range inst.Series {
		if len(ps) != 1 {
			return "instant-result-not-one-point", k
		}
		rv, ok := rng[k]
		if !ok {
			return "series-missing-in-range-result", fmt.Sprintf("%s instant=%s", k, ps[0])
		}
		if d := c27SameVal(rv, ps[0]); d != "" {
			return d, fmt.Sprintf("%s range=%s instant=%s", k, rv, ps[0])
		}
	}
	for k, rv := range rng {
		if _, ok := inst.Series[k]; !ok {
			return "series-only-in-range-result", fmt.Sprintf("%s range=%s", k, rv)
		}
	}
	return "", ""
}

func c27Digest(m map[string]c27Val) string {
	ks := make([]string, 0, len(m))
	for k := range m {
		ks = append(ks, k)
	}
	sort.Strings(ks)
	var sb strings.Builder
	for _, k := range ks {
		v := m[k]
		v.T = 0
		sb.WriteString(k + "=" + v.String() + ";")
	}
	return sb.String()
}

type c27Grid struct{ Start, End, Step int64 }

type c27Replay struct {
	Kind    string `json:"kind"` // "range" or "offset"
	Config  int    `json:"config"`
	Dataset int    `json:"dataset"`
	Query   string `json:"query"`
	Start   int64  `json:"start"`
	End     int64  `json:"end"`
	Step    int64  `json:"step"`
	Query0  string `json:"query_without_offset,omitempty"`
	D       int64  `json:"offset_ms,omitempty"`
	T       int64  `json:"t,omitempty"`
}

// c27Config is one engine / storage configuration.
type c27Config struct {
	Name        string
	Lookback    time.Duration
	DelayedName bool // --enable-feature=promql-delayed-name-removal
	Wide        bool // storage wrapper that ignores time bounds and hints (returns all samples)
}

var c27Configs = []c27Config{
	{Name: "lookback1500ms", Lookback: 1500 * time.Millisecond},
	{Name: "lookback1500ms-unboundedstorage", Lookback: 1500 * time.Millisecond, Wide: true},
	{Name: "lookback5m-delayedname", Lookback: 5 * time.Minute, DelayedName: true},
}

func c27Engine(c c27Config) pr_Eng {
	return promql.NewEngine(promql.EngineOpts{
		MaxSamples:               50000000,
		Timeout:                  10 * time.Minute,
		LookbackDelta:            c.Lookback,
		NoStepSubqueryIntervalFn: func(int64) int64 { return 1000 },
		EnableAtModifier:         true,
		EnableNegativeOffset:     true,
		EnableDelayedNameRemoval: c.DelayedName,
	})
}

// c27CheckRange runs one range query and compares it with instant queries (inst caches them).
// Returns the number of steps compared and of non-empty steps.
func c27CheckRange(r *vx.Run, eng pr_Eng, stor storage.Queryable, cfg, ds int, e c27Expr, g c27Grid, inst map[int64]c27Res) (steps, nonEmpty int) {
	q := e.T()
	rp := c27Replay{Kind: "range", Config: cfg, Dataset: ds, Query: q, Start: g.Start, End: g.End, Step: g.Step}
	rr := c27Range(eng, stor, q, g.Start, g.End, g.Step)
	if strings.HasPrefix(rr.Err, "PANIC") {
		r.Violation("range-query-panic/"+e.kind, q+": "+rr.Err, rp)
		return 0, 0
	}
	if strings.HasPrefix(rr.Err, "parse:") {
		panic(fmt.Sprintf("harness bug: generated query does not parse: %s: %s", q, rr.Err))
	}
	if rr.Dup {
		r.Violation("duplicate-series-in-range-result/"+e.kind, q, rp)
	}
	instErr := ""
	for t := g.Start; t <= g.End; t += g.Step {
		ir, ok := inst[t]
		if !ok {
			ir = c27Instant(eng, stor, q, t)
			inst[t] = ir
		}
		if strings.HasPrefix(ir.Err, "PANIC") {
			r.Violation("instant-query-panic/"+e.kind, fmt.Sprintf("%s at %d: %s", q, t, ir.Err), rp)
			return steps, nonEmpty
		}
		if ir.Err != "" {
			if instErr == "" {
				instErr = fmt.Sprintf("at %d: %s", t, ir.Err)
			}
			continue
		}
		if rr.Err != "" {
			continue
		}
		for k, ps := range ir.Series {
			if len(ps) == 1 && ps[0].T != t {
				r.Violation("instant-result-timestamp-wrong/"+e.kind, fmt.Sprintf("%s at %d: %s has timestamp %d", q, t, k, ps[0].T), rp)
			}
		}
		slice := c27AtStep(rr, t)
		if d, msg := c27CompareStep(slice, ir, t); d != "" {
			sig := "range-vs-instant-" + d + "/" + e.kind
			if c27Configs[cfg].DelayedName && c27NamedAndUnnamedTwin(eng, stor, q, g, inst) {
				// known defect (delayed name removal): rangeEval keys its output series by the label
				// hash alone, so a sample whose name is still to be dropped is merged into the
				// series of an equally-labelled sample that keeps its name.
				sig = "delayedname-range-query-merges-named-and-name-dropped-series"
			}
			r.Violation(sig, fmt.Sprintf("config %s dataset %d: %s over [%d,%d] step %d, at step time %d: %s", c27Configs[cfg].Name, ds, q, g.Start, g.End, g.Step, t, msg), rp)
		}
		steps++
		if len(ir.Series) > 0 {
			nonEmpty++
			r.Distinct("distinct_outcomes", c27Digest(slice))
		}
	}
	switch {
	case rr.Err != "" && instErr == "":
		r.Violation("range-query-fails-but-every-instant-query-succeeds/"+e.kind, fmt.Sprintf("dataset %d: %s over [%d,%d] step %d: %s", ds, q, g.Start, g.End, g.Step, rr.Err), rp)
	case rr.Err == "" && instErr != "":
		r.Violation("instant-query-fails-but-range-query-succeeds/"+e.kind, fmt.Sprintf("dataset %d: %s over [%d,%d] step %d: instant %s", ds, q, g.Start, g.End, g.Step, instErr), rp)
	case rr.Err != "":
		r.Count("range_queries_failing_consistently", 1)
	}
	// no point outside the step grid
	for k, ps := range rr.Series {
		for _, p := range ps {
			if p.T < g.Start || p.T > g.End || (p.T-g.Start)%g.Step != 0 {
				r.Violation("range-result-point-off-the-step-grid/"+e.kind, fmt.Sprintf("%s: %s has a point at %d", q, k, p.T), rp)
			}
		}
	}
	return steps, nonEmpty
}

// c27NamedAndUnnamedTwin reports whether, over the steps of the grid, the instant results contain a
// label set with a metric name and also the same label set without it (the precondition of the
// known delayed-name-removal defect).
func c27NamedAndUnnamedTwin(eng pr_Eng, stor storage.Queryable, q string, g c27Grid, inst map[int64]c27Res) bool {
	keys := map[string]bool{}
	for t := g.Start; t <= g.End; t += g.Step {
		ir, ok := inst[t]
		if !ok {
			ir = c27Instant(eng, stor, q, t)
			inst[t] = ir
		}
		for k := range ir.Series {
			keys[k] = true
		}
	}
	for k := range keys {
		if strings.HasPrefix(k, `{__name__="`) {
			i := strings.Index(k[len(`{__name__="`):], `"`)
			rest := strings.TrimPrefix(k[len(`{__name__="`)+i+1:], ", ")
			if keys["{"+rest] {
				return true
			}
		}
	}
	return false
}

// c27CheckOffset: instant(Q with extra offset d, t) == instant(Q, t-d), timestamps shifted.
func c27CheckOffset(r *vx.Run, eng pr_Eng, stor storage.Queryable, cfg, ds int, e c27Expr, d, t int64, inst map[int64]c27Res) bool {
	qd, q0 := e.text(d), e.T()
	rp := c27Replay{Kind: "offset", Config: cfg, Dataset: ds, Query: qd, Query0: q0, D: d, T: t}
	a := c27Instant(eng, stor, qd, t)
	b, ok := inst[t-d]
	if !ok {
		b = c27Instant(eng, stor, q0, t-d)
		inst[t-d] = b
	}
	if strings.HasPrefix(a.Err, "parse:") {
		panic(fmt.Sprintf("harness bug: generated query does not parse: %s: %s", qd, a.Err))
	}
	if (a.Err != "") != (b.Err != "") {
		r.Violation("offset-law-error-differs/"+e.kind, fmt.Sprintf("dataset %d: %s at %d: err=%q; %s at %d: err=%q", ds, qd, t, a.Err, q0, t-d, b.Err), rp)
		return false
	}
	if a.Err != "" {
		return false
	}
	am := map[string]c27Val{}
	for k, ps := range a.Series {
		if len(ps) == 1 {
			am[k] = ps[0]
		}
	}
	if dd, msg := c27CompareStep(am, b, t-d); dd != "" {
		dd = strings.NewReplacer("series-missing-in-range-result", "series-missing-with-offset", "series-only-in-range-result", "series-only-with-offset").Replace(dd)
		r.Violation("offset-law-"+dd+"/"+e.kind, fmt.Sprintf("dataset %d: %s at %d vs %s at %d: %s (range= is the offset query)", ds, qd, t, q0, t-d, msg), rp)
	}
	return len(a.Series) > 0
}

func TestVerifC27(t *testing.T) {
	r := vx.Start(t, "C27", "exploration")
	defer r.Finish()
	datasets := c27Datasets()
	ncfg := vx.Pick(r, 2, 3)
	engs := make([]pr_Eng, len(c27Configs))
	for i, c := range c27Configs {
		engs[i] = c27Engine(c)
		defer engs[i].Close()
	}

	if r.Replay != "" {
		var rp c27Replay
		r.LoadReplay(&rp)
		st, err := pr_NewLabeledStorage(datasets[rp.Dataset])
		if err != nil {
			t.Fatal(err)
		}
		defer st.Close()
		var stor storage.Queryable = st
		if c27Configs[rp.Config].Wide {
			stor = pr_Wide(st)
		}
		eng := engs[rp.Config]
		if rp.Kind == "offset" {
			e := c27Expr{kind: "replay", text: func(d int64) string {
				if d == 0 {
					return rp.Query0
				}
				return rp.Query
			}}
			c27CheckOffset(r, eng, stor, rp.Config, rp.Dataset, e, rp.D, rp.T, map[int64]c27Res{})
			return
		}
		e := c27Expr{kind: "replay", text: func(int64) string { return rp.Query }}
		inst := map[int64]c27Res{}
		c27CheckRange(r, eng, stor, rp.Config, rp.Dataset, e, c27Grid{rp.Start, rp.End, rp.Step}, inst)
		rr := c27Range(eng, stor, rp.Query, rp.Start, rp.End, rp.Step)
		fmt.Printf("replay range %s [%d,%d] step %d: err=%q\n", rp.Query, rp.Start, rp.End, rp.Step, rr.Err)
		for ts := rp.Start; ts <= rp.End; ts += rp.Step {
			fmt.Printf("  t=%d range=%s instant=%s\n", ts, c27Digest(c27AtStep(rr, ts)), vx.J(fmt.Sprint(inst[ts].Series)))
		}
		return
	}

	// ---- self-test: the comparator rejects differing results ----------------------------------
	{
		h1 := &histogram.FloatHistogram{Count: 1, Sum: 2}
		h2 := &histogram.FloatHistogram{Count: 1, Sum: 3}
		rng := map[string]c27Val{`{a="1"}`: {T: 10, F: 1}, `{a="2"}`: {T: 10, H: h1}}
		inst := c27Res{Series: map[string][]c27Val{`{a="1"}`: {{T: 10, F: 1}}, `{a="2"}`: {{T: 10, H: h1.Copy()}}}}
		if d, _ := c27CompareStep(rng, inst, 10); d != "" {
			t.Fatalf("self-test: equal results rejected: %s", d)
		}
		inst.Series[`{a="1"}`][0].F = 1.0000000000000002
		if d, _ := c27CompareStep(rng, inst, 10); d != "float-differs" {
			t.Fatalf("self-test: 1 ulp difference accepted (%q)", d)
		}
		inst.Series[`{a="1"}`][0].F = 1
		inst.Series[`{a="2"}`][0].H = h2
		if d, _ := c27CompareStep(rng, inst, 10); d != "histogram-differs" {
			t.Fatalf("self-test: histogram difference accepted (%q)", d)
		}
		inst.Series[`{a="2"}`][0].H = h1
		delete(inst.Series, `{a="1"}`)
		if d, _ := c27CompareStep(rng, inst, 10); d != "series-only-in-range-result" {
			t.Fatalf("self-test: missing series accepted (%q)", d)
		}
		nan1 := c27Val{F: float64frombitsNaN()}
		if c27SameVal(nan1, nan1) != "" || c27SameVal(c27Val{F: 0}, c27Val{F: math.Copysign(0, -1)}) == "" {
			t.Fatal("self-test: NaN / signed zero handling wrong")
		}
	}

	exprs := c27Grammar(r.Thorough())
	var grids []c27Grid
	seen := map[c27Grid]bool{}
	for _, st := range vx.Pick(r, []int64{0, 1000}, []int64{0, 500, 1000}) {
		for _, span := range vx.Pick(r, []int64{2000, 4500}, []int64{0, 2000, 4000, 5500}) {
			for _, step := range vx.Pick(r, []int64{250, 500, 1000, 1001, 3000}, []int64{250, 500, 1000, 1001, 3000}) {
				g := c27Grid{st, st + span, step}
				if span == 0 {
					g.Step = 1000
				}
				if !seen[g] {
					seen[g] = true
					grids = append(grids, g)
				}
			}
		}
	}
	nds := vx.Pick(r, 2, 3)
	stors := make([]storage.Queryable, nds)
	for i := 0; i < nds; i++ {
		st, err := pr_NewLabeledStorage(datasets[i])
		if err != nil {
			t.Fatal(err)
		}
		defer st.Close()
		stors[i] = st
	}
	offD := vx.Pick(r, []int64{1000}, []int64{1000, -500, 1500})
	offT := vx.Pick(r, []int64{2000, 3500}, []int64{1000, 2000, 3000, 3500})

	var stepsCmp, nonEmptySteps, rangeQ, instQ, offChecks, offNonEmpty atomic.Int64
	wides := make([]storage.Queryable, nds)
	for i := range stors {
		wides[i] = pr_Wide(stors[i])
	}
	r.ParallelN(int64(len(exprs)*nds*ncfg), func(i int64) {
		cfg := int(i % int64(ncfg))
		ds := int(i / int64(ncfg) % int64(nds))
		e := exprs[i/int64(ncfg*nds)]
		eng := engs[cfg]
		stor := stors[ds]
		if c27Configs[cfg].Wide {
			stor = wides[ds]
		}
		inst := map[int64]c27Res{}
		ne := 0
		for _, g := range grids {
			s, n := c27CheckRange(r, eng, stor, cfg, ds, e, g, inst)
			stepsCmp.Add(int64(s))
			ne += n
		}
		rangeQ.Add(int64(len(grids)))
		nonEmptySteps.Add(int64(ne))
		if ne > 0 {
			r.Distinct("distinct_nontrivial", fmt.Sprintf("%d|%d|%s", cfg, ds, e.T()))
		}
		if !e.hasAt && !e.usesTime {
			for _, d := range offD {
				for _, tt := range offT {
					offChecks.Add(1)
					if c27CheckOffset(r, eng, stor, cfg, ds, e, d, tt, inst) {
						offNonEmpty.Add(1)
					}
				}
			}
		}
		instQ.Add(int64(len(inst)))
		r.SampleAt(i, func() any {
			g := grids[len(grids)/2]
			rr := c27Range(eng, stor, e.T(), g.Start, g.End, g.Step)
			m := map[string]any{"config": c27Configs[cfg].Name, "dataset": ds, "query": e.T(), "start": g.Start, "end": g.End, "step": g.Step, "range_error": rr.Err}
			for ts := g.Start; ts <= g.End; ts += g.Step {
				m[fmt.Sprintf("step@%d", ts)] = c27Digest(c27AtStep(rr, ts))
			}
			return m
		})
	})
	r.Count("evaluations", int(stepsCmp.Load()+offChecks.Load()))
	r.Count("steps_compared", int(stepsCmp.Load()))
	r.Count("steps_with_nonempty_result", int(nonEmptySteps.Load()))
	r.Count("range_queries", int(rangeQ.Load()))
	r.Count("instant_queries", int(instQ.Load()))
	r.Count("offset_law_checks", int(offChecks.Load()))
	r.Count("offset_law_checks_nonempty", int(offNonEmpty.Load()))
	r.Set("queries_in_grammar", len(exprs))
	r.Set("datasets", nds)
	r.Set("grids", len(grids))
	r.Set("configs", c27Configs[:ncfg])
	r.Set("rule", fmt.Sprintf("every query of the depth<=2 grammar (%d queries: selectors with offset/@, 18 range functions over range selectors, 11 instant functions, 11 aggregations x {none, by, without}, 7 vector-scalar and 10 vector-vector operator forms incl. on/ignoring/group_left/group_right, range functions over subqueries with explicit/default step and offset/@, a few deeper shapes) x %d datasets x %d engine/storage configurations x %d (start,end,step) grids; every step of every range query compared with a fresh instant query; offset law for every query without @ and time() x offsets %v x times %v; distinct_nontrivial = distinct (config, dataset, query) with a non-empty result at some step; distinct_outcomes = distinct non-empty per-step results", len(exprs), nds, ncfg, len(grids), offD, offT))
	r.Assume("when a range query fails, at least one of its instant queries must fail too, and vice versa (error texts are not compared)")
	if !r.Expired() && r.Violations() == 0 {
		if nonEmptySteps.Load() == 0 || stepsCmp.Load() == nonEmptySteps.Load() || offNonEmpty.Load() == 0 || r.Get("range_queries_failing_consistently") == 0 {
			t.Fatal("vacuous run: no non-empty / no empty steps / no failing queries / no offset checks")
		}
	}
}
