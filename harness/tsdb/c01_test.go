package tsdb

// C01: queries return exactly the committed, undeleted samples — explicit-state BFS over dbx
// histories (engine E1, state mode).

import (
	"fmt"
	"os"
	"strings"
	"testing"

	"github.com/prometheus/prometheus/internal/verif/vx"
)

func dbxSelfTest(t *testing.T) {
	// The oracle must reject a wrong answer: drop a committed sample from the model and the
	// comparison has to complain about an extra sample; add one and it must miss it.
	x := newDBX(dbxConfigs()["ooo"])
	defer x.Close()
	for _, op := range []string{"app/s1/F+1/f", "app/s1/F+1/f", "app/s1/F-Wh/f"} {
		if f := x.Apply(op, true); f != nil {
			t.Fatalf("self-test: unexpected failure on %s: %s", op, f.Message)
		}
	}
	if x.m.total() != 3 {
		t.Fatalf("self-test: model holds %d samples, want 3", x.m.total())
	}
	s := x.m.series["s1"]
	var anyT int64
	for tt := range s.samples {
		anyT = tt
	}
	saved := s.samples[anyT]
	delete(s.samples, anyT)
	if f := x.checkQueries(); f == nil || !strings.HasPrefix(f.Signature, "extra-sample") {
		t.Fatalf("self-test: oracle did not report the extra sample (%v)", f)
	}
	s.samples[anyT] = saved
	s.samples[anyT+7] = map[string]bool{"f:0": true}
	if f := x.checkQueries(); f == nil || !strings.HasPrefix(f.Signature, "missing-sample") {
		t.Fatalf("self-test: oracle did not report the missing sample (%v)", f)
	}
}

// dbxWithSoft wires soft (known-finding class) violations to the run; the replay artefact of a
// soft violation is the history executed so far.
func dbxWithSoft(r *vx.Run, c dbxCfg, name string) *dbx {
	x := newDBX(c)
	x.soft = func(sig, msg string) {
		r.Violation(sig, msg, map[string]any{"config": name, "ops": append([]string{}, x.hist...)})
	}
	return x
}

func TestVerifC01(t *testing.T) {
	r := vx.Start(t, "C01", "model_checking")
	defer r.Finish()
	cfgs := dbxConfigs()
	if r.Replay != "" {
		var rp struct {
			Config string   `json:"config"`
			Ops    []string `json:"ops"`
		}
		r.LoadReplay(&rp)
		cfg, alpha, _ := strings.Cut(rp.Config, "@")
		c := cfgs[cfg]
		c.Alphabet = alpha
		if f := r.ReplayOps(func() vx.Sys { return dbxWithSoft(r, c, rp.Config) }, rp.Ops); f != nil {
			r.Violation(f.Signature, f.Message, rp)
		}
		return
	}
	dbxSelfTest(t)
	type plan struct {
		cfg, alpha string
		depth      int
	}
	var plans []plan
	if r.Quick() {
		plans = []plan{{"ooo", "medium", 2}, {"base", "medium", 2}, {"oooneg", "small", 3}, {"ooo", "small", 3}}
	} else {
		plans = []plan{
			{"ooo", "medium", 3}, {"base", "medium", 3}, {"oooneg", "medium", 3},
			{"ooo+xor2+st", "medium", 2}, {"v2", "medium", 2}, {"noiso", "medium", 2}, {"ooo+overlap", "medium", 2}, {"snap", "medium", 2}, {"ooo+snap", "medium", 2},
			{"ooo", "small", 4}, {"base", "small", 4}, {"oooneg", "small", 4}, {"ooo+overlap", "small", 4}, {"ooo+snap", "small", 4},
			{"ooo", "full", 3}, {"ooo", "small", 5},
		}
	}
	if v := os.Getenv("VERIF_C01_PLAN"); v != "" { // e.g. "ooo:small:3"
		plans = nil
		for _, p := range strings.Split(v, ",") {
			var pl plan
			q := strings.Split(p, ":")
			pl.cfg, pl.alpha = q[0], q[1]
			fmt.Sscan(q[2], &pl.depth)
			plans = append(plans, pl)
		}
	}
	// FIRST (targeted, must not be cut off by the deadline): search from non-initial states (deep scripted pre-states), medium alphabet
	for _, cn := range vx.Pick(r, []string{"ooo", "snap"}, []string{"ooo", "snap", "base", "oooneg", "ooo+snap", "ooo+xor2+st", "v2"}) {
		if r.Expired() {
			r.NotExhaustive("deadline before the non-initial-state search of " + cn)
			break
		}
		c := cfgs[cn]
		c.Alphabet = "medium"
		name := cn + "@medium+starts"
		res := r.BFSFrom(name, func() vx.Sys { return dbxWithSoft(r, c, name) }, dbxStarts(c.W), vx.Pick(r, 1, 2))
		t.Logf("C01 %s: states=%d transitions=%d depthCompleted=%d", name, res.States, res.Transitions, res.DepthCompleted)
	}
	for _, p := range plans {
		if r.Expired() {
			r.NotExhaustive("deadline before plan " + p.cfg + "@" + p.alpha)
			break
		}
		c := cfgs[p.cfg]
		c.Alphabet = p.alpha
		name := fmt.Sprintf("%s@%s", p.cfg, p.alpha)
		res := r.BFS(name, func() vx.Sys { return dbxWithSoft(r, c, name) }, p.depth)
		t.Logf("C01 %s depth %d: states=%d transitions=%d depthCompleted=%d", name, p.depth, res.States, res.Transitions, res.DepthCompleted)
	}
	r.Set("rule", "explicit-state BFS over dbx operation histories (append/commit/rollback/delete/head compaction/OOO compaction/Compact/CleanTombstones/reopen) with canonical-state de-duplication; after every transition Querier and ChunkQuerier over 45 ranges are compared with the reference model")
	r.Assume("appendable window (head max time, min valid time) is read from the implementation when an appender is created; admission is then predicted by the model")
	r.Assume("background goroutines of tsdb.DB are quiescent: compactions disabled for the run loop, block reload interval 1000h")
}
