package tsdb

// C18: with query sharding enabled, for any shard count n >= 1 the shards 0..n-1 are pairwise
// disjoint and their union is the unsharded result, for head and block data alike; a series'
// shard depends only on its label set ("labels stable hash" mod n, storage.SelectHints) and is the
// same in every label-set build variant and across restarts.
//
// Engine E1 (input enumeration): ALL subsets up to a size of a 17-series universe (label sets
// around the 1KB switch of StableHash, shared prefixes, no metric name, UTF-8 names) stored in
// (a) a Head with EnableSharding, (b) a block written with CreateBlock, (c) a DB holding a
// compacted block AND head data (queried before and after close/reopen), x shard counts
// 1..8,16,64 x every shard index x 4 matcher sets, through Querier and ChunkQuerier.
// StableHash of a larger generated family of label sets is compared with a plain (non
// streaming) reference and, via the runner's variant digests, between the three build tags.

import (
	"context"
	"crypto/sha256"
	"encoding/hex"
	"fmt"
	"os"
	"sort"
	"strings"
	"sync"
	"sync/atomic"
	"testing"

	"github.com/cespare/xxhash/v2"
	"github.com/prometheus/common/promslog"

	"github.com/prometheus/prometheus/internal/verif/vx"
	"github.com/prometheus/prometheus/model/labels"
	"github.com/prometheus/prometheus/storage"
	"github.com/prometheus/prometheus/tsdb/chunks"
)

var c18ShardCounts = []uint64{1, 2, 3, 4, 5, 6, 7, 8, 16, 64}

func c18Val(ch byte, n int) string { return strings.Repeat(string(ch), n) }

// c18Universe: the series universe (as name/value pair lists).
func c18Universe() [][]string {
	return [][]string{
		{"__name__", "m"},
		{"__name__", "m", "a", "1"},
		{"__name__", "m", "a", "2"},
		{"__name__", "m", "a", "1", "b", "1"},
		{"__name__", "m", "b", "1"},
		{"__name__", "n", "a", "1"},
		{"a", "1"},
		{"__name__", "m", "a", "1", "b", "2"},
		{"__name__", "m", "ü", "ü"},
		{"__name__", "m", "l", c18Val('v', 1009)},                       // 1 byte below the 1KB switch of StableHash
		{"__name__", "m", "l", c18Val('v', 1010)},                       // exactly at the switch
		{"__name__", "m", "l", c18Val('v', 1010), "z", "1"},             // labels after the switch
		{"__name__", "m", "k", c18Val('w', 1009), "z", c18Val('u', 20)}, // switch at a later label, buffer non-empty
		{"__name__", "m", "l", c18Val('v', 2000)},
		{"__name__", "m", "a", "1", "c", "1"},
		{"__name__", "m", "a", "1", "c", "2"},
		{"__name__", "mm"},
	}
}

func c18Short(ss []string) string {
	var b strings.Builder
	b.WriteByte('{')
	for i := 0; i < len(ss); i += 2 {
		if i > 0 {
			b.WriteByte(',')
		}
		v := ss[i+1]
		if len(v) > 12 {
			v = fmt.Sprintf("<%d x %q>", len(v), v[:1])
		}
		fmt.Fprintf(&b, "%s=%s", ss[i], v)
	}
	b.WriteByte('}')
	return b.String()
}

// c18RefHash: the plain definition - xxhash64 of name 0xff value 0xff ... over the labels in name
// order, computed in one piece.
func c18RefHash(ss []string) uint64 {
	type p struct{ n, v string }
	var ps []p
	for i := 0; i < len(ss); i += 2 {
		ps = append(ps, p{ss[i], ss[i+1]})
	}
	sort.Slice(ps, func(i, j int) bool { return ps[i].n < ps[j].n })
	var b []byte
	for _, x := range ps {
		b = append(b, x.n...)
		b = append(b, 0xff)
		b = append(b, x.v...)
		b = append(b, 0xff)
	}
	return xxhash.Sum64(b)
}

// ---- partition oracle --------------------------------------------------------------------------

type c18Finding struct{ sig, msg string }

// c18CheckPartition: shards[i] = series (by key) returned for shard index i of n; all = unsharded.
// want(key) = documented shard of a series (hash mod n), or -1 when unknown.
func c18CheckPartition(n uint64, all []string, shards [][]string, want func(string) int) []c18Finding {
	var fs []c18Finding
	add := func(sig, format string, a ...any) {
		for _, f := range fs {
			if f.sig == sig {
				return
			}
		}
		fs = append(fs, c18Finding{sig, fmt.Sprintf(format, a...)})
	}
	inAll := map[string]bool{}
	for _, k := range all {
		if inAll[k] {
			add("unsharded-result-has-duplicate-series", "series %s twice in the unsharded result", k)
		}
		inAll[k] = true
	}
	owner := map[string]int{}
	for i, sh := range shards {
		for _, k := range sh {
			if !inAll[k] {
				add("shard-returns-series-not-in-unsharded-result", "shard %d/%d returns %s which the unsharded query does not", i, n, k)
			}
			if j, ok := owner[k]; ok {
				add("shards-not-disjoint", "series %s returned by shards %d and %d of %d", k, j, i, n)
			}
			owner[k] = i
			if w := want(k); w >= 0 && w != i {
				add("shard-differs-from-stable-hash-mod-n", "series %s returned by shard %d of %d, labels stable hash mod n = %d", k, i, n, w)
			}
		}
	}
	for _, k := range all {
		if _, ok := owner[k]; !ok {
			add("union-of-shards-misses-series", "series %s is in the unsharded result but in none of the %d shards", k, n)
		}
	}
	return fs
}

// ---- storages ------------------------------------------------------------------------------------------

type c18Case struct {
	Kind  string `json:"kind"`            // head | block | db
	Block []int  `json:"block,omitempty"` // universe indexes stored in the block (kind block, db)
	Head  []int  `json:"head,omitempty"`  // universe indexes stored in the head (kind head, db)
}

func (c c18Case) id() string { return fmt.Sprintf("%s|block=%v|head=%v", c.Kind, c.Block, c.Head) }

type c18Env struct {
	r     *vx.Run
	uni   [][]string
	lsets []labels.Labels
	keyOf map[string]int // labels.String() -> universe index
	hash  []uint64       // StableHash per universe entry (this build variant)
	sel   atomic.Int64
}

func c18Matchers() (names []string, ms [][]*labels.Matcher) {
	names = []string{`{__name__=~".*"}`, `{a="1"}`, `{a!="1"}`, `{a=~"1|2",__name__="m"}`}
	ms = [][]*labels.Matcher{
		{labels.MustNewMatcher(labels.MatchRegexp, "__name__", ".*")},
		{labels.MustNewMatcher(labels.MatchEqual, "a", "1")},
		{labels.MustNewMatcher(labels.MatchNotEqual, "a", "1")},
		{labels.MustNewMatcher(labels.MatchRegexp, "a", "1|2"), labels.MustNewMatcher(labels.MatchEqual, "__name__", "m")},
	}
	return
}

func (e *c18Env) selectKeys(q storage.Querier, cq storage.ChunkQuerier, hints *storage.SelectHints, ms []*labels.Matcher) ([]string, error) {
	e.sel.Add(1)
	var keys []string
	if q != nil {
		ss := q.Select(context.Background(), true, hints, ms...)
		for ss.Next() {
			keys = append(keys, ss.At().Labels().String())
		}
		return keys, ss.Err()
	}
	ss := cq.Select(context.Background(), true, hints, ms...)
	for ss.Next() {
		keys = append(keys, ss.At().Labels().String())
	}
	return keys, ss.Err()
}

// explore runs every matcher set x shard count x shard index on one opened storage and checks the
// partition property. Returns a canonical rendering of all results.
func (e *c18Env) explore(c c18Case, phase string, q storage.Querier, cq storage.ChunkQuerier, out *strings.Builder) {
	mnames, mss := c18Matchers()
	if cq != nil {
		mnames, mss = mnames[:1], mss[:1]
	}
	api := "Querier"
	if cq != nil {
		api = "ChunkQuerier"
	}
	for mi, ms := range mss {
		all, err := e.selectKeys(q, cq, &storage.SelectHints{Start: 0, End: 10000}, ms)
		if err != nil {
			e.r.Violation("select-error", fmt.Sprintf("%s %s %s %s unsharded: %v", c.id(), phase, api, mnames[mi], err), c)
			continue
		}
		fmt.Fprintf(out, "%s|%s|%s|all=%d;", phase, api, mnames[mi], len(all))
		for _, n := range c18ShardCounts {
			shards := make([][]string, n)
			failed := false
			for i := uint64(0); i < n; i++ {
				ks, err := e.selectKeys(q, cq, &storage.SelectHints{Start: 0, End: 10000, ShardIndex: i, ShardCount: n}, ms)
				if err != nil {
					e.r.Violation("select-error", fmt.Sprintf("%s %s %s %s shard %d/%d: %v", c.id(), phase, api, mnames[mi], i, n, err), c)
					failed = true
					break
				}
				shards[i] = ks
			}
			if failed {
				continue
			}
			fs := c18CheckPartition(n, all, shards, func(k string) int {
				if ui, ok := e.keyOf[k]; ok {
					return int(e.hash[ui] % n)
				}
				return -1
			})
			for _, f := range fs {
				e.r.Violation(f.sig+"/"+c.Kind, fmt.Sprintf("%s %s %s matchers %s: %s", c.id(), phase, api, mnames[mi], f.msg), c)
			}
			nonEmpty := 0
			fmt.Fprintf(out, "n=%d:", n)
			for i, sh := range shards {
				if len(sh) > 0 {
					nonEmpty++
					var idx []int
					for _, k := range sh {
						idx = append(idx, e.keyOf[k])
					}
					sort.Ints(idx)
					fmt.Fprintf(out, "%d%v", i, idx)
				}
			}
			out.WriteByte(';')
			part := fmt.Sprintf("%v|%d|%v", len(all), n, shards)
			e.r.Distinct("distinct_outcomes", part)
			if nonEmpty >= 2 {
				e.r.Distinct("distinct_nontrivial", c.id()+phase+api+mnames[mi]+fmt.Sprint(n))
			}
		}
	}
}

func (e *c18Env) samples(i int, base int64) []chunks.Sample {
	return []chunks.Sample{sample{t: base + 10, f: float64(i)}, sample{t: base + 20, f: float64(i) + 0.5}}
}

func (e *c18Env) appendTo(app storage.Appender, idx []int, base int64) error {
	for _, i := range idx {
		for _, s := range e.samples(i, base) {
			if _, err := app.Append(0, e.lsets[i], s.T(), s.F()); err != nil {
				return err
			}
		}
	}
	return app.Commit()
}

// runCase builds the storage of one case, explores it and returns the rendering for the digest.
func (e *c18Env) runCase(c c18Case) (string, error) {
	dir, err := os.MkdirTemp("", "c18")
	if err != nil {
		return "", err
	}
	defer os.RemoveAll(dir)
	var out strings.Builder
	switch c.Kind {
	case "head":
		opts := DefaultHeadOptions()
		opts.ChunkRange = 1000
		opts.ChunkDirRoot = dir
		opts.EnableSharding = true
		opts.StripeSize = 32 // the default (16384 stripes) only makes every instance expensive to allocate
		h, err := NewHead(nil, nil, nil, nil, opts, nil)
		if err != nil {
			return "", err
		}
		defer h.Close()
		if err := h.Init(0); err != nil {
			return "", err
		}
		if err := e.appendTo(h.Appender(context.Background()), c.Head, 0); err != nil {
			return "", err
		}
		q, err := NewBlockQuerier(NewRangeHead(h, 0, 10000), 0, 10000)
		if err != nil {
			return "", err
		}
		e.explore(c, "live", q, nil, &out)
		q.Close()
		cq, err := NewBlockChunkQuerier(NewRangeHead(h, 0, 10000), 0, 10000)
		if err != nil {
			return "", err
		}
		e.explore(c, "live", nil, cq, &out)
		cq.Close()
	case "block":
		var ss []storage.Series
		for _, i := range c.Block {
			ss = append(ss, storage.NewListSeries(e.lsets[i], e.samples(i, 0)))
		}
		bdir, err := CreateBlock(ss, dir, 0, promslog.NewNopLogger())
		if err != nil {
			return "", err
		}
		b, err := OpenBlock(nil, bdir, nil, nil)
		if err != nil {
			return "", err
		}
		defer b.Close()
		q, err := NewBlockQuerier(b, 0, 10000)
		if err != nil {
			return "", err
		}
		e.explore(c, "live", q, nil, &out)
		q.Close()
		cq, err := NewBlockChunkQuerier(b, 0, 10000)
		if err != nil {
			return "", err
		}
		e.explore(c, "live", nil, cq, &out)
		cq.Close()
	case "db":
		opts := DefaultOptions()
		opts.EnableSharding = true
		opts.MinBlockDuration = 1000
		opts.MaxBlockDuration = 1000
		opts.RetentionDuration = 0
		opts.StripeSize = 32
		open := func() (*DB, error) {
			db, err := Open(dir, nil, nil, opts, nil)
			if err != nil {
				return nil, err
			}
			db.DisableCompactions()
			return db, nil
		}
		db, err := open()
		if err != nil {
			return "", err
		}
		closed := false
		defer func() {
			if !closed {
				db.Close()
			}
		}()
		if len(c.Block) > 0 {
			if err := e.appendTo(db.Appender(context.Background()), c.Block, 0); err != nil {
				return "", err
			}
			if err := db.CompactHead(NewRangeHead(db.Head(), 0, 999)); err != nil {
				return "", err
			}
			if len(db.Blocks()) != 1 {
				return "", fmt.Errorf("expected 1 block after CompactHead, have %d", len(db.Blocks()))
			}
		}
		if err := e.appendTo(db.Appender(context.Background()), c.Head, 1000); err != nil {
			return "", err
		}
		var renders [2]string
		for phase := 0; phase < 2; phase++ {
			name := "live"
			if phase == 1 {
				// restart: close and reopen (block reloaded from disk, head rebuilt from the WAL)
				if err := db.Close(); err != nil {
					closed = true
					return "", err
				}
				if db, err = open(); err != nil {
					closed = true
					return "", err
				}
				name = "reopened"
			}
			var ph strings.Builder
			q, err := db.Querier(0, 10000)
			if err != nil {
				return "", err
			}
			e.explore(c, name, q, nil, &ph)
			q.Close()
			cq, err := db.ChunkQuerier(0, 10000)
			if err != nil {
				return "", err
			}
			e.explore(c, name, nil, cq, &ph)
			cq.Close()
			renders[phase] = strings.ReplaceAll(ph.String(), name+"|", "")
			out.WriteString(ph.String())
		}
		if renders[0] != renders[1] {
			e.r.Violation("shards-differ-after-restart/db", fmt.Sprintf("%s: sharded results before and after close/reopen differ:\n%s\n%s", c.id(), renders[0], renders[1]), c)
		}
	}
	return out.String(), nil
}

// ---- case enumeration ----------------------------------------------------------------------------------

func c18Subsets(n, maxSize int) [][]int {
	var out [][]int
	vx.Subsets(n, maxSize, func(idx []int) bool {
		out = append(out, append([]int{}, idx...))
		return true
	})
	return out
}

func c18Cases(r *vx.Run, n int) []c18Case {
	var cs []c18Case
	all := make([]int, n)
	for i := range all {
		all[i] = i
	}
	// heads are cheap: every subset of <= 2 (thorough 3) series, and the whole universe
	for _, s := range c18Subsets(n, vx.Pick(r, 2, 3)) {
		cs = append(cs, c18Case{Kind: "head", Head: s})
	}
	cs = append(cs, c18Case{Kind: "head", Head: all})
	// blocks (writing one costs ~0.2 s of CPU): every subset of <= 1 (thorough 2) series, the
	// neighbouring pairs and the whole universe
	for _, s := range c18Subsets(n, vx.Pick(r, 1, 2)) {
		if len(s) > 0 {
			cs = append(cs, c18Case{Kind: "block", Block: s})
		}
	}
	if r.Quick() {
		for i := 0; i < n; i++ {
			cs = append(cs, c18Case{Kind: "block", Block: []int{i, (i + 1) % n}})
		}
	}
	cs = append(cs, c18Case{Kind: "block", Block: all})
	// DB holding both: block part x head part
	cs = append(cs, c18Case{Kind: "db", Block: all, Head: all}, c18Case{Kind: "db", Block: all[:n/2+2], Head: all[n/2-2:]})
	if r.Thorough() {
		for _, b := range c18Subsets(n, 1) {
			for _, h := range c18Subsets(n, 1) {
				if len(b)+len(h) > 0 {
					cs = append(cs, c18Case{Kind: "db", Block: b, Head: h})
				}
			}
		}
		for i := 0; i < n; i++ {
			cs = append(cs, c18Case{Kind: "db", Block: []int{i, (i + 1) % n}, Head: []int{(i + 1) % n, (i + 2) % n}})
		}
	} else {
		for i := 0; i < n; i++ {
			cs = append(cs, c18Case{Kind: "db", Block: []int{i}, Head: []int{i}}, c18Case{Kind: "db", Block: []int{i}, Head: []int{(i + 1) % n}})
		}
		cs = append(cs, c18Case{Kind: "db", Head: all}, c18Case{Kind: "db", Block: all})
	}
	return cs
}

// ---- StableHash family ------------------------------------------------------------------------------------

// c18HashFamily: every label set with <= 3 labels over names a,b,c whose values have lengths on
// both sides of the 1KB switch.
func c18HashFamily(r *vx.Run) [][]string {
	lens := vx.Pick(r, []int{1, 500, 1009, 1010, 1011, 1022, 1023, 1024}, []int{1, 2, 3, 300, 500, 509, 510, 1008, 1009, 1010, 1011, 1019, 1020, 1021, 1022, 1023, 1024, 1025, 2048})
	names := []string{"a", "b", "c"}
	var out [][]string
	out = append(out, []string{})
	for mask := 1; mask < 8; mask++ {
		var ns []string
		for i, n := range names {
			if mask&(1<<i) != 0 {
				ns = append(ns, n)
			}
		}
		dims := make([]int, len(ns))
		for i := range dims {
			dims[i] = len(lens)
		}
		total := vx.ProductSize(dims)
		for k := int64(0); k < total; k++ {
			t := vx.ProductAt(dims, k, nil)
			var ss []string
			for i, n := range ns {
				ss = append(ss, n, c18Val(n[0]+1, lens[t[i]]))
			}
			out = append(out, ss)
		}
	}
	return out
}

// c18HashAllWays computes StableHash of the same label set built in different ways; they must agree.
func c18HashAllWays(ss []string) []uint64 {
	a := labels.FromStrings(ss...)
	b := labels.NewBuilder(labels.EmptyLabels())
	for i := len(ss) - 2; i >= 0; i -= 2 {
		b.Set(ss[i], ss[i+1])
	}
	sb := labels.NewScratchBuilderWithSymbolTable(labels.NewSymbolTable(), 0)
	for i := 0; i < len(ss); i += 2 {
		sb.Add(ss[i], ss[i+1])
	}
	sb.Sort()
	m := map[string]string{}
	for i := 0; i < len(ss); i += 2 {
		m[ss[i]] = ss[i+1]
	}
	return []uint64{labels.StableHash(a), labels.StableHash(b.Labels()), labels.StableHash(sb.Labels()), labels.StableHash(a.Copy()), labels.StableHash(labels.FromMap(m))}
}

func TestVerifC18(t *testing.T) {
	r := vx.Start(t, "C18", "exploration")
	defer r.Finish()
	e := &c18Env{r: r, uni: c18Universe(), keyOf: map[string]int{}}
	for i, ss := range e.uni {
		l := labels.FromStrings(ss...)
		e.lsets = append(e.lsets, l)
		e.keyOf[l.String()] = i
		e.hash = append(e.hash, labels.StableHash(l))
	}
	if len(e.keyOf) != len(e.uni) {
		t.Fatal("universe has duplicate label sets")
	}

	if r.Replay != "" {
		var c c18Case
		r.LoadReplay(&c)
		if c.Kind == "" {
			t.Log("replay file without a case (variant disagreement): compare the digest files of the variants")
			return
		}
		if _, err := e.runCase(c); err != nil {
			t.Fatalf("replay: %v", err)
		}
		return
	}

	// self-test: the partition oracle rejects overlapping, incomplete and misplaced shards
	{
		all := []string{"s1", "s2", "s3"}
		want := func(k string) int { return map[string]int{"s1": 0, "s2": 1, "s3": 1}[k] }
		if fs := c18CheckPartition(2, all, [][]string{{"s1"}, {"s2", "s3"}}, want); len(fs) != 0 {
			t.Fatalf("self-test: correct partition rejected: %v", fs)
		}
		has := func(fs []c18Finding, sig string) bool {
			for _, f := range fs {
				if f.sig == sig {
					return true
				}
			}
			return false
		}
		if !has(c18CheckPartition(2, all, [][]string{{"s1", "s2"}, {"s2", "s3"}}, want), "shards-not-disjoint") ||
			!has(c18CheckPartition(2, all, [][]string{{"s1"}, {"s3"}}, want), "union-of-shards-misses-series") ||
			!has(c18CheckPartition(2, all, [][]string{{"s1", "s2"}, {"s3"}}, want), "shard-differs-from-stable-hash-mod-n") ||
			!has(c18CheckPartition(2, all, [][]string{{"s1", "s4"}, {"s2", "s3"}}, want), "shard-returns-series-not-in-unsharded-result") {
			t.Fatal("self-test: partition oracle accepted a wrong partition")
		}
	}

	var dgMu sync.Mutex
	var dg []string
	addDigest := func(item, val string) {
		dgMu.Lock()
		dg = append(dg, item+"\t"+val)
		dgMu.Unlock()
	}

	// part 1: StableHash
	fam := c18HashFamily(r)
	for _, ss := range e.uni {
		fam = append(fam, ss)
	}
	var nh atomic.Int64
	r.ParallelN(int64(len(fam)), func(i int64) {
		ss := fam[i]
		var hs []uint64
		if p, stack := vx.Guard(func() { hs = c18HashAllWays(ss) }); p != nil {
			r.Violation("stablehash-panic", fmt.Sprintf("StableHash panicked for %s: %v\n%s", c18Short(ss), p, stack), map[string]any{"labels": c18Short(ss)})
			return
		}
		for _, h := range hs[1:] {
			if h != hs[0] {
				r.Violation("stablehash-depends-on-construction", fmt.Sprintf("%s: StableHash of equal label sets built in different ways: %v", c18Short(ss), hs), map[string]any{"labels": c18Short(ss)})
				break
			}
		}
		if ref := c18RefHash(ss); ref != hs[0] {
			r.Violation("stablehash-differs-from-reference", fmt.Sprintf("%s: StableHash=%d, xxhash64 of the plain name\\xffvalue\\xff serialisation=%d", c18Short(ss), hs[0], ref), map[string]any{"labels": c18Short(ss)})
		}
		addDigest("stablehash|"+c18Short(ss), fmt.Sprintf("%016x", hs[0]))
		nh.Add(1)
		r.Distinct("distinct_hashes", fmt.Sprint(hs[0]))
	})
	{
		// self-test of the reference: it must separate label sets (not constant)
		if c18RefHash([]string{"a", "1"}) == c18RefHash([]string{"a", "2"}) {
			t.Fatal("self-test: reference hash constant")
		}
	}

	// part 2: storages
	cases := c18Cases(r, len(e.uni))
	var nc atomic.Int64
	r.ParallelN(int64(len(cases)), func(i int64) {
		c := cases[i]
		var render string
		var err error
		p, stack := vx.Guard(func() { render, err = e.runCase(c) })
		if p != nil {
			r.Violation("sharding-panic/"+c.Kind, fmt.Sprintf("%s: panic %v\n%s", c.id(), p, stack), c)
			return
		}
		if err != nil {
			// failing to build the storage is a tool problem unless sharding caused it
			r.Violation("storage-setup-error/"+c.Kind, fmt.Sprintf("%s: %v", c.id(), err), c)
			return
		}
		sum := sha256.Sum256([]byte(render))
		addDigest("case|"+c.id(), hex.EncodeToString(sum[:10]))
		k := nc.Add(1)
		r.SampleAt(k, func() any {
			s := render
			if len(s) > 400 {
				s = s[:400] + "..."
			}
			return map[string]any{"case": c.id(), "shards(n=..: index[series...])": s}
		})
	})
	if r.Expired() {
		t.Fatalf("deadline reached before the enumeration completed: no verdict (tool failure)")
	}
	if p := os.Getenv("VERIF_DIGEST_FILE"); p != "" {
		sort.Strings(dg)
		if err := os.WriteFile(p, []byte(strings.Join(dg, "\n")+"\n"), 0o644); err != nil {
			t.Fatalf("digest: %v", err)
		}
	}
	r.Count("evaluations", int(e.sel.Load()))
	r.Count("storage_cases", int(nc.Load()))
	r.Count("stablehash_label_sets", int(nh.Load()))
	var us []string
	for _, ss := range e.uni {
		us = append(us, c18Short(ss))
	}
	r.Set("universe", us)
	r.Set("shard_counts", fmt.Sprint(c18ShardCounts))
	r.Set("implementation", labels.ImplementationName)
	mn, _ := c18Matchers()
	r.Set("rule", fmt.Sprintf("storage cases: every subset of <=%d series of the %d-series universe in a Head (EnableSharding), every subset of <=%d series (quick: plus the neighbouring pairs) in a block (CreateBlock), the whole universe in both, and DBs holding a compacted block AND head data (quick: block {i} x head {i} or {i+1}; thorough: every block part of <=1 series x every head part of <=1 series, plus overlapping neighbouring pairs; plus whole-universe combinations; queried live and after close/reopen); per case every matcher set %v (ChunkQuerier: the first) x shard count %v x every shard index via Select with SelectHints.ShardIndex/ShardCount; evaluations = Select calls. "+
		"Oracle: shards pairwise disjoint, union = unsharded result, each series in shard StableHash mod n, identical after restart. StableHash: %d generated label sets (<=3 labels, value lengths around the 1KB switch) built 5 ways, compared with plain xxhash64 of the name/value serialisation; all hashes and all shard assignments are compared across the three build variants by the runner. "+
		"distinct_nontrivial = distinct (case, API, matchers, n) whose series fall into >=2 shards; distinct_outcomes = distinct partitions", vx.Pick(r, 2, 3), len(e.uni), vx.Pick(r, 1, 2), mn, c18ShardCounts, len(fam)))
	r.Assume("the cespare/xxhash library is the reference hash; StableHash is defined as xxhash64 over name 0xff value 0xff in name order")
	r.Assume("series carry two float samples each; shard indexes >= shard count are not queried")
}
