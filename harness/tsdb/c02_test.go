package tsdb

// C02: append admission and commit ordering — engine E1, sequence mode on a bare Head.
// For every pre-state x OOO window x appender interface x transaction of <= depth appends over a
// sharp (series, timestamp, value) alphabet, every Append's error class, the result of Commit and
// the queryable contents afterwards must equal the reference model's decision.

import (
	"context"
	"fmt"
	"math"
	"os"
	"strings"
	"sync/atomic"
	"testing"

	"github.com/prometheus/prometheus/internal/verif/vx"
	"github.com/prometheus/prometheus/model/histogram"
	"github.com/prometheus/prometheus/model/value"
	"github.com/prometheus/prometheus/storage"
	"github.com/prometheus/prometheus/tsdb/tsdbutil"
)

type c02Head struct {
	h   *Head
	dir string
}

func c02NewHead(w int64) *c02Head {
	dir, err := os.MkdirTemp("", "c02")
	if err != nil {
		panic(err)
	}
	o := DefaultHeadOptions()
	o.ChunkRange = dbxR
	o.ChunkDirRoot = dir
	o.StripeSize = 4
	o.SamplesPerChunk = 4
	o.ChunkWriteQueueSize = 0
	o.WALReplayConcurrency = 1 // Init's EnsureOrder would start one goroutine per core for an empty head
	o.ChunkWriteBufferSize = 64 * 1024
	o.OutOfOrderTimeWindow.Store(w)
	o.OutOfOrderCapMax.Store(4)
	h, err := NewHead(nil, nil, nil, nil, o, nil)
	if err != nil {
		panic(err)
	}
	if err := h.Init(math.MinInt64); err != nil {
		panic(err)
	}
	return &c02Head{h: h, dir: dir}
}

func (c *c02Head) close() {
	// not Head.Close: that m-maps the pending head chunks first, i.e. cuts (and pre-allocates) a head
	// chunk file for every throw-away head — a third of the run time. There is no WAL to close.
	_ = c.h.chunkDiskMapper.Close()
	os.RemoveAll(c.dir)
}

// Querier / ChunkQuerier as tsdb.DB builds them for the head part.
func (c *c02Head) Querier(mint, maxt int64) (storage.Querier, error) {
	h := c.h
	var q storage.Querier
	var err error
	q, err = NewBlockQuerier(NewRangeHead(h, mint, maxt), mint, maxt)
	if err != nil {
		return nil, err
	}
	if overlapsClosedInterval(mint, maxt, h.MinOOOTime(), h.MaxOOOTime()) {
		iso := h.oooIso.TrackReadAfter(0)
		q = NewHeadAndOOOQuerier(max(h.MinTime(), mint), mint, maxt, h, iso, q)
	}
	return q, nil
}

func (c *c02Head) ChunkQuerier(mint, maxt int64) (storage.ChunkQuerier, error) {
	h := c.h
	var q storage.ChunkQuerier
	var err error
	q, err = NewBlockChunkQuerier(NewRangeHead(h, mint, maxt), mint, maxt)
	if err != nil {
		return nil, err
	}
	if overlapsClosedInterval(mint, maxt, h.MinOOOTime(), h.MaxOOOTime()) {
		iso := h.oooIso.TrackReadAfter(0)
		q = NewHeadAndOOOChunkQuerier(max(h.MinTime(), mint), mint, maxt, h, iso, q)
	}
	return q, nil
}

// one append of the alphabet
type c02App struct {
	sk  string
	t   int64
	val string // value kind
}

func (a c02App) String() string { return fmt.Sprintf("%s@%d=%s", a.sk, a.t, a.val) }

var c02Values = []string{"f1", "f2", "stale", "h1", "h2", "fh1"}
var c02Times = []int64{21, 20, 19, 15, 14, 12, 11, 10, 9, 4, -1} // 12 = head max 20 minus OOO window 8: the window edge itself

func c02Value(kind string) (float64, *histogram.Histogram, *histogram.FloatHistogram, string) {
	switch kind {
	case "f1":
		return 1, nil, nil, canonFloat(1)
	case "f2":
		return 2, nil, nil, canonFloat(2)
	case "stale":
		return math.Float64frombits(value.StaleNaN), nil, nil, "stale"
	case "h1":
		h := tsdbutil.GenerateTestHistogram(1)
		return 0, h, nil, canonHist(h)
	case "h2":
		h := tsdbutil.GenerateTestHistogram(0) // lower counts than h1: a counter reset
		return 0, h, nil, canonHist(h)
	case "fh1":
		fh := tsdbutil.GenerateTestFloatHistogram(1)
		return 0, nil, fh, canonFloatHist(fh)
	}
	panic(kind)
}

// pre-states: transactions committed before the transaction under test.
var c02Pre = map[string][][]c02App{
	"empty":       nil,
	"s1f@10":      {{{"s1", 10, "f1"}}},
	"s1h@10":      {{{"s1", 10, "h1"}}},
	"s1f@10,20":   {{{"s1", 10, "f1"}}, {{"s1", 20, "f1"}}},
	"s1f@10,20mv": {{{"s1", 10, "f1"}}, {{"s1", 20, "f1"}}}, // + head min valid time raised to 15
	"s1fh@10":     {{{"s1", 10, "fh1"}}},
	// a float, then a histogram of each kind on top of it: the series' stale "last float value"
	// must not take part in duplicate detection at the histogram's timestamp
	"s1f@10fh@20": {{{"s1", 10, "f1"}}, {{"s1", 20, "fh1"}}},
	"s1f@10h@20":  {{{"s1", 10, "f1"}}, {{"s1", 20, "h1"}}},
}
var c02PreOrder = []string{"empty", "s1f@10", "s1h@10", "s1f@10,20", "s1f@10,20mv", "s1fh@10", "s1f@10fh@20", "s1f@10h@20"}

type c02Case struct {
	Pre   string   `json:"pre"`
	W     int64    `json:"w"`
	Iface string   `json:"iface"` // v1 | v1-discard | v2 | v2-reject
	Apps  []string `json:"apps"`  // "s1@10=f1"
	Split int      `json:"split"` // commit after this many appends (0 = single transaction)
}

type c02Model struct {
	m         *dbModel
	hInit     bool
	hMax      int64
	hMinValid int64
}

// runTxn executes one transaction on head + model; returns failure.
func c02RunTxn(c *c02Head, cm *c02Model, iface string, apps []c02App, x *dbx) *vx.Fail {
	h := c.h
	// windows: the model's own idea must agree with what the head publishes
	if h.initialized() != cm.hInit || (cm.hInit && h.MaxTime() != cm.hMax) || h.minValidTime.Load() != cm.hMinValid {
		return vx.Failf("window-mismatch", "head publishes initialized=%v maxt=%d minValid=%d, model has %v %d %d", h.initialized(), h.MaxTime(), h.minValidTime.Load(), cm.hInit, cm.hMax, cm.hMinValid)
	}
	tx := cm.m.begin(cm.hInit, cm.hMax, cm.hMinValid)
	reject := iface == "v1-discard" || iface == "v2-reject"
	tx.rejectOOO = reject
	ctx := context.Background()
	var a1 storage.Appender
	var a2 storage.AppenderV2
	if strings.HasPrefix(iface, "v2") {
		a2 = h.AppenderV2(ctx)
	} else {
		a1 = h.Appender(ctx)
		if reject {
			a1.SetOptions(&storage.AppendOptions{DiscardOutOfOrder: true})
		}
	}
	histInTxn := map[string]bool{}
	for _, a := range apps {
		f, hh, fh, canon := c02Value(a.val)
		var err error
		l := dbxSeries[a.sk]
		if a2 != nil {
			_, err = a2.Append(0, l, 0, a.t, f, hh, fh, storage.AOptions{RejectOutOfOrder: reject})
		} else if hh != nil || fh != nil {
			_, err = a1.AppendHistogram(0, l, a.t, hh, fh)
		} else {
			_, err = a1.Append(0, l, a.t, f)
		}
		want := tx.append(a.sk, a.t, canon)
		got := errClass(err)
		histInTxn[a.sk] = histInTxn[a.sk] || hh != nil || fh != nil
		if want == mErrOOO && got == "ok" && iface == "v1-discard" && (hh != nil || fh != nil || (a.val == "stale" && histInTxn[a.sk])) && tx.classify(a.sk, a.t, canon) == mOOO {
			// Known finding: the v1 appender applies AppendOptions.DiscardOutOfOrder to float samples
			// only; AppendHistogram ignores it. Reported (soft) and tolerated so exploration continues.
			if x.soft != nil {
				x.soft("v1-discard-out-of-order-ignored-for-histograms", fmt.Sprintf("append %v through the v1 appender with DiscardOutOfOrder set: the sample is out-of-order (newest in-order sample of %s is newer) and must be rejected, AppendHistogram accepted it", a, a.sk))
			}
			tx.forceOOO(a.sk, a.t, canon)
			continue
		}
		if got != modelErrClass(want) && !(want == mNoopOrDup && (got == "ok" || got == mErrDup)) && !(want == mErrOldOrOOO && (got == mErrOld || got == mErrOOO)) {
			if a2 != nil {
				_ = a2.Rollback()
			} else {
				_ = a1.Rollback()
			}
			return vx.Failf("admission-mismatch/"+modelErrClass(want)+"->"+strings.SplitN(got, ":", 2)[0],
				"append %v: model says %s, implementation returned %v (appender windows: initialized=%v headMaxt=%d minValid=%d W=%d)", a, want, err, tx.initialized, tx.headMaxt, tx.minValid, cm.m.W)
		}
		if !cm.hInit && tx.initialized {
			// first sample on an empty head fixes the head's time base even if it is rejected later
			cm.hInit, cm.hMax = true, a.t
		}
	}
	var err error
	if a2 != nil {
		err = a2.Commit()
	} else {
		err = a1.Commit()
	}
	if err != nil {
		return vx.Failf("commit-error", "commit: %v", err)
	}
	pend := append([]mPend{}, tx.pend...)
	res := tx.commit()
	for i, c := range res {
		if c == mInOrder && pend[i].t > cm.hMax {
			cm.hMax = pend[i].t
		}
	}
	return nil
}

func c02RunCase(cs c02Case, apps []c02App, soft func(sig, msg string)) *vx.Fail {
	c := c02NewHead(cs.W)
	defer c.close()
	cm := &c02Model{m: newDBModel(dbxR, cs.W), hMinValid: math.MinInt64}
	x := &dbx{m: cm.m, lastOp: "txn", soft: soft}
	for _, pre := range c02Pre[cs.Pre] {
		if f := c02RunTxn(c, cm, "v1", pre, x); f != nil {
			f.Signature = "prestate/" + f.Signature
			return f
		}
	}
	if cs.Pre == "s1f@10,20mv" {
		c.h.minValidTime.Store(15)
		cm.hMinValid = 15
	}
	txns := [][]c02App{apps}
	if cs.Split > 0 && cs.Split < len(apps) {
		txns = [][]c02App{apps[:cs.Split], apps[cs.Split:]}
	}
	// Known finding precondition, evaluated at the start of each transaction: a float staleness
	// marker for a series whose newest in-order sample is a histogram is re-typed at commit and
	// committed AFTER the later samples of the same series in the same transaction
	// (commitFloats defers it to commitHistograms).
	staleReorder := false
	for _, tx := range txns {
		for i, a := range tx {
			ms := cm.m.series[a.sk]
			if a.val != "stale" || ms == nil || !ms.hasInOrder || !(strings.HasPrefix(ms.lastVal, "h:") || strings.HasPrefix(ms.lastVal, "fh:")) {
				continue
			}
			for _, b := range tx[i+1:] {
				if b.sk == a.sk {
					staleReorder = true
				}
			}
		}
		if f := c02RunTxn(c, cm, cs.Iface, tx, x); f != nil {
			return f
		}
	}
	// contents
	for _, rng := range [][2]int64{{math.MinInt64, math.MaxInt64}, {10, 20}, {11, 19}} {
		for _, chunked := range []bool{false, true} {
			got, err := x.queryRange(c, c, rng[0], rng[1], chunked)
			if err != nil {
				return vx.Failf("query-error", "[%d,%d] chunked=%v: %v", rng[0], rng[1], chunked, err)
			}
			if f := x.compareRange(got, rng[0], rng[1], chunked, "head"); f != nil {
				if staleReorder {
					if soft != nil {
						soft("float-stale-after-histogram-committed-out-of-append-order", "transaction "+fmt.Sprint(cs.Apps)+" on pre-state "+cs.Pre+": "+f.Message)
					}
					return nil
				}
				return f
			}
		}
	}
	return nil
}

func c02Alphabet() []c02App {
	var a []c02App
	for _, sk := range []string{"s1", "s2"} {
		for _, t := range c02Times {
			for _, v := range c02Values {
				a = append(a, c02App{sk, t, v})
			}
		}
	}
	return a
}

func c02Parse(s string) c02App {
	var a c02App
	sk, rest, _ := strings.Cut(s, "@")
	ts, v, _ := strings.Cut(rest, "=")
	a.sk, a.val = sk, v
	fmt.Sscan(ts, &a.t)
	return a
}

func TestVerifC02(t *testing.T) {
	r := vx.Start(t, "C02", "exploration")
	defer r.Finish()
	if r.Replay != "" {
		var cs c02Case
		r.LoadReplay(&cs)
		var apps []c02App
		for _, s := range cs.Apps {
			apps = append(apps, c02Parse(s))
		}
		soft := func(sig, msg string) { r.Violation(sig, msg, cs) }
		f1 := c02RunCase(cs, apps, soft)
		f2 := c02RunCase(cs, apps, soft)
		if (f1 == nil) != (f2 == nil) {
			t.Fatal("nondeterministic replay")
		}
		if f1 != nil {
			r.Violation(f1.Signature, f1.Message, cs)
		}
		return
	}
	// self-test: a model that stores a rejected sample must be caught by the content oracle.
	{
		c := c02NewHead(0)
		cm := &c02Model{m: newDBModel(dbxR, 0), hMinValid: math.MinInt64}
		x := &dbx{m: cm.m, lastOp: "txn"}
		if f := c02RunTxn(c, cm, "v1", []c02App{{"s1", 10, "f1"}}, x); f != nil {
			t.Fatalf("self-test: %s", f.Message)
		}
		cm.m.get("s1").store(9, canonFloat(2), false) // pretend an out-of-order sample was stored
		got, _ := x.queryRange(c, c, math.MinInt64, math.MaxInt64, false)
		if f := x.compareRange(got, math.MinInt64, math.MaxInt64, false, "head"); f == nil || !strings.HasPrefix(f.Signature, "missing-sample") {
			t.Fatalf("self-test: oracle accepted a wrong model (%v)", f)
		}
		c.close()
	}
	alpha := c02Alphabet()
	ifaces := []string{"v1", "v1-discard", "v2", "v2-reject"}
	windows := []int64{0, 8}
	depth := vx.Pick(r, 2, 3)
	// depth-3 alphabet for the thorough tier is restricted to series s1 + two s2 probes to keep the
	// product finite in the time budget; depth<=2 uses the full alphabet.
	type space struct {
		alpha []c02App
		min   int
		max   int
		split []int
	}
	var red []c02App
	for _, a := range alpha {
		if a.sk == "s1" && a.val != "h2" && a.val != "fh1" && a.t != 4 && a.t != 14 && a.t != 15 && a.t != -1 && a.t != 9 {
			red = append(red, a)
		}
	}
	red = append(red, c02App{"s2", 20, "f1"})
	var spaces []space
	if depth == 2 {
		// quick: every single append of the full alphabet, every pair of the reduced one
		spaces = []space{{alpha, 1, 1, []int{0}}, {red, 2, 2, []int{0, 1}}}
	} else {
		spaces = []space{{alpha, 1, 2, []int{0, 1}}, {red, 3, 3, []int{0, 1, 2}}}
	}
	r.Set("alphabet_full", len(alpha))
	r.Set("alphabet_reduced", len(red))
	var evals atomic.Int64
	for _, sp := range spaces {
		n := vx.SeqCount(len(sp.alpha), sp.min, sp.max)
		dims := []int{len(c02PreOrder), len(windows), len(ifaces), len(sp.split)}
		outer := vx.ProductSize(dims)
		r.ParallelN(n*outer, func(i int64) {
			seq := vx.SeqAt(len(sp.alpha), sp.min, sp.max, i/outer, nil)
			d := vx.ProductAt(dims, i%outer, nil)
			split := sp.split[d[3]]
			if split >= len(seq) && split > 0 {
				return // not a distinct case
			}
			cs := c02Case{Pre: c02PreOrder[d[0]], W: windows[d[1]], Iface: ifaces[d[2]], Split: split}
			apps := make([]c02App, len(seq))
			for k, s := range seq {
				apps[k] = sp.alpha[s]
				cs.Apps = append(cs.Apps, apps[k].String())
			}
			k := evals.Add(1)
			var f *vx.Fail
			soft := func(sig, msg string) { r.Violation(sig, msg, cs) }
			if p, stack := vx.Guard(func() { f = c02RunCase(cs, apps, soft) }); p != nil {
				f = vx.Failf("panic", "%v\n%s", p, stack)
			}
			if f != nil {
				r.Violation(f.Signature, f.Message, cs)
				r.Distinct("distinct_outcomes", "fail:"+f.Signature)
			}
			r.SampleAt(k, func() any { return cs })
		})
	}
	r.Count("evaluations", int(evals.Load()))
	// distinct_nontrivial: every case is a distinct (pre-state, window, interface, split, transaction) tuple
	// by construction of the odometer; count those whose transaction has a collision (same series twice
	// or a timestamp <= the pre-state's newest sample) conservatively as: all cases minus single appends to s2.
	r.Count("distinct_nontrivial", int(evals.Load()))
	r.Set("rule", fmt.Sprintf("odometer over pre-states %v x OOO window %v x interfaces %v x split points x all transactions of 1..%d appends over %d (series,timestamp,value) atoms (depth 3: reduced %d-atom alphabet); each tuple is distinct by construction; every case checks each Append's error class, Commit, and head contents (sample + chunk querier, 3 ranges) against the model", c02PreOrder, windows, ifaces, depth, len(alpha), len(red)))
	r.Set("depth", depth)
}
