package tsdb

// C21: exemplar storage keeps the newest accepted exemplars in order.
//
// Explicit-state BFS (vx.BFS) over histories of add / resize on a real CircularExemplarStorage,
// each transition compared with a reference ring written from the documented rules:
//
//   - capacity 0: ErrExemplarsDisabled;
//   - combined rune length of exemplar label names+values > 128: ErrExemplarLabelLength;
//   - series without retained exemplars: accepted;
//   - equal (labels, ts, value) to the series' newest retained exemplar: duplicate, silently ignored
//     by AddExemplar, ErrDuplicateExemplar from ValidateExemplar;
//   - ts older than the newest by at least the out-of-order window (window 0: any older ts), or same
//     ts with smaller value, or same ts and value with smaller label hash: ErrOutOfOrderExemplar;
//   - older ts inside the window whose ts equals a retained exemplar of the series: assumed
//     duplicate, silently ignored;
//   - otherwise accepted: it becomes the most recently accepted exemplar and, if the store is full,
//     the least recently accepted one (of any series) is evicted.
//   - Resize(n) keeps the n most recently accepted ones (grow keeps all).
//
// Observations after EVERY transition: AddExemplar/ValidateExemplar results, the retained ring in
// acceptance order (IterateExemplars), Select for all 21 ranges x 4 matcher sets (per series: the
// retained exemplars inside the range, timestamps non-decreasing; series sorted; none empty), and
// the integrity of the per-series linked lists (walked with a step bound so that a cycle cannot
// hang the harness).
//
// Configurations: capacity 1..3 x out-of-order window 0, 2, 3, 4. With timestamps 1..4 these are
// all the window classes (no / one / two / every older timestamp admitted); windows >= 3 are needed
// for rings in which the slot to overwrite holds the newest-by-time exemplar of a series that has
// further retained exemplars (acceptance order != time order for >= 3 exemplars of one series).

import (
	"errors"
	"fmt"
	"slices"
	"sort"
	"strconv"
	"strings"
	"sync"
	"testing"
	"time"

	"github.com/cespare/xxhash/v2"

	"github.com/prometheus/prometheus/internal/verif/vx"
	"github.com/prometheus/prometheus/model/exemplar"
	"github.com/prometheus/prometheus/model/labels"
	"github.com/prometheus/prometheus/storage"
)

type c21Ex struct {
	series int // 0 = A, 1 = B
	ts     int64
	val    float64
	lbl    int // 0 = x, 1 = y, 2 = too long
}

func (e c21Ex) String() string {
	return fmt.Sprintf("%c@%d=%v%s", 'A'+e.series, e.ts, e.val, [...]string{"x", "y", "L"}[e.lbl])
}

var (
	c21SeriesLabels = []labels.Labels{
		labels.FromStrings("__name__", "m", "s", "A"),
		labels.FromStrings("__name__", "m", "s", "B"),
	}
	c21ExLabels = []labels.Labels{
		labels.FromStrings("trace_id", "x"),
		labels.FromStrings("trace_id", "y"),
		labels.FromStrings("a", strings.Repeat("é", 128)), // 129 runes
	}
)

func (e c21Ex) real() exemplar.Exemplar {
	return exemplar.Exemplar{Labels: c21ExLabels[e.lbl], Value: e.val, Ts: e.ts, HasTs: true}
}

// ---------------------------------------------------------------------------------------------
// reference ring
// ---------------------------------------------------------------------------------------------

type c21Model struct {
	cap    int
	window int64
	ring   []c21Ex // acceptance order, oldest first; len <= cap
}

// list of one series: retained exemplars in timestamp order (ties: acceptance order).
func (m *c21Model) list(series int) []c21Ex {
	var l []c21Ex
	for _, e := range m.ring {
		if e.series == series {
			l = append(l, e)
		}
	}
	sort.SliceStable(l, func(i, j int) bool { return l[i].ts < l[j].ts })
	return l
}

func c21LabelRunes(ls labels.Labels) int {
	n := 0
	ls.Range(func(l labels.Label) {
		n += len([]rune(l.Name)) + len([]rune(l.Value))
	})
	return n
}

func (m *c21Model) validate(e c21Ex) error {
	if m.cap == 0 {
		return storage.ErrExemplarsDisabled
	}
	if c21LabelRunes(c21ExLabels[e.lbl]) > 128 {
		return storage.ErrExemplarLabelLength
	}
	l := m.list(e.series)
	if len(l) == 0 {
		return nil
	}
	newest := l[len(l)-1]
	if newest.ts == e.ts && newest.val == e.val && newest.lbl == e.lbl {
		return storage.ErrDuplicateExemplar
	}
	switch {
	case e.ts < newest.ts && e.ts <= newest.ts-m.window:
		return storage.ErrOutOfOrderExemplar
	case e.ts == newest.ts && e.val < newest.val:
		return storage.ErrOutOfOrderExemplar
	case e.ts == newest.ts && e.val == newest.val && c21ExLabels[e.lbl].Hash() < c21ExLabels[newest.lbl].Hash():
		return storage.ErrOutOfOrderExemplar
	}
	return nil
}

// add returns the error AddExemplar must return and an outcome class.
func (m *c21Model) add(e c21Ex) (error, string) {
	err := m.validate(e)
	if errors.Is(err, storage.ErrDuplicateExemplar) {
		return nil, "ignored-duplicate-of-newest"
	}
	if err != nil {
		return err, "rejected:" + err.Error()[:12]
	}
	l := m.list(e.series)
	if len(l) > 0 && e.ts < l[len(l)-1].ts {
		for _, x := range l {
			if x.ts == e.ts {
				return nil, "ignored-out-of-order-same-ts"
			}
		}
	}
	out := "stored"
	if len(l) > 0 && e.ts < l[len(l)-1].ts {
		out = "stored-out-of-order"
	}
	m.ring = append(m.ring, e)
	if len(m.ring) > m.cap {
		out += "+evict-" + c21EvictClass(m.ring[0], e, l)
		m.ring = m.ring[1:]
	}
	return nil, out
}

// c21EvictClass says where the evicted exemplar sat relative to the series that is being added to
// (l = that series' retained exemplars in timestamp order before the add). Coverage bookkeeping
// only: the run is vacuous unless the interesting classes were reached.
func c21EvictClass(ev, e c21Ex, l []c21Ex) string {
	switch {
	case ev.series != e.series:
		return "other-series"
	case len(l) == 1:
		return "own-only"
	case l[0].ts == l[len(l)-1].ts:
		return "own-equal-ts"
	case ev.ts == l[len(l)-1].ts:
		return "own-newest"
	case ev.ts == l[0].ts:
		return "own-oldest"
	}
	return "own-middle"
}

func (m *c21Model) resize(n int) {
	m.cap = n
	if len(m.ring) > n {
		m.ring = append([]c21Ex{}, m.ring[len(m.ring)-n:]...)
	}
}

func (m *c21Model) key() string {
	var b strings.Builder
	fmt.Fprintf(&b, "cap=%d ring=", m.cap)
	for _, e := range m.ring {
		b.WriteString(e.String())
		b.WriteByte(' ')
	}
	return b.String()
}

// ---------------------------------------------------------------------------------------------
// system under test + oracle
// ---------------------------------------------------------------------------------------------

type c21Op struct {
	kind string // "add" | "resize"
	ex   c21Ex
	n    int
}

var (
	c21OpNames []string
	c21Ops     = map[string]c21Op{}
	c21Once    sync.Once
)

func c21InitOps() {
	c21Once.Do(func() {
		// simplest first: in-order adds on one series ... resize last
		for _, lbl := range []int{0, 1, 2} {
			for _, val := range []float64{1, 2} {
				for series := 0; series < 2; series++ {
					for ts := int64(1); ts <= 4; ts++ {
						e := c21Ex{series, ts, val, lbl}
						if lbl == 2 && !(val == 1 && (series == 0 && ts == 4 || series == 1 && ts == 1)) {
							continue // the over-long label is rejected before anything else is looked at: two representatives
						}
						name := "add " + e.String()
						c21OpNames = append(c21OpNames, name)
						c21Ops[name] = c21Op{kind: "add", ex: e}
					}
				}
			}
		}
		for n := 0; n <= 4; n++ {
			name := fmt.Sprintf("resize %d", n)
			c21OpNames = append(c21OpNames, name)
			c21Ops[name] = c21Op{kind: "resize", n: n}
		}
	})
}

type c21MatcherSet struct {
	name    string
	sets    [][]*labels.Matcher
	matches [2]bool
}

var c21Matchers = []c21MatcherSet{
	{"{s=A}", [][]*labels.Matcher{{labels.MustNewMatcher(labels.MatchEqual, "s", "A")}}, [2]bool{true, false}},
	{"{s=B}", [][]*labels.Matcher{{labels.MustNewMatcher(labels.MatchEqual, "s", "B")}}, [2]bool{false, true}},
	{"{s=A} or {s=B}", [][]*labels.Matcher{{labels.MustNewMatcher(labels.MatchEqual, "s", "A")}, {labels.MustNewMatcher(labels.MatchEqual, "s", "B")}}, [2]bool{true, true}},
	{"{__name__=m,s=~.+,s!=A}", [][]*labels.Matcher{{labels.MustNewMatcher(labels.MatchEqual, "__name__", "m"), labels.MustNewMatcher(labels.MatchRegexp, "s", ".+"), labels.MustNewMatcher(labels.MatchNotEqual, "s", "A")}}, [2]bool{false, true}},
}

type c21Sys struct {
	ce       *CircularExemplarStorage
	m        c21Model
	outcomes func(string)
	memo     *c21Memo // optional: states whose public observations were already compared
}

// c21Memo remembers (by a 128-bit hash of Key()) the states in which IterateExemplars and the 27
// Selects were already compared with the model and found right. Those observations are a function
// of exactly what Key() records (reference ring + complete physical layout; the index entries
// follow from the layout once integrity() has passed), i.e. of the same key the BFS merges states
// on, so reaching such a state through another history cannot show anything new. Verdicts and
// list integrity are still checked on every transition.
type c21Memo struct {
	shards [64]struct {
		mu sync.Mutex
		m  map[[2]uint64]struct{}
	}
}

func c21MemoKey(k string) [2]uint64 {
	h := uint64(14695981039346656037)
	for i := 0; i < len(k); i++ {
		h = (h ^ uint64(k[i])) * 1099511628211
	}
	return [2]uint64{xxhash.Sum64String(k), h}
}

func (c *c21Memo) seen(k [2]uint64) bool {
	sh := &c.shards[k[0]%64]
	sh.mu.Lock()
	_, ok := sh.m[k]
	sh.mu.Unlock()
	return ok
}

func (c *c21Memo) add(k [2]uint64) {
	sh := &c.shards[k[0]%64]
	sh.mu.Lock()
	if sh.m == nil {
		sh.m = map[[2]uint64]struct{}{}
	}
	sh.m[k] = struct{}{}
	sh.mu.Unlock()
}

var c21Metrics = NewExemplarMetrics(nil)

func c21New(capacity int, window int64, outcomes func(string)) *c21Sys {
	c21InitOps()
	es, err := NewCircularExemplarStorage(int64(capacity), c21Metrics, window)
	if err != nil {
		panic(err)
	}
	return &c21Sys{ce: es.(*CircularExemplarStorage), m: c21Model{cap: capacity, window: window}, outcomes: outcomes}
}

func (s *c21Sys) Ops() []string { return c21OpNames }
func (s *c21Sys) Close()        {}

func c21SameErr(got, want error) bool {
	if want == nil {
		return got == nil
	}
	return errors.Is(got, want)
}

func (s *c21Sys) Apply(opName string, check bool) (fail *vx.Fail) {
	op, ok := c21Ops[opName]
	if !ok {
		panic("c21: unknown op " + opName)
	}
	p, stack := vx.Guard(func() {
		switch op.kind {
		case "add":
			wantV := s.m.validate(op.ex)
			if check {
				gotV := s.ce.ValidateExemplar(c21SeriesLabels[op.ex.series], op.ex.real())
				if !c21SameErr(gotV, wantV) {
					fail = vx.Failf("exemplar-validate-wrong-verdict", "ValidateExemplar(%s) = %v, rules say %v; retained (acceptance order) %v, window %d", op.ex, gotV, wantV, s.m.ring, s.m.window)
					return
				}
			}
			want, outcome := s.m.add(op.ex)
			got := s.ce.AddExemplar(c21SeriesLabels[op.ex.series], op.ex.real())
			if check {
				if !c21SameErr(got, want) {
					fail = vx.Failf("exemplar-add-wrong-verdict", "AddExemplar(%s) = %v, rules say %v (%s); retained after (model) %v, window %d", op.ex, got, want, outcome, s.m.ring, s.m.window)
					return
				}
				if s.outcomes != nil {
					s.outcomes(outcome)
				}
			}
		case "resize":
			s.m.resize(op.n)
			s.ce.Resize(int64(op.n))
			if check && s.outcomes != nil {
				s.outcomes(fmt.Sprintf("resize-keeps-%d", len(s.m.ring)))
			}
		}
		if check {
			fail = s.observe()
		}
	})
	if p != nil {
		return vx.Failf("exemplar-storage-panic", "%s panicked: %v\n%s", opName, p, c21Trim(stack))
	}
	return fail
}

func c21Trim(s string) string {
	if len(s) > 1500 {
		return s[:1500]
	}
	return s
}

// integrity walks every per-series list in both directions with a step bound.
func (s *c21Sys) integrity() *vx.Fail {
	ce := s.ce
	n := len(ce.exemplars)
	linked := 0
	var buf [256]byte
	for k, idx := range ce.index {
		if k != string(idx.seriesLabels.Bytes(buf[:])) {
			return vx.Failf("exemplar-index-wrong-key", "index entry %q describes series %s", k, idx.seriesLabels)
		}
		if idx.oldest < 0 || idx.oldest >= n || idx.newest < 0 || idx.newest >= n {
			return vx.Failf("exemplar-index-dangling", "index entry %q has oldest=%d newest=%d with %d slots", k, idx.oldest, idx.newest, n)
		}
		steps, i, last := 0, idx.oldest, noExemplar
		for i != noExemplar {
			if steps++; steps > n {
				return vx.Failf("exemplar-list-cycle", "forward walk of the list of %q does not terminate within %d steps (slot %d)", k, n, i)
			}
			if i < 0 || i >= n || ce.exemplars[i].ref != idx {
				return vx.Failf("exemplar-list-corrupt", "list of %q reaches slot %d which does not belong to it", k, i)
			}
			if ce.exemplars[i].prev != last {
				return vx.Failf("exemplar-list-corrupt", "slot %d of %q has prev=%d, expected %d", i, k, ce.exemplars[i].prev, last)
			}
			last, i = i, ce.exemplars[i].next
			linked++
		}
		if last != idx.newest {
			return vx.Failf("exemplar-list-corrupt", "list of %q ends at slot %d but newest=%d", k, last, idx.newest)
		}
	}
	occupied := 0
	for i := range ce.exemplars {
		if ce.exemplars[i].ref != nil {
			occupied++
		}
	}
	if occupied != linked {
		return vx.Failf("exemplar-slot-unreachable", "%d slots hold an exemplar but the lists of the %d index entries reach %d", occupied, len(ce.index), linked)
	}
	return nil
}

// c21Code is a compact identity of a stored exemplar (series, ts, value, label) for comparisons.
func c21Code(l labels.Labels, e exemplar.Exemplar) int {
	c := int(e.Ts)*100 + int(e.Value)*10
	if l.Get("s") == "B" {
		c += 10000
	}
	switch e.Labels.Get("trace_id") {
	case "x":
	case "y":
		c++
	default:
		c += 2
	}
	return c
}

func (e c21Ex) code() int { return e.series*10000 + int(e.ts)*100 + int(e.val)*10 + e.lbl }

type c21Query struct {
	start, end int64
	ms         *c21MatcherSet
}

var (
	c21Queries     []c21Query
	c21QueriesOnce sync.Once
)

// every range with the matcher set selecting both series, the full range with every matcher set
// (range filtering and series matching are independent dimensions of Select).
func c21InitQueries() {
	c21QueriesOnce.Do(func() {
		for start := int64(0); start <= 5; start++ {
			for end := start; end <= 5; end++ {
				c21Queries = append(c21Queries, c21Query{start, end, &c21Matchers[2]})
			}
		}
		for _, i := range []int{0, 1, 3} {
			c21Queries = append(c21Queries, c21Query{0, 5, &c21Matchers[i]}, c21Query{2, 3, &c21Matchers[i]})
		}
	})
}

func (s *c21Sys) observe() *vx.Fail {
	if f := s.integrity(); f != nil {
		return f
	}
	if s.memo == nil {
		return s.observePublic()
	}
	k := c21MemoKey(s.Key())
	if s.memo.seen(k) {
		return nil
	}
	f := s.observePublic()
	if f == nil {
		s.memo.add(k)
	}
	return f
}

// observePublic compares what the public API shows (IterateExemplars, Select) with the model.
func (s *c21Sys) observePublic() *vx.Fail {
	c21InitQueries()
	// 1. retained ring in acceptance order
	var gotBuf [8]int
	got := gotBuf[:0]
	_ = s.ce.IterateExemplars(func(l labels.Labels, e exemplar.Exemplar) error {
		got = append(got, c21Code(l, e))
		return nil
	})
	same := len(got) == len(s.m.ring)
	if same {
		for i, e := range s.m.ring {
			if got[i] != e.code() {
				same = false
			}
		}
	}
	if !same {
		var g []string
		_ = s.ce.IterateExemplars(func(l labels.Labels, e exemplar.Exemplar) error {
			g = append(g, c21Render(l, e))
			return nil
		})
		return vx.Failf("exemplar-retained-set-wrong", "retained exemplars oldest-accepted first: got %v, want %v (capacity %d)", g, s.m.ring, s.m.cap)
	}
	// 2. queries
	lists := [2][]c21Ex{s.m.list(0), s.m.list(1)}
	for _, q := range c21Queries {
		start, end, ms := q.start, q.end, q.ms
		res, err := s.ce.Select(start, end, ms.sets...)
		if err != nil {
			return vx.Failf("exemplar-select-error", "Select(%d,%d,%s): %v", start, end, ms.name, err)
		}
		ri := 0
		for series := 0; series < 2; series++ {
			if !ms.matches[series] {
				continue
			}
			var wBuf, gBuf [8]int
			w, g := wBuf[:0], gBuf[:0]
			for _, e := range lists[series] {
				if e.ts >= start && e.ts <= end {
					w = append(w, e.code())
				}
			}
			if len(w) == 0 {
				continue
			}
			if ri >= len(res) || !labels.Equal(res[ri].SeriesLabels, c21SeriesLabels[series]) {
				return vx.Failf("exemplar-select-missing-series", "Select(%d,%d,%s): series %s missing or out of order in %v; retained %v", start, end, ms.name, c21SeriesLabels[series], c21RenderRes(res), s.m.ring)
			}
			for i, e := range res[ri].Exemplars {
				if i > 0 && e.Ts < res[ri].Exemplars[i-1].Ts {
					return vx.Failf("exemplar-select-not-time-ordered", "Select(%d,%d,%s): %v; retained %v", start, end, ms.name, c21RenderRes(res), s.m.ring)
				}
				g = append(g, c21Code(c21SeriesLabels[series], e))
			}
			// the statement fixes the order only up to equal timestamps
			sort.Ints(g)
			sort.Ints(w)
			if !slices.Equal(g, w) {
				return vx.Failf("exemplar-select-wrong-exemplars", "Select(%d,%d,%s) series %s: got %v; retained %v", start, end, ms.name, c21SeriesLabels[series], c21RenderRes(res), s.m.ring)
			}
			ri++
		}
		if ri != len(res) {
			return vx.Failf("exemplar-select-extra-series", "Select(%d,%d,%s) returned %v; retained %v", start, end, ms.name, c21RenderRes(res), s.m.ring)
		}
	}
	return nil
}

func c21Render(l labels.Labels, e exemplar.Exemplar) string {
	return fmt.Sprintf("%s@%d=%v%s", l.Get("s"), e.Ts, e.Value, e.Labels.Get("trace_id"))
}

func c21RenderRes(res []exemplar.QueryResult) string {
	var b strings.Builder
	for _, r := range res {
		b.WriteString(r.SeriesLabels.Get("s") + ":[")
		for _, e := range r.Exemplars {
			b.WriteString(c21Render(r.SeriesLabels, e) + " ")
		}
		b.WriteString("] ")
	}
	return b.String()
}

// Key: the model state plus the complete physical layout of the ring (slot contents, links,
// write position): the future behaviour of the implementation is a function of exactly this.
func (s *c21Sys) Key() string {
	b := make([]byte, 0, 96)
	b = append(b, byte('0'+s.m.cap), ':')
	for _, e := range s.m.ring {
		b = strconv.AppendInt(b, int64(e.code()), 10)
		b = append(b, ' ')
	}
	b = append(b, '|')
	b = strconv.AppendInt(b, int64(s.ce.nextIndex), 10)
	for i := range s.ce.exemplars {
		e := &s.ce.exemplars[i]
		b = append(b, ' ')
		if e.ref == nil {
			b = append(b, '_')
			continue
		}
		b = strconv.AppendInt(b, int64(c21Code(e.ref.seriesLabels, e.exemplar)), 10)
		b = append(b, '<')
		b = strconv.AppendInt(b, int64(e.prev), 10)
		b = append(b, ',')
		b = strconv.AppendInt(b, int64(e.next), 10)
	}
	return string(b)
}

// ---------------------------------------------------------------------------------------------
// label-length boundary sweep (not part of the BFS alphabet: it would only multiply states)
// ---------------------------------------------------------------------------------------------

func c21LabelSweep(r *vx.Run) int {
	n := 0
	es, _ := NewCircularExemplarStorage(2, NewExemplarMetrics(nil), 0)
	ce := es.(*CircularExemplarStorage)
	for _, unit := range []string{"v", "é", "日"} {
		for total := 0; total <= 131; total++ {
			for _, split := range []int{1, 2, 3} { // number of labels the runes are spread over
				if total < 2*split {
					continue
				}
				var kv []string
				left := total
				for i := 0; i < split; i++ {
					name := fmt.Sprintf("%c", 'a'+i)
					vl := left - 1
					if i < split-1 {
						vl = 1
					}
					kv = append(kv, name, strings.Repeat(unit, vl))
					left -= 1 + vl
				}
				ls := labels.FromStrings(kv...)
				runes := c21LabelRunes(ls)
				if runes != total {
					panic("c21: sweep construction")
				}
				e := exemplar.Exemplar{Labels: ls, Value: 1, Ts: int64(1000 + n), HasTs: true}
				gotV := ce.ValidateExemplar(c21SeriesLabels[0], e)
				gotA := ce.AddExemplar(c21SeriesLabels[0], e)
				var want error
				if runes > exemplar.ExemplarMaxLabelSetLength {
					want = storage.ErrExemplarLabelLength
				}
				if !c21SameErr(gotV, want) || !c21SameErr(gotA, want) {
					r.Violation("exemplar-label-length-rule", fmt.Sprintf("exemplar labels with %d runes (%d bytes, %d labels): ValidateExemplar=%v AddExemplar=%v, rule says %v", runes, len(ls.String()), split, gotV, gotA, want), map[string]any{"kind": "labelsweep", "unit": unit, "total": total, "split": split})
				}
				n++
			}
		}
	}
	return n
}

// ---------------------------------------------------------------------------------------------

type c21Cfg struct {
	Name   string
	Cap    int
	Window int64
}

func TestVerifC21(t *testing.T) {
	r := vx.Start(t, "C21", "model_checking")
	defer r.Finish()
	c21InitOps()

	cfgs := []c21Cfg{}
	// Out-of-order windows: with timestamps 1..4 a window w admits the w-1 timestamps directly below
	// the series' newest one, so 0 (nothing older), 2 (one older timestamp), 3 (two) and 4 (every
	// older timestamp of the alphabet) are all the classes there are. Only windows >= 3 let a
	// series hold two out-of-order exemplars below its newest, i.e. let the ring evict the
	// newest-by-time exemplar of a series that keeps other exemplars and is then added to again.
	for _, w := range []int64{0, 2, 3, 4} {
		for _, c := range []int{1, 2, 3} {
			cfgs = append(cfgs, c21Cfg{fmt.Sprintf("cap%d-window%d", c, w), c, w})
		}
	}

	if r.Replay != "" {
		var rp struct {
			Config string   `json:"config"`
			Ops    []string `json:"ops"`
			Kind   string   `json:"kind"`
		}
		r.LoadReplay(&rp)
		if rp.Kind == "labelsweep" {
			c21LabelSweep(r)
			return
		}
		for _, c := range cfgs {
			if c.Name == rp.Config {
				if f := r.ReplayOps(func() vx.Sys { return c21New(c.Cap, c.Window, nil) }, rp.Ops); f != nil {
					r.Violation(f.Signature, f.Message, map[string]any{"config": c.Name, "ops": rp.Ops})
				}
				return
			}
		}
		t.Fatalf("unknown config %q", rp.Config)
	}

	// self-test: the oracle must reject a store that evicts the wrong exemplar / orders wrongly.
	// (If the preparing operations already fail on the code under test, the self-test is skipped:
	// the BFS below reports that as a violation.)
	func() {
		s := c21New(2, 2, nil)
		for _, op := range []string{"add A@1=1x", "add A@3=1x"} {
			if f := s.Apply(op, true); f != nil {
				t.Logf("self-test skipped: %s fails already: %s", op, f.Message)
				return
			}
		}
		// sabotage the model: pretend the older one had been evicted
		s.m.ring = s.m.ring[1:]
		if f := s.observe(); f == nil || f.Signature != "exemplar-retained-set-wrong" {
			t.Fatalf("self-test: oracle does not notice a wrong retained set (%v)", f)
		}
		s = c21New(2, 2, nil)
		if s.Apply("add A@3=1x", true) != nil || s.Apply("add A@2=1x", true) != nil {
			t.Logf("self-test skipped: preparing adds fail already")
			return
		}
		// sabotage the implementation: swap the list order
		idx := s.ce.exemplars[0].ref
		idx.oldest, idx.newest = 0, 1
		s.ce.exemplars[0].prev, s.ce.exemplars[0].next = noExemplar, 1
		s.ce.exemplars[1].prev, s.ce.exemplars[1].next = 0, noExemplar
		if f := s.observe(); f == nil {
			t.Fatal("self-test: oracle does not notice a list that is not time ordered")
		}
		// a self-referencing list must be reported, not followed
		s.ce.exemplars[1].next = 1
		if f := s.observe(); f == nil || f.Signature != "exemplar-list-cycle" {
			t.Fatalf("self-test: cycle not detected (%v)", f)
		}
		// sabotage the implementation: a per-series "newest" pointer left behind on an older list
		// element (list links themselves intact). Both the list walk and, independently, the
		// narrow Selects (start after the stale newest timestamp) must notice.
		s = c21New(3, 4, nil)
		if s.Apply("add A@2=1x", true) != nil || s.Apply("add A@4=1x", true) != nil {
			t.Logf("self-test skipped: preparing adds fail already")
			return
		}
		s.ce.exemplars[0].ref.newest = 0
		if f := s.integrity(); f == nil || f.Signature != "exemplar-list-corrupt" {
			t.Fatalf("self-test: stale newest pointer not detected by the list walk (%v)", f)
		}
		if f := s.observePublic(); f == nil || f.Signature != "exemplar-select-missing-series" {
			t.Fatalf("self-test: stale newest pointer not detected through Select (%v)", f)
		}
	}()

	sweep := c21LabelSweep(r)
	r.Count("label_length_cases", sweep)

	var mu sync.Mutex
	outcomes := map[string]int{}
	note := func(o string) {
		mu.Lock()
		outcomes[o]++
		mu.Unlock()
	}
	depths := map[string]int{}
	for _, c := range cfgs {
		if r.Quick() && c.Window == 3 && c.Cap == 3 {
			continue // budget: the most expensive window-3 configuration is left to the thorough tier
		}
		d := vx.Pick(r, 4, 5)
		depths[c.Name] = d
		t0 := time.Now()
		memo := &c21Memo{}
		res := r.BFS(c.Name, func() vx.Sys {
			s := c21New(c.Cap, c.Window, note)
			s.memo = memo
			return s
		}, d)
		t.Logf("%s: states=%d transitions=%d depth=%d %.1fs", c.Name, res.States, res.Transitions, res.DepthCompleted, time.Since(t0).Seconds())
	}
	depth := depths
	r.Set("depth", depth)
	r.Set("operations", len(c21OpNames))
	r.Set("outcome_classes", outcomes)
	r.Set("rule", fmt.Sprintf("BFS with de-duplication on (reference ring, complete physical ring layout) over all histories of <=%v operations from %d (32 adds: series A/B x ts 1..4 x value 1/2 x labels x/y; 2 adds with a 129-rune label set; 5 resizes 0..4) for capacity 1..3 x out-of-order window 0/2/3/4 (none, one, two, all older timestamps of the alphabet admitted; window 3 x capacity 3 only in the thorough tier); after every transition: verdicts and list/index integrity; retained ring and 27 Selects once per distinct (model, physical layout) state", depth, len(c21OpNames)))
	r.Assume("the reference ring encodes the rules documented in tsdb/exemplar.go comments (duplicate of newest ignored, window relative to the newest retained exemplar, equal-timestamp ordering by value then label hash, out-of-order exemplar with an already retained timestamp ignored)")
	r.Assume("Head appender paths (head_append.go) that call ValidateExemplar/AddExemplar are not driven; the storage is driven directly")
	for _, o := range []string{"stored", "stored-out-of-order", "ignored-duplicate-of-newest", "ignored-out-of-order-same-ts",
		"stored+evict-other-series", "stored+evict-own-only", "stored+evict-own-oldest", "stored+evict-own-middle", "stored+evict-own-newest",
		"stored-out-of-order+evict-other-series", "stored-out-of-order+evict-own-oldest", "stored-out-of-order+evict-own-newest"} {
		if outcomes[o] == 0 && r.Violations() == 0 {
			t.Fatalf("vacuous: outcome class %q never reached (%v)", o, outcomes)
		}
	}
	for _, o := range vx.SortedKeys(outcomes) {
		r.Distinct("distinct_outcomes", o)
	}
}
