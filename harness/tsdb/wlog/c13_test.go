package wlog

// C13: the write-ahead log returns exactly the records written.
//
// Part "rw": every sequence of <=2 records over an alphabet of on-disk record lengths that sit on
// the page/segment arithmetic (0, 1, 7, page-15/-14/-13 (8, 7, 6 bytes left in the page), exactly a
// page, two pages, larger than the whole segment), for every compression setting (payloads are
// constructed so that the COMPRESSED length hits the boundary, plus incompressible payloads that
// are stored raw), segment sizes 1, 2 and 4 pages, one Log call per record or one batch; sequences
// of 3 (thorough 4) records over a reduced configuration list. The log is read with
// NewSegmentsReader+Reader while still open and after Close: must be the written sequence.
//
// Part "live": for a list of small logs (1-3 pages per segment, incl. zero-length fragments, page
// padding, first/middle/last fragments, compressed records, an empty segment, open and closed
// last page) every segment file is presented to a LiveReader through an io.Reader whose visible
// length grows through EVERY two-step schedule (c1 in [0,n], then n) and every three-step schedule
// c1<c2 over the neighbourhoods of all fragment/page boundaries (thorough: also with short reads of
// 1 and 13 bytes). After each growth Next is called until it returns false; Err() must then be nil
// or io.EOF (anything else is what the Watcher treats as fatal corruption while tailing); the
// records returned so far must be a prefix of the expected ones and, once everything is visible,
// exactly the expected ones (no skip, no duplicate).
//
// Oracle: the written sequence. The per-segment expectation of the live part is the full read of
// that segment, accepted only after the concatenation over all segments was checked to equal the
// written sequence.

import (
	"bytes"
	"errors"
	"fmt"
	"hash/fnv"
	"io"
	"os"
	"path/filepath"
	"sort"
	"sync"
	"sync/atomic"
	"testing"

	"github.com/prometheus/common/promslog"

	"github.com/prometheus/prometheus/internal/verif/vx"
	"github.com/prometheus/prometheus/util/compression"
)

const c13P = pageSize

// ---------------------------------------------------------------------------
// payloads
// ---------------------------------------------------------------------------

// c13Noise fills b with a fixed incompressible byte stream (xorshift64*), different per seed.
func c13Noise(b []byte, seed uint64) {
	x := seed*0x9e3779b97f4a7c15 + 0x1234567
	for i := range b {
		x ^= x >> 12
		x ^= x << 25
		x ^= x >> 27
		b[i] = byte((x * 0x2545f4914f6cdd1d) >> 56)
	}
}

type c13PayloadKey struct {
	compr  string
	target int
	idx    int
}

var (
	c13PayloadMu    sync.Mutex
	c13PayloadCache = map[c13PayloadKey][]byte{}
)

// c13Payload returns record number idx whose ON-DISK (possibly compressed) length is target.
// mode "raw": incompressible bytes of that length (stored uncompressed under every setting).
// mode "exact" with snappy/zstd: incompressible prefix + zero tail tuned so that the encoder output
// has exactly `target` bytes (and is shorter than the input, so the compressed form is kept).
// Returns nil if no such payload could be constructed.
func c13Payload(compr, mode string, target, idx int) []byte {
	if compr == compression.None || mode == "raw" || target < 512 {
		b := make([]byte, target)
		c13Noise(b, uint64(idx)+1)
		return b
	}
	key := c13PayloadKey{compr, target, idx}
	c13PayloadMu.Lock()
	defer c13PayloadMu.Unlock()
	if p, ok := c13PayloadCache[key]; ok {
		return p
	}
	enc := compression.NewSyncEncodeBuffer()
	// payload = k noise bytes + m zero bytes + r noise bytes; coarse search on k, then a local
	// brute force over (k, m, r): the encoders move in steps of a few bytes in each parameter.
	mk := func(k, m, r int) []byte {
		// m zero bytes (compress to almost nothing), then k+r noise bytes (stored as literals)
		p := make([]byte, m+k+r)
		c13Noise(p[m:], uint64(idx)+1)
		return p
	}
	size := func(p []byte) int {
		e, err := compression.Encode(compr, p, enc)
		if err != nil {
			return -1
		}
		return len(e)
	}
	base := 1024
	if target/4 > base {
		base = target / 4 / 64 * 64
	}
	k := target - 128
	for iter := 0; iter < 40 && k > 0; iter++ {
		d := target - size(mk(k, base, 0))
		if d >= 1 && d <= 40 {
			break
		}
		k += d - 20
	}
	var found []byte
search:
	for dk := 0; dk <= 64 && k+dk > 0; dk++ {
		for m := base; m <= base+64*8; m += 64 {
			p := mk(k+dk, m, 0)
			if n := size(p); n == target && n < len(p) {
				found = p
				break search
			}
		}
	}
	if found == nil && os.Getenv("VERIF_C13_DEBUG") != "" {
		seen := map[int]bool{}
		for dk := 0; dk <= 48; dk++ {
			for m := base; m <= base+64*24; m += 64 {
				seen[size(mk(k+dk, m, 0))] = true
			}
		}
		var ks []int
		for x := range seen {
			ks = append(ks, x)
		}
		sort.Ints(ks)
		fmt.Println("c13Payload FAILED", compr, target, "k", k, "sizes", ks)
	}
	c13PayloadCache[key] = found
	return found
}

// ---------------------------------------------------------------------------
// writing / reading helpers
// ---------------------------------------------------------------------------

type c13Cfg struct {
	Compr    string `json:"compression"`
	Mode     string `json:"payload"` // exact | raw
	SegPages int    `json:"segment_pages"`
	Batch    bool   `json:"one_batch"`
}

type c13Log struct {
	Cfg  c13Cfg `json:"cfg"`
	Lens []int  `json:"on_disk_lengths"`
}

func (l c13Log) records() [][]byte {
	var recs [][]byte
	for i, n := range l.Lens {
		p := c13Payload(l.Cfg.Compr, l.Cfg.Mode, n, i)
		if p == nil {
			return nil
		}
		recs = append(recs, p)
	}
	return recs
}

// c13Write logs the records into a fresh WL in dir; the WL is returned open.
func c13Write(dir string, l c13Log, recs [][]byte) (*WL, error) {
	w, err := NewSize(promslog.NewNopLogger(), nil, dir, l.Cfg.SegPages*pageSize, l.Cfg.Compr)
	if err != nil {
		return nil, err
	}
	if l.Cfg.Batch {
		err = w.Log(recs...)
	} else {
		for _, r := range recs {
			if err = w.Log(r); err != nil {
				break
			}
		}
	}
	if err != nil {
		w.Close()
		return nil, err
	}
	return w, nil
}

func c13ReadAll(dir string) ([][]byte, error) {
	sr, err := NewSegmentsReader(dir)
	if err != nil {
		return nil, fmt.Errorf("NewSegmentsReader: %w", err)
	}
	defer sr.Close()
	r := NewReader(sr)
	var out [][]byte
	for r.Next() {
		out = append(out, append([]byte{}, r.Record()...))
	}
	return out, r.Err()
}

func c13SameSeq(a, b [][]byte) (bool, string) {
	for i := 0; i < len(a) && i < len(b); i++ {
		if !bytes.Equal(a[i], b[i]) {
			return false, fmt.Sprintf("record %d differs (wrote %d bytes, read %d bytes)", i, len(a[i]), len(b[i]))
		}
	}
	if len(a) != len(b) {
		return false, fmt.Sprintf("wrote %d records, read %d", len(a), len(b))
	}
	return true, ""
}

func c13SegmentFiles(dir string) ([][]byte, error) {
	refs, err := listSegments(dir)
	if err != nil {
		return nil, err
	}
	var out [][]byte
	for _, r := range refs {
		b, err := os.ReadFile(filepath.Join(dir, r.name))
		if err != nil {
			return nil, err
		}
		out = append(out, b)
	}
	return out, nil
}

// c13Layout walks a segment image by the documented format (docs/format/wal.md) and returns the
// fragment boundaries; used to pick interesting cut points and to describe layouts, never as an oracle.
func c13Layout(data []byte) (bounds []int, desc string) {
	o := 0
	for o < len(data) {
		if data[o]&recTypeMask == 0 {
			end := (o/c13P + 1) * c13P
			if end > len(data) {
				end = len(data)
			}
			bounds = append(bounds, o, end)
			desc += fmt.Sprintf("pad%d ", end-o)
			o = end
			continue
		}
		if o+recordHeaderSize > len(data) {
			break
		}
		l := int(data[o+1])<<8 | int(data[o+2])
		bounds = append(bounds, o, o+recordHeaderSize, o+recordHeaderSize+l)
		desc += fmt.Sprintf("%s%d ", recType(data[o]&recTypeMask), l)
		o += recordHeaderSize + l
	}
	return bounds, desc
}

// ---------------------------------------------------------------------------
// part rw
// ---------------------------------------------------------------------------

func c13Lengths(thorough bool) []int {
	ls := []int{0, 1, 7, c13P - 15, c13P - 14, c13P - 13, c13P - 7, c13P - 6, 2 * (c13P - 7), 4*c13P + 1}
	if thorough {
		ls = append(ls, c13P-8, c13P, 2*(c13P-7)+1, 2*(c13P-7)-1)
	}
	return ls
}

func c13Cfgs(full bool) []c13Cfg {
	if !full {
		return []c13Cfg{
			{compression.None, "exact", 1, false},
			{compression.None, "exact", 2, false},
			{compression.Snappy, "exact", 1, false},
			{compression.Zstd, "exact", 2, false},
			{compression.None, "exact", 4, true},
			{compression.Snappy, "raw", 2, true},
		}
	}
	var cs []c13Cfg
	for _, seg := range []int{1, 2, 4} {
		for _, batch := range []bool{false, true} {
			cs = append(cs, c13Cfg{compression.None, "exact", seg, batch})
			for _, c := range []string{compression.Snappy, compression.Zstd} {
				cs = append(cs, c13Cfg{c, "exact", seg, batch}, c13Cfg{c, "raw", seg, batch})
			}
		}
	}
	return cs
}

type c13Replay struct {
	Part    string  `json:"part"`
	Log     *c13Log `json:"log,omitempty"`
	LiveLog string  `json:"live_log,omitempty"`
	Closed  bool    `json:"closed_image,omitempty"`
	Segment int     `json:"segment,omitempty"`
	Cuts    []int   `json:"visible_lengths,omitempty"`
	MaxRead int     `json:"max_read,omitempty"`
}

// c13RunRW returns a layout description (for distinct accounting) or "" when the case was skipped.
func c13RunRW(r *vx.Run, l c13Log) (desc string) {
	pn, stack := vx.Guard(func() { desc = c13RunRWInner(r, l) })
	if pn != nil {
		r.Violation("rw-panic", fmt.Sprintf("log %s: writing/reading panicked: %v\n%s", vx.J(l), pn, stack), c13Replay{Part: "rw", Log: &l})
		return "panic"
	}
	return desc
}

func c13RunRWInner(r *vx.Run, l c13Log) string {
	recs := l.records()
	if recs == nil {
		return ""
	}
	if recs == nil {
		recs = [][]byte{}
	}
	viol := func(sig, msg string) {
		r.Violation(sig, fmt.Sprintf("log %s: %s", vx.J(l), msg), c13Replay{Part: "rw", Log: &l})
	}
	dir, err := os.MkdirTemp("", "c13rw")
	if err != nil {
		r.T.Fatalf("tempdir: %v", err)
	}
	defer os.RemoveAll(dir)
	w, err := c13Write(dir, l, recs)
	if err != nil {
		viol("log-write-error", err.Error())
		return "error"
	}
	closed := false
	defer func() {
		if !closed {
			w.Close() // only reached when reading panicked
		}
	}()
	got, rerr := c13ReadAll(dir)
	if rerr != nil {
		viol("reader-error-open-log", fmt.Sprintf("reading the still-open log: %v (after %d of %d records)", rerr, len(got), len(recs)))
	} else if ok, why := c13SameSeq(recs, got); !ok {
		viol("reader-sequence-mismatch-open-log", "reading the still-open log: "+why)
	}
	closed = true
	if err := w.Close(); err != nil {
		viol("log-close-error", err.Error())
		return "error"
	}
	got, rerr = c13ReadAll(dir)
	if rerr != nil {
		viol("reader-error", fmt.Sprintf("%v (after %d of %d records)", rerr, len(got), len(recs)))
	} else if ok, why := c13SameSeq(recs, got); !ok {
		viol("reader-sequence-mismatch", why)
	}
	segs, err := c13SegmentFiles(dir)
	if err != nil {
		r.T.Fatalf("segment files: %v", err)
	}
	desc := ""
	for _, s := range segs {
		_, d := c13Layout(s)
		desc += "[" + d + "]"
	}
	return desc
}

// ---------------------------------------------------------------------------
// part live
// ---------------------------------------------------------------------------

// c13Window is an io.Reader over data[:visible] that, like a file being appended to, returns
// (0, io.EOF) at the end of the visible part and continues when the visible part has grown.
type c13Window struct {
	data    []byte
	visible int
	off     int
	maxRead int // 0: unlimited; otherwise short reads of at most maxRead bytes
}

func (w *c13Window) Read(p []byte) (int, error) {
	if w.off >= w.visible {
		return 0, io.EOF
	}
	n := w.visible - w.off
	if n > len(p) {
		n = len(p)
	}
	if w.maxRead > 0 && n > w.maxRead {
		n = w.maxRead
	}
	copy(p, w.data[w.off:w.off+n])
	w.off += n
	return n, nil
}

var c13LRMetrics = NewLiveReaderMetrics(nil)

type c13LiveResult struct {
	sig, msg string
	step1    int // records returned after the first growth
	eof1     bool
}

// c13LiveRun feeds one growth schedule to a fresh LiveReader and checks it against want.
func c13LiveRun(data []byte, cuts []int, maxRead int, want [][]byte) (res c13LiveResult) {
	pn, stack := vx.Guard(func() { res = c13LiveRunInner(data, cuts, maxRead, want) })
	if pn != nil {
		res = c13LiveResult{sig: "live-panic", msg: fmt.Sprintf("LiveReader panicked: %v\n%s", pn, stack)}
	}
	return res
}

func c13LiveRunInner(data []byte, cuts []int, maxRead int, want [][]byte) c13LiveResult {
	win := &c13Window{data: data, maxRead: maxRead}
	lr := NewLiveReader(promslog.NewNopLogger(), c13LRMetrics, win)
	var res c13LiveResult
	n := 0
	for step, c := range cuts {
		win.visible = c
		for lr.Next() {
			rec := lr.Record()
			if n >= len(want) {
				res.sig, res.msg = "live-extra-record", fmt.Sprintf("step %d (visible %d of %d bytes): record #%d (%d bytes) returned but the segment holds only %d records", step, c, len(data), n, len(rec), len(want))
				return res
			}
			if !bytes.Equal(rec, want[n]) {
				sig := "live-wrong-record"
				for j := 0; j < len(want); j++ {
					if bytes.Equal(rec, want[j]) && len(rec) > 0 {
						if j < n {
							sig = "live-duplicate-record"
						} else {
							sig = "live-skipped-record"
						}
					}
				}
				res.sig, res.msg = sig, fmt.Sprintf("step %d (visible %d of %d bytes): record #%d returned with %d bytes, expected the %d-byte record #%d", step, c, len(data), n, len(rec), len(want[n]), n)
				return res
			}
			n++
		}
		// This is the point where Watcher.readSegment returns r.Err(): EOF means "try again
		// later", anything else is fatal while tailing.
		if err := lr.Err(); err != nil && !errors.Is(err, io.EOF) {
			res.sig, res.msg = "live-spurious-corruption", fmt.Sprintf("step %d (visible %d of %d bytes, %d records returned so far): Err() = %v on an intact segment", step, c, len(data), n, err)
			return res
		}
		if step == 0 {
			res.step1, res.eof1 = n, lr.Err() != nil
		}
	}
	if n != len(want) {
		res.sig, res.msg = "live-missing-record", fmt.Sprintf("all %d bytes visible and Next() returned false: %d of %d records returned (Err %v, Offset %d)", len(data), n, len(want), lr.Err(), lr.Offset())
	}
	return res
}

type c13LiveLog struct {
	name string
	log  c13Log
}

func c13LiveLogs(thorough bool) []c13LiveLog {
	n := func(c string, seg int, batch bool) c13Cfg { return c13Cfg{c, "exact", seg, batch} }
	ls := []c13LiveLog{
		{"tiny-separate-flushes", c13Log{n(compression.None, 4, false), []int{0, 0, 1, 7, 0}}},
		{"fills-page-exactly-then-more", c13Log{n(compression.None, 4, false), []int{c13P - 15, 1, 0, 7}}},
		{"zero-length-first-fragment", c13Log{n(compression.None, 4, false), []int{c13P - 14, 5}}},
		{"six-byte-padding", c13Log{n(compression.None, 4, false), []int{c13P - 13, 5, 0}}},
		{"first-last-across-pages", c13Log{n(compression.None, 4, true), []int{10000, 10000, 10000, 5000, 3}}},
		{"snappy-boundary", c13Log{n(compression.Snappy, 4, false), []int{c13P - 14, 600, 5}}},
	}
	if thorough {
		ls = append(ls,
			c13LiveLog{"one-page-record-then-empty", c13Log{n(compression.None, 4, false), []int{c13P - 7, 0}}},
			c13LiveLog{"first-middle-last", c13Log{n(compression.None, 4, false), []int{100, 2*c13P - 50, 9}}},
			c13LiveLog{"page-sized-record", c13Log{n(compression.None, 4, false), []int{c13P, 1}}},
			c13LiveLog{"zstd-boundary", c13Log{n(compression.Zstd, 4, true), []int{c13P - 15, 700, 0, 7}}},
			c13LiveLog{"segment-of-one-page", c13Log{n(compression.None, 1, false), []int{c13P - 14, 5, c13P - 6, 2}}},
			c13LiveLog{"oversize-record-empty-segment", c13Log{n(compression.None, 1, false), []int{c13P - 6, 1}}},
			c13LiveLog{"eight-left", c13Log{n(compression.None, 2, false), []int{c13P - 15, 2, 2}}},
			c13LiveLog{"many-small", c13Log{n(compression.None, 2, true), []int{7, 7, 7, 7, 0, 1, 300, 1, 0, 7}}},
		)
	}
	return ls
}

type c13Image struct {
	logName string
	closed  bool
	seg     int
	data    []byte
	want    [][]byte
	bounds  []int // sorted unique cut points near boundaries
}

// c13Images writes the log and captures every segment file twice: while the log is still open
// (last page partially flushed) and after Close (last page padded).
func c13Images(r *vx.Run, ll c13LiveLog) []c13Image {
	recs := ll.log.records()
	if recs == nil {
		r.T.Fatalf("live log %s: payload construction failed", ll.name)
	}
	dir, err := os.MkdirTemp("", "c13live")
	if err != nil {
		r.T.Fatalf("tempdir: %v", err)
	}
	defer os.RemoveAll(dir)
	w, err := c13Write(dir, ll.log, recs)
	if err != nil {
		r.T.Fatalf("live log %s: %v", ll.name, err)
	}
	var imgs []c13Image
	capture := func(closed bool) {
		segs, err := c13SegmentFiles(dir)
		if err != nil {
			r.T.Fatalf("segment files: %v", err)
		}
		var all [][]byte
		var per [][][]byte
		for si, data := range segs {
			// full read of the segment through a LiveReader (everything visible at once)
			win := &c13Window{data: data, visible: len(data)}
			lr := NewLiveReader(promslog.NewNopLogger(), c13LRMetrics, win)
			var got [][]byte
			for lr.Next() {
				got = append(got, append([]byte{}, lr.Record()...))
			}
			if err := lr.Err(); err != nil && !errors.Is(err, io.EOF) {
				r.Violation("live-spurious-corruption", fmt.Sprintf("live log %s (closed=%v) segment %d read in one go: Err() = %v", ll.name, closed, si, err),
					c13Replay{Part: "live", LiveLog: ll.name, Closed: closed, Segment: si, Cuts: []int{len(data)}})
			}
			per = append(per, got)
			all = append(all, got...)
		}
		if ok, why := c13SameSeq(recs, all); !ok {
			r.Violation("live-full-read-mismatch", fmt.Sprintf("live log %s (closed=%v): concatenation of the per-segment live reads differs from the written sequence: %s", ll.name, closed, why),
				c13Replay{Part: "live", LiveLog: ll.name, Closed: closed})
			return
		}
		for si, data := range segs {
			b, _ := c13Layout(data)
			set := map[int]struct{}{0: {}, len(data): {}}
			for _, x := range b {
				for d := -1; d <= 1; d++ {
					if x+d >= 0 && x+d <= len(data) {
						set[x+d] = struct{}{}
					}
				}
			}
			for pg := c13P; pg < len(data); pg += c13P {
				for d := -1; d <= 1; d++ {
					set[pg+d] = struct{}{}
				}
			}
			var bounds []int
			for x := range set {
				bounds = append(bounds, x)
			}
			sort.Ints(bounds)
			imgs = append(imgs, c13Image{logName: ll.name, closed: closed, seg: si, data: data, want: per[si], bounds: bounds})
		}
	}
	capture(false)
	if err := w.Close(); err != nil {
		r.T.Fatalf("live log %s: close: %v", ll.name, err)
	}
	capture(true)
	return imgs
}

// ---------------------------------------------------------------------------
// driver
// ---------------------------------------------------------------------------

func c13SelfTest(t *testing.T) {
	// a deliberately damaged image must be reported as corruption / mismatch by the live oracle
	recs := [][]byte{[]byte("alpha"), []byte("beta-beta"), {}}
	dir, err := os.MkdirTemp("", "c13self")
	if err != nil {
		t.Fatal(err)
	}
	defer os.RemoveAll(dir)
	w, err := c13Write(dir, c13Log{Cfg: c13Cfg{compression.None, "exact", 1, false}}, recs)
	if err != nil {
		t.Fatal(err)
	}
	w.Close()
	segs, _ := c13SegmentFiles(dir)
	if len(segs) != 1 {
		t.Fatalf("self-test: %d segments", len(segs))
	}
	data := segs[0]
	if res := c13LiveRun(data, []int{3, len(data)}, 0, recs); res.sig != "" {
		t.Fatalf("self-test: oracle rejects a correct read: %s %s", res.sig, res.msg)
	}
	bad := append([]byte{}, data...)
	bad[9] ^= 0x40 // payload byte of the first record: checksum mismatch
	if res := c13LiveRun(bad, []int{3, len(bad)}, 0, recs); res.sig != "live-spurious-corruption" {
		t.Fatalf("self-test: damaged image not reported as corruption (got %q)", res.sig)
	}
	if res := c13LiveRun(data, []int{len(data)}, 0, [][]byte{recs[0], recs[0], recs[1], recs[2]}); res.sig == "" {
		t.Fatal("self-test: oracle accepts a skipped record")
	}
	if res := c13LiveRun(data, []int{len(data)}, 0, recs[:2]); res.sig != "live-extra-record" {
		t.Fatalf("self-test: oracle accepts an extra record (%q)", res.sig)
	}
	if res := c13LiveRun(data, []int{len(data)}, 0, append(append([][]byte{}, recs...), []byte("x"))); res.sig != "live-missing-record" {
		t.Fatalf("self-test: oracle accepts a missing record (%q)", res.sig)
	}
	if ok, _ := c13SameSeq(recs, recs[:2]); ok {
		t.Fatal("self-test: sequence comparison ignores length")
	}
}

type c13Sched struct {
	img     int
	cuts    []int
	maxRead int
}

func TestVerifC13(t *testing.T) {
	r := vx.Start(t, "C13", "exploration")
	defer r.Finish()

	if r.Replay != "" {
		var rp c13Replay
		r.LoadReplay(&rp)
		if rp.Part == "rw" {
			c13RunRW(r, *rp.Log)
			c13RunRW(r, *rp.Log)
			return
		}
		for _, ll := range c13LiveLogs(true) {
			if ll.name != rp.LiveLog {
				continue
			}
			for _, im := range c13Images(r, ll) {
				if im.closed == rp.Closed && im.seg == rp.Segment && len(rp.Cuts) > 0 {
					res := c13LiveRun(im.data, rp.Cuts, rp.MaxRead, im.want)
					if res.sig != "" {
						r.Violation(res.sig, res.msg, rp)
					}
				}
			}
			return
		}
		t.Fatalf("replay: unknown live log %q", rp.LiveLog)
	}

	c13SelfTest(t)

	// ---- part rw ------------------------------------------------------------------------------
	lens := c13Lengths(r.Thorough())
	var cases []c13Log
	add := func(alpha []int, lo, hi int, cfgs []c13Cfg) {
		total := vx.SeqCount(len(alpha), lo, hi)
		for i := int64(0); i < total; i++ {
			seq := vx.SeqAt(len(alpha), lo, hi, i, nil)
			ls := make([]int, len(seq))
			for k, a := range seq {
				ls[k] = alpha[a]
			}
			for _, c := range cfgs {
				cases = append(cases, c13Log{Cfg: c, Lens: ls})
			}
		}
	}
	if r.Thorough() {
		add(lens, 0, 3, c13Cfgs(true))
		add(lens[:10], 4, 4, c13Cfgs(false))
	} else {
		add(lens, 0, 2, c13Cfgs(true))
		add(lens, 3, 3, c13Cfgs(false))
	}
	var nRW, nSkipped, nOutcomes atomic.Int64
	r.ParallelN(int64(len(cases)), func(i int64) {
		desc := c13RunRW(r, cases[i])
		if desc == "" {
			nSkipped.Add(1)
			return
		}
		k := nRW.Add(1)
		if len(cases[i].Lens) >= 1 {
			r.Distinct("distinct_nontrivial", "rw "+desc)
		}
		h := fnv.New32a()
		h.Write([]byte(desc))
		if r.Distinct("distinct_outcomes", fmt.Sprintf("rw %x", h.Sum32()%64)) {
			nOutcomes.Add(1)
		}
		r.SampleAt(k, func() any { return map[string]any{"part": "rw", "log": cases[i], "segment_layouts": desc} })
	})
	r.Count("rw_cases", int(nRW.Load()))
	r.Count("rw_skipped_no_payload_for_compressed_length", int(nSkipped.Load()))

	// ---- part live ----------------------------------------------------------------------------
	var images []c13Image
	for _, ll := range c13LiveLogs(r.Thorough()) {
		images = append(images, c13Images(r, ll)...)
	}
	var scheds []c13Sched
	imgInfo := map[string]any{}
	for ii, im := range images {
		n := len(im.data)
		for c1 := 0; c1 <= n; c1++ {
			scheds = append(scheds, c13Sched{ii, []int{c1, n}, 0})
		}
		for a := 0; a < len(im.bounds); a++ {
			for b := a + 1; b < len(im.bounds); b++ {
				scheds = append(scheds, c13Sched{ii, []int{im.bounds[a], im.bounds[b], n}, 0})
			}
			if r.Thorough() {
				for _, mr := range []int{1, 13} {
					scheds = append(scheds, c13Sched{ii, []int{im.bounds[a], n}, mr})
				}
			}
		}
		_, desc := c13Layout(im.data)
		imgInfo[fmt.Sprintf("%s/closed=%v/seg%d", im.logName, im.closed, im.seg)] = map[string]any{"bytes": n, "records": len(im.want), "boundary_cut_points": len(im.bounds), "layout": desc}
	}
	var nLive atomic.Int64
	r.ParallelN(int64(len(scheds)), func(i int64) {
		s := scheds[i]
		im := &images[s.img]
		res := c13LiveRun(im.data, s.cuts, s.maxRead, im.want)
		k := nLive.Add(1)
		if res.sig != "" {
			r.Violation(res.sig, fmt.Sprintf("live log %s (closed image=%v) segment %d, visible lengths %v, max read %d: %s", im.logName, im.closed, im.seg, s.cuts, s.maxRead, res.msg),
				c13Replay{Part: "live", LiveLog: im.logName, Closed: im.closed, Segment: im.seg, Cuts: s.cuts, MaxRead: s.maxRead})
			return
		}
		if r.Distinct("distinct_outcomes", fmt.Sprintf("live %s %v %d first=%d eof=%v", im.logName, im.closed, im.seg, res.step1, res.eof1)) {
			nOutcomes.Add(1)
		}
		if res.step1 > 0 && res.step1 < len(im.want) {
			// non-trivial: the first view ended inside the segment after at least one record
			r.Distinct("distinct_nontrivial", fmt.Sprintf("live %d %v", s.img, s.cuts[:len(s.cuts)-1]))
		}
		r.SampleAt(k, func() any {
			return map[string]any{"part": "live", "log": im.logName, "closed_image": im.closed, "segment": im.seg, "visible_lengths": s.cuts, "records_after_first_view": res.step1, "segment_records": len(im.want)}
		})
	})
	r.Count("live_schedules", int(nLive.Load()))
	r.Count("evaluations", int(nRW.Load()+nLive.Load()))
	if r.Violations() == 0 && nOutcomes.Load() < 2 {
		t.Fatalf("vacuous run: %d distinct outcomes", nOutcomes.Load())
	}
	r.Set("live_images", imgInfo)
	r.Set("depth", vx.Pick(r, 3, 4))
	r.Set("record_length_alphabet", lens)
	r.Set("rule", "rw: every sequence of 0..2 (thorough 0..3) on-disk record lengths from record_length_alphabet x {none, snappy, zstd (payload tuned so the compressed length hits the boundary), snappy/zstd with incompressible payload} x segment size {1,2,4 pages} x {one Log call per record, one batch}; sequences of 3 (thorough 4 over the first 10 lengths) over 6 configurations; each log read back with Reader while open and after Close. live: for every segment image of the listed logs (open and closed) every schedule [c1, n] with c1 in [0,n], every [c1,c2,n] with c1<c2 over the +-1 neighbourhoods of all fragment and page boundaries (thorough: plus short reads of 1 and 13 bytes from every boundary cut). distinct_nontrivial = distinct on-disk layouts (fragment type/length lists per segment) for rw, distinct first-view cuts that end inside the segment after >=1 record for live; distinct_outcomes = layout hash buckets / (image, records after first view, EOF seen).")
	r.Assume("the io.Reader given to LiveReader behaves like a file that is appended to: any byte prefix may be visible, Read returns (0, io.EOF) at the end of the visible part")
	r.Assume("spurious corruption = LiveReader.Err() non-nil and not io.EOF after Next() returned false (what Watcher.readAndHandleError treats as fatal while tailing)")
	r.Assume("every visible prefix is a prefix of the final file (the WL only appends; no torn or reordered page writes)")
}
