package tombstones

// C20 (a): Intervals.Add keeps a sorted, non-overlapping, non-adjacent form covering exactly
// the union of the requested ranges; tombstone encoding and files read back what was written.
// Engine E1 (sequence mode): ALL sequences of <= depth intervals over a small endpoint domain
// that contains the int64 extremes.

import (
	"fmt"
	"math"
	"os"
	"sort"
	"sync/atomic"
	"testing"

	"github.com/prometheus/common/promslog"

	"github.com/prometheus/prometheus/internal/verif/vx"
	"github.com/prometheus/prometheus/storage"
)

var c20Endpoints = []int64{math.MinInt64, math.MinInt64 + 1, -1, 0, 1, 2, 3, math.MaxInt64 - 1, math.MaxInt64}

func c20Alphabet() []Interval {
	var a []Interval
	// simplest first: small finite ones, then the extremes
	order := []int{3, 4, 5, 6, 2, 0, 1, 7, 8}
	for _, i := range order {
		for _, j := range order {
			if c20Endpoints[i] <= c20Endpoints[j] {
				a = append(a, Interval{c20Endpoints[i], c20Endpoints[j]})
			}
		}
	}
	return a
}

// refUnion is the boring reference: sort, then merge overlapping or adjacent intervals.
func refUnion(ivs []Interval) Intervals {
	s := append([]Interval{}, ivs...)
	sort.Slice(s, func(i, j int) bool {
		if s[i].Mint != s[j].Mint {
			return s[i].Mint < s[j].Mint
		}
		return s[i].Maxt < s[j].Maxt
	})
	var out Intervals
	for _, iv := range s {
		if n := len(out); n > 0 {
			last := &out[n-1]
			// adjacent or overlapping: iv.Mint <= last.Maxt+1 without overflow
			if last.Maxt == math.MaxInt64 || iv.Mint <= last.Maxt+1 {
				if iv.Maxt > last.Maxt {
					last.Maxt = iv.Maxt
				}
				continue
			}
		}
		out = append(out, iv)
	}
	return out
}

func ivEqual(a, b Intervals) bool {
	if len(a) != len(b) {
		return false
	}
	for i := range a {
		if a[i] != b[i] {
			return false
		}
	}
	return true
}

func c20RunSeq(r *vx.Run, alpha []Interval, seq []int, dir string) {
	var req []Interval
	var in Intervals
	for step, ai := range seq {
		n := alpha[ai]
		req = append(req, n)
		var got Intervals
		p, _ := vx.Guard(func() { got = in.Add(n) })
		if p != nil {
			r.Violation("intervals-add-panic", fmt.Sprintf("Intervals.Add panicked (%v) adding %v to %v (sequence %v)", p, n, in, req), map[string]any{"kind": "intervals", "seq": req})
			return
		}
		want := refUnion(req)
		if !ivEqual(got, want) {
			r.Violation("intervals-add-wrong-union", fmt.Sprintf("after adding %v: got %v want %v", req, got, want), map[string]any{"kind": "intervals", "seq": req, "step": step})
			return
		}
		in = got
	}
	// encoding / file round trip of the final set under two refs
	if r.Distinct("distinct_nontrivial", fmt.Sprint(in)) {
		mt := NewMemTombstones()
		mt.AddInterval(storage.SeriesRef(1), in...)
		mt.AddInterval(storage.SeriesRef(1<<40+7), in...)
		b, err := Encode(mt)
		if err != nil {
			r.Violation("tombstones-encode-error", err.Error(), map[string]any{"kind": "intervals", "seq": req})
			return
		}
		dec, err := Decode(b)
		if err != nil {
			r.Violation("tombstones-decode-error", err.Error(), map[string]any{"kind": "intervals", "seq": req})
			return
		}
		check := func(tr Reader, what string) {
			for _, ref := range []storage.SeriesRef{1, 1<<40 + 7} {
				g, _ := tr.Get(ref)
				if !ivEqual(g, in) {
					r.Violation("tombstones-roundtrip-"+what, fmt.Sprintf("ref %d: wrote %v read %v", ref, in, g), map[string]any{"kind": "intervals", "seq": req})
				}
			}
			if tr.Total() != uint64(2*len(in)) {
				r.Violation("tombstones-roundtrip-total-"+what, fmt.Sprintf("total %d want %d", tr.Total(), 2*len(in)), map[string]any{"kind": "intervals", "seq": req})
			}
		}
		check(dec, "codec")
		if _, err := WriteFile(promslog.NewNopLogger(), dir, mt); err != nil {
			r.Violation("tombstones-writefile-error", err.Error(), map[string]any{"kind": "intervals", "seq": req})
			return
		}
		rd, _, err := ReadTombstones(dir)
		if err != nil {
			r.Violation("tombstones-readfile-error", err.Error(), map[string]any{"kind": "intervals", "seq": req})
			return
		}
		check(rd, "file")
		r.Count("file_roundtrips", 1)
	}
}

func TestVerifC20a(t *testing.T) {
	r := vx.Start(t, "C20", "exploration")
	defer r.Finish()
	alpha := c20Alphabet()
	depth := vx.Pick(r, 3, 4)
	if r.Replay != "" {
		var rp struct {
			Seq []Interval `json:"seq"`
		}
		r.LoadReplay(&rp)
		var idx []int
		for _, iv := range rp.Seq {
			for i, a := range alpha {
				if a == iv {
					idx = append(idx, i)
				}
			}
		}
		dir := t.TempDir()
		c20RunSeq(r, alpha, idx, dir)
		return
	}
	// self-test: the oracle rejects a wrong implementation (no merging of adjacent intervals).
	if ivEqual(Intervals{{0, 1}, {2, 3}}, refUnion([]Interval{{0, 1}, {2, 3}})) {
		t.Fatal("self-test: reference does not merge adjacent intervals")
	}
	total := vx.SeqCount(len(alpha), 1, depth)
	var n atomic.Int64
	dirs := make(chan string, 64)
	for i := 0; i < 64; i++ {
		d, _ := os.MkdirTemp("", "c20a")
		dirs <- d
	}
	r.ParallelN(total, func(i int64) {
		seq := vx.SeqAt(len(alpha), 1, depth, i, nil)
		d := <-dirs
		c20RunSeq(r, alpha, seq, d)
		dirs <- d
		k := n.Add(1)
		r.SampleAt(k, func() any {
			var s []Interval
			for _, a := range seq {
				s = append(s, alpha[a])
			}
			return map[string]any{"intervals_added_in_order": fmt.Sprint(s), "result": fmt.Sprint(refUnion(s))}
		})
	})
	close(dirs)
	for d := range dirs {
		os.RemoveAll(d)
	}
	r.Count("evaluations", int(n.Load()))
	r.Set("rule", fmt.Sprintf("every sequence of 1..%d closed intervals over endpoints %v (%d intervals); distinct_nontrivial = distinct resulting interval sets (each also round-tripped through Encode/Decode and WriteFile/ReadTombstones)", depth, c20Endpoints, len(alpha)))
	r.Set("depth", depth)
}
